//! C04 harness — input sessions are atomic and readers see one input snapshot.
//!
//! Runs the real engine (in-memory storage engine) with reader tasks (`tracked(); query*; drop`) and
//! writer tasks (`input_session(); set_input*; commit | drop`) under
//!   (a) a current-thread runtime where the `qbice::verif` sink is the scheduler: at every pause the task
//!       yields 0–3 times as drawn from the case seed, and named gates hold a task at a pause until
//!       another task has emitted a given event (with a stall fallback, so every gate is safe);
//!   (b) a multi-thread runtime (real parallelism; the sink only records).
//! Every `phase:*` hook event plus the harness's own call/return events is written as one `ev` line for
//! the Lean driver (trace validation against Model/PhaseLts).  The oracle below is independent of the
//! model: it uses only values returned by the engine and the harness's own call/return order.
use std::{
    collections::{BTreeMap, BTreeSet, HashMap},
    future::Future,
    pin::Pin,
    sync::{
        Arc, Mutex,
        atomic::{AtomicBool, AtomicU64, Ordering},
    },
};

use qbice::{
    Config, Engine, Identifiable,
    query::QueryID,
    serialize::Plugin,
    stable_hash::{SeededStableHasherBuilder, Sip128Hasher},
    storage::storage_engine::in_memory::{InMemoryStorageEngine, InMemoryStorageEngineFactory},
};
use qbice_verif_harness::{eng::*, *};

#[derive(Debug, Clone, Copy, PartialEq, Eq, PartialOrd, Ord, Hash, Default, Identifiable)]
pub struct MemCfg;
impl Config for MemCfg {
    type StorageEngine = InMemoryStorageEngine;
    type BuildStableHasher = SeededStableHasherBuilder<Sip128Hasher>;
    type BuildHasher = fxhash::FxBuildHasher;
}

// ------------------------------------------------------------------------------------------------
// case
// ------------------------------------------------------------------------------------------------

#[derive(Clone, Debug, PartialEq, Eq)]
enum TOp {
    Round(Vec<u32>),
    /// sets, commit (true) or plain drop (false)
    Session(Vec<(u32, i64)>, bool),
}

#[derive(Clone, Debug, PartialEq, Eq)]
struct Gate { task: u32, label: String, occ: u32, u_task: u32, u_label: String, u_occ: u32 }

#[derive(Clone, Debug, PartialEq, Eq)]
enum Mode { Ct, Mt(u32) }

#[derive(Clone, Debug)]
struct PCase { program: Program, init: Vec<(u32, i64)>, tasks: Vec<Vec<TOp>>, mode: Mode, seed: u64, yields: bool, gates: Vec<Gate>,
    /// starvation family: every round keeps its tracked engine alive across `hold` yields (current-thread) or
    /// `hold` x 400 us of sleep (multi-thread) between two consecutive queries; 0 = no hold (all other families)
    hold: u32 }

impl PCase {
    fn render(&self) -> String {
        let mut s = String::from("case phase\n");
        for l in self.program.render_lines() { s.push_str(&l); s.push('\n'); }
        s.push_str("init");
        for (k, v) in &self.init { s.push_str(&format!(" {k} {v}")); }
        s.push('\n');
        for (t, ops) in self.tasks.iter().enumerate() { s.push_str(&format!("task {t} {}\n", render_script(ops))); }
        match self.mode { Mode::Ct => s.push_str(&format!("sched ct {} {}\n", self.seed, if self.yields { 1 } else { 0 })), Mode::Mt(w) => s.push_str(&format!("sched mt {} {w}\n", self.seed)) }
        for g in &self.gates { s.push_str(&format!("gate {} {} {} until {} {} {}\n", g.task, g.label, g.occ, g.u_task, g.u_label, g.u_occ)); }
        if self.hold > 0 { s.push_str(&format!("hold {}\n", self.hold)); }
        s
    }
    fn parse(text: &str) -> PCase {
        let mut c = PCase { program: Program::default(), init: vec![], tasks: vec![], mode: Mode::Ct, seed: 0, yields: false, gates: vec![], hold: 0 };
        for line in text.lines() {
            let line = line.trim();
            if line.is_empty() || line.starts_with('#') || line.starts_with("case") { continue; }
            let t: Vec<&str> = line.split_whitespace().collect();
            match t[0] {
                "node" => c.program.parse_node_line(line),
                "init" => { let mut i = 1; while i + 1 < t.len() { c.init.push((t[i].parse().unwrap(), t[i + 1].parse().unwrap())); i += 2; } }
                "task" => { assert_eq!(t[1].parse::<usize>().unwrap(), c.tasks.len()); c.tasks.push(parse_script(&t[2..])); }
                "sched" => { c.seed = t[2].parse().unwrap(); if t[1] == "ct" { c.mode = Mode::Ct; c.yields = t[3] == "1"; } else { c.mode = Mode::Mt(t[3].parse().unwrap()); } }
                "gate" => c.gates.push(Gate { task: t[1].parse().unwrap(), label: t[2].into(), occ: t[3].parse().unwrap(), u_task: t[5].parse().unwrap(), u_label: t[6].into(), u_occ: t[7].parse().unwrap() }),
                "hold" => c.hold = t[1].parse().unwrap(),
                x => panic!("case line {x}"),
            }
        }
        c
    }
}

fn render_script(ops: &[TOp]) -> String {
    let mut parts = vec![];
    for o in ops {
        match o {
            TOp::Round(ks) => parts.push(format!("R {}{}", ks.len(), ks.iter().map(|k| format!(" {k}")).collect::<String>())),
            TOp::Session(ws, c) => parts.push(format!("S {}{} {}", ws.len(), ws.iter().map(|(k, v)| format!(" {k} {v}")).collect::<String>(), if *c { "c" } else { "d" })),
        }
    }
    if parts.is_empty() { "-".into() } else { parts.join(" ; ") }
}
fn parse_script(t: &[&str]) -> Vec<TOp> {
    let mut ops = vec![]; let mut i = 0;
    while i < t.len() {
        match t[i] {
            "-" | ";" => { i += 1; }
            "R" => { let n: usize = t[i + 1].parse().unwrap(); ops.push(TOp::Round((0..n).map(|j| t[i + 2 + j].parse().unwrap()).collect())); i += 2 + n; }
            "S" => { let n: usize = t[i + 1].parse().unwrap(); let ws = (0..n).map(|j| (t[i + 2 + 2 * j].parse().unwrap(), t[i + 3 + 2 * j].parse().unwrap())).collect(); let c = t[i + 2 + 2 * n] == "c"; ops.push(TOp::Session(ws, c)); i += 3 + 2 * n; }
            x => panic!("script token {x}"),
        }
    }
    ops
}

// ------------------------------------------------------------------------------------------------
// the sink: recorder + scheduler
// ------------------------------------------------------------------------------------------------

tokio::task_local! { static TID: u32; }
const UNKNOWN: u32 = u32::MAX;
const DETACHED: u32 = 1000;
/// task id of the harness's own sequential set-up / tear-down code (its events are not part of the case)
const SETUP: u32 = 999;

#[derive(Clone, Debug)]
struct Evt { lo: u64, hi: u64, task: u32, name: &'static str, a: i64, b: i64 }

struct Sched {
    ct: bool,
    seed: u64,
    yields: bool,
    gates: Vec<Gate>,
    hold: u32,
    recording: AtomicBool,
    seq: AtomicU64,
    progress: AtomicU64,
    inner: Mutex<Inner>,
}
#[derive(Default)]
struct Inner {
    trace: Vec<Evt>,
    /// occurrences of (task, label): pauses entered and events emitted
    counts: HashMap<(u32, String), u32>,
    last_seq: HashMap<u32, u64>,
    /// task that holds (or last held) the exclusive lock: owner of detached commit events
    owner: u32,
    stalls: u64,
    gate_hits: u64,
}

fn cur_tid() -> u32 { TID.try_with(|t| *t).unwrap_or(UNKNOWN) }

fn mix(a: u64, b: u64) -> u64 { let mut r = Rng::new(a ^ b.wrapping_mul(0x9E37_79B9_7F4A_7C15)); r.next() }
fn label_hash(s: &str) -> u64 { s.bytes().fold(0xcbf2_9ce4_8422_2325u64, |h, b| (h ^ b as u64).wrapping_mul(0x100_0000_01b3)) }

impl Sched {
    fn new(c: &PCase) -> Sched {
        Sched { ct: c.mode == Mode::Ct, seed: c.seed, yields: c.yields, gates: c.gates.clone(), hold: c.hold, recording: AtomicBool::new(false), seq: AtomicU64::new(1), progress: AtomicU64::new(0), inner: Mutex::new(Inner { owner: UNKNOWN, ..Default::default() }) }
    }
    fn now(&self) -> u64 { self.seq.fetch_add(1, Ordering::SeqCst) }
    fn count(&self, task: u32, label: &str) -> u32 { *self.inner.lock().unwrap().counts.get(&(task, label.to_string())).unwrap_or(&0) }
    /// records an event; `lo` = explicit lower bound of its linearisation window (harness call time), if any
    fn record(&self, task: u32, label: &str, name: Option<&'static str>, a: i64, b: i64, lo: Option<u64>) {
        self.progress.fetch_add(1, Ordering::SeqCst);
        let mut g = self.inner.lock().unwrap();
        let hi = self.seq.fetch_add(1, Ordering::SeqCst);
        *g.counts.entry((task, label.to_string())).or_insert(0) += 1;
        let prev = *g.last_seq.get(&task).unwrap_or(&0);
        g.last_seq.insert(task, hi);
        if let (Some(name), true) = (name, self.recording.load(Ordering::SeqCst)) {
            let lo = match lo { Some(l) => l, None => if self.ct { hi - 1 } else { prev } };
            g.trace.push(Evt { lo, hi, task, name, a, b });
        }
    }
    /// harness-side pause point (same semantics as a hook pause)
    async fn hpause(&self, label: &'static str) { self.pause_impl(cur_tid(), label).await }
    async fn pause_impl(&self, tid0: u32, label: &str) {
        let tid = if tid0 == UNKNOWN { let o = self.inner.lock().unwrap().owner; if o == UNKNOWN { return; } o } else { tid0 };
        let occ = { let mut g = self.inner.lock().unwrap(); let c = g.counts.entry((tid, format!("P:{label}"))).or_insert(0); *c += 1; *c - 1 };
        self.progress.fetch_add(1, Ordering::SeqCst);
        if self.yields {
            let k = mix(self.seed, label_hash(label) ^ ((tid as u64) << 32) ^ ((occ as u64) << 48)) % 4;
            for _ in 0..k { tokio::task::yield_now().await; }
        }
        if !self.ct { return; }
        for g in self.gates.iter().filter(|g| g.task == tid && g.label == label && g.occ == occ) {
            self.inner.lock().unwrap().gate_hits += 1;
            let (mut still, mut last) = (0u32, self.progress.load(Ordering::SeqCst));
            loop {
                if self.count(g.u_task, &g.u_label) > g.u_occ { break; }
                tokio::task::yield_now().await;
                let p = self.progress.load(Ordering::SeqCst);
                if p == last { still += 1; if still >= 64 { self.inner.lock().unwrap().stalls += 1; break; } } else { still = 0; last = p; }
            }
        }
    }
}

impl qbice::verif::Sink for Sched {
    fn emit(&self, label: &'static str, _id: Option<&QueryID>, n: u64) {
        if !label.starts_with("phase:") { self.progress.fetch_add(1, Ordering::SeqCst); return; }
        let tid0 = cur_tid();
        let (name, a): (Option<&'static str>, i64) = match label {
            "phase:r:req" => (Some("rReq"), 0),
            "phase:r:acq" => (Some("rAcq"), 0),
            "phase:r:sample" => (Some("rSample"), n as i64),
            "phase:w:batch" => (Some("wBatch"), 0),
            "phase:w:bump" => (Some("wBump"), n as i64),
            "phase:w:stage" => (Some("wStage"), n as i64),
            "phase:w:req" => (Some("wReq"), 0),
            "phase:w:acq" => (Some("wAcq"), 0),
            "phase:w:drop" => (Some("wDrop"), 0),
            "phase:c:begin" => (Some("wCommit"), 0),
            "phase:c:propagated" => (Some("cProp"), 0),
            "phase:c:submitted" => (Some("cSub"), 0),
            "phase:c:release" => (Some("cRel"), 0),
            _ => (None, 0),
        };
        // commit steps belong to the session's owner (they may run in a spawned task after a drop)
        let is_c = label.starts_with("phase:c:");
        let mut tid = tid0;
        {
            let mut g = self.inner.lock().unwrap();
            if label == "phase:w:acq" && tid0 != UNKNOWN { g.owner = tid0; }
            if tid0 == UNKNOWN { tid = g.owner; }
            if label == "phase:w:drop" { let s = self.seq.load(Ordering::SeqCst); g.last_seq.insert(tid + DETACHED, s); }
        }
        if tid == UNKNOWN { return; }
        // in MT mode the detached commit is its own actor for window purposes
        if is_c && tid0 == UNKNOWN && !self.ct {
            let mut g = self.inner.lock().unwrap();
            let hi = self.seq.fetch_add(1, Ordering::SeqCst);
            let prev = *g.last_seq.get(&(tid + DETACHED)).unwrap_or(&0);
            g.last_seq.insert(tid + DETACHED, hi);
            *g.counts.entry((tid, label.to_string())).or_insert(0) += 1;
            if let (Some(name), true) = (name, self.recording.load(Ordering::SeqCst)) { g.trace.push(Evt { lo: prev, hi, task: tid, name, a, b: 0 }); }
            drop(g);
            self.progress.fetch_add(1, Ordering::SeqCst);
            return;
        }
        self.record(tid, label, name, a, 0, None);
    }
    fn pause<'a>(&'a self, label: &'static str, _id: Option<&'a QueryID>) -> Pin<Box<dyn Future<Output = ()> + Send + 'a>> {
        let tid = cur_tid();
        Box::pin(async move { self.pause_impl(tid, label).await })
    }
}

// ------------------------------------------------------------------------------------------------
// running a case
// ------------------------------------------------------------------------------------------------

/// harness-side observations for the oracle (global sequence numbers are taken right after the awaits return)
#[derive(Clone, Debug, Default)]
struct RoundObs { task: u32, t_call: u64, t_ret: u64, t_rel: u64, vals: Vec<(u32, i64)> }
#[derive(Clone, Debug, Default)]
struct SessObs { task: u32, t_open_call: u64, t_open_ret: u64, t_end_call: u64, t_end_ret: u64, sets: Vec<(u32, i64)>, set_results: Vec<String>, commit: bool }
#[derive(Clone, Debug, Default)]
struct Obs { rounds: Vec<RoundObs>, sessions: Vec<SessObs> }

struct RunOut { trace: Vec<Evt>, obs: Obs, e0: u64, crash: Option<String>, stalls: u64, gate_hits: u64, finished_tasks: usize }

async fn run_task(engine: Arc<Engine<MemCfg>>, sh: Arc<Shared>, sc: Arc<Sched>, obs: Arc<Mutex<Obs>>, tid: u32, script: Vec<TOp>) {
    let kinds: Vec<Kind> = sh.program.read().unwrap().nodes.iter().map(|n| n.kind).collect();
    for op in script {
        match op {
            TOp::Round(ks) => {
                let t_call = sc.now();
                let te = engine.clone().tracked().await;
                let t_ret = sc.now();
                let mut ro = RoundObs { task: tid, t_call, t_ret, t_rel: 0, vals: vec![] };
                let mut seen: Vec<u32> = vec![];
                for (qi, k) in ks.into_iter().enumerate() {
                    // starvation family: the snapshot is kept alive for a while between two queries
                    if qi > 0 && sc.hold > 0 {
                        if sc.ct { for _ in 0..sc.hold { tokio::task::yield_now().await; } }
                        else { tokio::time::sleep(std::time::Duration::from_micros(400 * sc.hold as u64)).await; }
                    }
                    sc.hpause("h:r:q").await;
                    let lo = sc.now();
                    let v = query_key(&sh, &te, k).await;
                    // a repeated key is answered by the TrackedEngine's local cache (a memo of values it already
                    // returned): not an engine event, but still judged by the oracle
                    if !seen.contains(&k) {
                        sc.record(tid, "h:r:query", Some("rQuery"), k as i64 * 2 + if kinds[k as usize] == Kind::Input { 1 } else { 0 }, v, Some(lo));
                        seen.push(k);
                    }
                    ro.vals.push((k, v));
                }
                sc.hpause("h:r:prerel").await;
                ro.t_rel = sc.now();
                sc.record(tid, "h:r:rel", Some("rRel"), 0, 0, None);
                drop(te);
                obs.lock().unwrap().rounds.push(ro);
            }
            TOp::Session(ws, commit) => {
                let t_open_call = sc.now();
                let mut s = engine.input_session().await;
                let t_open_ret = sc.now();
                let mut so = SessObs { task: tid, t_open_call, t_open_ret, commit, ..Default::default() };
                sc.hpause("h:w:opened").await;
                for (k, v) in ws {
                    let lo = sc.now();
                    let r = s.set_input(In(k), v).await;
                    sc.record(tid, "h:w:set", Some("wSet"), k as i64, v, Some(lo));
                    so.sets.push((k, v)); so.set_results.push(format!("{r:?}"));
                    sc.hpause("h:w:set").await;
                }
                sc.hpause("h:w:precommit").await;
                so.t_end_call = sc.now();
                if commit {
                    s.commit().await;
                    so.t_end_ret = sc.now();
                    sc.record(tid, "h:w:done", Some("wDone"), 0, 0, None);
                } else {
                    drop(s);
                    so.t_end_ret = sc.now();
                }
                obs.lock().unwrap().sessions.push(so);
                sc.hpause("h:w:after").await;
            }
        }
    }
}

async fn run_all(case: PCase, sc: Arc<Sched>, obs: Arc<Mutex<Obs>>, e0: Arc<AtomicU64>, finished: Arc<AtomicU64>) -> Result<(), String> {
    let sh = Arc::new(Shared::default());
    *sh.program.write().unwrap() = case.program.clone();
    let mut engine = Engine::<MemCfg>::new_with(Plugin::default(), InMemoryStorageEngineFactory, SeededStableHasherBuilder::new(0)).await.unwrap();
    register_all(&mut engine, &sh);
    let engine = Arc::new(engine);
    // initial session (sequential, not recorded): every input gets its initial value
    {
        let mut s = engine.input_session().await;
        for (k, v) in &case.init { s.set_input(In(*k), *v).await; }
        s.commit().await;
    }
    // the epoch the concurrent part starts with: sampled by one throw-away tracked engine (recorded by the sink)
    let te = engine.clone().tracked().await; drop(te);
    e0.store(sc.inner.lock().unwrap().trace.iter().rev().find(|e| e.name == "rSample").map(|e| e.a as u64).unwrap_or(0), Ordering::SeqCst);
    // start recording
    { let mut g = sc.inner.lock().unwrap(); g.trace.clear(); g.counts.clear(); g.last_seq.clear(); g.owner = UNKNOWN; }
    sc.recording.store(true, Ordering::SeqCst);
    let mut hs = vec![];
    for (t, script) in case.tasks.iter().enumerate() {
        let fut = run_task(engine.clone(), sh.clone(), sc.clone(), obs.clone(), t as u32, script.clone());
        let fin = finished.clone();
        hs.push(tokio::spawn(TID.scope(t as u32, async move { fut.await; fin.fetch_add(1, Ordering::SeqCst); })));
    }
    for h in hs {
        match tokio::time::timeout(std::time::Duration::from_secs(6), h).await {
            Ok(Ok(())) => {}
            Ok(Err(e)) => return Err(format!("panic: task failed: {e}")),
            Err(_) => return Err("hang: a task did not finish within 6 s".into()),
        }
    }
    // a dropped session's spawned commit may still be running: wait for the phase lock to be free
    match tokio::time::timeout(std::time::Duration::from_secs(3), engine.input_session()).await {
        Ok(s) => { sc.recording.store(false, Ordering::SeqCst); s.commit().await; }
        Err(_) => return Err("hang: the phase lock was never released after all tasks returned".into()),
    }
    Ok(())
}

fn run_case(case: &PCase) -> RunOut {
    let sc = Arc::new(Sched::new(case));
    // record the probe `tracked()` before the concurrent part to learn e0
    sc.recording.store(true, Ordering::SeqCst);
    let obs: Arc<Mutex<Obs>> = Default::default();
    let e0 = Arc::new(AtomicU64::new(0));
    let finished = Arc::new(AtomicU64::new(0));
    let (tx, rx) = std::sync::mpsc::channel();
    let (c2, sc2, obs2, e02, fin2) = (case.clone(), sc.clone(), obs.clone(), e0.clone(), finished.clone());
    qbice::verif::set_sink(Some(sc.clone()));
    let _ = std::thread::Builder::new().stack_size(64 << 20).spawn(move || {
        let rt = match c2.mode {
            Mode::Ct => tokio::runtime::Builder::new_current_thread().enable_all().build().unwrap(),
            Mode::Mt(w) => tokio::runtime::Builder::new_multi_thread().worker_threads(w as usize).enable_all().build().unwrap(),
        };
        let r = std::panic::catch_unwind(std::panic::AssertUnwindSafe(|| rt.block_on(TID.scope(SETUP, run_all(c2, sc2, obs2, e02, fin2)))));
        let r = match r { Ok(x) => x, Err(p) => Err(format!("panic: {}", p.downcast_ref::<String>().cloned().or_else(|| p.downcast_ref::<&str>().map(|s| s.to_string())).unwrap_or_else(|| "<non-string payload>".into()))) };
        let _ = tx.send(r);
        rt.shutdown_background();
    });
    let r = match rx.recv_timeout(std::time::Duration::from_secs(12)) { Ok(r) => r, Err(_) => Err("hang (watchdog): the case did not finish within 12 s of wall time".to_string()) };
    qbice::verif::set_sink(None);
    let g = sc.inner.lock().unwrap();
    RunOut { trace: g.trace.iter().filter(|e| e.task != SETUP).cloned().collect(), obs: obs.lock().unwrap().clone(), e0: e0.load(Ordering::SeqCst), crash: r.err(), stalls: g.stalls, gate_hits: g.gate_hits, finished_tasks: finished.load(Ordering::SeqCst) as usize }
}

// ------------------------------------------------------------------------------------------------
// oracle (independent of the model)
// ------------------------------------------------------------------------------------------------

/// inputs after the first `n` sessions (in lock order) have been applied to the initial inputs
fn truth_after(case: &PCase, sess: &[SessObs], n: usize) -> Truth {
    let mut t = Truth::default();
    for (k, v) in &case.init { t.inputs.insert(*k, *v); }
    for s in &sess[..n] { for (k, v) in &s.sets { t.inputs.insert(*k, *v); } }
    t
}

/// (signature, description) list
fn judge(case: &PCase, out: &RunOut) -> Vec<(String, String)> {
    let mut fails = vec![];
    if let Some(c) = &out.crash {
        let kind = if c.starts_with("hang") { "hang" } else { "panic" };
        fails.push((format!("C04:{kind}"), c.chars().take(300).collect()));
    }
    // sessions in lock order: `input_session()` returns while the exclusive lock is held, so the order of
    // these return times is the order in which the sessions held the lock
    let mut sess = out.obs.sessions.clone();
    sess.sort_by_key(|s| s.t_open_ret);
    // set results: Updated iff the value differs from the value after all earlier writes
    {
        let mut cur: BTreeMap<u32, i64> = case.init.iter().copied().collect();
        for s in &sess { for ((k, v), r) in s.sets.iter().zip(&s.set_results) {
            let exp = match cur.get(k) { None => "Fresh", Some(o) if o == v => "Unchanged", Some(_) => "Updated" };
            if r != exp { fails.push(("C04:set-result".into(), format!("task {} set {k} {v} returned {r} expected {exp}", s.task))); }
            cur.insert(*k, *v);
        } }
    }
    for r in &out.obs.rounds {
        // a session whose `input_session()` had returned when `tracked()` returned held the lock before this
        // tracked engine did (both calls return holding their lock, the holdings are disjoint), so it has been
        // released, i.e. committed, before; every other session acquires the lock after this engine is dropped
        let n = sess.iter().filter(|s| s.t_open_ret < r.t_ret).count();
        for s in &sess {
            if s.t_open_ret < r.t_ret && r.t_ret < s.t_end_call {
                fails.push(("C04:overlap".into(), format!("task {}'s tracked() returned at {} while task {}'s session was open ({}..{})", r.task, r.t_ret, s.task, s.t_open_ret, s.t_end_call)));
            }
            if r.t_ret < s.t_open_ret && s.t_open_ret < r.t_rel {
                fails.push(("C04:overlap".into(), format!("task {}'s input_session() returned at {} while task {}'s tracked engine was alive ({}..{})", s.task, s.t_open_ret, r.task, r.t_ret, r.t_rel)));
            }
        }
        let truths: Vec<Truth> = (0..=sess.len()).map(|i| truth_after(case, &sess, i)).collect();
        for (k, v) in &r.vals {
            let exp = from_scratch(&case.program, &truths[n], *k);
            if *v == exp { continue; }
            let m: Vec<usize> = (0..=sess.len()).filter(|i| from_scratch(&case.program, &truths[*i], *k) == *v).collect();
            let sig = if m.iter().any(|i| *i < n) { "C04:stale-read" } else if m.iter().any(|i| *i > n) { "C04:future-read" } else { "C04:torn-read" };
            fails.push((sig.into(), format!("task {} (tracked() returned at {}, {} session(s) committed before) query {k} returned {v}, expected {exp}; the value belongs to session prefix(es) {:?}", r.task, r.t_ret, n, m)));
        }
    }
    // progress: all tasks ran to the end
    if out.crash.is_none() && out.finished_tasks != case.tasks.len() { fails.push(("C04:hang".into(), format!("{} of {} tasks finished", out.finished_tasks, case.tasks.len()))); }
    fails
}

/// F5's trigger, read off the hook trace: a reader sampled the timestamp after a session's bump (so it got that
/// session's timestamp, or a later one) before that session's writer held the exclusive lock
fn f5_window(trace: &[Evt]) -> bool {
    // (emission order = `hi`; on a multi-thread runtime an emission may lag its step, so positions relative to
    // the bump's own emission are not used: a sample that returned the bumped value (or a later one) happened
    // after the bump, and a sample emitted before the writer's `acq` emission happened before the writer owned
    // the lock, because the sampling reader holds the shared lock from before its load until after its emission)
    for b in trace.iter().filter(|e| e.name == "wBump") {
        // the acquisition that belongs to this bump: the writer's first `acq` after it, unless an `acq` of the
        // same session precedes the bump (repaired order: lock first)
        let prev_acq = trace.iter().filter(|e| e.task == b.task && e.name == "wAcq" && e.hi < b.hi).map(|e| e.hi).max();
        let prev_end = trace.iter().filter(|e| e.task == b.task && (e.name == "wCommit" || e.name == "wDrop") && e.hi < b.hi).map(|e| e.hi).max();
        let locked_first = match (prev_acq, prev_end) { (Some(a), Some(e)) => a > e, (Some(_), None) => true, _ => false };
        if locked_first { continue; }
        let acq = trace.iter().filter(|e| e.task == b.task && e.name == "wAcq" && e.hi > b.hi).map(|e| e.hi).min().unwrap_or(u64::MAX);
        if trace.iter().any(|e| e.name == "rSample" && e.a >= b.a && e.hi < acq) { return true; }
    }
    false
}

/// Direct regression guard for the repaired order (independent of values): the timestamp is bumped while some
/// task holds the shared lock (a `wBump` emitted between a reader's `rAcq` and `rRel` emissions; both intervals
/// lie inside the respective lock holdings, so with an exclusive lock held at the bump this cannot happen).
fn bump_while_reader(trace: &[Evt]) -> Option<String> {
    let mut tr: Vec<&Evt> = trace.iter().collect(); tr.sort_by_key(|e| e.hi);
    let mut holding: BTreeSet<u32> = BTreeSet::new();
    for e in tr {
        match e.name {
            "rAcq" => { holding.insert(e.task); }
            "rRel" => { holding.remove(&e.task); }
            "wBump" if !holding.is_empty() => return Some(format!("task {} bumped the timestamp to {} (event {}) while task(s) {:?} held the shared phase lock", e.task, e.a, e.hi, holding)),
            _ => {}
        }
    }
    None
}

// ------------------------------------------------------------------------------------------------
// generators
// ------------------------------------------------------------------------------------------------

fn gen_flat_expr(r: &mut Rng, inputs: &[u32], depth: u32) -> Expr {
    let c = r.below(if depth == 0 { 3 } else { 9 });
    match c {
        0 => Expr::Const(r.below(5) as i64),
        1 | 2 => Expr::Read(*r.pick(inputs)),
        3 | 4 | 5 => Expr::Add(Box::new(gen_flat_expr(r, inputs, depth - 1)), Box::new(gen_flat_expr(r, inputs, depth - 1))),
        _ => Expr::IfEq(Box::new(Expr::Read(*r.pick(inputs))), r.below(3) as i64, Box::new(gen_flat_expr(r, inputs, depth - 1)), Box::new(gen_flat_expr(r, inputs, depth - 1))),
    }
}

fn gen_program_flat(r: &mut Rng) -> Program {
    let n_in = r.range(1, 3) as u32; let n_dv = r.range(1, 3) as u32;
    let inputs: Vec<u32> = (0..n_in).collect();
    let mut nodes = vec![];
    for _ in 0..n_in { nodes.push(NodeDef { kind: Kind::Input, default: 0, expr: Expr::Const(0) }); }
    for _ in 0..n_dv {
        let d = 1 + r.below(2) as u32; let mut e = gen_flat_expr(r, &inputs, d);
        let mut rd = vec![]; e.reads(&mut rd);
        if rd.is_empty() { e = Expr::Add(Box::new(Expr::Read(*r.pick(&inputs))), Box::new(e)); }
        nodes.push(NodeDef { kind: Kind::Normal, default: kind_default(Kind::Normal), expr: e });
    }
    Program { nodes }
}

fn gen_session(r: &mut Rng, inputs: &[u32], hist: &mut BTreeMap<u32, Vec<i64>>, drop_ok: bool) -> TOp {
    let m = r.range(1, 3);
    let mut ws = vec![];
    for _ in 0..m {
        let k = *r.pick(inputs);
        let hv = hist.entry(k).or_default();
        let v = if !hv.is_empty() && r.chance(1, 4) { *r.pick(hv) } else { r.below(4) as i64 };
        hv.push(v); ws.push((k, v));
    }
    TOp::Session(ws, !(drop_ok && r.chance(3, 10)))
}

fn gen_round(r: &mut Rng, n_in: u32, n: u32) -> TOp {
    let m = r.range(1, 3);
    TOp::Round((0..m).map(|_| if r.chance(3, 4) { n_in + r.below((n - n_in) as u64) as u32 } else { r.below(n as u64) as u32 }).collect())
}

const W_PAUSES: [&str; 8] = ["phase:w:pre", "phase:w:bumped", "phase:w:staged", "h:w:opened", "h:w:precommit", "phase:c:propagated", "phase:d:spawned", "h:w:after"];
const R_PAUSES: [&str; 4] = ["phase:r:pre", "phase:r:locked", "h:r:q", "h:r:prerel"];
const W_EVENTS: [&str; 9] = ["phase:w:batch", "phase:w:bump", "phase:w:stage", "phase:w:req", "phase:w:acq", "h:w:set", "phase:c:propagated", "phase:c:release", "h:w:done"];
const R_EVENTS: [&str; 4] = ["phase:r:req", "phase:r:acq", "phase:r:sample", "h:r:rel"];

/// occurrences of each reader pause label in the rounds of a script: `h:r:q` happens once per query
fn n_sessions(s: &[TOp]) -> u32 { s.iter().filter(|o| matches!(o, TOp::Session(..))).count() as u32 }
fn n_rounds(s: &[TOp]) -> u32 { s.iter().filter(|o| matches!(o, TOp::Round(..))).count() as u32 }

fn gen_gate(r: &mut Rng, tasks: &[Vec<TOp>]) -> Option<Gate> {
    let writers: Vec<u32> = (0..tasks.len() as u32).filter(|t| n_sessions(&tasks[*t as usize]) > 0).collect();
    let readers: Vec<u32> = (0..tasks.len() as u32).filter(|t| n_rounds(&tasks[*t as usize]) > 0).collect();
    if writers.is_empty() || readers.is_empty() { return None; }
    let w = *r.pick(&writers); let rd = *r.pick(&readers);
    if r.chance(3, 5) {
        // hold the writer inside a window until a reader round has completed (or reached some point)
        Some(Gate { task: w, label: r.pick(&W_PAUSES).to_string(), occ: r.below(n_sessions(&tasks[w as usize]) as u64) as u32, u_task: rd, u_label: r.pick(&R_EVENTS).to_string(), u_occ: r.below(n_rounds(&tasks[rd as usize]) as u64) as u32 })
    } else {
        // hold a reader at a point until the writer has performed some step
        Some(Gate { task: rd, label: r.pick(&R_PAUSES).to_string(), occ: r.below(n_rounds(&tasks[rd as usize]) as u64) as u32, u_task: w, u_label: r.pick(&W_EVENTS).to_string(), u_occ: r.below(n_sessions(&tasks[w as usize]) as u64) as u32 })
    }
}

fn gen_case(r: &mut Rng, mt: bool) -> PCase {
    let program = gen_program_flat(r);
    let n = program.nodes.len() as u32;
    let inputs: Vec<u32> = (0..n).filter(|k| program.kind(*k) == Kind::Input).collect();
    let n_in = inputs.len() as u32;
    let init: Vec<(u32, i64)> = inputs.iter().map(|k| (*k, r.below(4) as i64)).collect();
    let mut hist: BTreeMap<u32, Vec<i64>> = init.iter().map(|(k, v)| (*k, vec![*v])).collect();
    let mut tasks: Vec<Vec<TOp>> = vec![];
    // task 0: warm-up round over every derived key, then the writer: sessions, most followed by a check round
    let mut w = vec![];
    if r.chance(9, 10) { w.push(TOp::Round((n_in..n).collect())); }
    let n_sess = if mt { r.range(2, 6) } else { r.range(1, 4) };
    for _ in 0..n_sess { w.push(gen_session(r, &inputs, &mut hist, true)); if r.chance(7, 10) { w.push(gen_round(r, n_in, n)); } }
    tasks.push(w);
    let n_readers = if mt { r.range(2, 6) } else { r.range(1, 3) };
    for _ in 0..n_readers {
        let m = if mt { r.range(3, 10) } else { r.range(1, 3) };
        tasks.push((0..m).map(|_| gen_round(r, n_in, n)).collect());
    }
    if r.chance(3, 20) {
        // a second writer
        let mut w2 = vec![]; let m2 = r.range(1, 2); for _ in 0..m2 { w2.push(gen_session(r, &inputs, &mut hist, true)); if r.chance(1, 2) { w2.push(gen_round(r, n_in, n)); } }
        tasks.push(w2);
    }
    let mut gates = vec![];
    if !mt { let ng = r.below(4); for _ in 0..ng { if let Some(g) = gen_gate(r, &tasks) { gates.push(g); } } }
    PCase { program, init, tasks, mode: if mt { Mode::Mt(r.range(2, 12) as u32) } else { Mode::Ct }, seed: r.next() % 1_000_000, yields: mt || r.chance(4, 5), gates, hold: 0 }
}

/// exhaustive placements: 2 readers (one round each) × 2 sessions; every reader round gets every single placement
fn placements(case_tasks: &[Vec<TOp>], reader: u32) -> Vec<Gate> {
    let mut v = vec![];
    for j in 0..2u32 {
        for l in W_PAUSES { v.push(Gate { task: 0, label: l.to_string(), occ: j, u_task: reader, u_label: "h:r:rel".into(), u_occ: 0 }); }
        for l in R_PAUSES { for e in W_EVENTS { v.push(Gate { task: reader, label: l.to_string(), occ: 0, u_task: 0, u_label: e.to_string(), u_occ: j }); } }
    }
    let _ = case_tasks;
    v
}

fn exhaustive_cases(r: &mut Rng, shard: u64, shards: u64) -> Vec<PCase> {
    // fixed small program: one input, one derived; writer: warm-up, two sessions each followed by a check round
    let mut out = vec![];
    for drop_second in [false, true] {
        let program = Program { nodes: vec![NodeDef { kind: Kind::Input, default: 0, expr: Expr::Const(0) }, NodeDef { kind: Kind::Normal, default: kind_default(Kind::Normal), expr: Expr::Add(Box::new(Expr::Read(0)), Box::new(Expr::Const(100))) }] };
        let tasks = vec![
            vec![TOp::Round(vec![1]), TOp::Session(vec![(0, 7)], true), TOp::Round(vec![1]), TOp::Session(vec![(0, 9)], !drop_second), TOp::Round(vec![1, 0])],
            vec![TOp::Round(vec![1])],
            vec![TOp::Round(vec![0, 1])],
        ];
        let p1 = placements(&tasks, 1); let p2 = placements(&tasks, 2);
        let mut idx = 0u64;
        for a in &p1 { for b in &p2 {
            idx += 1;
            if idx % shards != shard { continue; }
            out.push(PCase { program: program.clone(), init: vec![(0, 5)], tasks: tasks.clone(), mode: Mode::Ct, seed: r.next() % 1000, yields: false, gates: vec![a.clone(), b.clone()], hold: 0 });
        } }
    }
    out
}

/// the witness schedule of `Props/C04.lean` (`snapshot_consistent_asis_refuted`) forced with one gate
fn f5_case() -> PCase {
    PCase::parse("case phase\nnode 0 in 0 c 0\nnode 1 nm -1 + r 0 c 100\ninit 0 5\ntask 0 R 1 1\ntask 1 S 1 0 7 c ; R 1 1\ntask 2 R 1 1\nsched ct 0 0\ngate 1 phase:w:pre 0 until 0 h:r:rel 0\ngate 2 phase:r:pre 0 until 1 phase:w:bump 0\ngate 1 phase:w:bumped 0 until 2 h:r:rel 0\n")
}


// ------------------------------------------------------------------------------------------------
// progress oracle: bounded overtaking of a waiting writer (independent of the model)
// ------------------------------------------------------------------------------------------------

/// one `input_session()` request, read off the hook trace
#[derive(Clone, Debug)]
struct WaitObs { writer: u32, req: u64, acq: Option<u64>, n_readers: usize, overtakes: usize, min_full_iters: usize }

/// For every `phase:w:req`: the OVERTAKES = reader requests (`phase:r:req`) emitted after it whose grant
/// (`phase:r:acq`) was emitted before the writer's `phase:w:acq`; and, per reader task, the number of FULL
/// iterations (`r:req` .. `rRel`) that lie entirely between the writer's request and its grant.
/// Emission order is sound for this: an `r:req` emitted after the `w:req` emission was requested later, and a
/// reader that emitted `r:acq` before the writer emitted `w:acq` acquired first (it holds the lock while it
/// emits; the writer emits after it acquired; the holdings are disjoint).
/// On the unchanged code tokio's RwLock is FIFO and write-preferring, so a reader that requests after the writer
/// is QUEUED waits behind it.  The `w:req` hook is emitted just before the poll that enqueues the writer, so a
/// reader can slip in between: at most one per reader task per request when nothing awaits in between.
fn writer_waits(case: &PCase, trace: &[Evt]) -> Vec<WaitObs> {
    let mut tr: Vec<&Evt> = trace.iter().collect(); tr.sort_by_key(|e| e.hi);
    let mut out = vec![];
    for q in tr.iter().filter(|e| e.name == "wReq") {
        let acq = tr.iter().filter(|e| e.task == q.task && e.name == "wAcq" && e.hi > q.hi).map(|e| e.hi).min();
        let end = acq.unwrap_or(u64::MAX);
        let readers: Vec<u32> = (0..case.tasks.len() as u32).filter(|t| *t != q.task && n_rounds(&case.tasks[*t as usize]) > 0).collect();
        let (mut overtakes, mut min_full) = (0usize, usize::MAX);
        for rd in &readers {
            let mut full = 0usize;
            let evs: Vec<&&Evt> = tr.iter().filter(|e| e.task == *rd).collect();
            for (i, e) in evs.iter().enumerate() {
                if e.name != "rReq" || e.hi < q.hi { continue; }
                let a = evs[i + 1..].iter().find(|x| x.name == "rAcq").map(|x| x.hi).unwrap_or(u64::MAX);
                if a < end { overtakes += 1; }
                let rel = evs[i + 1..].iter().find(|x| x.name == "rRel").map(|x| x.hi).unwrap_or(u64::MAX);
                if rel < end { full += 1; }
            }
            min_full = min_full.min(full);
        }
        if readers.is_empty() { min_full = 0; }
        out.push(WaitObs { writer: q.task, req: q.hi, acq, n_readers: readers.len(), overtakes, min_full_iters: min_full });
    }
    out
}

/// the verdict on one request: more overtakes than one per reader task (+1 of slack), or a writer that is still
/// waiting after every reader task ran 3 full iterations entirely after the request
fn starved(w: &WaitObs) -> bool { w.overtakes > w.n_readers + 1 || (w.n_readers > 0 && w.min_full_iters >= 3) }

/// starvation family: two inputs a (0), b (1), one derived key 2 = a + b; 2-4 reader tasks that loop
/// `tracked(); query; hold; query [; hold; query]; drop` so that their snapshots overlap in time; task 0 does a
/// few such rounds, then asks for a session in the middle (commit or plain drop), then checks
fn gen_starve_case(r: &mut Rng, mt: bool) -> PCase {
    let program = Program { nodes: vec![
        NodeDef { kind: Kind::Input, default: 0, expr: Expr::Const(0) },
        NodeDef { kind: Kind::Input, default: 0, expr: Expr::Const(0) },
        NodeDef { kind: Kind::Normal, default: kind_default(Kind::Normal), expr: Expr::Add(Box::new(Expr::Read(0)), Box::new(Expr::Read(1))) }] };
    let shapes: [&[u32]; 5] = [&[0, 1], &[2, 1], &[0, 2], &[2, 0, 1], &[1, 0]];
    let n_readers = r.range(2, 4);
    let mut w = vec![];
    for _ in 0..r.range(1, 4) { w.push(TOp::Round(r.pick(&shapes).to_vec())); }
    let n_sess = r.range(1, 2);
    for i in 0..n_sess {
        let a = r.below(50) as i64;
        w.push(TOp::Session(vec![(0, a), (1, 100 - a)], !r.chance(2, 5)));
        if i + 1 < n_sess { for _ in 0..r.range(1, 2) { w.push(TOp::Round(r.pick(&shapes).to_vec())); } }
    }
    w.push(TOp::Round(vec![2, 0, 1]));
    let mut tasks = vec![w];
    for _ in 0..n_readers {
        let k = if mt { r.range(10, 18) } else { r.range(6, 12) };
        tasks.push((0..k).map(|_| TOp::Round(r.pick(&shapes).to_vec())).collect());
    }
    PCase { program, init: vec![(0, 1), (1, 99)], tasks, mode: if mt { Mode::Mt(r.range(2, 8) as u32) } else { Mode::Ct }, seed: r.next() % 1_000_000, yields: false, gates: vec![], hold: r.range(1, 3) as u32 }
}

// ------------------------------------------------------------------------------------------------
// output
// ------------------------------------------------------------------------------------------------

fn order_probe() -> &'static str {
    // one session on a fresh engine with a recording sink: is the lock taken before the bump?
    let c = PCase::parse("case phase\nnode 0 in 0 c 0\nnode 1 nm -1 r 0\ninit 0 1\ntask 0 S 1 0 2 c\nsched ct 0 0\n");
    let o = run_case(&c);
    let bump = o.trace.iter().position(|e| e.name == "wBump");
    let acq = o.trace.iter().position(|e| e.name == "wAcq");
    match (bump, acq) { (Some(b), Some(a)) if a < b => "fixed", (Some(_), Some(_)) => "asis", _ => "nohooks" }
}

fn emit_case(out: &mut Out, idx: u64, case: &PCase, ro: &RunOut, order: &str) {
    let mode = match case.mode { Mode::Ct => "ct", Mode::Mt(_) => "mt" };
    // `strict`: the `req` hooks are atomic with the enqueue (current-thread runtime, no seeded yields, no gates), so
    // the driver keeps them where they were emitted and the FIFO order of the queue is checked against the model
    let strict = if case.mode == Mode::Ct && case.hold > 0 && !case.yields && case.gates.is_empty() { " strict" } else { "" };
    out.line(&format!("case {idx} {mode} {order} e0 {}{strict}", ro.e0), "ok");
    for (k, n) in case.program.nodes.iter().enumerate() {
        match n.kind {
            Kind::Input => { let v = case.init.iter().find(|(kk, _)| *kk == k as u32).map(|x| x.1).unwrap_or(0); out.line(&format!("in {k} {v}"), "ok"); }
            _ => { let mut s = format!("dv {k} "); n.expr.render(&mut s); out.line(&s, "ok"); }
        }
    }
    for (t, ops) in case.tasks.iter().enumerate() {
        let mut s = format!("task {t}");
        for o in ops {
            match o {
                TOp::Round(ks) => { let mut d: Vec<u32> = vec![]; for k in ks { if !d.contains(k) { d.push(*k); } } s.push_str(&format!(" R {}", d.len())); for k in &d { s.push_str(&format!(" {} {k}", if case.program.kind(*k) == Kind::Input { 1 } else { 0 })); } }
                TOp::Session(ws, c) => { s.push_str(&format!(" S {}", ws.len())); for (k, v) in ws { s.push_str(&format!(" {k} {v}")); } s.push_str(if *c { " c" } else { " d" }); }
            }
        }
        out.line(&s, "ok");
    }
    let mut tr = ro.trace.clone();
    tr.sort_by_key(|e| e.hi);
    for e in &tr {
        let (a, b) = if e.name == "rQuery" { (e.a / 2, e.b) } else { (e.a, e.b) };
        out.line(&format!("ev {} {} {} {} {a} {b}", e.lo, e.hi, e.task, e.name), "ok");
    }
    out.line("end", if ro.crash.is_some() { "crashed" } else { "accepted" });
}

struct Failure { sig: String, desc: String, case: String, idx: u64 }

fn main() {
    std::panic::set_hook(Box::new(|_| {}));
    let a = args();
    let mut out = Out::new(&a.out);
    let order = order_probe();
    if a.rest.iter().any(|x| x == "--probe") { println!("{order}"); return; }
    let mut rng = Rng::new(a.seed);
    let quick = a.tier == "quick";
    let n_ct = a.n.unwrap_or(if quick { 250 } else { 1500 });
    let n_mt = if a.n == Some(0) { 0 } else { a.rest.iter().position(|x| x == "--mt").map(|i| a.rest[i + 1].parse().unwrap()).unwrap_or(if quick { 12 } else { 60 }) };
    let n_starve: u64 = if a.n == Some(0) { 0 } else { a.rest.iter().position(|x| x == "--starve").map(|i| a.rest[i + 1].parse().unwrap()).unwrap_or(if quick { 24 } else { 120 }) };
    let shard: u64 = a.rest.iter().position(|x| x == "--shard").map(|i| a.rest[i + 1].parse().unwrap()).unwrap_or(0);
    let shards: u64 = a.rest.iter().position(|x| x == "--shards").map(|i| a.rest[i + 1].parse().unwrap()).unwrap_or(1);
    let mut cases: Vec<(String, PCase)> = vec![];
    if let Some(rp) = &a.replay {
        cases.push(("replay".into(), PCase::parse(&std::fs::read_to_string(rp).unwrap())));
    } else {
        if shard == 0 {
            cases.push(("witness".into(), f5_case()));
            if let Ok(rd) = std::fs::read_dir(format!("{}/../corpus", env!("CARGO_MANIFEST_DIR"))) {
                let mut fs: Vec<_> = rd.flatten().map(|e| e.path()).filter(|p| p.file_name().unwrap().to_string_lossy().starts_with("C04-")).collect(); fs.sort();
                for f in fs { cases.push(("corpus".into(), PCase::parse(&std::fs::read_to_string(f).unwrap()))); }
            }
        }
        for _ in 0..n_ct { cases.push(("ct".into(), gen_case(&mut rng, false))); }
        for _ in 0..n_mt { cases.push(("mt".into(), gen_case(&mut rng, true))); }
        for i in 0..n_starve { cases.push(("starve".into(), gen_starve_case(&mut rng, i % 4 == 3))); }
        if !quick || a.rest.iter().any(|x| x == "--exhaustive") { for c in exhaustive_cases(&mut rng, shard, shards) { cases.push(("exh".into(), c)); } }
    }
    let mut failures: Vec<Failure> = vec![];
    let mut distinct: BTreeSet<u64> = BTreeSet::new();
    let mut dist: BTreeMap<String, u64> = BTreeMap::new();
    let mut samples: Vec<String> = vec![];
    let mut case_meta: Vec<String> = vec![];
    let mut idx = 0u64;
    for (src, case) in &cases {
        idx += 1;
        let ro = run_case(case);
        // determinism of the single-thread scheduler: a sample of cases is run twice and the traces compared
        if case.mode == Mode::Ct && idx % 16 == 1 && ro.crash.is_none() {
            let ro2 = run_case(case);
            let key = |t: &Vec<Evt>| t.iter().map(|e| format!("{} {} {} {}", e.task, e.name, e.a, e.b)).collect::<Vec<_>>().join("|");
            *dist.entry("determinism_checked".into()).or_insert(0) += 1;
            if key(&ro.trace) != key(&ro2.trace) { *dist.entry("determinism_mismatch".into()).or_insert(0) += 1; }
        }
        let mut fs = judge(case, &ro);
        if order == "fixed" { if let Some(d) = bump_while_reader(&ro.trace) { fs.push(("C04:timestamp-bumped-while-tracked-engine-alive".into(), d)); } }
        // progress: bounded overtaking of a waiting writer.  Measured on every case; JUDGED where the bound of
        // one overtake per reader task is sound: no seeded yields between the `w:req` hook and the enqueueing poll
        // (`yields` off, no gates), i.e. the starvation family and its replays.
        {
            let waits = writer_waits(case, &ro.trace);
            let fam = if case.hold > 0 { if case.mode == Mode::Ct { "starve_ct" } else { "starve_mt" } } else if case.mode == Mode::Ct { "other_ct" } else { "other_mt" };
            for w in &waits {
                *dist.entry(format!("writer_requests_{fam}")).or_insert(0) += 1;
                let b = if w.overtakes >= 6 { "ge6".to_string() } else { w.overtakes.to_string() };
                *dist.entry(format!("overtakes_per_request_{fam}_{b}")).or_insert(0) += 1;
                if ro.trace.iter().any(|e| e.name == "rReq" && e.task != w.writer && e.hi > w.req && e.hi < w.acq.unwrap_or(u64::MAX)) { *dist.entry(format!("writer_requests_with_reader_requests_during_the_wait_{fam}")).or_insert(0) += 1; }
                if w.overtakes > 0 && w.overtakes <= w.n_readers + 1 { *dist.entry(format!("writer_requests_overtaken_within_bound_{fam}")).or_insert(0) += 1; }
            }
            if case.hold > 0 && !case.yields && case.gates.is_empty() {
                if let Some(w) = waits.iter().find(|w| starved(w)) {
                    // multi-thread: hook emission and enqueue are separated by a few instructions, an OS pre-emption
                    // there is legitimate; the seeded kind of starvation is systematic, so confirm on two re-runs
                    let confirmed = case.mode == Mode::Ct || (0..2).all(|_| { let r2 = run_case(case); writer_waits(case, &r2.trace).iter().any(starved) });
                    if confirmed {
                        fs.push(("C04:writer-starved".into(), format!("task {}'s input_session() (phase:w:req at event {}) {}: {} tracked() calls requested AFTER it were granted BEFORE it ({} reader tasks, so at most {} can be explained by the gap between the hook and the enqueue); every reader task ran at least {} full tracked..drop iterations entirely inside the wait. The phase lock is FIFO/write-preferring: a reader that asks after a queued writer waits behind it", w.writer, w.req, match w.acq { Some(a) => format!("was granted at event {a}"), None => "was NEVER granted".into() }, w.overtakes, w.n_readers, w.n_readers + 1, w.min_full_iters)));
                    } else { *dist.entry("starve_mt_unconfirmed".into()).or_insert(0) += 1; }
                }
            }
        }
        let f5w = f5_window(&ro.trace);
        emit_case(&mut out, idx, case, &ro, order);
        *dist.entry(format!("cases_{src}")).or_insert(0) += 1;
        *dist.entry("events".into()).or_insert(0) += ro.trace.len() as u64;
        *dist.entry("rounds".into()).or_insert(0) += ro.obs.rounds.len() as u64;
        *dist.entry("sessions".into()).or_insert(0) += ro.obs.sessions.len() as u64;
        *dist.entry("sessions_dropped".into()).or_insert(0) += ro.obs.sessions.iter().filter(|s| !s.commit).count() as u64;
        *dist.entry("gates_hit".into()).or_insert(0) += ro.gate_hits;
        *dist.entry("gates_released_by_stall".into()).or_insert(0) += ro.stalls;
        if f5w { *dist.entry("cases_reader_sampled_new_epoch_before_writer_lock".into()).or_insert(0) += 1; }
        if case.tasks.len() > 3 { *dist.entry("cases_with_4plus_tasks".into()).or_insert(0) += 1; }
        // non-trivial: a tracked engine's life or creation overlapped (in the trace) a session's opening or
        // commit: some reader event lies between a writer's first opening event and its release
        let nt = {
            let mut open: BTreeSet<u32> = BTreeSet::new(); let mut hit = false;
            let mut tr = ro.trace.clone(); tr.sort_by_key(|e| e.hi);
            for e in &tr {
                match e.name { "wBatch" | "wReq" => { open.insert(e.task); } "cRel" => { open.remove(&e.task); } n if n.starts_with('r') && !open.is_empty() && !open.contains(&e.task) => hit = true, _ => {} }
            }
            hit
        };
        if nt {
            *dist.entry("cases_nontrivial".into()).or_insert(0) += 1;
            let h = { use std::hash::{Hash, Hasher}; let mut s = std::collections::hash_map::DefaultHasher::new(); case.render().hash(&mut s); ro.trace.iter().for_each(|e| (e.task, e.name, e.a, e.b).hash(&mut s)); s.finish() };
            distinct.insert(h);
            if samples.len() < 3 { samples.push(case.render()); }
        }
        case_meta.push(format!("{idx} {} {}", if f5w { "f5w" } else { "-" }, fs.first().map(|f| f.0.clone()).unwrap_or("-".into())));
        let mut seen = BTreeSet::new();
        for (sig, desc) in fs {
            if !seen.insert(sig.clone()) { continue; }
            let sig = if f5w && sig == "C04:stale-read" { "C04:stale-read:f5-window".to_string() } else { sig };
            *dist.entry(format!("fail_{sig}")).or_insert(0) += 1;
            if failures.iter().filter(|f| f.sig == sig).count() < 4 { failures.push(Failure { sig, desc, case: case.render(), idx }); }
        }
    }
    let mut rep = String::from("{");
    rep.push_str(&format!("\"evaluations\":{},\"distinct_nontrivial\":{},\"order\":{},", cases.len(), distinct.len(), jstr(order)));
    rep.push_str(&format!("\"rule\":{},", jstr("flat programs (1-3 inputs, 1-3 derived nodes with constant/read/add/conditional reads) x task scripts (task 0: warm-up round, 1-4 sessions of 1-3 writes (new value / same value / earlier value), commit or plain drop, most followed by a check round; 1-3 reader tasks of 1-3 rounds of 1-3 keys; sometimes a second writer) x schedule (current-thread: seeded 0-3 yields at every pause + 0-3 named gates placing a reader round inside a window of input_session()/commit or holding a reader until a writer step; multi-thread: 2-12 workers, more rounds); non-trivial = some reader hook/query event lies between a session's first opening event and the release of its guard; distinct by hash of case text + trace")));
    rep.push_str(&format!("\"samples\":[{}],", samples.iter().map(|s| jstr(s)).collect::<Vec<_>>().join(",")));
    rep.push_str(&format!("\"distribution\":{{{}}},", dist.iter().map(|(k, v)| format!("{}:{v}", jstr(k))).collect::<Vec<_>>().join(",")));
    rep.push_str(&format!("\"oracle_failures\":[{}]", failures.iter().map(|f| format!("{{\"sig\":{},\"desc\":{},\"case\":{},\"idx\":{}}}", jstr(&f.sig), jstr(&f.desc), jstr(&f.case), f.idx)).collect::<Vec<_>>().join(",")));
    rep.push('}');
    std::fs::write(format!("{}/meta.txt", a.out), case_meta.join("\n") + "\n").unwrap();
    out.finish(&rep);
}
