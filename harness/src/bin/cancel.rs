//! C05 harness: fault enumeration on the real engine.
//!
//! For every generated program/history and every operation of it taken as the *target*, the target
//! is first run with a counting sink (numbering the `verif_pause!` points p1..pn it passes), then
//! for each i the same history is replayed on a fresh engine and the target's future is dropped
//! when pause i is reached; detached continuations are allowed to finish; afterwards the rest of
//! the history (further rounds, further sessions) is run against the from-scratch oracle, the
//! panic hook is consulted, termination is watched, the engine is shut down.  The same with every
//! executor in turn as the panicking one.  Round targets are cut / made to panic a second time
//! with OTHER CALLERS IN FLIGHT (`waiters`, `panicw`): when the cut point (the `x.before` of the
//! panicking executor) is reached, further tasks are started that ask for the same roots, for a
//! key whose computing entry the target owns, for a dependent of such a key, for an owned
//! firewall; they run until they are parked on the target's entries (`computing_lock_guard`'s
//! occupied branch, `exit_scc`); then the target is dropped (the gate opened); each of them must
//! complete - woken by the drop glue of the target's `ComputingLockGuard`s - with the
//! from-scratch value.  One generated case in four is of the family "an executor drops one of its
//! own reads" (`gen_spec_case`; `Expr::Spec` / `Div` / `Yield` of eng.rs): there the history without
//! any injected fault is judged as a cancellation scenario of its own (values, no later panic,
//! only nodes executed that the from-scratch evaluation reaches).  Every case runs in a child process (an abort inside
//! `WriteBatch::drop`, or a synchronous hang, is observed by the parent, not suffered).
//!
//! Variants: `mem` = `InMemoryStorageEngine`; `db` = `DbBacked<MemKv>` (write-behind pipeline;
//! after shutdown the store is re-opened by a second engine and queried against the oracle).
#![allow(clippy::all)]
use std::{
    any::{Any, TypeId},
    collections::{BTreeMap, BTreeSet, HashMap, HashSet},
    future::Future,
    panic::AssertUnwindSafe,
    pin::Pin,
    sync::{atomic::{AtomicBool, AtomicU64, Ordering}, Arc, Mutex, RwLock},
    task::{Context, Poll, Waker},
    time::Duration,
};

use futures::FutureExt;
use qbice::{
    query::QueryID,
    serialize::Plugin,
    stable_hash::{BuildStableHasher, Compact128, SeededStableHasherBuilder, Sip128Hasher, StableHasher},
    storage::{
        kv_database::{KeyOfSetColumn, KvDatabase, KvDatabaseFactory, SerializationBuffer, WideColumn, WideColumnValue, WriteBatch},
        storage_engine::{
            db_backed::{Configuration, DbBacked, DbBackedFactory},
            in_memory::{InMemoryStorageEngine, InMemoryStorageEngineFactory},
        },
    },
    verif::{set_sink, Sink},
    Config, Engine, Identifiable, Query, StableHash,
};
use qbice_verif_harness::{eng::*, *};

// ------------------------------------------------------------------------------------------------
// configurations
// ------------------------------------------------------------------------------------------------
#[derive(Debug, Clone, Copy, PartialEq, Eq, PartialOrd, Ord, Hash, Default, Identifiable)]
pub struct MemCfg;
impl Config for MemCfg {
    type StorageEngine = InMemoryStorageEngine;
    type BuildStableHasher = SeededStableHasherBuilder<Sip128Hasher>;
    type BuildHasher = fxhash::FxBuildHasher;
}
#[derive(Debug, Clone, Copy, PartialEq, Eq, PartialOrd, Ord, Hash, Default, Identifiable)]
pub struct DbCfg;
impl Config for DbCfg {
    type StorageEngine = DbBacked<MemKv>;
    type BuildStableHasher = SeededStableHasherBuilder<Sip128Hasher>;
    type BuildHasher = fxhash::FxBuildHasher;
}

// ------------------------------------------------------------------------------------------------
// MemKv: a minimal typed in-memory KvDatabase (no serialisation; values are kept as clones)
// ------------------------------------------------------------------------------------------------
type AnyBox = Box<dyn Any + Send + Sync>;
type KvOp = Box<dyn FnOnce(&MemKvInner) + Send + Sync>;
#[derive(Default)]
pub struct MemKvInner {
    wide: Mutex<HashMap<(TypeId, TypeId), AnyBox>>,
    sets: Mutex<HashMap<TypeId, AnyBox>>,
    commits: AtomicU64,
    ops: AtomicU64,
}
#[derive(Clone, Default)]
pub struct MemKv(Arc<MemKvInner>);
pub struct MemBuf(Vec<KvOp>);
pub struct MemBatch(Vec<KvOp>, MemKv);

fn op_put<W: WideColumn, C: WideColumnValue<W>>(key: &W::Key, value: &C) -> KvOp {
    let (k, v) = (key.clone(), value.clone());
    Box::new(move |i: &MemKvInner| {
        let mut w = i.wide.lock().unwrap();
        let m = w.entry((TypeId::of::<W>(), TypeId::of::<C>())).or_insert_with(|| Box::new(HashMap::<W::Key, C>::new()));
        m.downcast_mut::<HashMap<W::Key, C>>().unwrap().insert(k, v);
    })
}
fn op_del<W: WideColumn, C: WideColumnValue<W>>(key: &W::Key) -> KvOp {
    let k = key.clone();
    Box::new(move |i: &MemKvInner| {
        let mut w = i.wide.lock().unwrap();
        if let Some(m) = w.get_mut(&(TypeId::of::<W>(), TypeId::of::<C>())) { m.downcast_mut::<HashMap<W::Key, C>>().unwrap().remove(&k); }
    })
}
fn op_insm<C: KeyOfSetColumn>(key: &C::Key, e: &C::Element) -> KvOp {
    let (k, e) = (key.clone(), e.clone());
    Box::new(move |i: &MemKvInner| {
        let mut s = i.sets.lock().unwrap();
        let m = s.entry(TypeId::of::<C>()).or_insert_with(|| Box::new(HashMap::<C::Key, HashSet<C::Element>>::new()));
        m.downcast_mut::<HashMap<C::Key, HashSet<C::Element>>>().unwrap().entry(k).or_default().insert(e);
    })
}
fn op_delm<C: KeyOfSetColumn>(key: &C::Key, e: &C::Element) -> KvOp {
    let (k, e) = (key.clone(), e.clone());
    Box::new(move |i: &MemKvInner| {
        let mut s = i.sets.lock().unwrap();
        if let Some(m) = s.get_mut(&TypeId::of::<C>()) { if let Some(set) = m.downcast_mut::<HashMap<C::Key, HashSet<C::Element>>>().unwrap().get_mut(&k) { set.remove(&e); } }
    })
}
impl SerializationBuffer for MemBuf {
    fn put<W: WideColumn, C: WideColumnValue<W>>(&mut self, key: &W::Key, value: &C) { self.0.push(op_put::<W, C>(key, value)); }
    fn delete<W: WideColumn, C: WideColumnValue<W>>(&mut self, key: &W::Key) { self.0.push(op_del::<W, C>(key)); }
    fn insert_member<C: KeyOfSetColumn>(&mut self, key: &C::Key, value: &C::Element) { self.0.push(op_insm::<C>(key, value)); }
    fn delete_member<C: KeyOfSetColumn>(&mut self, key: &C::Key, value: &C::Element) { self.0.push(op_delm::<C>(key, value)); }
}
impl WriteBatch for MemBatch {
    type SerializationBuffer = MemBuf;
    fn put<W: WideColumn, C: WideColumnValue<W>>(&mut self, key: &W::Key, value: &C) { self.0.push(op_put::<W, C>(key, value)); }
    fn delete<W: WideColumn, C: WideColumnValue<W>>(&mut self, key: &W::Key) { self.0.push(op_del::<W, C>(key)); }
    fn insert_member<C: KeyOfSetColumn>(&mut self, key: &C::Key, value: &C::Element) { self.0.push(op_insm::<C>(key, value)); }
    fn delete_member<C: KeyOfSetColumn>(&mut self, key: &C::Key, value: &C::Element) { self.0.push(op_delm::<C>(key, value)); }
    fn consume_serialization_buffer(&mut self, buffer: MemBuf) { self.0.extend(buffer.0); }
    fn commit(self) {
        let inner = &self.1 .0;
        inner.ops.fetch_add(self.0.len() as u64, Ordering::SeqCst);
        for op in self.0 { op(inner); }
        inner.commits.fetch_add(1, Ordering::SeqCst);
    }
}
impl KvDatabase for MemKv {
    type WriteBatch = MemBatch;
    type SerializationBuffer = MemBuf;
    type ScanMemberIterator<C: KeyOfSetColumn> = std::vec::IntoIter<C::Element>;
    fn get_wide_column<W: WideColumn, C: WideColumnValue<W>>(&self, key: &W::Key) -> Option<C> {
        let w = self.0.wide.lock().unwrap();
        w.get(&(TypeId::of::<W>(), TypeId::of::<C>())).and_then(|m| m.downcast_ref::<HashMap<W::Key, C>>().unwrap().get(key).cloned())
    }
    fn scan_members<C: KeyOfSetColumn>(&self, key: &C::Key) -> Self::ScanMemberIterator<C> {
        let s = self.0.sets.lock().unwrap();
        let v: Vec<C::Element> = s.get(&TypeId::of::<C>()).and_then(|m| m.downcast_ref::<HashMap<C::Key, HashSet<C::Element>>>().unwrap().get(key).map(|x| x.iter().cloned().collect())).unwrap_or_default();
        v.into_iter()
    }
    fn write_batch(&self) -> MemBatch { MemBatch(Vec::new(), self.clone()) }
    fn serialization_buffer(&self) -> MemBuf { MemBuf(Vec::new()) }
}
pub struct MemKvFactory(MemKv);
impl KvDatabaseFactory for MemKvFactory {
    type KvDatabase = MemKv;
    type Error = std::convert::Infallible;
    fn open(self, _p: Plugin) -> Result<MemKv, Self::Error> { Ok(self.0) }
}

// ------------------------------------------------------------------------------------------------
// the sink: pause numbering, the cut gate, resource accounting from the emitted events
// ------------------------------------------------------------------------------------------------
#[derive(Clone, Debug, PartialEq)]
enum Mode { Off, Count, Cut(u64), CutLabel(String, u64), /// gate (not necessarily cut) at the first pause with this label and key
    GateKey(String, u32) }

struct SinkState {
    mode: Mode,
    count: u64,
    labels: Vec<String>,
    reached: Option<String>,
    released: bool,
    gate_waker: Option<Waker>,
    // accounting
    locks: BTreeMap<u32, i64>,
    bplocks: BTreeMap<u32, i64>,
    armed: Vec<(u32, u32)>,
    batch_new: u64,
    batch_submit: u64,
    guard_enter: u64,
    guard_exit: u64,
    guard_detach: u64,
    epoch_bumps: u64,
    trace: Vec<String>,
    trace_on: bool,
    tids: HashMap<String, u64>,
    /// keys whose publication completed (explicit `done()`, not drop glue) since the last `set_mode`
    completed: Vec<u32>,
    dropping: Option<u32>,
    /// tasks that took the backward-projection lock and have not entered the guarded block yet / that created a batch there
    after_bplock: HashSet<u64>,
    unguarded_bp_batch: HashSet<u64>,
    /// companion tasks (other callers in flight while the target's owner is cut) and the key each is parked on
    companions: HashSet<u64>,
    parked: BTreeMap<u64, u32>,
    /// acquisition order of the computing entries that are held now
    lock_order: Vec<u32>,
}
/// pause labels owned by this harness (other properties' pause points are passed through untouched)
const MY_PAUSES: &[&str] = &["q.registered", "q.loop", "q.tfc.before", "q.tfc.after", "q.wg.before", "q.wg.after", "q.processed", "r.check", "r.checked", "r.recompute", "tfc.item",
    "x.before", "x.executed", "x.g.start", "x.g.dirty", "c.up.before", "c.g.start", "c.g.cleaned", "p.after", "cq.start", "cq.before_submit", "sc.up.before", "sc.up.after", "sc.unwired", "sc.mid",
    "sc.before_submit", "si.start", "si.mid", "bp.up.before", "bp.g.start", "bp.g.removed", "bp.start", "bp.item", "bp.before_done", "in.set.snap", "in.set.g.start", "in.set.g.locked",
    "in.ref.item", "in.ref.g.start", "in.ref.g.locked", "in.commit.g.start", "in.commit.g.taken", "in.commit.propagated", "is.wait"];
fn cur_tid(st: &mut SinkState) -> u64 {
    match tokio::task::try_id() { None => 0, Some(id) => { let n = st.tids.len() as u64 + 1; *st.tids.entry(id.to_string()).or_insert(n) } }
}
impl Default for SinkState {
    fn default() -> Self {
        SinkState { mode: Mode::Off, count: 0, labels: vec![], reached: None, released: false, gate_waker: None, locks: BTreeMap::new(), bplocks: BTreeMap::new(), armed: vec![],
            batch_new: 0, batch_submit: 0, guard_enter: 0, guard_exit: 0, guard_detach: 0, epoch_bumps: 0, trace: vec![], trace_on: false, tids: HashMap::new(), completed: vec![], dropping: None, after_bplock: HashSet::new(), unguarded_bp_batch: HashSet::new(), companions: HashSet::new(), parked: BTreeMap::new(), lock_order: vec![] }
    }
}
#[derive(Default)]
struct CutSink {
    st: Mutex<SinkState>,
    ids: RwLock<HashMap<QueryID, u32>>,
    low: RwLock<HashMap<u64, u32>>,
    notify: tokio::sync::Notify,
}
struct Gate(Arc<CutSink>);
impl Future for Gate {
    type Output = ();
    fn poll(self: Pin<&mut Self>, cx: &mut Context<'_>) -> Poll<()> {
        let mut st = self.0.st.lock().unwrap();
        if st.released { Poll::Ready(()) } else { st.gate_waker = Some(cx.waker().clone()); Poll::Pending }
    }
}
static SINK: std::sync::OnceLock<Arc<CutSink>> = std::sync::OnceLock::new();
fn sink() -> Arc<CutSink> { SINK.get().unwrap().clone() }

impl CutSink {
    fn key_of(&self, id: Option<&QueryID>) -> Option<u32> { id.and_then(|i| self.ids.read().unwrap().get(i).copied()) }
    fn reset(&self) { *self.st.lock().unwrap() = SinkState::default(); }
    fn set_mode(&self, m: Mode) { let mut st = self.st.lock().unwrap(); if m != Mode::Off { st.completed.clear(); } st.mode = m; st.count = 0; st.labels.clear(); }
    fn mark(&self, m: &str) { let mut st = self.st.lock().unwrap(); if st.trace_on { st.trace.push(m.to_string()); } }
    /// called by a companion task from inside itself
    fn mark_companion(&self) { let mut st = self.st.lock().unwrap(); let t = cur_tid(&mut st); st.companions.insert(t); if st.trace_on { st.trace.push(format!("{t} companion")); } }
    fn held_keys(&self) -> Vec<u32> { self.st.lock().unwrap().lock_order.clone() }
    fn parked_now(&self) -> Vec<(u64, u32)> { self.st.lock().unwrap().parked.iter().map(|(a, b)| (*a, *b)).collect() }
    fn release(&self) { let w = { let mut st = self.st.lock().unwrap(); st.released = true; st.gate_waker.take() }; if let Some(w) = w { w.wake(); } }
    fn quiescence(&self) -> Vec<String> {
        let st = self.st.lock().unwrap();
        let mut v = vec![];
        let l: Vec<_> = st.locks.iter().filter(|(_, c)| **c != 0).map(|(k, c)| format!("{k}:{c}")).collect();
        if !l.is_empty() { v.push(format!("computing-entries[{}]", l.join(","))); }
        let l: Vec<_> = st.bplocks.iter().filter(|(_, c)| **c != 0).map(|(k, c)| format!("{k}:{c}")).collect();
        if !l.is_empty() { v.push(format!("bp-entries[{}]", l.join(","))); }
        if st.batch_new != st.batch_submit { v.push(format!("batches(new={},submitted={})", st.batch_new, st.batch_submit)); }
        if st.guard_enter != st.guard_exit { v.push(format!("guarded(entered={},completed={})", st.guard_enter, st.guard_exit)); }
        v
    }
    fn summary(&self) -> String {
        let st = self.st.lock().unwrap();
        let locks: Vec<String> = st.locks.iter().filter(|(_, c)| **c != 0).map(|(k, _)| k.to_string()).collect();
        let bps: Vec<String> = st.bplocks.iter().filter(|(_, c)| **c != 0).map(|(k, _)| k.to_string()).collect();
        format!("comp=[{}] bp=[{}] batches={}/{} guards={}/{}", locks.join(","), bps.join(","), st.batch_submit, st.batch_new, st.guard_exit, st.guard_enter)
    }
    /// the part of the summary the model also has
    fn model_summary(&self) -> String {
        let st = self.st.lock().unwrap();
        let locks: Vec<String> = st.locks.iter().filter(|(_, c)| **c != 0).map(|(k, _)| k.to_string()).collect();
        let bps: Vec<String> = st.bplocks.iter().filter(|(_, c)| **c != 0).map(|(k, _)| k.to_string()).collect();
        format!("comp=[{}] bp=[{}] batches={}/{}", locks.join(","), bps.join(","), st.batch_submit, st.batch_new)
    }
}
struct SinkHandle(Arc<CutSink>);
impl Sink for SinkHandle {
    fn emit(&self, label: &'static str, id: Option<&QueryID>, n: u64) {
        let s = &self.0;
        let k = s.key_of(id);
        let mut st = s.st.lock().unwrap();
        match label {
            "lock" => { *st.locks.entry(k.unwrap_or(u32::MAX)).or_insert(0) += 1; if let Some(k) = k { st.lock_order.push(k); } }
            "cl.wait" => { let t = cur_tid(&mut st); if !st.companions.contains(&t) { return; } st.parked.insert(t, k.unwrap_or(u32::MAX)); }
            "cl.woken" => { let t = cur_tid(&mut st); if st.parked.remove(&t).is_none() { return; } }
            "unlock" => { if let Some(k) = k { if let Some(p) = st.lock_order.iter().rposition(|x| *x == k) { st.lock_order.remove(p); } } *st.locks.entry(k.unwrap_or(u32::MAX)).or_insert(0) -= 1; if st.dropping == k { st.dropping = None; } else if let Some(k) = k { st.completed.push(k); } }
            "bplock" => { *st.bplocks.entry(k.unwrap_or(u32::MAX)).or_insert(0) += 1; let t = cur_tid(&mut st); st.after_bplock.insert(t); }
            "bpunlock" => { *st.bplocks.entry(k.unwrap_or(u32::MAX)).or_insert(0) -= 1; }
            "reg" => { let c = s.low.read().unwrap().get(&n).copied().unwrap_or(u32::MAX); st.armed.push((c, k.unwrap_or(u32::MAX))); }
            "unreg" | "defuse" => { if let Some(p) = st.armed.iter().rposition(|(_, c)| Some(*c) == k) { st.armed.remove(p); } }
            "batch.new" => { st.batch_new += 1; let t = cur_tid(&mut st); if st.after_bplock.contains(&t) { st.unguarded_bp_batch.insert(t); } }
            "batch.submit" => { st.batch_submit += 1; let t = cur_tid(&mut st); st.unguarded_bp_batch.remove(&t); }
            "guard.enter" => { st.guard_enter += 1; let t = cur_tid(&mut st); st.after_bplock.remove(&t); }
            "guard.exit" => st.guard_exit += 1,
            "guard.detach" => st.guard_detach += 1,
            "epoch.bump" => st.epoch_bumps += 1,
            "drop.lock" => { if n == 0 { st.dropping = k; } }
            "is.acq" | "drop.bp" => {}
            _ => return,
        }
        if st.trace_on {
            let tid = cur_tid(&mut st);
            let ks = k.map(|x| x.to_string()).unwrap_or("?".into());
            let line = match label {
                "reg" => format!("{tid} reg {} {ks}", s.low.read().unwrap().get(&n).map(|x| x.to_string()).unwrap_or("?".into())),
                "lock" | "unlock" | "bplock" | "bpunlock" | "unreg" | "defuse" => format!("{tid} {label} {ks}"),
                "drop.lock" => { if n != 0 { return; } format!("{tid} droplock {ks}") }
                "drop.bp" => { if n != 0 { return; } format!("{tid} dropbp {ks}") }
                "batch.new" => format!("{tid} bnew {n}"),
                "batch.submit" => format!("{tid} bsub"),
                "guard.enter" => format!("{tid} genter"),
                "guard.exit" => format!("{tid} gexit"),
                "guard.detach" => format!("{tid} gdetach"),
                "epoch.bump" => format!("{tid} bump"),
                "is.acq" => format!("{tid} acq"),
                "cl.wait" => format!("{tid} wait {ks}"),
                "cl.woken" => format!("{tid} woken {ks}"),
                _ => return,
            };
            st.trace.push(line);
        }
    }
    fn pause<'a>(&'a self, label: &'static str, id: Option<&'a QueryID>) -> Pin<Box<dyn Future<Output = ()> + Send + 'a>> {
        let s = &self.0;
        if !MY_PAUSES.contains(&label) { return Box::pin(std::future::ready(())); }
        let k = s.key_of(id);
        let mut st = s.st.lock().unwrap();
        match st.mode.clone() {
            Mode::Off => {}
            Mode::Count => { st.count += 1; st.labels.push(match k { Some(k) => format!("{label}@{k}"), None => label.to_string() }); }
            Mode::CutLabel(l, occ) => {
                if l == label && st.reached.is_none() {
                    st.count += 1;
                    if st.count == occ {
                        st.reached = Some(match k { Some(k) => format!("{label}@{k}"), None => label.to_string() });
                        if st.trace_on { let tid = cur_tid(&mut st); let l = format!("{tid} cut {}", st.reached.clone().unwrap()); st.trace.push(l); }
                        drop(st);
                        s.notify.notify_one();
                        return Box::pin(Gate(s.clone()));
                    }
                }
            }
            Mode::GateKey(l, key) => {
                if l == label && k == Some(key) && st.reached.is_none() {
                    st.reached = Some(format!("{label}@{key}"));
                    drop(st);
                    s.notify.notify_one();
                    return Box::pin(Gate(s.clone()));
                }
            }
            Mode::Cut(i) => {
                st.count += 1;
                if st.count == i && st.reached.is_none() {
                    st.reached = Some(match k { Some(k) => format!("{label}@{k}"), None => label.to_string() });
                    if st.trace_on { let tid = cur_tid(&mut st); let l = format!("{tid} cut {}", st.reached.clone().unwrap()); st.trace.push(l); }
                    drop(st);
                    s.notify.notify_one();
                    return Box::pin(Gate(s.clone()));
                }
            }
        }
        Box::pin(std::future::ready(()))
    }
}

// ------------------------------------------------------------------------------------------------
// panic recorder
// ------------------------------------------------------------------------------------------------
static PANICS: Mutex<Vec<String>> = Mutex::new(Vec::new());
fn install_panic_hook() {
    std::panic::set_hook(Box::new(|info| {
        let msg = info.payload().downcast_ref::<String>().cloned().or_else(|| info.payload().downcast_ref::<&str>().map(|s| s.to_string())).unwrap_or_else(|| "<non-string payload>".into());
        let loc = info.location().map(|l| format!("{}:{}", l.file().rsplit('/').next().unwrap_or(""), l.line())).unwrap_or_default();
        let th = std::thread::current().name().unwrap_or("?").to_string();
        eprintln!("PANIC [{th}] {loc}: {}", msg.chars().take(200).collect::<String>());
        if let Some(rest) = msg.strip_prefix("injected executor panic key=") { if let Some(sk) = SINK.get() { if let Ok(mut st) = sk.st.try_lock() { if st.trace_on { let tid = cur_tid(&mut st); st.trace.push(format!("{tid} panic {rest}")); } } } }
        PANICS.lock().unwrap().push(format!("[{th}] {loc}: {}", msg.chars().take(160).collect::<String>()));
    }));
}
fn take_panics() -> Vec<String> { std::mem::take(&mut *PANICS.lock().unwrap()) }
fn payload_str(p: &Box<dyn Any + Send>) -> String {
    p.downcast_ref::<String>().cloned().or_else(|| p.downcast_ref::<&str>().map(|s| s.to_string())).unwrap_or_else(|| "<non-string payload>".into())
}

// ------------------------------------------------------------------------------------------------
// engine construction
// ------------------------------------------------------------------------------------------------
fn hash_of<Q: StableHash>(q: &Q) -> Compact128 {
    let mut h = SeededStableHasherBuilder::<Sip128Hasher>::new(0).build_stable_hasher();
    q.stable_hash(&mut h);
    h.finish().into()
}
fn register_ids(p: &Program) {
    let s = sink();
    let mut ids = s.ids.write().unwrap();
    let mut low = s.low.write().unwrap();
    ids.clear(); low.clear();
    for k in 0..p.nodes.len() as u32 {
        let (id, h) = match p.kind(k) {
            Kind::Input => { let h = hash_of(&In(k)); (QueryID::new::<In>(h), h) }
            Kind::Normal => { let h = hash_of(&Nm(k)); (QueryID::new::<Nm>(h), h) }
            Kind::Firewall => { let h = hash_of(&Fw(k)); (QueryID::new::<Fw>(h), h) }
            Kind::Projection => { let h = hash_of(&Pj(k)); (QueryID::new::<Pj>(h), h) }
            Kind::External => { let h = hash_of(&Ex(k)); (QueryID::new::<Ex>(h), h) }
        };
        ids.insert(id, k);
        low.insert(h.low(), k);
    }
}

trait Variant: Config {
    const NAME: &'static str;
    fn make(sh: &Arc<Shared>, kv: &MemKv) -> impl Future<Output = Arc<Engine<Self>>> + Send;
}
impl Variant for MemCfg {
    const NAME: &'static str = "mem";
    async fn make(sh: &Arc<Shared>, _kv: &MemKv) -> Arc<Engine<Self>> {
        let mut e = Engine::<MemCfg>::new_with(Plugin::default(), InMemoryStorageEngineFactory, SeededStableHasherBuilder::new(0)).await.unwrap();
        register_all(&mut e, sh);
        Arc::new(e)
    }
}
impl Variant for DbCfg {
    const NAME: &'static str = "db";
    async fn make(sh: &Arc<Shared>, kv: &MemKv) -> Arc<Engine<Self>> {
        let f = DbBackedFactory { configuration: Configuration { cache_capacity: 4096, serialization_workers: 1, default_shard_amount: 2 }, db_factory: MemKvFactory(kv.clone()) };
        let mut e = Engine::<DbCfg>::new_with(Plugin::default(), f, SeededStableHasherBuilder::new(0)).await.unwrap();
        register_all(&mut e, sh);
        Arc::new(e)
    }
}

// ------------------------------------------------------------------------------------------------
// faults and the run of one history with one fault
// ------------------------------------------------------------------------------------------------
#[derive(Clone, Debug, PartialEq)]
enum Fault {
    /// no fault; the target runs under the counting sink
    Count,
    /// drop the target's in-flight call when pause i is reached. hold = keep a guarded continuation suspended
    /// at the cut point until one further session has been committed (only meaningful inside guarded sections)
    /// waiters = when the cut point is reached, other callers are started that ask for the same roots / for keys whose
    /// computing entries the target owns / for dependents of those, and are given the time to park on the target's
    /// entries; only then is the target dropped.  Every one of them has to complete with the from-scratch value.
    Cut { i: u64, hold: bool, commit_after: bool, requery: bool, waiters: bool },
    /// the same, addressed by pause label and occurrence (stable under renumbering; used by the corpus)
    CutAt { label: String, occ: u64, hold: bool, commit_after: bool, requery: bool, waiters: bool },
    /// the executor of this key panics during the target round
    Panic(u32),
    /// the same with waiters parked on the entries of the panicking task (started when it is about to call the executor)
    PanicW(u32),
}
impl Fault {
    fn is_cut(&self) -> bool { matches!(self, Fault::Cut { .. } | Fault::CutAt { .. }) }
    fn hold(&self) -> bool { matches!(self, Fault::Cut { hold: true, .. } | Fault::CutAt { hold: true, .. }) }
    /// the cut-short round is issued again while the detached continuation is still suspended (it has to wait for it)
    fn requery(&self) -> bool { matches!(self, Fault::Cut { requery: true, .. } | Fault::CutAt { requery: true, .. }) }
    fn waiters(&self) -> bool { matches!(self, Fault::Cut { waiters: true, .. } | Fault::CutAt { waiters: true, .. } | Fault::PanicW(_)) }
    fn mode_word(hold: bool, requery: bool, waiters: bool) -> &'static str { if waiters { "waiters" } else if requery { "requery" } else if hold { "hold" } else { "settle" } }
    fn commit_after(&self) -> bool { match self { Fault::Cut { commit_after, .. } | Fault::CutAt { commit_after, .. } => *commit_after, _ => true } }
    fn mode(&self) -> Mode { match self { Fault::Cut { i, .. } => Mode::Cut(*i), Fault::CutAt { label, occ, .. } => Mode::CutLabel(label.clone(), *occ), Fault::PanicW(k) => Mode::GateKey("x.before".into(), *k), _ => Mode::Count } }
    fn render(&self) -> String {
        match self { Fault::Count => "count".into(), Fault::Cut { i, hold, commit_after, requery, waiters } => format!("cut {i} {} {}", Fault::mode_word(*hold, *requery, *waiters), if *commit_after { "commit" } else { "dropsession" }),
            Fault::CutAt { label, occ, hold, commit_after, requery, waiters } => format!("cutat {label} {occ} {} {}", Fault::mode_word(*hold, *requery, *waiters), if *commit_after { "commit" } else { "dropsession" }),
            Fault::Panic(k) => format!("panic {k}"), Fault::PanicW(k) => format!("panicw {k}") }
    }
    fn parse(t: &[&str]) -> Fault {
        match t[0] { "count" => Fault::Count, "cut" => Fault::Cut { i: t[1].parse().unwrap(), hold: t[2] == "hold" || t[2] == "requery", requery: t[2] == "requery", waiters: t[2] == "waiters", commit_after: t.get(3).map(|x| *x == "commit").unwrap_or(true) },
            "cutat" => Fault::CutAt { label: t[1].to_string(), occ: t[2].parse().unwrap(), hold: t[3] == "hold" || t[3] == "requery", requery: t[3] == "requery", waiters: t[3] == "waiters", commit_after: t.get(4).map(|x| *x == "commit").unwrap_or(true) },
            "panic" => Fault::Panic(t[1].parse().unwrap()), "panicw" => Fault::PanicW(t[1].parse().unwrap()), x => panic!("fault {x}") }
    }
}

#[derive(Default, Debug)]
struct RunOut {
    pauses: Vec<String>,
    cut_label: Option<String>,
    /// failures (sig, desc)
    fails: Vec<(String, String)>,
    /// value mismatches (op index, key, got, expected) — judged against the from-scratch oracle
    mismatches: Vec<(usize, u32, String, i64)>,
    execs_in_target: Vec<u32>,
    summary: String,
    trace: Vec<String>,
    detached: u64,
    aborted: Option<String>,
    blocked_on_held: bool,
    held_mode: bool,
    /// for the attribution of value failures: what the cut-short target did take effect
    completed_before_cut: Vec<u32>,
    applied_writes: Vec<Write>,
    cut_write: Option<Write>,
    /// what the engine itself answered last for every key (the persistence check compares the re-opened store with it)
    last_vals: BTreeMap<u32, i64>,
    /// the computing entries the target owned when the companions were started
    owned_at_gate: Vec<u32>,
    /// (`--state`) op lines and `#D <digest>` lines of the quiescent points of this run (input of `drv_engine inv`)
    inv: Vec<String>,
    state_dumps: u64,
}

/// `--state`: dump the digest of every key (eng::state_digest) at every quiescent point and judge it (state-invariant oracle)
static STATE: AtomicBool = AtomicBool::new(false);

enum Driven<T> { Done(T), Cut, Timeout }

/// polls `fut`; when the sink signals that the cut point was reached, drops it (recording a panic of the drop)
async fn drive<T>(fut: impl Future<Output = T>, cutting: bool, drop_panic: &mut Option<String>) -> Driven<T> {
    let s = sink();
    let mut fut = Box::pin(fut);
    let r = tokio::time::timeout(Duration::from_millis(2500), async {
        if cutting {
            tokio::select! { biased; v = &mut fut => Some(v), _ = s.notify.notified() => None }
        } else { Some((&mut fut).await) }
    }).await;
    match r {
        Err(_) => { let _ = std::panic::catch_unwind(AssertUnwindSafe(move || drop(fut))); Driven::Timeout }
        Ok(Some(v)) => Driven::Done(v),
        Ok(None) => {
            if let Err(p) = std::panic::catch_unwind(AssertUnwindSafe(move || drop(fut))) { *drop_panic = Some(payload_str(&p)); }
            s.mark("0 dropped");
            Driven::Cut
        }
    }
}

/// like `drive` without cutting, but while a continuation is being held: if the call turns out to wait for the
/// held continuation (a legitimate wait), the continuation is released and the call awaited to its end
async fn drive_soft<T>(fut: impl Future<Output = T>, held: bool, blocked: &mut bool, drop_panic: &mut Option<String>) -> Driven<T> {
    if !held { return drive(fut, false, drop_panic).await; }
    let mut fut = Box::pin(fut);
    let early = tokio::select! { biased; v = &mut fut => Some(v), _ = tokio::time::sleep(Duration::from_millis(60)) => None };
    match early { Some(v) => Driven::Done(v), None => { *blocked = true; sink().release(); drive(fut, false, drop_panic).await } }
}

/// another caller in flight while the owner of computing entries is cut / panics
struct Comp { what: &'static str, keys: Vec<u32>, h: tokio::task::JoinHandle<Vec<i64>> }

/// which other callers to start at the gate: (a) the same roots, (b) a key whose computing entry the target owns right
/// now (parks in `computing_lock_guard`), (c) a dependent of such a key (takes its own entry, then parks in `exit_scc`
/// on the shared callee), (d) a firewall the target is computing / repairing; started in a seeded order
fn plan_companions(p: &Program, ks: &[u32], held: &[u32], rng: &mut Rng, askable: &dyn Fn(u32) -> bool) -> Vec<(&'static str, Vec<u32>)> {
    let mut v: Vec<(&'static str, Vec<u32>)> = vec![("same-roots", ks.to_vec())];
    if !held.is_empty() {
        let h = *rng.pick(held);
        if askable(h) { v.push(("owned-key", vec![h])); }
        let deps: Vec<u32> = (0..p.nodes.len() as u32).filter(|d| !held.contains(d) && !matches!(p.kind(*d), Kind::Input) && askable(*d) && { let mut r = vec![]; p.nodes[*d as usize].expr.reads(&mut r); r.iter().any(|x| held.contains(x)) }).collect();
        if !deps.is_empty() { v.push(("dependent-of-owned-key", vec![*rng.pick(&deps)])); }
        if let Some(f) = held.iter().rev().find(|k| p.kind(**k) == Kind::Firewall && **k != h) { v.push(("owned-firewall", vec![*f])); }
    }
    rng.shuffle(&mut v);
    v
}
fn spawn_companions<V: Variant>(engine: &Arc<Engine<V>>, sh: &Arc<Shared>, plan: Vec<(&'static str, Vec<u32>)>) -> Vec<Comp> {
    plan.into_iter().map(|(what, keys)| {
        let (e, sh2, ks) = (engine.clone(), sh.clone(), keys.clone());
        let h = tokio::spawn(async move {
            sink().mark_companion();
            let te = e.tracked().await;
            let mut vs = vec![];
            for k in ks { vs.push(query_key(&sh2, &te, k).await); }
            vs
        });
        Comp { what, keys, h }
    }).collect()
}

/// polls `fut` until the sink's gate is reached; then `at_gate` starts the companions and they get the time to park on the
/// entries `fut` owns; then `fut` is dropped (cut) or the gate is opened and `fut` awaited to its end
async fn drive_gate<T>(fut: impl Future<Output = T>, cut: bool, at_gate: impl FnOnce() -> Vec<Comp>, drop_panic: &mut Option<String>) -> (Driven<T>, Vec<Comp>) {
    let s = sink();
    let mut fut = Box::pin(fut);
    let r = tokio::time::timeout(Duration::from_millis(2500), async { tokio::select! { biased; v = &mut fut => Some(v), _ = s.notify.notified() => None } }).await;
    match r {
        Err(_) => { let _ = std::panic::catch_unwind(AssertUnwindSafe(move || drop(fut))); (Driven::Timeout, vec![]) }
        Ok(Some(v)) => (Driven::Done(v), vec![]),
        Ok(None) => {
            let comps = at_gate();
            for round in 0..5 {
                for _ in 0..32 { tokio::task::yield_now().await; }
                let parked = s.parked_now().len();
                let finished = comps.iter().filter(|c| c.h.is_finished()).count();
                if parked + finished >= comps.len() { break; }
                if round < 4 { tokio::time::sleep(Duration::from_millis(1)).await; }
            }
            if cut {
                if let Err(p) = std::panic::catch_unwind(AssertUnwindSafe(move || drop(fut))) { *drop_panic = Some(payload_str(&p)); }
                s.mark("0 dropped");
                (Driven::Cut, comps)
            } else {
                s.release();
                match tokio::time::timeout(Duration::from_millis(2500), &mut fut).await {
                    Ok(v) => (Driven::Done(v), comps),
                    Err(_) => { let _ = std::panic::catch_unwind(AssertUnwindSafe(move || drop(fut))); (Driven::Timeout, comps) }
                }
            }
        }
    }
}

async fn settle() {
    let s = sink();
    for _ in 0..64 { tokio::task::yield_now().await; }
    for _ in 0..8 {
        if s.quiescence().is_empty() { break; }
        tokio::time::sleep(Duration::from_millis(1)).await;
        for _ in 0..16 { tokio::task::yield_now().await; }
    }
    for _ in 0..16 { tokio::task::yield_now().await; }
}

struct Judge<'a> { p: &'a Program, truth: Truth, world: BTreeMap<u32, i64>, uncertain_in: BTreeMap<u32, Vec<i64>>, uncertain_ex: BTreeMap<u32, Vec<i64>> }
impl<'a> Judge<'a> {
    fn new(p: &'a Program) -> Self { Judge { p, truth: Truth::default(), world: BTreeMap::new(), uncertain_in: BTreeMap::new(), uncertain_ex: BTreeMap::new() } }
    fn session_applied(&mut self, ws: &[Write]) {
        for w in ws { if let Write::World(k, v) = w { self.world.insert(*k, *v); } }
        for w in ws {
            match w {
                Write::Set(k, v) => { self.truth.inputs.insert(*k, *v); self.uncertain_in.remove(k); }
                Write::Refresh => { for k in 0..self.p.nodes.len() as u32 { if self.p.kind(k) == Kind::External { self.truth.ext.insert(k, *self.world.get(&k).unwrap_or(&0)); self.uncertain_ex.remove(&k); } } }
                Write::World(..) => {}
            }
        }
    }
    /// an external node that was never computed reads the current world when it is first computed
    fn expected(&self, k: u32) -> i64 {
        let mut t = self.truth.clone();
        for e in 0..self.p.nodes.len() as u32 { if self.p.kind(e) == Kind::External && !t.ext.contains_key(&e) { t.ext.insert(e, *self.world.get(&e).unwrap_or(&0)); } }
        from_scratch(self.p, &t, k)
    }
    fn truth_now(&self) -> Truth {
        let mut t = self.truth.clone();
        for e in 0..self.p.nodes.len() as u32 { if self.p.kind(e) == Kind::External && !t.ext.contains_key(&e) { t.ext.insert(e, *self.world.get(&e).unwrap_or(&0)); } }
        t
    }
    /// may this key be asked for now (its from-scratch evaluation does not divide by zero)
    fn askable(&self, k: u32) -> bool { self.p.spec_targets().is_empty() || safe_value(self.p, &self.truth_now(), k, &mut BTreeSet::new()).is_some() }
    /// the nodes the from-scratch evaluation of these roots visits
    fn reach(&self, ks: &[u32]) -> BTreeSet<u32> { let mut r = BTreeSet::new(); let t = self.truth_now(); for k in ks { let _ = safe_value(self.p, &t, *k, &mut r); } r }
    fn ext_now(&self, k: u32) -> i64 { self.truth.ext.get(&k).copied().unwrap_or(*self.world.get(&k).unwrap_or(&0)) }
}

fn all_keys_round(p: &Program) -> Vec<u32> { (0..p.nodes.len() as u32).rev().collect() }

/// (acyclic programs) the value of `k`, or None if its evaluation divides by zero: a guarded node that may not be asked
/// for in the present state.  `reach` collects every node the evaluation visits.
fn safe_value(p: &Program, t: &Truth, k: u32, reach: &mut BTreeSet<u32>) -> Option<i64> {
    fn ev(p: &Program, t: &Truth, e: &Expr, reach: &mut BTreeSet<u32>) -> Option<i64> {
        Some(match e {
            Expr::Const(n) => *n,
            Expr::Read(k) => safe_value(p, t, *k, reach)?,
            Expr::Add(a, b) => { let x = ev(p, t, a, reach)?; let y = ev(p, t, b, reach)?; x.wrapping_add(y) }
            Expr::IfEq(c, n, a, b) => { let x = ev(p, t, c, reach)?; if x == *n { ev(p, t, a, reach)? } else { ev(p, t, b, reach)? } }
            Expr::SumAll(ks) => { let mut s = 0i64; for k in ks { s = s.wrapping_add(safe_value(p, t, *k, reach)?); } s }
            Expr::World(k) => *t.ext.get(k).unwrap_or(&0),
            Expr::Spec(_, b) | Expr::Yield(b) => ev(p, t, b, reach)?,
            Expr::Div(a, b) => { let x = ev(p, t, a, reach)?; let y = ev(p, t, b, reach)?; if y == 0 { return None; } x.wrapping_div(y) }
        })
    }
    reach.insert(k);
    match p.kind(k) {
        Kind::Input => Some(*t.inputs.get(&k).unwrap_or(&0)),
        Kind::External => Some(*t.ext.get(&k).unwrap_or(&0)),
        _ => ev(p, t, &p.nodes[k as usize].expr.clone(), reach),
    }
}
/// everything a speculative read may touch: the speculatively read keys and whatever they read
fn spec_closure(p: &Program) -> BTreeSet<u32> {
    let mut out = BTreeSet::new();
    let mut todo = p.spec_targets();
    while let Some(k) = todo.pop() { if out.insert(k) { let mut r = vec![]; p.nodes[k as usize].expr.reads(&mut r); todo.extend(r); } }
    out
}

/// every caller that was in flight when the owner of the entries was cut / panicked has to complete: with the from-scratch
/// value, or (panic run) with the injected panic.  false = one of them hangs.
async fn join_companions(comps: Vec<Comp>, j: &mut Judge<'_>, idx: usize, panic_run: bool, out: &mut RunOut) -> bool {
    let mut all = true;
    let deadline = tokio::time::Instant::now() + Duration::from_millis(2500);
    for mut c in comps {
        match tokio::time::timeout_at(deadline, &mut c.h).await {
            Ok(Ok(vs)) => { for (k, v) in c.keys.iter().zip(vs) { let exp = j.expected(*k); if v != exp { out.mismatches.push((idx, *k, v.to_string(), exp)); } } }
            Ok(Err(je)) => {
                let m = if je.is_panic() { payload_str(&je.into_panic()) } else { "cancelled".to_string() };
                if !(panic_run && (m.contains("injected executor panic") || m.contains("JoinError"))) { out.fails.push(("C05:later-panic:waiter".into(), format!("op {idx}: the caller in flight ({}, keys {:?}) panicked: {}", c.what, c.keys, m.chars().take(160).collect::<String>()))); }
            }
            Err(_) => {
                c.h.abort();
                let parked: Vec<String> = sink().parked_now().iter().map(|(_, k)| *k).collect::<BTreeSet<u32>>().iter().map(|k| k.to_string()).collect();
                let lab = out.cut_label.clone().unwrap_or_default();
                out.fails.push(("C05:hang:waiter".into(), format!("op {idx}: a second caller ({}, keys {:?}) was in flight and parked on a computing entry of the target (entries owned then: {:?}) when the target {} at {lab}; it was never cancelled itself but never completed{}",
                    c.what, c.keys, out.owned_at_gate, if panic_run { "unwound with the executor's panic" } else { "was dropped" },
                    if parked.is_empty() { String::new() } else { format!(" (callers still parked on the entry of key(s) [{}]: the entry went away without its waiters being woken)", parked.join(",")) })));
                all = false;
            }
        }
    }
    all
}

/// A quiescent point: nothing is in flight (the fault happened, detached continuations finished, or a later op completed).
/// The digest of every key is judged by the state-invariant oracle (eng::state_invariant_check: verified nodes hold
/// from-scratch values, backward edges = inverse of the recorded dependencies, firewall sets of verified nodes follow from
/// the dependencies) and appended, after `opline`, to the run's input for the Lean checker `drv_engine inv`.
/// An input / external whose last write was cut may have either value: the stored value of its node decides.
async fn dump_point<V: Variant>(engine: &Arc<Engine<V>>, j: &Judge<'_>, opline: String, idx: usize, out: &mut RunOut) {
    if !STATE.load(Ordering::Relaxed) { return; }
    let p = j.p;
    if !p.spec_targets().is_empty() || !is_acyclic(p) { return; }
    let digest = match tokio::time::timeout(Duration::from_secs(4), state_digest(engine, p)).await { Ok(d) => d, Err(_) => { out.fails.push(("C05:state-invariant:dump-hang".into(), format!("op {idx}: the read-only dump did not complete"))); return; } };
    out.state_dumps += 1;
    let leaves = digest_leaf_values(&digest);
    let mut t = j.truth_now();
    for (k, allowed) in &j.uncertain_in { if let Some(v) = leaves.get(k) { if allowed.contains(v) { t.inputs.insert(*k, *v); } } }
    for (k, allowed) in &j.uncertain_ex { if let Some(v) = leaves.get(k) { if allowed.contains(v) { t.ext.insert(*k, *v); } } }
    // an input that was never set has no from-scratch value; neither has anything that reads it
    let value_of = |k: u32| -> Option<i64> {
        fn defined(p: &Program, t: &Truth, k: u32) -> bool { match p.kind(k) { Kind::Input => t.inputs.contains_key(&k), Kind::External => true, _ => { let mut r = vec![]; p.nodes[k as usize].expr.reads(&mut r); r.iter().all(|x| defined(p, t, *x)) } } }
        if !defined(p, &t, k) { return None; }
        std::panic::catch_unwind(AssertUnwindSafe(|| from_scratch(p, &t, k))).ok()
    };
    for (which, d) in state_invariant_check(p, &digest, &value_of) {
        let sig = format!("C05:state-invariant:{which}");
        if out.fails.iter().filter(|f| f.0 == sig).count() < 2 { out.fails.push((sig, format!("op {idx} (`{}`), at a quiescent point{}: {d}", opline.chars().take(60).collect::<String>(), out.cut_label.as_ref().map(|l| format!(" after the fault at {l}")).unwrap_or_default()))); }
    }
    out.inv.push(opline);
    out.inv.push(format!("#D {digest}"));
}

/// Runs the history with one fault at the target op.  All awaits on the engine go through `drive` (timeouts = hang).
async fn run_fault<V: Variant>(case: &Case, target: usize, fault: &Fault, kv: &MemKv, trace_on: bool) -> RunOut {
    let mut out = RunOut::default();
    let s = sink();
    s.reset();
    s.st.lock().unwrap().trace_on = trace_on;
    let _ = take_panics();
    let sh = Arc::new(Shared::default());
    *sh.program.write().unwrap() = case.program.clone();
    let engine = V::make(&sh, kv).await;
    let p = &case.program;
    let mut j = Judge::new(p);
    let mut drop_panic: Option<String> = None;
    let mut hang = false;
    let mut held = false;
    macro_rules! fail { ($sig:expr, $($a:tt)*) => { out.fails.push(($sig.to_string(), format!($($a)*))) }; }

    // a judged round (no fault); returns false on hang/panic
    async fn round<V: Variant>(engine: &Arc<Engine<V>>, sh: &Arc<Shared>, ks: &[u32], j: &mut Judge<'_>, idx: usize, out: &mut RunOut) -> bool {
        let mut dp = None;
        let te = match drive(engine.clone().tracked(), false, &mut dp).await { Driven::Done(t) => t, _ => { out.fails.push(("C05:hang".into(), format!("op {idx}: tracked() did not complete (phase lock never released)"))); return false; } };
        let spec_family = !j.p.spec_targets().is_empty();
        let log_from = sh.log.lock().unwrap().len();
        let ks: Vec<u32> = ks.iter().copied().filter(|k| j.askable(*k)).collect();
        let ks = &ks[..];
        for k in ks {
            // an input whose last write was cut may legitimately have either value: the first read decides
            let r = drive(AssertUnwindSafe(query_key(sh, &te, *k)).catch_unwind(), false, &mut dp).await;
            match r {
                Driven::Done(Ok(v)) => {
                    out.last_vals.insert(*k, v);
                    if let Some(allowed) = j.uncertain_in.remove(k) { if allowed.contains(&v) { j.truth.inputs.insert(*k, v); } }
                    if let Some(allowed) = j.uncertain_ex.remove(k) { if allowed.contains(&v) { j.truth.ext.insert(*k, v); } }
                    let exp = j.expected(*k);
                    if v != exp { out.mismatches.push((idx, *k, v.to_string(), exp)); }
                }
                Driven::Done(Err(pl)) => { out.fails.push(("C05:later-panic".into(), format!("op {idx}: query {k} panicked: {}", payload_str(&pl).chars().take(200).collect::<String>()))); return false; }
                _ => { out.fails.push(("C05:hang".into(), format!("op {idx}: query {k} did not complete within 4 s"))); return false; }
            }
        }
        drop(te);
        if spec_family && j.uncertain_in.is_empty() && j.uncertain_ex.is_empty() {
            // dependency order respected: the engine replays the recorded callees of a node in the order the executor read them
            // and stops at the first one that changed, so a node is (re-)executed only if the from-scratch evaluation of the
            // roots reaches it (or a speculative read touches it) - the programs of this family have no firewall / projection
            let mut allowed = j.reach(ks);
            allowed.extend(spec_closure(j.p));
            let ran: BTreeSet<u32> = { let lg = sh.log.lock().unwrap(); lg[log_from.min(lg.len())..].iter().map(|e| e.key).collect() };
            let extra: Vec<u32> = ran.difference(&allowed).copied().collect();
            if !extra.is_empty() { out.fails.push(("C05:executor-dropped-read:order".into(), format!("op {idx}: round {ks:?} executed {extra:?}, which the from-scratch evaluation of these roots never reaches in the present state (reached: {:?}): the callees of a node were replayed in another order than its executor read them", allowed))); }
        }
        true
    }
    // resolve uncertain inputs/externals first by reading them (inputs first: they are leaves)
    async fn probe<V: Variant>(engine: &Arc<Engine<V>>, sh: &Arc<Shared>, j: &mut Judge<'_>, idx: usize, out: &mut RunOut) -> bool {
        let ks: Vec<u32> = j.uncertain_in.keys().chain(j.uncertain_ex.keys()).copied().collect();
        if ks.is_empty() { return true; }
        round(engine, sh, &ks, j, idx, out).await
    }
    async fn session<V: Variant>(engine: &Arc<Engine<V>>, sh: &Arc<Shared>, ws: &[Write], idx: usize, out: &mut RunOut, soft: bool) -> bool {
        let mut dp = None;
        let fut = async {
            for w in ws { if let Write::World(k, v) = w { sh.world.lock().unwrap().insert(*k, *v); } }
            let mut sess = engine.input_session().await;
            for w in ws { match w { Write::Set(k, v) => { let _ = sess.set_input(In(*k), *v).await; } Write::Refresh => { sess.refresh::<Ex>().await; } Write::World(..) => {} } }
            sess.commit().await;
        };
        let fut = AssertUnwindSafe(fut).catch_unwind();
        let mut fut = Box::pin(fut);
        if soft {
            // a continuation is being held: if the session turns out to wait for it, let it go on
            let early = tokio::select! { biased; v = &mut fut => Some(v), _ = tokio::time::sleep(Duration::from_millis(150)) => None };
            match early {
                Some(Ok(())) => return true,
                Some(Err(pl)) => { out.fails.push(("C05:later-panic".into(), format!("op {idx}: session panicked: {}", payload_str(&pl).chars().take(200).collect::<String>()))); return false; }
                None => { out.blocked_on_held = true; sink().release(); }
            }
        }
        match drive(fut, false, &mut dp).await {
            Driven::Done(Ok(())) => true,
            Driven::Done(Err(pl)) => { out.fails.push(("C05:later-panic".into(), format!("op {idx}: session panicked: {}", payload_str(&pl).chars().take(200).collect::<String>()))); false }
            _ => { out.fails.push(("C05:hang".into(), format!("op {idx}: session did not complete within 4 s (phase lock / pipeline)"))); false }
        }
    }

    // state dumps: runs with an injected fault whose continuations are not kept suspended (every point judged is quiescent)
    let state_run = *fault != Fault::Count && !fault.hold();
    let mut ok = true;
    for (idx, op) in case.ops.iter().enumerate() {
        if !ok { break; }
        if idx != target {
            match op {
                Op::Session(ws) => { ok = session(&engine, &sh, ws, idx, &mut out, held).await; j.session_applied(ws); }
                Op::Round(ks) => { ok = probe(&engine, &sh, &mut j, idx, &mut out).await && round(&engine, &sh, ks, &mut j, idx, &mut out).await; }
            }
            if ok && state_run && !held { dump_point(&engine, &j, op.render(), idx, &mut out).await; }
            if held && matches!(op, Op::Session(_)) {
                // the suspended guarded continuation is released only now (after one more committed session)
                s.release(); held = false; settle().await;
                let q = s.quiescence();
                if !q.is_empty() { fail!(format!("C05:quiescence:{}", q[0].split(|c| c == '[' || c == '(').next().unwrap()), "after the held continuation finished: {}", q.join(" ")); }
            }
            continue;
        }
        // ------------------------------------------------------------------ the target
        sh.log.lock().unwrap().clear();
        match (op, fault) {
            (Op::Round(ks), Fault::Count) | (Op::Round(ks), Fault::Cut { .. }) | (Op::Round(ks), Fault::CutAt { .. }) => {
                ok = probe(&engine, &sh, &mut j, idx, &mut out).await;
                if !ok { break; }
                let te = engine.clone().tracked().await;
                let cutting = fault.is_cut();
                s.set_mode(fault.mode());
                let sh2 = sh.clone();
                let te2 = &te;
                let mut comps: Vec<Comp> = vec![];
                let r = if cutting && fault.waiters() {
                    let mut crng = Rng::new(0xC05 ^ (idx as u64) << 20 ^ match fault { Fault::Cut { i, .. } => *i, Fault::CutAt { occ, .. } => *occ, _ => 0 });
                    let (r, c) = drive_gate(async move { let mut vs = vec![]; for k in ks { vs.push(query_key(&sh2, te2, *k).await); } vs }, true,
                        || { let held = s.held_keys(); out.owned_at_gate = held.clone(); spawn_companions::<V>(&engine, &sh, plan_companions(p, ks, &held, &mut crng, &|k| j.askable(k))) }, &mut drop_panic).await;
                    comps = c; r
                } else { drive(async move { let mut vs = vec![]; for k in ks { vs.push(query_key(&sh2, te2, *k).await); } vs }, cutting, &mut drop_panic).await };
                out.pauses = s.st.lock().unwrap().labels.clone();
                out.cut_label = s.st.lock().unwrap().reached.clone();
                out.completed_before_cut = s.st.lock().unwrap().completed.clone();
                s.set_mode(Mode::Off);
                match r {
                    Driven::Done(vs) => { for (k, v) in ks.iter().zip(vs) { let exp = j.expected(*k); if v != exp { out.mismatches.push((idx, *k, v.to_string(), exp)); } } drop(te); }
                    Driven::Timeout => { fail!("C05:hang", "op {idx}: target round did not complete"); hang = true; }
                    Driven::Cut => {
                        drop(te);
                        let hold = fault.hold();
                        if hold && fault.requery() {
                            // issue the same round again right away: it must wait for the suspended continuation and be woken by it
                            for _ in 0..4 { tokio::task::yield_now().await; }
                            let te2 = engine.clone().tracked().await;
                            let sh3 = sh.clone();
                            let te3 = &te2;
                            let fut = AssertUnwindSafe(async move { let mut vs = vec![]; for k in ks { vs.push(query_key(&sh3, te3, *k).await); } vs }).catch_unwind();
                            match drive_soft(fut, true, &mut out.blocked_on_held, &mut drop_panic).await {
                                Driven::Done(Ok(vs)) => { for (k, v) in ks.iter().zip(vs) { let exp = j.expected(*k); if v != exp { out.mismatches.push((idx, *k, v.to_string(), exp)); } } }
                                Driven::Done(Err(pl)) => { fail!("C05:later-panic", "op {idx}: the round issued again while the continuation was suspended panicked: {}", payload_str(&pl).chars().take(160).collect::<String>()); }
                                _ => { fail!("C05:hang:requery", "op {idx}: the round issued again while the detached continuation of the cut-short one was still publishing never completed (waiter not woken)"); hang = true; }
                            }
                            drop(te2);
                            s.release(); settle().await;
                        } else if hold { held = true; out.held_mode = true; for _ in 0..8 { tokio::task::yield_now().await; } } else { s.release(); settle().await; }
                    }
                }
                if !join_companions(comps, &mut j, idx, false, &mut out).await { hang = true; }
            }
            (Op::Round(ks), Fault::Panic(pk)) | (Op::Round(ks), Fault::PanicW(pk)) => {
                ok = probe(&engine, &sh, &mut j, idx, &mut out).await;
                if !ok { break; }
                let te = engine.clone().tracked().await;
                *sh.panic_key.lock().unwrap() = Some(*pk);
                let _ = take_panics();
                let sh2 = sh.clone();
                let te2 = &te;
                let mut comps: Vec<Comp> = vec![];
                let r = if fault.waiters() {
                    s.set_mode(fault.mode());
                    let mut crng = Rng::new(0xC05 ^ (idx as u64) << 20 ^ (*pk as u64) << 8);
                    let (r, c) = drive_gate(AssertUnwindSafe(async move { let mut vs = vec![]; for k in ks { vs.push(query_key(&sh2, te2, *k).await); } vs }).catch_unwind(), false,
                        || { let held = s.held_keys(); out.owned_at_gate = held.clone(); spawn_companions::<V>(&engine, &sh, plan_companions(p, ks, &held, &mut crng, &|k| j.askable(k))) }, &mut drop_panic).await;
                    s.set_mode(Mode::Off);
                    s.release();
                    comps = c; r
                } else { drive(AssertUnwindSafe(async move { let mut vs = vec![]; for k in ks { vs.push(query_key(&sh2, te2, *k).await); } vs }).catch_unwind(), false, &mut drop_panic).await };
                *sh.panic_key.lock().unwrap() = None;
                let ran = sh.log.lock().unwrap().iter().any(|e| e.key == *pk);
                match r {
                    Driven::Done(Err(pl)) => {
                        let m = payload_str(&pl);
                        if !(m.contains("injected executor panic") || m.contains("JoinError")) { fail!("C05:panic-payload", "op {idx}: the caller saw a different panic: {}", m.chars().take(200).collect::<String>()); }
                        out.cut_label = Some(format!("panic@{pk}"));
                    }
                    Driven::Done(Ok(_)) => { if ran { fail!("C05:panic-swallowed", "op {idx}: executor of key {pk} panicked but the query returned a value to the caller"); } }
                    _ => { fail!("C05:hang", "op {idx}: target round with panicking executor {pk} did not complete"); hang = true; }
                }
                drop(te);
                settle().await;
                if !join_companions(comps, &mut j, idx, true, &mut out).await { hang = true; }
                let hooks = take_panics();
                for h in hooks { if !(h.contains("injected executor panic") || h.contains("JoinError")) { fail!("C05:later-panic", "op {idx}: additional panic while the injected one propagated: {h}"); } }
            }
            (Op::Session(ws), _) => {
                // call-by-call; the pause counter runs across all calls of the session
                let commit_after = fault.commit_after();
                let hold_call = fault.hold();
                s.set_mode(fault.mode());
                let ext_before: BTreeMap<u32, i64> = (0..p.nodes.len() as u32).filter(|k| p.kind(*k) == Kind::External).map(|k| (k, j.ext_now(k))).collect();
                for w in ws { if let Write::World(k, v) = w { sh.world.lock().unwrap().insert(*k, *v); j.world.insert(*k, *v); } }
                let cutting = fault.is_cut();
                let mut was_cut = false;
                let mut applied_refresh = false;
                let mut applied_session: Vec<Write> = vec![];
                match drive(engine.input_session(), cutting, &mut drop_panic).await {
                    Driven::Timeout => { fail!("C05:hang", "op {idx}: input_session() did not complete"); hang = true; }
                    Driven::Cut => { was_cut = true; /* no session object exists */ }
                    Driven::Done(mut sess) => {
                        let mut applied: Vec<Write> = vec![];
                        let applied_ref = &mut applied_session;
                        for w in ws {
                            if was_cut && !commit_after { break; }
                            match w {
                                Write::Set(k, v) => match (if was_cut { drive_soft(sess.set_input(In(*k), *v), hold_call, &mut out.blocked_on_held, &mut drop_panic).await } else { drive(sess.set_input(In(*k), *v), cutting, &mut drop_panic).await }) {
                                    Driven::Done(_) => { applied.push(w.clone()); applied_ref.push(w.clone()); j.session_applied_partial(std::slice::from_ref(w)); }
                                    Driven::Cut => { was_cut = true; out.cut_write = Some(w.clone()); let old = j.truth.inputs.get(k).copied(); j.uncertain_in.insert(*k, old.into_iter().chain(std::iter::once(*v)).collect()); if hold_call { out.held_mode = true; for _ in 0..4 { tokio::task::yield_now().await; } } else { s.release(); settle().await; } }
                                    Driven::Timeout => { fail!("C05:hang", "op {idx}: set_input did not complete"); hang = true; break; }
                                },
                                Write::Refresh => match (if was_cut { drive_soft(sess.refresh::<Ex>(), hold_call, &mut out.blocked_on_held, &mut drop_panic).await } else { drive(sess.refresh::<Ex>(), cutting, &mut drop_panic).await }) {
                                    Driven::Done(_) => { applied_refresh = true; applied.push(w.clone()); applied_ref.push(w.clone()); j.session_applied_partial(std::slice::from_ref(w)); }
                                    Driven::Cut => { was_cut = true; out.cut_write = Some(w.clone()); if hold_call { out.held_mode = true; for _ in 0..4 { tokio::task::yield_now().await; } } else { s.release(); settle().await; } }
                                    Driven::Timeout => { fail!("C05:hang", "op {idx}: refresh did not complete"); hang = true; break; }
                                },
                                Write::World(..) => {}
                            }
                        }
                        if !hang {
                            if was_cut && !commit_after { drop(sess); }
                            else {
                                let cfut = sess.commit();
                                let r = if hold_call && was_cut {
                                    // the cut call's continuation is still suspended: commit now; if the commit waits for it, let it go
                                    let mut cfut = Box::pin(cfut);
                                    let early = tokio::select! { biased; v = &mut cfut => Some(v), _ = tokio::time::sleep(Duration::from_millis(100)) => None };
                                    match early { Some(()) => Driven::Done(()), None => { out.blocked_on_held = true; s.release(); drive(cfut, false, &mut drop_panic).await } }
                                } else { drive(cfut, cutting && !was_cut, &mut drop_panic).await };
                                match r {
                                    Driven::Done(()) => {}
                                    Driven::Cut => { was_cut = true; }
                                    Driven::Timeout => { fail!("C05:hang", "op {idx}: commit did not complete"); hang = true; }
                                }
                            }
                        }
                    }
                }
                out.pauses = s.st.lock().unwrap().labels.clone();
                out.cut_label = s.st.lock().unwrap().reached.clone();
                s.set_mode(Mode::Off);
                out.applied_writes = ws.iter().filter(|w| matches!(w, Write::World(..))).cloned().chain(applied_session.iter().cloned()).collect();
                if was_cut {
                    s.release(); settle().await;
                    // the world cells were written by the harness; whether the refresh took effect is decided by the first read
                    if ws.iter().any(|w| matches!(w, Write::World(..))) && !(applied_refresh) {
                        for (k, old) in &ext_before { let new = *j.world.get(k).unwrap_or(&0); j.truth.ext.insert(*k, *old); j.uncertain_ex.insert(*k, vec![*old, new]); }
                    }
                }
            }
        }
        out.execs_in_target = sh.log.lock().unwrap().iter().map(|e| e.key).collect();
        if hang { ok = false; break; }
        if let Some(m) = &drop_panic { fail!(format!("C05:drop-panic:{}", if !s.st.lock().unwrap().unguarded_bp_batch.is_empty() { "bp.up.before".to_string() } else { out.cut_label.clone().unwrap_or_default().split('@').next().unwrap().to_string() }), "op {idx}: dropping the future at {} panicked: {}", out.cut_label.clone().unwrap_or_default(), m.chars().take(160).collect::<String>()); }
        if *fault != Fault::Count && !held {
            let q = s.quiescence();
            if !q.is_empty() {
                let what = q[0].split(|c| c == '[' || c == '(').next().unwrap().to_string();
                let lab = out.cut_label.clone().unwrap_or_default().split('@').next().unwrap().to_string();
                // a batch created by `done_backward_projection` before its guarded block and never submitted is F11 wherever the
                // caller's future was cut (a sibling's pause can make the `upgrade_to_exclusive().await` of F11 block for real)
                let f11 = !s.st.lock().unwrap().unguarded_bp_batch.is_empty();
                let sig = if what == "batches" { format!("C05:batch-leak:{}", if f11 { "bp.up.before".to_string() } else { lab }) } else { format!("C05:quiescence:{what}") };
                println!("W {sig}");
                fail!(sig, "op {idx}: after the fault at {} and after detached continuations ran: {}", out.cut_label.clone().unwrap_or_default(), q.join(" "));
            }
            out.summary = s.summary();
            s.mark(&format!("0 settled\t{}", s.model_summary()));
            if state_run {
                // the target as far as it took effect: the writes of a session that were applied (a cut write counts if the
                // stored input shows it), the round that was cut short / unwound by the panic
                let line = match op {
                    Op::Round(_) => op.render(),
                    Op::Session(_) => {
                        let mut ws = out.applied_writes.clone();
                        if let Some(Write::Set(k, v)) = &out.cut_write { if j.uncertain_in.contains_key(k) { ws.push(Write::Set(*k, *v)); } }
                        let leaves = digest_leaf_values(&state_digest(&engine, p).await);
                        ws.retain(|w| match w { Write::Set(k, v) => !j.uncertain_in.contains_key(k) || leaves.get(k) == Some(v), _ => true });
                        Op::Session(ws).render()
                    }
                };
                dump_point(&engine, &j, line, idx, &mut out).await;
            }
            // the cut-short / panicked round is issued again
            if let Op::Round(ks) = op { ok = probe(&engine, &sh, &mut j, idx, &mut out).await && round(&engine, &sh, ks, &mut j, idx, &mut out).await;
                if ok && state_run { dump_point(&engine, &j, op.render(), idx, &mut out).await; } }
        }
    }
    if held { s.release(); settle().await; }
    if ok {
        // a final complete round: every key against the oracle
        let ks = all_keys_round(p);
        ok = probe(&engine, &sh, &mut j, case.ops.len(), &mut out).await && round(&engine, &sh, &ks, &mut j, case.ops.len(), &mut out).await;
        if ok && state_run { dump_point(&engine, &j, Op::Round(ks.iter().copied().filter(|k| j.askable(*k)).collect()).render(), case.ops.len(), &mut out).await; }
    }
    settle().await;
    s.mark(&format!("0 end\t{}", s.model_summary()));
    for h in take_panics() {
        if matches!(fault, Fault::Panic(_) | Fault::PanicW(_)) && (h.contains("injected executor panic") || h.contains("JoinError")) { continue; }
        if h.contains("InputSession transaction has already been committed") {
            fail!("C05:later-panic:set-input-after-commit", "panic hook: {h}");
            // the guarded continuation died with that panic: its `guarded(entered != completed)` entry has the same cause
            for f in out.fails.iter_mut() { if f.0 == "C05:quiescence:guarded" { f.0 = "C05:quiescence:guarded:set-input-after-commit".into(); } }
        } else if h.contains("WriteBuffer dropped while still active") && out.cut_label.is_some() {
            // the active batch was dropped by a JoinSet child that the runtime aborted after the caller's drop: the same
            // event as a panic of the drop itself
            let f11 = !s.st.lock().unwrap().unguarded_bp_batch.is_empty();
            fail!(format!("C05:drop-panic:{}", if f11 { "bp.up.before".to_string() } else { out.cut_label.clone().unwrap_or_default().split('@').next().unwrap().to_string() }), "panic hook: {h}");
        } else { fail!("C05:later-panic", "panic hook: {h}"); }
    }
    out.detached = s.st.lock().unwrap().guard_detach;
    out.trace = std::mem::take(&mut s.st.lock().unwrap().trace);
    // ------------------------------------------------------------------ shutdown
    let sc = Arc::strong_count(&engine);
    if ok && sc != 1 { fail!("C05:engine-leak", "after the history {} extra strong references to the engine are alive (a stuck task holds it)", sc - 1); }
    if ok {
        let (tx, rx) = std::sync::mpsc::channel();
        let h = tokio::runtime::Handle::current();
        std::thread::spawn(move || { let _g = h.enter(); drop(engine); let _ = tx.send(()); });
        let t0 = std::time::Instant::now();
        let mut done = false;
        while t0.elapsed() < Duration::from_secs(6) { if rx.try_recv().is_ok() { done = true; break; } tokio::time::sleep(Duration::from_millis(1)).await; }
        if !done { fail!("C05:shutdown-hang", "dropping the engine did not complete within 6 s"); }
        for h in take_panics() { fail!("C05:shutdown-panic", "panic during shutdown: {h}"); }
        if done && V::NAME == "db" {
            // persistence: a second engine on the same store must answer every key like the oracle
            let sh2 = Arc::new(Shared::default());
            *sh2.program.write().unwrap() = case.program.clone();
            *sh2.world.lock().unwrap() = sh.world.lock().unwrap().clone();
            let e2 = V::make(&sh2, kv).await;
            let mut dp = None;
            let te = e2.clone().tracked().await;
            for k in all_keys_round(p) {
                if !j.askable(k) { continue; }
                match drive(AssertUnwindSafe(query_key(&sh2, &te, k)).catch_unwind(), false, &mut dp).await {
                    Driven::Done(Ok(v)) => { let exp = out.last_vals.get(&k).copied().unwrap_or_else(|| j.expected(k)); if v != exp { fail!(if out.held_mode { "C05:persist-value:after-held-continuation" } else { "C05:persist-value" }, "after shutdown and re-open, key {k} = {v}, but the engine answered {exp} before the shutdown (the store misses committed batches)"); break; } }
                    Driven::Done(Err(pl)) => { fail!("C05:persist-panic", "after shutdown and re-open, query {k} panicked: {}", payload_str(&pl).chars().take(160).collect::<String>()); break; }
                    _ => { fail!("C05:persist-hang", "after re-open query {k} hung"); break; }
                }
            }
            drop(te);
            let (tx, rx) = std::sync::mpsc::channel();
            let h = tokio::runtime::Handle::current();
            std::thread::spawn(move || { let _g = h.enter(); drop(e2); let _ = tx.send(()); });
            let t0 = std::time::Instant::now();
            while t0.elapsed() < Duration::from_secs(6) { if rx.try_recv().is_ok() { break; } tokio::time::sleep(Duration::from_millis(1)).await; }
            let _ = take_panics();
        }
    } else { std::mem::forget(engine); }
    out
}

impl Judge<'_> {
    fn session_applied_partial(&mut self, ws: &[Write]) {
        for w in ws {
            match w {
                Write::Set(k, v) => { self.truth.inputs.insert(*k, *v); self.uncertain_in.remove(k); }
                Write::Refresh => { for k in 0..self.p.nodes.len() as u32 { if self.p.kind(k) == Kind::External { self.truth.ext.insert(k, *self.world.get(&k).unwrap_or(&0)); self.uncertain_ex.remove(&k); } } }
                Write::World(..) => {}
            }
        }
    }
}

fn run_blocking<V: Variant>(case: &Case, target: usize, fault: &Fault, trace_on: bool) -> RunOut {
    let rt = tokio::runtime::Builder::new_current_thread().enable_all().build().unwrap();
    let kv = MemKv::default();
    let r = std::panic::catch_unwind(AssertUnwindSafe(|| rt.block_on(run_fault::<V>(case, target, fault, &kv, trace_on))));
    let out = match r {
        Ok(o) => o,
        Err(p) => { let mut o = RunOut::default(); o.fails.push(("C05:harness-panic".into(), format!("uncaught panic in the run: {}", payload_str(&p).chars().take(200).collect::<String>()))); o }
    };
    rt.shutdown_timeout(Duration::from_millis(200));
    out
}

// ------------------------------------------------------------------------------------------------
// generators (own history generator: world writes only together with a refresh)
// ------------------------------------------------------------------------------------------------
fn gen_case(r: &mut Rng, idx: u64) -> Case {
    let cfg = GenCfg { max_keys: if idx % 3 == 0 { 5 } else { 8 }, max_ops: 6, firewalls: true, externals: idx % 3 == 1, unordered: idx % 5 == 4, cycles: false };
    let p = gen_program(r, &cfg);
    let n = p.nodes.len() as u32;
    let inputs: Vec<u32> = (0..n).filter(|k| p.kind(*k) == Kind::Input).collect();
    let exts: Vec<u32> = (0..n).filter(|k| p.kind(*k) == Kind::External).collect();
    let mut ops = vec![];
    let mut ws: Vec<Write> = inputs.iter().map(|k| Write::Set(*k, r.below(3) as i64)).collect();
    for e in &exts { ws.push(Write::World(*e, r.below(3) as i64)); }
    ops.push(Op::Session(ws));
    let roots: Vec<u32> = (0..n).filter(|k| !matches!(p.kind(*k), Kind::Input)).collect();
    let top = |r: &mut Rng| -> u32 { if r.chance(2, 3) { n - 1 - r.below(n.min(3) as u64) as u32 } else { *r.pick(&roots) } };
    ops.push(Op::Round(vec![n - 1]));
    let m = r.range(2, 4);
    for _ in 0..m {
        let mut ws = vec![];
        for _ in 0..r.range(1, 2) { ws.push(Write::Set(*r.pick(&inputs), r.below(4) as i64)); }
        if !exts.is_empty() && r.chance(1, 2) { ws.push(Write::World(*r.pick(&exts), r.below(4) as i64)); ws.push(Write::Refresh); }
        ops.push(Op::Session(ws));
        let ks: Vec<u32> = (0..r.range(1, 2)).map(|_| top(r)).collect();
        ops.push(Op::Round(ks));
    }
    // "also after further input changes": every input moves to a value it never had
    ops.push(Op::Session(inputs.iter().map(|k| Write::Set(*k, 7 + *k as i64)).collect()));
    ops.push(Op::Round(vec![n - 1]));
    Case { program: p, ops }
}

/// The "an executor drops one of its own reads" family: node `top` starts a speculative read of a slow node (pending at
/// its first poll), then reads a guard and - only if the guard is non-zero - a node that divides by the guard; the
/// speculative read is dropped afterwards (`UndoRegisterCallee` undefused -> `abort_callee`).  The order guard < guarded
/// read is causal.  The history flips the guard to 0 and back; every later query must return the from-scratch value, must
/// not panic (the division is never asked for while the guard is 0) and must not execute a node from-scratch never reaches.
fn gen_spec_case(r: &mut Rng, _idx: u64) -> Case {
    let rd = |k: u32| Box::new(Expr::Read(k));
    let mut nodes: Vec<NodeDef> = vec![];
    let inp = || NodeDef { kind: Kind::Input, default: 0, expr: Expr::Const(0) };
    let (g, d, sl) = (0u32, 1u32, 2u32);
    nodes.push(inp()); nodes.push(inp()); nodes.push(inp());
    // the slow node(s)
    let slow_kind = if r.chance(1, 4) { Kind::Firewall } else { Kind::Normal };
    let slow = nodes.len() as u32;
    nodes.push(NodeDef { kind: slow_kind, default: kind_default(slow_kind), expr: Expr::Yield(if r.chance(1, 2) { rd(sl) } else { Box::new(Expr::Add(rd(sl), Box::new(Expr::Const(1)))) }) });
    // the guard: the input itself or a node derived from it (same zero-ness)
    let guard = if r.chance(1, 2) { g } else { let k = nodes.len() as u32; nodes.push(NodeDef { kind: Kind::Normal, default: DEFAULT_NM, expr: Expr::Read(g) }); k };
    // the guarded node: only valid while the guard is non-zero
    let x = nodes.len() as u32;
    nodes.push(NodeDef { kind: Kind::Normal, default: DEFAULT_NM, expr: Expr::Div(if r.chance(1, 2) { rd(d) } else { Box::new(Expr::Add(rd(d), Box::new(Expr::Const(12)))) }, rd(guard)) });
    // the executor with the dropped read
    let guarded = Expr::IfEq(rd(guard), 0, Box::new(Expr::Const(0)), rd(x));
    let body = match r.below(4) {
        0 => Expr::Spec(slow, Box::new(guarded)),
        1 => Expr::Add(rd(d), Box::new(Expr::Spec(slow, Box::new(guarded)))),
        2 => Expr::Spec(slow, Box::new(Expr::Add(rd(sl), Box::new(guarded)))),
        _ => Expr::Spec(slow, Box::new(Expr::Add(Box::new(guarded), Box::new(Expr::Const(3))))),
    };
    let top = nodes.len() as u32;
    nodes.push(NodeDef { kind: Kind::Normal, default: DEFAULT_NM, expr: body });
    let root = if r.chance(1, 2) { let k = nodes.len() as u32; nodes.push(NodeDef { kind: Kind::Normal, default: DEFAULT_NM, expr: Expr::Add(rd(top), Box::new(Expr::Const(1))) }); k } else { top };
    let p = Program { nodes };
    let mut ops = vec![];
    ops.push(Op::Session(vec![Write::Set(g, 1 + r.below(3) as i64), Write::Set(d, 6 * (1 + r.below(4) as i64)), Write::Set(sl, r.below(3) as i64)]));
    ops.push(Op::Round(vec![root]));
    let mut gv = 1i64;
    for _ in 0..r.range(2, 3) {
        gv = if gv != 0 { 0 } else { 1 + r.below(3) as i64 };
        let mut ws = vec![Write::Set(g, gv)];
        if r.chance(1, 3) { ws.push(Write::Set(sl, 3 + r.below(3) as i64)); }
        if r.chance(1, 3) { ws.push(Write::Set(d, 6 * (1 + r.below(4) as i64))); }
        ops.push(Op::Session(ws));
        ops.push(Op::Round(vec![root]));
    }
    ops.push(Op::Session(vec![Write::Set(g, 7), Write::Set(d, 8), Write::Set(sl, 9)]));
    ops.push(Op::Round(vec![root]));
    Case { program: p, ops }
}

// ------------------------------------------------------------------------------------------------
// child: all faults of one case
// ------------------------------------------------------------------------------------------------
fn esc(s: &str) -> String { s.replace('\\', "\\\\").replace('\t', "\\t").replace('\n', "\\n") }

fn is_guarded_label(l: &str) -> bool {
    let b = l.split('@').next().unwrap();
    b.starts_with("x.g.") || b.starts_with("sc.") || b.starts_with("c.g.") || b.starts_with("cq.") || b == "p.after" || b.starts_with("bp.g.") || b.starts_with("in.set.g") || b.starts_with("in.ref.g") || b.starts_with("in.commit") || b.starts_with("si.")
}

fn child_case<V: Variant>(case: &Case, max_cuts: u64, seed: u64, only: Option<(usize, Fault)>, resume_after: Option<String>, trace_every: u64, max_hangs: u64, waiters_every: u64) {
    use std::io::Write as _;
    let so = std::io::stdout();
    let emit = |l: String| { let mut o = so.lock(); writeln!(o, "{l}").unwrap(); o.flush().unwrap(); };
    register_ids(&case.program);
    let mut rng = Rng::new(seed ^ 0xC05);
    let targets: Vec<usize> = match &only { Some((t, _)) => vec![*t], None => (1..case.ops.len()).collect() };
    // after a child died in a run, the parent restarts it with `--resume-after <that run>`: everything up to and
    // including that run is skipped (the enumeration is a deterministic function of case and seed)
    let mut skipping = resume_after.is_some();
    // baseline: the whole history without a fault
    emit(format!("P baseline"));
    let base = run_blocking::<V>(case, usize::MAX, &Fault::Count, false);
    let base_mis: BTreeSet<(usize, u32)> = base.mismatches.iter().map(|m| (m.0, m.1)).collect();
    // a program whose executors drop reads of their own is a cancellation scenario without any injected fault
    let spec_family = !case.program.spec_targets().is_empty();
    if !skipping {
        if spec_family {
            emit(format!("P baseline\t-"));
            for (sig, d) in &base.fails { emit(format!("F {}\t{}\tbaseline", esc(&sig.replace("C05:", "C05:executor-dropped-read:").replace("executor-dropped-read:executor-dropped-read:", "executor-dropped-read:")), esc(d))); }
            for m in &base.mismatches { emit(format!("V C05:executor-dropped-read:value\top {} key {} got {} expected {} (no injected fault: an executor dropped one of its own reads)\tbaseline", m.0, m.1, m.2, m.3)); }
            emit(format!("R baseline\texecutor-drops-own-read\t{}\t0", base.summary));
        } else {
            for (sig, d) in &base.fails { emit(format!("B {}\t{}", esc(sig), esc(d))); }
            for m in &base.mismatches { emit(format!("B C01:value\top {} key {} got {} expected {}", m.0, m.1, m.2, m.3)); }
        }
    }
    if let Some((usize::MAX, _)) = &only { emit("E".into()); return; }
    let mut run_no: u64 = 0;
    // every hang costs its watchdog time: a case in which the engine hung `max_hangs` times is abandoned (reported `K`)
    let mut hangs: u64 = 0;
    let mut one = |t: usize, f: &Fault, expect_label: Option<&str>, skipping: &mut bool| {
        run_no += 1;
        let tag = format!("{} {}", t, f.render());
        if *skipping { if resume_after.as_deref() == Some(tag.as_str()) { *skipping = false; } return; }
        if hangs >= max_hangs { if hangs == max_hangs { hangs += 1; emit(format!("K abandoned after {max_hangs} hangs")); } return; }
        let plabel: String = match (expect_label, f) { (Some(l), _) => l.to_string(), (None, Fault::CutAt { label, .. }) => label.clone(), (None, Fault::Panic(k)) | (None, Fault::PanicW(k)) => format!("panic@{k}"), _ => "-".into() };
        emit(format!("P {tag}\t{plabel}"));
        // the model has one innermost frame per task: executors that read several callees concurrently inside one task
        // (unordered groups, `join_all`) are judged by the oracle only
        // ... and so are executors that cancel sub-futures of their own (the model drops whole tasks only)
        let traced = run_no % trace_every == 0 && !case.program.has_unordered() && !spec_family;
        let o = run_blocking::<V>(case, t, f, traced);
        for (sig, d) in &o.fails { emit(format!("F {}\t{}\t{tag}", esc(sig), esc(d))); }
        if o.fails.iter().any(|(sig, _)| sig.starts_with("C05:hang")) { hangs += 1; }
        // value failures of a settle run in a case whose own baseline is clean: is it the cut, or does the SAME history
        // without the cut (the target replaced by what of it took effect) fail the same way?  Then it is not a C05 failure.
        let mut equiv_mis: BTreeSet<(u32, String, i64)> = BTreeSet::new();
        if !o.mismatches.is_empty() && base_mis.is_empty() && f.is_cut() {
            let mut variants: Vec<Case> = vec![];
            match &case.ops[t] {
                Op::Round(_) => {
                    let mut c = case.clone();
                    if !o.completed_before_cut.is_empty() { c.ops.insert(t, Op::Round(o.completed_before_cut.clone())); }
                    variants.push(c);
                }
                Op::Session(_) => {
                    let mut c = case.clone(); c.ops[t] = Op::Session(o.applied_writes.clone()); variants.push(c);
                    if let Some(w) = &o.cut_write { let mut c = case.clone(); let mut ws = o.applied_writes.clone(); ws.push(w.clone()); c.ops[t] = Op::Session(ws); variants.push(c); }
                }
            }
            for c in &variants {
                let e = run_blocking::<V>(c, usize::MAX, &Fault::Count, false);
                for m in &e.mismatches { equiv_mis.insert((m.1, m.2.clone(), m.3)); }
            }
        }
        for m in &o.mismatches {
            let kind = if base_mis.contains(&(m.0, m.1)) { "M" } else if !base_mis.is_empty() { "S" } else if equiv_mis.contains(&(m.1, m.2.clone(), m.3)) { "Q" } else { "V" };
            let vsig = if o.held_mode { "C05:value:stale-after-held-continuation" } else { "C05:value" };
            emit(format!("{kind} {vsig}\top {} key {} got {} expected {} (fault at {})\t{tag}", m.0, m.1, m.2, m.3, o.cut_label.clone().unwrap_or_default()));
        }
        emit(format!("R {tag}\t{}\t{}\t{}", o.cut_label.clone().unwrap_or("-".into()), o.summary, o.detached));
        if !o.inv.is_empty() { emit(format!("I # run {tag}")); for l in &o.inv { emit(format!("I {l}")); } emit(format!("J {}", o.state_dumps)); }
        if traced { emit("H".into()); for l in &o.trace { emit(format!("T {l}")); } }
        if let (None, Some(l)) = (&o.cut_label, expect_label) { emit(format!("X {tag} expected {l}")); }
    };
    for t in targets {
        if let Some((_, f)) = &only { one(t, f, None, &mut skipping); continue; }
        emit(format!("P {} count", t));
        let cnt = run_blocking::<V>(case, t, &Fault::Count, false);
        let n = cnt.pauses.len() as u64;
        if !skipping { emit(format!("N {} {} {}", t, n, cnt.pauses.iter().map(|l| l.split('@').next().unwrap().to_string()).collect::<Vec<_>>().join(","))); }
        // which cuts: all if few, else a seeded sample that always contains the first of every label
        let mut cuts: Vec<u64> = (1..=n).collect();
        if n > max_cuts {
            let mut first: BTreeMap<String, u64> = BTreeMap::new();
            for (i, l) in cnt.pauses.iter().enumerate() { first.entry(l.split('@').next().unwrap().to_string()).or_insert(i as u64 + 1); }
            let mut keep: BTreeSet<u64> = first.values().copied().collect();
            while (keep.len() as u64) < max_cuts { keep.insert(1 + rng.below(n)); }
            cuts = keep.into_iter().collect();
        }
        let next_is_session = t + 1 < case.ops.len() && matches!(case.ops[t + 1], Op::Session(_));
        for (ci, i) in cuts.into_iter().enumerate() {
            let label = cnt.pauses[i as usize - 1].clone();
            let commit_after = rng.chance(1, 2);
            one(t, &Fault::Cut { i, hold: false, commit_after, requery: false, waiters: false }, Some(&label), &mut skipping);
            // the same cut with other callers in flight that are parked on the entries the target owns at the cut
            // (quick tier: at every third of the selected cut points, shifted with the target)
            if let Op::Round(_) = &case.ops[t] { if (ci as u64 + t as u64) % waiters_every == 0 { one(t, &Fault::Cut { i, hold: false, commit_after: true, requery: false, waiters: true }, Some(&label), &mut skipping); } }
            // the adversarial twin: a guarded continuation stays suspended (it is a spawned task that has not been
            // scheduled yet) while the caller goes on: across the next committed session (round target), or across
            // the commit of the same session (session-call target)
            if is_guarded_label(&label) {
                match &case.ops[t] {
                    Op::Round(_) => {
                        if next_is_session { one(t, &Fault::Cut { i, hold: true, commit_after: true, requery: false, waiters: false }, Some(&label), &mut skipping); }
                        one(t, &Fault::Cut { i, hold: true, commit_after: true, requery: true, waiters: false }, Some(&label), &mut skipping);
                    }
                    Op::Session(_) if !label.starts_with("in.commit") => one(t, &Fault::Cut { i, hold: true, commit_after: true, requery: false, waiters: false }, Some(&label), &mut skipping),
                    _ => {}
                }
            }
        }
        if let Op::Round(_) = &case.ops[t] {
            let mut ks: Vec<u32> = cnt.execs_in_target.clone(); ks.sort(); ks.dedup();
            for k in ks { one(t, &Fault::Panic(k), None, &mut skipping); one(t, &Fault::PanicW(k), None, &mut skipping); }
        }
    }
    emit("E".into());
}

/// F12 without any hook: a TrackedEngine is alive (shared phase lock), `input_session()` is polled once (it waits for
/// the exclusive lock) and dropped — what `tokio::time::timeout(d, engine.input_session())` does when it fires.
fn scenario_f12_natural() {
    install_panic_hook();
    let rt = tokio::runtime::Builder::new_current_thread().enable_all().build().unwrap();
    rt.block_on(async {
        let sh = Arc::new(Shared::default());
        let mut p = Program::default();
        p.parse_node_line("node 0 in 0 c 0");
        p.parse_node_line("node 1 nm -1 r 0");
        *sh.program.write().unwrap() = p;
        let kv = MemKv::default();
        let engine = DbCfg::make(&sh, &kv).await;
        { let mut s = engine.input_session().await; let _ = s.set_input(In(0), 1).await; s.commit().await; }
        let te = engine.clone().tracked().await;
        println!("query 1 = {}", query_key(&sh, &te, 1).await);
        let mut fut = Box::pin(engine.input_session());
        let pending = futures::poll!(&mut fut).is_pending();
        println!("input_session() polled once while a TrackedEngine is alive: pending = {pending}");
        let r = std::panic::catch_unwind(AssertUnwindSafe(move || drop(fut)));
        println!("dropping it: {}", match &r { Ok(()) => "no panic".to_string(), Err(p) => format!("PANIC: {}", payload_str(p)) });
        drop(te);
        { let mut s = engine.input_session().await; let _ = s.set_input(In(0), 2).await; s.commit().await; }
        let te = engine.clone().tracked().await;
        println!("after one more session query 1 = {} (in memory)", query_key(&sh, &te, 1).await);
        drop(te);
        println!("shutting down (the later batches are held back behind the missing epoch) …");
        drop(engine);
        println!("shutdown returned");
    });
}

fn main() {
    if std::env::args().any(|x| x == "--scenario-f12-natural") { SINK.set(Arc::new(CutSink::default())).ok(); scenario_f12_natural(); return; }
    let a = args();
    let rest = a.rest.clone();
    let flag = |n: &str| rest.iter().position(|x| x == n).map(|i| rest[i + 1].clone());
    SINK.set(Arc::new(CutSink::default())).ok();
    set_sink(Some(Arc::new(SinkHandle(sink()))));
    if let Some(cf) = flag("--child") {
        install_panic_hook();
        let text = std::fs::read_to_string(&cf).unwrap();
        let case = Case::parse(&text);
        let variant = flag("--variant").unwrap_or("mem".into());
        let max_cuts: u64 = flag("--max-cuts").map(|x| x.parse().unwrap()).unwrap_or(40);
        // `--fault baseline`: the history without an injected fault only (the "executor drops one of its own reads" family)
        let only = flag("--fault").map(|f| { let t: Vec<&str> = f.split_whitespace().collect(); if t[0] == "baseline" { (usize::MAX, Fault::Count) } else { (t[0].parse::<usize>().unwrap(), Fault::parse(&t[1..])) } });
        let resume = flag("--resume-after");
        let te: u64 = flag("--trace-every").map(|x| x.parse().unwrap()).unwrap_or(1).max(1);
        let mh: u64 = flag("--max-hangs").map(|x| x.parse().unwrap()).unwrap_or(3).max(1);
        let we: u64 = flag("--waiters-every").map(|x| x.parse().unwrap()).unwrap_or(1).max(1);
        if rest.iter().any(|x| x == "--state") { STATE.store(true, Ordering::Relaxed); }
        if variant == "db" { child_case::<DbCfg>(&case, max_cuts, a.seed, only, resume, te, mh, we); } else { child_case::<MemCfg>(&case, max_cuts, a.seed, only, resume, te, mh, we); }
        return;
    }
    parent(a);
}

// ------------------------------------------------------------------------------------------------
// parent: generates cases, runs one child per (case, variant), aggregates
// ------------------------------------------------------------------------------------------------
struct Failure { sig: String, desc: String, case: String }

fn run_child(exe: &std::path::Path, case_file: &str, variant: &str, max_cuts: u64, seed: u64, fault: Option<&str>, resume: Option<&str>, trace_every: u64, max_hangs: u64, waiters_every: u64, timeout: Duration) -> (Vec<String>, Option<String>) {
    use std::io::{BufRead, BufReader};
    let mut cmd = std::process::Command::new(exe);
    cmd.args(["--child", case_file, "--variant", variant, "--max-cuts", &max_cuts.to_string(), "--seed", &seed.to_string()]);
    if let Some(f) = fault { cmd.args(["--fault", f]); }
    if let Some(r) = resume { cmd.args(["--resume-after", r]); }
    cmd.args(["--trace-every", &trace_every.to_string()]);
    cmd.args(["--max-hangs", &max_hangs.to_string()]);
    cmd.args(["--waiters-every", &waiters_every.to_string()]);
    if STATE.load(Ordering::Relaxed) { cmd.arg("--state"); }
    cmd.stdout(std::process::Stdio::piped()).stderr(std::process::Stdio::piped());
    let mut ch = cmd.spawn().unwrap();
    let so = ch.stdout.take().unwrap();
    let se = ch.stderr.take().unwrap();
    let errs: Arc<Mutex<Vec<String>>> = Default::default();
    { let errs = errs.clone(); std::thread::spawn(move || { for l in BufReader::new(se).lines().flatten() { let mut e = errs.lock().unwrap(); e.push(l); if e.len() > 200 { e.remove(0); } } }); }
    let (tx, rx) = std::sync::mpsc::channel::<String>();
    std::thread::spawn(move || { for l in BufReader::new(so).lines().flatten() { if tx.send(l).is_err() { break; } } });
    let mut lines = vec![];
    let t0 = std::time::Instant::now();
    let mut last_progress = std::time::Instant::now();
    let mut died: Option<String> = None;
    loop {
        match rx.recv_timeout(Duration::from_millis(200)) {
            Ok(l) => { if l == "E" { break; } if l.starts_with("P ") { last_progress = std::time::Instant::now(); } lines.push(l); }
            Err(std::sync::mpsc::RecvTimeoutError::Timeout) => {
                if last_progress.elapsed() > Duration::from_secs(40) || t0.elapsed() > timeout { let _ = ch.kill(); died = Some("hang".into()); break; }
            }
            Err(_) => { died = Some("exit".into()); break; }
        }
    }
    let st = ch.wait().ok();
    if died.as_deref() == Some("exit") {
        use std::os::unix::process::ExitStatusExt;
        let s = st.unwrap();
        died = Some(match (s.code(), s.signal()) { (Some(c), _) => format!("exit code {c}"), (_, Some(sig)) => format!("signal {sig}"), _ => "unknown".into() });
        std::thread::sleep(Duration::from_millis(20));
        let e = errs.lock().unwrap();
        let tail: Vec<String> = e.iter().rev().take(3).rev().cloned().collect();
        died = Some(format!("{} [stderr: {}]", died.unwrap(), tail.join(" / ")));
    }
    (lines, died)
}

fn parent(a: Args) {
    if a.rest.iter().any(|x| x == "--state") { STATE.store(true, Ordering::Relaxed); }
    let mut inv_lines: Vec<String> = vec![];
    let mut out = Out::new(&a.out);
    let exe = std::env::current_exe().unwrap();
    let quick = a.tier == "quick";
    let n_cases = a.n.unwrap_or(if quick { 8 } else { 60 });
    let max_cuts: u64 = if quick { 24 } else { 64 };
    let mut rng = Rng::new(a.seed);
    let mut cases: Vec<(String, Case, Option<String>)> = vec![];
    let rest = a.rest.clone();
    let flag = |n: &str| rest.iter().position(|x| x == n).map(|i| rest[i + 1].clone());
    let cfg_bits = flag("--cfg").unwrap_or("000".into());
    let trace_every: u64 = flag("--trace-every").map(|x| x.parse().unwrap()).unwrap_or(1).max(1);
    let mut traced_runs = 0u64;
    let variants: Vec<String> = flag("--variants").map(|v| v.split(',').map(|s| s.to_string()).collect()).unwrap_or(vec!["mem".into(), "db".into()]);
    if let Some(rp) = &a.replay {
        // replay file: optional first line `#fault <variant> <target> <fault…>`, then the case text
        let text = std::fs::read_to_string(rp).unwrap();
        let f = text.lines().find(|l| l.starts_with("#fault ")).map(|l| l[7..].to_string());
        cases.push(("replay".into(), Case::parse(&text.lines().filter(|l| !l.starts_with('#')).collect::<Vec<_>>().join("\n")), f));
    } else {
        if !rest.iter().any(|x| x == "--no-corpus") { if let Ok(rd) = std::fs::read_dir(format!("{}/../corpus", env!("CARGO_MANIFEST_DIR"))) {
            let mut fs: Vec<_> = rd.flatten().map(|e| e.path()).filter(|p| p.file_name().unwrap().to_string_lossy().starts_with("C05-")).collect(); fs.sort();
            // `--corpus-shard i/n`: this process takes every n-th corpus file (the plugin spreads the corpus over its shards)
            let (ci, cn): (usize, usize) = flag("--corpus-shard").map(|x| { let mut it = x.split('/'); (it.next().unwrap().parse().unwrap(), it.next().unwrap().parse().unwrap()) }).unwrap_or((0, 1));
            for (fi, f) in fs.into_iter().enumerate() {
                if fi % cn != ci { continue; }
                let text = std::fs::read_to_string(&f).unwrap();
                let fl = text.lines().find(|l| l.starts_with("#fault ")).map(|l| l[7..].to_string());
                cases.push((f.file_name().unwrap().to_string_lossy().to_string(), Case::parse(&text.lines().filter(|l| !l.starts_with('#')).collect::<Vec<_>>().join("\n")), fl));
            }
        } }
        for i in 0..n_cases { cases.push((format!("gen{i}"), gen_case(&mut rng, i), None)); }
        // one case of the "executor drops one of its own reads" family per three generated ones
        let n_spec: u64 = flag("--spec-cases").map(|x| x.parse().unwrap()).unwrap_or((n_cases + 2) / 3);
        for i in 0..n_spec { cases.push((format!("spec{i}"), gen_spec_case(&mut rng, i), None)); }
    }
    let mut failures: Vec<Failure> = vec![];
    let mut distinct: BTreeSet<u64> = BTreeSet::new();
    let mut dist: BTreeMap<String, u64> = BTreeMap::new();
    let mut label_hits: BTreeMap<String, u64> = BTreeMap::new();
    let mut samples: Vec<String> = vec![];
    let mut evals = 0u64;
    let mut hang_failures = 0u64;
    let tmp = format!("{}/cases", a.out);
    std::fs::create_dir_all(&tmp).unwrap();
    for (ci, (name, case, fl)) in cases.iter().enumerate() {
        let text = case.render();
        let cf = format!("{tmp}/{ci}.txt");
        std::fs::write(&cf, &text).unwrap();
        if case.program.nodes.iter().any(|n| n.kind == Kind::Firewall) { *dist.entry("cases_with_firewall".into()).or_default() += 1; }
        if case.program.nodes.iter().any(|n| n.kind == Kind::Projection) { *dist.entry("cases_with_projection".into()).or_default() += 1; }
        if case.program.nodes.iter().any(|n| n.kind == Kind::External) { *dist.entry("cases_with_external".into()).or_default() += 1; }
        if case.program.has_unordered() { *dist.entry("cases_with_unordered_group".into()).or_default() += 1; }
        if !case.program.spec_targets().is_empty() { *dist.entry("cases_with_read_dropped_by_executor".into()).or_default() += 1; }
        for v in &variants {
            let (v_use, fault_s): (String, Option<String>) = match fl { Some(f) => { let mut it = f.splitn(2, ' '); (it.next().unwrap().to_string(), Some(it.next().unwrap().to_string())) } None => (v.clone(), None) };
            if fl.is_some() && v != &variants[0] { continue; }
            let mut resume: Option<String> = None;
            let mut restarts = 0;
            loop {
            let (lines, died) = run_child(&exe, &cf, &v_use, max_cuts, a.seed.wrapping_add(ci as u64), fault_s.as_deref(), resume.as_deref(), if fault_s.is_some() { 1 } else { trace_every }, if hang_failures >= 4 { 1 } else { 3 }, if quick { 3 } else { 1 }, Duration::from_secs(if quick { 240 } else { 900 }));
            let mut last_p = String::new();
            let mut last_label = String::new();
            let mut last_run = String::new();
            let mut last_w = String::new();
            for l in &lines {
                let (tag, body) = l.split_at(1);
                let body = body.trim_start();
                match tag {
                    "P" => { let mut it = body.split('\t'); last_p = it.next().unwrap().to_string(); last_label = it.next().unwrap_or("-").split('@').next().unwrap().to_string(); last_w.clear(); }
                    "H" => { out.line(&last_run, "ok"); traced_runs += 1; }
                    "W" => { last_w = body.to_string(); }
                    "T" => { let mut it = body.splitn(2, '\t'); let op = it.next().unwrap(); out.line(op, it.next().unwrap_or("ok")); }
                    "N" => { let t: Vec<&str> = body.split(' ').collect(); *dist.entry(format!("{v_use}:targets")).or_default() += 1; *dist.entry(format!("{v_use}:pause_points")).or_default() += t[1].parse::<u64>().unwrap(); }
                    "R" => {
                        evals += 1;
                        let f: Vec<&str> = body.split('\t').collect();
                        let kind = if f[0] == "baseline" { "without-fault(executor-drops-own-read)" } else if f[0].contains("panicw") { "panic-with-waiters" } else if f[0].contains("panic") { "panic" } else if f[0].contains("waiters") { "cut-with-waiters" } else if f[0].contains("requery") { "cut-requery" } else if f[0].contains("hold") { "cut-hold" } else { "cut" };
                        *dist.entry(format!("{v_use}:runs_{kind}")).or_default() += 1;
                        let lab = f[1].split('@').next().unwrap().to_string();
                        *label_hits.entry(lab.clone()).or_default() += 1;
                        if f.get(3).map(|d| *d != "0").unwrap_or(false) { *dist.entry(format!("{v_use}:runs_with_detached_continuation")).or_default() += 1; }
                        { use std::hash::{Hash, Hasher}; let mut h = std::collections::hash_map::DefaultHasher::new(); (&text, &v_use, f[0]).hash(&mut h); if f[1] != "-" { distinct.insert(h.finish()); } }
                        last_run = format!("run {cfg_bits} {name} {v_use} {}", f[0]);
                    }
                    "F" | "V" => {
                        let f: Vec<&str> = body.split('\t').collect();
                        let replay = format!("#fault {v_use} {}\n{}", f.get(2).unwrap_or(&""), text);
                        *dist.entry(format!("fail:{}", f[0])).or_default() += 1;
                        if f[0].starts_with("C05:hang") { hang_failures += 1; }
                        // value / state-invariant failures are listed more generously: the plugin attributes each of them (known finding F70 or not)
                        let cap = if f[0].starts_with("C05:value") || f[0].starts_with("C05:state-invariant") { 200 } else { 3 };
                        if failures.iter().filter(|x| x.sig == f[0]).count() < cap { failures.push(Failure { sig: f[0].to_string(), desc: format!("[{name} {v_use}] {}", f[1]), case: replay }); }
                    }
                    "I" => {
                        // one block per run: `case`, the program, then op lines each followed by its `#D` line
                        if body.starts_with("# run ") { inv_lines.push(text.lines().next().unwrap().to_string()); inv_lines.push(format!("# {ci} {name} {v_use} {}", &body[6..])); for l in text.lines().skip(1).take(case.program.nodes.len()) { inv_lines.push(l.to_string()); } }
                        else { inv_lines.push(body.to_string()); }
                    }
                    "J" => { *dist.entry("state_dumps_judged_by_the_state_invariant_oracle".into()).or_default() += body.parse::<u64>().unwrap_or(0); *dist.entry("runs_with_state_dumps".into()).or_default() += 1; }
                    "M" => { *dist.entry("value_failures_also_in_baseline".into()).or_default() += 1; }
                    "S" => { *dist.entry("value_failures_in_cases_whose_baseline_fails_elsewhere".into()).or_default() += 1; }
                    "Q" => { *dist.entry("value_failures_also_in_the_equivalent_history_without_the_cut".into()).or_default() += 1; }
                    "B" => { *dist.entry("baseline_failures(other properties)".into()).or_default() += 1; }
                    "X" => { *dist.entry("cut_not_reached".into()).or_default() += 1; }
                    "K" => { *dist.entry("cases_abandoned_after_repeated_hangs".into()).or_default() += 1; }
                    _ => {}
                }
            }
            match died {
                Some(d) => {
                    // the run announced an unsubmitted batch before it died: the death is its consequence (same class)
                    let cls = if let Some(l) = last_w.strip_prefix("C05:batch-leak:") { l.to_string() } else { last_label.clone() };
                    let sig = format!("C05:process-{}:{cls}", if d == "hang" { "hang" } else { "died" });
                    let replay = format!("#fault {v_use} {}\n{}", last_p, text);
                    *dist.entry(format!("fail:{sig}")).or_default() += 1;
                    if failures.iter().filter(|x| x.sig == sig).count() < 3 { failures.push(Failure { sig, desc: format!("[{name} {v_use}] child process {d} during run `{last_p}`"), case: replay }); }
                    restarts += 1;
                    if fault_s.is_some() || restarts > 400 || last_p == "baseline" || last_p.ends_with("count") { break; }
                    resume = Some(last_p.clone());
                }
                None => break,
            }
            }
        }
        if samples.len() < 3 { samples.push(text.clone()); }
    }
    for (l, c) in &label_hits { dist.insert(format!("cut_at:{l}"), *c); }
    dist.insert("runs_with_trace_validation".into(), traced_runs);
    let mut rep = String::from("{");
    rep.push_str(&format!("\"evaluations\":{evals},\"distinct_nontrivial\":{},", distinct.len()));
    rep.push_str(&format!("\"rule\":{},", jstr("one evaluation = one history replayed on a fresh engine with one fault (future dropped at pause point i of the target op - alone, with a detached guarded continuation kept suspended, or with other callers parked on the target's computing entries - or one executor panicking, alone or with such parked callers), followed by the rest of the history, a final all-keys round, shutdown (db variant: re-open and query); non-trivial = the fault point was actually reached; distinct by hash of (case, variant, target, fault)")));
    rep.push_str(&format!("\"samples\":[{}],", samples.iter().map(|s| jstr(s)).collect::<Vec<_>>().join(",")));
    rep.push_str(&format!("\"distribution\":{{{}}},", dist.iter().map(|(k, v)| format!("{}:{}", jstr(k), v)).collect::<Vec<_>>().join(",")));
    rep.push_str(&format!("\"oracle_failures\":[{}]", failures.iter().map(|f| format!("{{\"sig\":{},\"desc\":{},\"case\":{}}}", jstr(&f.sig), jstr(&f.desc), jstr(&f.case))).collect::<Vec<_>>().join(",")));
    rep.push('}');
    if STATE.load(Ordering::Relaxed) { std::fs::write(format!("{}/inv_ops.txt", a.out), inv_lines.join("\n") + "\n").unwrap(); }
    out.finish(&rep);
}
