//! C15 harness: runs the REAL interner (`qbice_storage::intern`) and its Encode/Decode session logic.
//!
//! Three kinds of cases, all written to ops.txt / impl.txt (one line per op):
//!  * `S …`  sequential operation sequences (logical tasks on one thread)       — compared op by op with the
//!           Lean LTS run sequentially and with the atomic spec;
//!  * `T …`  real multi-thread runs (2..16 threads + a vacuum thread): every call is logged with a global
//!           sequence number taken before the call and after the return; the Lean driver searches a
//!           linearisation of the log against the atomic spec (`aStep`); the harness says `lin-ok`;
//!  * `X …`  encode / decode of graphs of nested, repeated interned handles through the real `Interner` plugin;
//!           bytes compared with the model's session function, decoded structure + sharing compared.
//!
//! Allocation identity: the interned test types carry a `serial` that the stable hash ignores; the content of
//! a handle therefore tells which `intern` call created its allocation (robust against address reuse).
//! The independent oracle (no model involved) checks content, pointer identity of simultaneously held
//! handles, "two live allocations of one slot", "lookup missed a live handle", "intern duplicated a live
//! value", and decode(encode(x)) = x with the same sharing partition.
#![allow(clippy::all)]
use std::collections::{BTreeMap, HashMap};
use std::panic::{catch_unwind, AssertUnwindSafe};
use std::sync::atomic::{AtomicBool, AtomicU64, Ordering};
use std::sync::Arc;

use qbice_serialize::{Decode, Decoder, Encode, Encoder, Plugin, PostcardDecoder, PostcardEncoder, session::Session};
use qbice_stable_hash::{BuildStableHasherDefault, Compact128, Sip128Hasher, StableHash, StableHasher};
use qbice_stable_type_id::{Identifiable, StableTypeID};
use qbice_storage::intern::{Interned, Interner};
use qbice_verif_harness::{args, hex, jstr, Out, Rng};

// ------------------------------------------------------------------------------------------------ test types
/// type 0: sized, goes through `Interner::intern`.  Hash = that of a one-element slice of `Elem{key}`.
#[derive(Debug, Clone, PartialEq, Eq)]
struct Tagged { key: u8, variant: u8, serial: u64 }
impl StableHash for Tagged {
    fn stable_hash<H: StableHasher + ?Sized>(&self, st: &mut H) { st.write_length_prefix(1); self.key.stable_hash(st); }
}
impl Identifiable for Tagged { const STABLE_TYPE_ID: StableTypeID = StableTypeID::from_unique_type_name("qbice_verif::intern::Tagged"); }

/// element of type 1 (`Vec<Elem>`, sized, `intern`) and type 2 (`[Elem]`, unsized, `intern_unsized`)
#[derive(Debug, Clone, PartialEq, Eq)]
struct Elem { key: u8, variant: u8, serial: u64 }
impl StableHash for Elem { fn stable_hash<H: StableHasher + ?Sized>(&self, st: &mut H) { self.key.stable_hash(st); } }
impl Identifiable for Elem { const STABLE_TYPE_ID: StableTypeID = StableTypeID::from_unique_type_name("qbice_verif::intern::Elem"); }

#[derive(Clone)]
enum Hd { T(Interned<Tagged>), V(Interned<Vec<Elem>>), U(Interned<[Elem]>) }
impl Hd {
    fn ty(&self) -> u8 { match self { Hd::T(_) => 0, Hd::V(_) => 1, Hd::U(_) => 2 } }
    fn content(&self) -> (u8, u8, u64) {
        match self { Hd::T(h) => (h.key, h.variant, h.serial), Hd::V(h) => (h[0].key, h[0].variant, h[0].serial), Hd::U(h) => (h[0].key, h[0].variant, h[0].serial) }
    }
    fn data(&self) -> u8 { let (k, v, _) = self.content(); k + 4 * v }
    fn serial(&self) -> u64 { self.content().2 }
    fn ptr(&self) -> usize {
        match self { Hd::T(h) => (&**h) as *const Tagged as usize, Hd::V(h) => (&**h) as *const Vec<Elem> as usize, Hd::U(h) => (&**h) as *const [Elem] as *const u8 as usize }
    }
}

static SERIAL: AtomicU64 = AtomicU64::new(1);
static SEQ: AtomicU64 = AtomicU64::new(0);
type HB = BuildStableHasherDefault<Sip128Hasher>;

fn do_intern(it: &Interner, ty: u8, d: u8) -> (Hd, u64) {
    let serial = SERIAL.fetch_add(1, Ordering::Relaxed);
    let (key, variant) = (d % 4, d / 4);
    let h = match ty {
        0 => Hd::T(it.intern(Tagged { key, variant, serial })),
        1 => Hd::V(it.intern(vec![Elem { key, variant, serial }])),
        _ => Hd::U(it.intern_unsized::<[Elem], Vec<Elem>>(vec![Elem { key, variant, serial }])),
    };
    (h, serial)
}
fn key_hash(it: &Interner, key: u8) -> Compact128 { it.hash_128(&Tagged { key, variant: 0, serial: 0 }) }
fn do_get(it: &Interner, ty: u8, key: u8) -> Option<Hd> {
    let h = key_hash(it, key);
    match ty { 0 => it.get_from_hash::<Tagged>(h).map(Hd::T), 1 => it.get_from_hash::<Vec<Elem>>(h).map(Hd::V), _ => it.get_from_hash::<[Elem]>(h).map(Hd::U) }
}

#[derive(Default)]
struct Report {
    evaluations: u64, nontrivial: u64, samples: Vec<String>, dist: BTreeMap<String, u64>,
    failures: Vec<(String, String, String)>,
    seed: u64,
}
impl Report {
    fn bump(&mut self, k: &str, n: u64) { *self.dist.entry(k.to_string()).or_insert(0) += n; }
    fn fail(&mut self, sig: &str, desc: String, case: String) { if self.failures.len() < 20 { let c = format!("{case}\n#seed {}", self.seed); self.failures.push((sig.to_string(), desc, c)); } }
}

// ------------------------------------------------------------------------------------------------ S: sequential
/// One sequential case.  `script` = Some(lines) replays given op lines instead of generating.
fn seq_case(rng: &mut Rng, out: &mut Out, rep: &mut Report, script: Option<&[String]>) {
    let mut shards = *rng.pick(&[2usize, 4, 16]);
    let mut ntasks = rng.range(1, 4) as usize;
    let nops = rng.range(20, 90);
    let script = match script {
        Some(l) if !l.is_empty() => { let w: Vec<&str> = l[0].split(' ').collect(); if w.len() == 4 { shards = w[2].parse().unwrap_or(shards); ntasks = w[3].parse().unwrap_or(ntasks); } Some(&l[1..]) }
        x => x,
    };
    let it = Interner::new(shards, HB::default());
    let mut held: Vec<Vec<Hd>> = vec![vec![]; ntasks];
    let mut ids: HashMap<(u8, u64), u64> = HashMap::new();
    let mut next_id = 0u64;
    let mut lines: Vec<String> = vec![format!("S begin {shards} {ntasks}")];
    let mut hits = 0u64; let mut news = 0u64; let mut revived = 0u64; let mut collide = 0u64; let mut xty = 0u64;
    let mut dead_slots: std::collections::HashSet<(u8, u8)> = Default::default();
    out.line(&lines[0], "ok");
    let gen_ops = script.is_none();
    let mut i = 0u64;
    let mut script_it = script.map(|s| s.iter());
    loop {
        let opline: String = if gen_ops {
            if i >= nops { break; }
            i += 1;
            let t = rng.below(ntasks as u64) as usize;
            let r = rng.below(100);
            if r < 38 || held.iter().all(|h| h.is_empty()) && r < 70 { format!("S intern {t} {} {}", rng.below(3), rng.below(8)) }
            else if r < 55 { format!("S get {t} {} {}", rng.below(3), rng.below(4)) }
            else if r < 65 && !held[t].is_empty() { format!("S clone {t} {}", rng.below(held[t].len() as u64)) }
            else if r < 90 && !held[t].is_empty() { format!("S drop {t} {}", rng.below(held[t].len() as u64)) }
            else if r < 95 { "S vacuum".to_string() } else { "S check".to_string() }
        } else {
            match script_it.as_mut().unwrap().next() { Some(l) => l.clone(), None => break }
        };
        let w: Vec<&str> = opline.split(' ').collect();
        let ans = catch_unwind(AssertUnwindSafe(|| -> String {
            match w[1] {
                "intern" => {
                    let (t, ty, d): (usize, u8, u8) = (w[2].parse().unwrap(), w[3].parse().unwrap(), w[4].parse().unwrap());
                    let (h, serial) = do_intern(&it, ty, d);
                    let own = h.serial() == serial;
                    if own { ids.insert((ty, serial), next_id); next_id += 1; news += 1; if dead_slots.remove(&(ty, d % 4)) { revived += 1; } } else { hits += 1; if h.data() != d { collide += 1; } }
                    let id = ids.get(&(ty, h.serial())).copied();
                    let s = format!("ret {} {} data={}", id.map(|x| x.to_string()).unwrap_or("unknown".into()), if own { "new" } else { "hit" }, h.data());
                    held[t].push(h); s
                }
                "get" => {
                    let (t, ty, k): (usize, u8, u8) = (w[2].parse().unwrap(), w[3].parse().unwrap(), w[4].parse().unwrap());
                    if held.iter().flatten().any(|h| h.ty() != ty && h.data() % 4 == k) && !held.iter().flatten().any(|h| h.ty() == ty && h.data() % 4 == k) { xty += 1; }
                    match do_get(&it, ty, k) {
                        Some(h) => { let id = ids.get(&(ty, h.serial())).copied(); let s = format!("ret {} data={}", id.map(|x| x.to_string()).unwrap_or("unknown".into()), h.data()); held[t].push(h); s }
                        None => "ret none".into(),
                    }
                }
                "clone" => { let (t, i): (usize, usize) = (w[2].parse().unwrap(), w[3].parse().unwrap()); let h = held[t][i].clone(); held[t].push(h); "ok".into() }
                "drop" => {
                    let (t, i): (usize, usize) = (w[2].parse().unwrap(), w[3].parse().unwrap());
                    let h = held[t].remove(i); let slot = (h.ty(), h.data() % 4); let ser = h.serial(); drop(h);
                    if !held.iter().flatten().any(|x| x.ty() == slot.0 && x.serial() == ser) { dead_slots.insert(slot); }
                    "ok".into()
                }
                "vacuum" => { it.vacuum(); "ok".into() }
                "check" => {
                    let mut s = String::from("held");
                    for (t, hs) in held.iter().enumerate() {
                        s.push_str(&format!(" {t}:["));
                        s.push_str(&hs.iter().map(|h| ids.get(&(h.ty(), h.serial())).map(|x| x.to_string()).unwrap_or("unknown".into())).collect::<Vec<_>>().join(","));
                        s.push(']');
                    }
                    s
                }
                _ => "bad-op".into(),
            }
        })).unwrap_or_else(|_| "panic".into());
        // independent oracle: canonicity over everything currently held
        let mut by_slot: HashMap<(u8, u8), (usize, u64)> = HashMap::new();
        for h in held.iter().flatten() {
            let slot = (h.ty(), h.data() % 4);
            match by_slot.get(&slot) {
                Some(&(p, ser)) => if p != h.ptr() || ser != h.serial() { rep.fail("seq-two-live-allocations", format!("slot {:?}: two live handles point to different allocations", slot), lines.join("\n") + "\n" + &opline); }
                None => { by_slot.insert(slot, (h.ptr(), h.serial())); }
            }
        }
        if ans == "panic" { rep.fail("seq-panic", format!("operation panicked: {opline}"), lines.join("\n") + "\n" + &opline); }
        if w[1] == "get" {
            let (ty, k): (u8, u8) = (w[3].parse().unwrap(), w[4].parse().unwrap());
            // `held` already contains the returned handle, so judge against the state before: the answer is
            // `some` iff a handle of the slot existed before the call
            let before = held.iter().flatten().filter(|h| h.ty() == ty && h.data() % 4 == k).count() - if ans.starts_with("ret none") || ans == "panic" { 0 } else { 1 };
            if (before > 0) != (ans != "ret none" && ans != "panic") { rep.fail("seq-lookup-unsound", format!("get_from_hash answered {ans} with {before} live handles"), lines.join("\n") + "\n" + &opline); }
        }
        if w[1] == "intern" && ans.contains(" new ") {
            let (ty, d): (u8, u8) = (w[3].parse().unwrap(), w[4].parse().unwrap());
            let others = held.iter().flatten().filter(|h| h.ty() == ty && h.data() % 4 == d % 4).count();
            if others > 1 { rep.fail("seq-intern-duplicated-live", format!("intern allocated while {} handles of the slot were live", others - 1), lines.join("\n") + "\n" + &opline); }
        }
        out.line(&opline, &ans);
        lines.push(opline);
    }
    out.line("S end", "ok");
    rep.evaluations += 1;
    if hits > 0 && news > 1 && revived > 0 { rep.nontrivial += 1; }
    rep.bump("seq.cases", 1); rep.bump("seq.ops", lines.len() as u64); rep.bump("seq.hits", hits); rep.bump("seq.new", news);
    rep.bump("seq.realloc_after_death", revived); rep.bump("seq.hash_collision_hits", collide); rep.bump("seq.cross_type_probe", xty);
    if rep.samples.len() < 2 { rep.samples.push(lines.iter().take(12).cloned().collect::<Vec<_>>().join(" ; ")); }
}

// ------------------------------------------------------------------------------------------------ T: threads
#[derive(Clone, Debug)]
struct Rec { call: u64, ret: u64, thread: usize, op: u8 /*0 intern 1 get 2 clone 3 drop*/, ty: u8, d: u8, own_serial: u64, res: Option<(u64 /*serial*/, u8 /*data*/, usize /*ptr*/)>, hid: u64 /*handle instance id for clone/drop target or produced handle*/ }

fn thread_case(rng: &mut Rng, out: &mut Out, rep: &mut Report, case_no: u64, thorough: bool) {
    let nthreads = *rng.pick(&[2usize, 2, 3, 4, 4, 6, 8, 12, 16]);
    let shards = *rng.pick(&[2usize, 4, 16]);
    let per = if thorough { rng.range(20, 70) } else { rng.range(12, 45) } as usize;
    let per = (per * 4 / nthreads.max(4)).max(8).min(70);
    let nkeys = *rng.pick(&[1u64, 2, 4]);
    let vac_mode = rng.below(3); // 0: none, 1: explicit vacuum thread, 2: background vacuum thread of the interner + explicit
    let it = if vac_mode == 2 { Interner::new_with_vacuum(shards, HB::default(), std::time::Duration::from_micros(150)) } else { Interner::new(shards, HB::default()) };
    let stop = Arc::new(AtomicBool::new(false));
    let panics = Arc::new(AtomicU64::new(0));
    let local_fail = Arc::new(std::sync::Mutex::new(Vec::<String>::new()));
    let start = Arc::new(std::sync::Barrier::new(nthreads + 1));
    let vac_runs = Arc::new(AtomicU64::new(0));
    let seeds: Vec<u64> = (0..nthreads).map(|_| rng.next()).collect();
    let recs: Vec<Vec<Rec>> = std::thread::scope(|sc| {
        let vac = {
            let (it, stop, start, vac_runs) = (it.clone(), stop.clone(), start.clone(), vac_runs.clone());
            sc.spawn(move || {
                start.wait();
                if vac_mode == 0 { return; }
                while !stop.load(Ordering::Relaxed) { it.vacuum(); vac_runs.fetch_add(1, Ordering::Relaxed); if vac_mode == 2 { it.request_vacuum(); } for _ in 0..20 { std::hint::spin_loop(); } }
            })
        };
        let hs: Vec<_> = (0..nthreads).map(|t| {
            let (it, start, panics, local_fail) = (it.clone(), start.clone(), panics.clone(), local_fail.clone());
            let seed = seeds[t];
            sc.spawn(move || {
                let mut rng = Rng::new(seed);
                let mut held: Vec<(Hd, u64, u8, u8, u64)> = vec![]; // handle, instance id, ty, key, serial it had when obtained
                let mut recs: Vec<Rec> = Vec::with_capacity(per * 2 + 8);
                let mut hid = (t as u64) << 32;
                start.wait();
                let mut n = 0;
                while n < per || !held.is_empty() {
                    let r = if n >= per { 80 } else { rng.below(100) };
                    n += 1;
                    let res = catch_unwind(AssertUnwindSafe(|| {
                        if r < 45 && held.len() < 5 {
                            let ty = rng.below(3) as u8; let d = (rng.below(nkeys) + 4 * rng.below(2)) as u8;
                            let call = SEQ.fetch_add(1, Ordering::SeqCst);
                            let (h, serial) = do_intern(&it, ty, d);
                            let ret = SEQ.fetch_add(1, Ordering::SeqCst);
                            hid += 1;
                            recs.push(Rec { call, ret, thread: t, op: 0, ty, d, own_serial: serial, res: Some((h.serial(), h.data(), h.ptr())), hid });
                            let (k, ser) = (h.data() % 4, h.serial());
                            held.push((h, hid, ty, k, ser));
                        } else if r < 60 {
                            let ty = rng.below(3) as u8; let k = rng.below(nkeys) as u8;
                            let call = SEQ.fetch_add(1, Ordering::SeqCst);
                            let g = do_get(&it, ty, k);
                            let ret = SEQ.fetch_add(1, Ordering::SeqCst);
                            hid += 1;
                            recs.push(Rec { call, ret, thread: t, op: 1, ty, d: k, own_serial: 0, res: g.as_ref().map(|h| (h.serial(), h.data(), h.ptr())), hid });
                            if let Some(h) = g { let (k, ser) = (h.data() % 4, h.serial()); held.push((h, hid, ty, k, ser)); }
                        } else if r < 68 && !held.is_empty() && held.len() < 6 {
                            let i = rng.below(held.len() as u64) as usize;
                            let call = SEQ.fetch_add(1, Ordering::SeqCst);
                            let h = held[i].0.clone();
                            let ret = SEQ.fetch_add(1, Ordering::SeqCst);
                            hid += 1;
                            recs.push(Rec { call, ret, thread: t, op: 2, ty: held[i].2, d: held[i].3, own_serial: 0, res: Some((h.serial(), h.data(), h.ptr())), hid });
                            let e = (h, hid, held[i].2, held[i].3, held[i].4); held.push(e);
                        } else if r < 96 && !held.is_empty() {
                            let i = rng.below(held.len() as u64) as usize;
                            let (h, id, ty, k, ser) = held.remove(i);
                            let res = Some((h.serial(), h.data(), h.ptr()));
                            let call = SEQ.fetch_add(1, Ordering::SeqCst);
                            drop(h);
                            let ret = SEQ.fetch_add(1, Ordering::SeqCst);
                            recs.push(Rec { call, ret, thread: t, op: 3, ty, d: k, own_serial: ser, res, hid: id });
                        } else { std::thread::yield_now(); }
                    }));
                    if res.is_err() { panics.fetch_add(1, Ordering::Relaxed); break; }
                    // continuous local oracle: content stable, same slot => same allocation
                    for (i, (h, _, ty, k, ser)) in held.iter().enumerate() {
                        if h.ty() != *ty || h.data() % 4 != *k || h.serial() != *ser { local_fail.lock().unwrap().push(format!("content-changed thread {t} handle {i}")); }
                        for (h2, _, ty2, k2, _) in held.iter().skip(i + 1) {
                            if ty2 == ty && k2 == k && (h2.ptr() != h.ptr() || h2.serial() != h.serial()) { local_fail.lock().unwrap().push(format!("same-thread-two-allocations thread {t} slot ({ty},{k})")); }
                        }
                    }
                }
                recs
            })
        }).collect();
        let r: Vec<Vec<Rec>> = hs.into_iter().map(|h| h.join().unwrap_or_default()).collect();
        stop.store(true, Ordering::Relaxed);
        let _ = vac.join();
        r
    });
    // ---- merge the log
    let mut all: Vec<Rec> = recs.into_iter().flatten().collect();
    all.sort_by_key(|r| r.call);
    let mut ids: HashMap<(u8, u64), u64> = HashMap::new();
    { let mut by_ret: Vec<&Rec> = all.iter().filter(|r| r.res.is_some()).collect(); by_ret.sort_by_key(|r| r.ret);
      for r in by_ret { let n = ids.len() as u64; ids.entry((r.ty, r.res.unwrap().0)).or_insert(n); } }
    let base = all.first().map(|r| r.call).unwrap_or(0);
    let mut evs: Vec<(u64, String)> = vec![];
    for r in &all {
        let (c, e) = (r.call - base, r.ret - base);
        match r.op {
            0 => { let (ser, d, _) = r.res.unwrap(); evs.push((c, format!("T ev {c} {} call intern {} {}", r.thread, r.ty, r.d)));
                   evs.push((e, format!("T ev {e} {} ret {} {} {}", r.thread, if ser == r.own_serial { "new" } else { "hit" }, ids[&(r.ty, ser)], d))); }
            1 => { evs.push((c, format!("T ev {c} {} call get {} {}", r.thread, r.ty, r.d)));
                   evs.push((e, match r.res { Some((ser, d, _)) => format!("T ev {e} {} ret some {} {}", r.thread, ids[&(r.ty, ser)], d), None => format!("T ev {e} {} ret none", r.thread) })); }
            2 => { let (ser, _, _) = r.res.unwrap(); evs.push((c, format!("T ev {c} {} call clone {} {}", r.thread, r.ty, ids[&(r.ty, ser)]))); evs.push((e, format!("T ev {e} {} ret ok", r.thread))); }
            _ => { let (ser, _, _) = r.res.unwrap(); evs.push((c, format!("T ev {c} {} call drop {} {}", r.thread, r.ty, ids[&(r.ty, ser)]))); evs.push((e, format!("T ev {e} {} ret ok", r.thread))); }
        }
    }
    evs.sort_by_key(|x| x.0);
    let head = format!("T begin {case_no} threads={nthreads} shards={shards} keys={nkeys} vac={vac_mode}");
    let case_text = || -> String { let mut s = head.clone(); for (_, l) in evs.iter().take(400) { s.push('\n'); s.push_str(l); } s };
    // ---- independent oracle over the log
    // handle instances: acquired at (call,ret) of the producing op, released at (call,ret) of the drop
    struct Inst { ty: u8, key: u8, serial: u64, ptr: usize, acq_ret: u64, rel_call: u64, acq_call: u64, rel_ret: u64 }
    let mut inst: HashMap<u64, Inst> = HashMap::new();
    for r in &all {
        if r.op != 3 { if let Some((ser, d, p)) = r.res { inst.insert(r.hid, Inst { ty: r.ty, key: d % 4, serial: ser, ptr: p, acq_ret: r.ret, rel_call: u64::MAX, acq_call: r.call, rel_ret: u64::MAX }); } }
    }
    for r in &all { if r.op == 3 { if let Some(i) = inst.get_mut(&r.hid) { i.rel_call = r.call; i.rel_ret = r.ret; } } }
    let mut by_slot: HashMap<(u8, u8), Vec<&Inst>> = HashMap::new();
    for i in inst.values() { by_slot.entry((i.ty, i.key)).or_default().push(i); }
    let mut contended = 0u64;
    for (slot, v) in &by_slot {
        for (a, x) in v.iter().enumerate() { for y in v.iter().skip(a + 1) {
            let overlap = x.acq_ret < y.rel_call && y.acq_ret < x.rel_call;
            if overlap && x.serial != y.serial { rep.fail("thr-two-live-allocations", format!("slot {:?}: handles to allocations {} and {} were held at the same time", slot, x.serial, y.serial), case_text()); }
            if overlap && x.serial == y.serial && x.ptr != y.ptr { rep.fail("thr-same-allocation-two-pointers", format!("slot {:?}", slot), case_text()); }
        } }
    }
    let (mut n_new, mut n_hit, mut n_some, mut n_none, mut conc_ops) = (0u64, 0u64, 0u64, 0u64, 0u64);
    for r in &all {
        if r.op == 0 || r.op == 1 {
            let key = r.d % 4;
            if let Some((_, d, _)) = r.res { if d % 4 != key { rep.fail("thr-wrong-content", format!("asked key {key} of type {}, handle content has key {}", r.ty, d % 4), case_text()); } }
            let covering = by_slot.get(&(r.ty, key)).map(|v| v.iter().any(|i| i.acq_ret < r.call && i.rel_call > r.ret)).unwrap_or(false);
            if by_slot.get(&(r.ty, key)).map(|v| v.iter().any(|i| i.acq_call < r.ret && i.rel_ret > r.call && !(i.acq_ret < r.call && i.rel_call > r.ret))).unwrap_or(false) { conc_ops += 1; }
            match (r.op, r.res) {
                (0, Some((ser, d, _))) => { if ser == r.own_serial { n_new += 1; if d != r.d { rep.fail("thr-wrong-content", "new allocation does not contain the interned value".into(), case_text()); }
                                             if covering { rep.fail("thr-intern-duplicated-live", format!("intern({},{}) allocated although a handle of the slot was held during the whole call", r.ty, r.d), case_text()); } } else { n_hit += 1; } }
                (1, None) => { n_none += 1; if covering { rep.fail("thr-lookup-missed-live", format!("get_from_hash({},{}) = None although a handle of the slot was held during the whole call", r.ty, key), case_text()); } }
                (1, Some(_)) => { n_some += 1; }
                _ => {}
            }
        }
    }
    if conc_ops > 0 { contended = 1; }
    for f in local_fail.lock().unwrap().iter().take(3) { rep.fail(if f.starts_with("content") { "thr-content-changed" } else { "thr-two-live-allocations" }, f.clone(), case_text()); }
    let np = panics.load(Ordering::Relaxed);
    if np > 0 { rep.fail("thr-panic", format!("{np} worker operations panicked"), case_text()); }
    // ---- emit
    out.line(&head, "ok");
    for (_, l) in &evs { out.line(l, "ok"); }
    out.line("T end", "lin-ok");
    rep.evaluations += 1; rep.nontrivial += contended;
    rep.bump("thr.cases", 1); rep.bump(&format!("thr.threads.{nthreads}"), 1); rep.bump("thr.ops", all.len() as u64);
    rep.bump("thr.intern_new", n_new); rep.bump("thr.intern_hit", n_hit); rep.bump("thr.get_some", n_some); rep.bump("thr.get_none", n_none);
    rep.bump("thr.ops_overlapping_a_handle_transition_of_their_slot", conc_ops); rep.bump("thr.vacuum_runs", vac_runs.load(Ordering::Relaxed));
    if rep.samples.len() < 4 { rep.samples.push(format!("{head} ; {}", evs.iter().take(8).map(|x| x.1.clone()).collect::<Vec<_>>().join(" ; "))); }
}

// ------------------------------------------------------------------------------------------------ X: encode / decode
#[derive(Debug, Clone, PartialEq, Eq)]
enum H { A(Interned<NodeA>), B(Interned<NodeB>), S(Interned<[u8]>), T(Interned<str>) }
#[derive(Debug, Clone, PartialEq, Eq, Encode, Decode)]
#[serialize_crate(qbice_serialize)]
struct NodeA { label: u8, kids: Vec<H> }
#[derive(Debug, Clone, PartialEq, Eq, Encode, Decode)]
#[serialize_crate(qbice_serialize)]
struct NodeB { label: u8, kids: Vec<H> }
impl StableHash for H {
    fn stable_hash<S: StableHasher + ?Sized>(&self, st: &mut S) {
        match self { H::A(x) => { st.write_u8(0); x.stable_hash(st) } H::B(x) => { st.write_u8(1); x.stable_hash(st) } H::S(x) => { st.write_u8(2); x.stable_hash(st) } H::T(x) => { st.write_u8(3); x.stable_hash(st) } }
    }
}
// NodeA and NodeB hash identically on purpose: equal hashes, different stable type ids.
impl StableHash for NodeA { fn stable_hash<S: StableHasher + ?Sized>(&self, st: &mut S) { self.label.stable_hash(st); self.kids.stable_hash(st); } }
impl StableHash for NodeB { fn stable_hash<S: StableHasher + ?Sized>(&self, st: &mut S) { self.label.stable_hash(st); self.kids.stable_hash(st); } }
impl Identifiable for NodeA { const STABLE_TYPE_ID: StableTypeID = StableTypeID::from_unique_type_name("qbice_verif::intern::NodeA"); }
impl Identifiable for NodeB { const STABLE_TYPE_ID: StableTypeID = StableTypeID::from_unique_type_name("qbice_verif::intern::NodeB"); }
impl Encode for H {
    fn encode<E: Encoder + ?Sized>(&self, e: &mut E, p: &Plugin, s: &mut Session) -> std::io::Result<()> {
        match self { H::A(x) => { e.emit_u8(0)?; x.encode(e, p, s) } H::B(x) => { e.emit_u8(1)?; x.encode(e, p, s) } H::S(x) => { e.emit_u8(2)?; x.encode(e, p, s) } H::T(x) => { e.emit_u8(3)?; x.encode(e, p, s) } }
    }
}
impl Decode for H {
    fn decode<D: Decoder + ?Sized>(d: &mut D, p: &Plugin, s: &mut Session) -> std::io::Result<Self> {
        match d.read_u8()? { 0 => Ok(H::A(Decode::decode(d, p, s)?)), 1 => Ok(H::B(Decode::decode(d, p, s)?)), 2 => Ok(H::S(Decode::decode(d, p, s)?)), 3 => Ok(H::T(Decode::decode(d, p, s)?)),
            _ => Err(std::io::Error::new(std::io::ErrorKind::InvalidData, "bad H tag")) }
    }
}
impl H {
    fn ty(&self) -> u8 { match self { H::A(_) => 0, H::B(_) => 1, H::S(_) => 2, H::T(_) => 3 } }
    fn label(&self) -> u8 { match self { H::A(x) => x.label, H::B(x) => x.label, H::S(x) => x[0], H::T(x) => u8::from_str_radix(x, 16).unwrap_or(255) } }
    fn kids(&self) -> &[H] { match self { H::A(x) => &x.kids, H::B(x) => &x.kids, _ => &[] } }
    fn ptr(&self) -> usize { match self { H::A(x) => (&**x) as *const NodeA as usize, H::B(x) => (&**x) as *const NodeB as usize, H::S(x) => (&**x) as *const [u8] as *const u8 as usize, H::T(x) => (&**x) as *const str as *const u8 as usize } }
    fn hash(&self, it: &Interner) -> u128 { match self { H::A(x) => it.hash_128(&**x).to_u128(), H::B(x) => it.hash_128(&**x).to_u128(), H::S(x) => it.hash_128(&**x).to_u128(), H::T(x) => it.hash_128(&**x).to_u128() } }
    fn term(&self, it: &Interner) -> String {
        let mut s = format!("({} {} {:032x}", self.ty(), self.label(), self.hash(it));
        for k in self.kids() { s.push(' '); s.push_str(&k.term(it)); }
        s.push(')'); s
    }
    /// post-order list of (type, pointer) of every handle occurrence
    fn occ(&self, v: &mut Vec<(u8, usize)>) { for k in self.kids() { k.occ(v); } v.push((self.ty(), self.ptr())); }
    /// handles in the order the decoder produces them: a repeated allocation is one handle (a reference), not a subtree
    fn occ_prod(&self, seen: &mut std::collections::HashSet<(u8, usize)>, v: &mut Vec<(u8, usize)>) {
        if seen.insert((self.ty(), self.ptr())) { for k in self.kids() { k.occ_prod(seen, v); } }
        v.push((self.ty(), self.ptr()));
    }
}
fn mk(it: &Interner, ty: u8, label: u8, kids: Vec<H>) -> H {
    match ty { 0 => H::A(it.intern(NodeA { label, kids })), 1 => H::B(it.intern(NodeB { label, kids })), 2 => H::S(it.intern_unsized::<[u8], Vec<u8>>(vec![label])), _ => H::T(it.intern_unsized::<str, String>(format!("{:x}", label))) }
}
fn classes(v: &[(u8, usize)]) -> String {
    let mut m: HashMap<(u8, usize), usize> = HashMap::new();
    v.iter().map(|k| { let n = m.len(); m.entry(*k).or_insert(n).to_string() }).collect::<Vec<_>>().join(",")
}
fn enc_case(rng: &mut Rng, out: &mut Out, rep: &mut Report) {
    let it = Interner::new(4, HB::default());
    let mut plugin = Plugin::new(); plugin.insert(it.clone());
    // a pool of distinct values built bottom-up; children are picked from the pool, so repetition and nesting abound
    let mut pool: Vec<H> = vec![];
    let nleaf = rng.range(1, 4); let nnode = rng.range(0, 7);
    for _ in 0..nleaf { let ty = *rng.pick(&[2u8, 3, 0, 1]); pool.push(mk(&it, ty, rng.below(4) as u8, vec![])); }
    for _ in 0..nnode {
        let nk = rng.below(4) as usize; let kids: Vec<H> = (0..nk).map(|_| rng.pick(&pool).clone()).collect();
        pool.push(mk(&it, rng.below(2) as u8, rng.below(3) as u8, kids));
    }
    let ntop = rng.range(1, 6) as usize;
    let top: Vec<H> = (0..ntop).map(|_| { let i = if rng.chance(1, 2) { pool.len() - 1 - rng.below(pool.len().min(3) as u64) as usize } else { rng.below(pool.len() as u64) as usize }; pool[i].clone() }).collect();
    drop(pool);
    let terms = top.iter().map(|h| h.term(&it)).collect::<Vec<_>>().join(" ");
    let case = format!("X enc {terms}");
    let mut orig_occ = vec![]; for h in &top { h.occ(&mut orig_occ); }
    let bytes = match catch_unwind(AssertUnwindSafe(|| { let mut e = PostcardEncoder::new(Vec::new()); e.encode(&top, &plugin).map(|_| e.into_inner()) })) {
        Ok(Ok(b)) => b, _ => { rep.fail("enc-panic", "encode panicked or failed".into(), case.clone()); out.line(&case, "panic"); return; } };
    out.line(&case, &hex(&bytes));
    let refs = { let mut n = 0u64; let mut seen = std::collections::HashSet::new(); for k in &orig_occ { if !seen.insert(*k) { n += 1; } } n };
    for mode in ["live", "fresh"] {
        let interner2: Interner = if mode == "live" { it.clone() } else { Interner::new(2, HB::default()) };
        let line = format!("X dec {mode} {} {terms}", hex(&bytes));
        let mut plugin2 = Plugin::new(); plugin2.insert(interner2.clone());
        let decoded = catch_unwind(AssertUnwindSafe(|| { let mut d = PostcardDecoder::new(&bytes[..]); d.decode::<Vec<H>>(&plugin2) }));
        let ans = match decoded {
            Ok(Ok(dec)) => {
                let t2 = dec.iter().map(|h| h.term(&interner2)).collect::<Vec<_>>().join(" ");
                let mut occ = vec![]; for h in &dec { h.occ(&mut occ); }
                if t2 != terms || dec != top { rep.fail("dec-values-differ", format!("mode {mode}: decoded values differ from the originals"), line.clone()); }
                if classes(&occ) != classes(&orig_occ) { rep.fail("dec-sharing-differs", format!("mode {mode}: sharing partition {} vs original {}", classes(&occ), classes(&orig_occ)), line.clone()); }
                if mode == "live" && occ.iter().zip(orig_occ.iter()).any(|(a, b)| a != b) { rep.fail("dec-not-canonical", format!("mode {mode}: decoded handles are not the live originals' allocations"), line.clone()); }
                let mut prod = vec![]; let mut seen = Default::default(); for h in &dec { h.occ_prod(&mut seen, &mut prod); }
                format!("dec-ok {} share={}", t2, classes(&prod))
            }
            Ok(Err(e)) => { rep.fail("dec-error", format!("mode {mode}: {e}"), line.clone()); "dec-error".into() }
            Err(_) => { rep.fail("dec-panic", format!("mode {mode}: decode panicked"), line.clone()); "panic".into() }
        };
        out.line(&line, &ans);
    }
    rep.evaluations += 1; if refs > 0 { rep.nontrivial += 1; }
    rep.bump("enc.cases", 1); rep.bump("enc.handle_occurrences", orig_occ.len() as u64); rep.bump("enc.repeated_occurrences", refs); rep.bump("enc.bytes", bytes.len() as u64);
    if rep.samples.len() < 6 { rep.samples.push(case.chars().take(300).collect()); }
}
/// originals really dropped before decoding (second occurrence must still resolve inside one decode call)
fn enc_dropped_case(rng: &mut Rng, out: &mut Out, rep: &mut Report) {
    let it = Interner::new(4, HB::default());
    let mut plugin = Plugin::new(); plugin.insert(it.clone());
    let leaf = mk(&it, *rng.pick(&[0u8, 1, 2, 3]), rng.below(4) as u8, vec![]);
    let mid = mk(&it, rng.below(2) as u8, 1, vec![leaf.clone(), leaf.clone()]);
    let top = vec![mid.clone(), leaf.clone(), mk(&it, rng.below(2) as u8, 2, vec![mid.clone(), leaf.clone()]), mid.clone()];
    drop(leaf); drop(mid);
    let terms = top.iter().map(|h| h.term(&it)).collect::<Vec<_>>().join(" ");
    let mut orig_occ = vec![]; for h in &top { h.occ(&mut orig_occ); }
    let orig_classes = classes(&orig_occ);
    let mut e = PostcardEncoder::new(Vec::new()); e.encode(&top, &plugin).unwrap(); let bytes = e.into_inner();
    let case = format!("X enc {terms}");
    out.line(&case, &hex(&bytes));
    drop(top); it.vacuum();
    let line = format!("X dec dropped {} {terms}", hex(&bytes));
    let ans = match catch_unwind(AssertUnwindSafe(|| { let mut d = PostcardDecoder::new(&bytes[..]); d.decode::<Vec<H>>(&plugin) })) {
        Ok(Ok(dec)) => { let t2 = dec.iter().map(|h| h.term(&it)).collect::<Vec<_>>().join(" "); let mut occ = vec![]; for h in &dec { h.occ(&mut occ); }
            if t2 != terms { rep.fail("dec-values-differ", "mode really-dropped".into(), line.clone()); }
            if classes(&occ) != orig_classes { rep.fail("dec-sharing-differs", "mode really-dropped".into(), line.clone()); }
            let mut prod = vec![]; let mut seen = Default::default(); for h in &dec { h.occ_prod(&mut seen, &mut prod); }
            format!("dec-ok {} share={}", t2, classes(&prod)) }
        Ok(Err(e)) => { rep.fail("dec-error", format!("{e}"), line.clone()); "dec-error".into() }
        Err(_) => { rep.fail("dec-panic", "decode panicked (really-dropped originals)".into(), line.clone()); "panic".into() } };
    out.line(&line, &ans);
    rep.evaluations += 1; rep.nontrivial += 1; rep.bump("enc.really_dropped_cases", 1);
}

fn main() {
    let a = args();
    let mut out = Out::new(&a.out);
    let mut rep = Report::default();
    rep.seed = a.seed;
    let thorough = a.tier == "thorough";
    let mut seed = a.seed;
    let mut script: Option<Vec<String>> = None;
    let prev = std::panic::take_hook();
    std::panic::set_hook(Box::new(|_| {}));
    if let Some(f) = &a.replay {
        // replay file: the JSON written by tools/check (key "case") or the bare case text.  An `S` case is
        // re-executed op by op; for `T` / `X` cases (an interleaving cannot be forced) the whole shard that produced
        // the case is re-run from its seed, recorded in the trailing `#seed N` line.
        let txt = std::fs::read_to_string(f).unwrap_or_default();
        let body = if let Some(i) = txt.find("\"case\": \"") { let rest = &txt[i + 9..]; let mut o = String::new(); let mut it = rest.chars();
            while let Some(ch) = it.next() { match ch { '"' => break, '\\' => match it.next() { Some('n') => o.push('\n'), Some(c) => o.push(c), None => break }, c => o.push(c) } } o } else { txt };
        let mut lines: Vec<String> = body.lines().map(|l| l.to_string()).collect();
        if let Some(l) = lines.iter().find(|l| l.starts_with("#seed ")) { seed = l[6..].trim().parse().unwrap_or(seed); }
        lines.retain(|l| !l.starts_with('#'));
        if lines.first().map(|l| l.starts_with("S begin")).unwrap_or(false) { script = Some(lines); }
    }
    rep.seed = seed;
    if let Some(lines) = &script {
        let mut rng = Rng::new(seed);
        seq_case(&mut rng, &mut out, &mut rep, Some(&lines[..]));
    } else {
        let n = a.n.unwrap_or(if thorough { 160 } else { 40 });
        let mut rng = Rng::new(seed);
        // a panic that escapes a case (e.g. while the harness builds its inputs through the interner) is an
        // oracle failure of that case, not a crash of the harness
        macro_rules! guarded { ($name:expr, $e:expr) => {{
            let r = catch_unwind(AssertUnwindSafe(|| $e));
            if r.is_err() { rep.fail("case-panic", format!("the interner panicked inside a {} case", $name), format!("{} case", $name)); }
        }}; }
        for i in 0..n {
            guarded!("S", seq_case(&mut rng, &mut out, &mut rep, None));
            guarded!("T", thread_case(&mut rng, &mut out, &mut rep, i, thorough));
            guarded!("T", thread_case(&mut rng, &mut out, &mut rep, n + i, thorough));
            guarded!("X", enc_case(&mut rng, &mut out, &mut rep));
            if i % 4 == 0 { guarded!("X", enc_dropped_case(&mut rng, &mut out, &mut rep)); }
        }
    }
    std::panic::set_hook(prev);
    let dist = rep.dist.iter().map(|(k, v)| format!("{}:{}", jstr(k), v)).collect::<Vec<_>>().join(",");
    let fails = rep.failures.iter().map(|(s, d, c)| format!("{{\"sig\":{},\"desc\":{},\"case\":{}}}", jstr(s), jstr(d), jstr(c))).collect::<Vec<_>>().join(",");
    let samples = rep.samples.iter().map(|s| jstr(s)).collect::<Vec<_>>().join(",");
    let report = format!("{{\"evaluations\":{},\"distinct_nontrivial\":{},\"rule\":{},\"samples\":[{}],\"distribution\":{{{}}},\"oracle_failures\":[{}]}}",
        rep.evaluations, rep.nontrivial,
        jstr("S: a hit, >=2 allocations and a re-allocation after the slot died; T: at least one intern/get overlapped in time with an acquire/release of a handle of its own slot on another thread; X: at least one repeated handle (encoded as a reference)"),
        samples, dist, fails);
    out.finish(&report);
}
