//! C07 / C08 correspondence + oracle harness.
//!
//! The real engine on `Config { StorageEngine = DbBacked<KvMem> }` (`kvmem.rs`: an in-memory `KvDatabase`
//! with an ordered log of physical commits), cache capacities 1, 2, 8, 64, the write-behind grouping
//! knob (`should_write_more`) 1, 2, 3, 5, "everything at shutdown".
//!
//! mode c07: generated sequential histories with `restart` lines at random positions (drop the engine
//!   — all write-behind workers drain — open a NEW engine on the same store with FRESH executor
//!   objects and a fresh invocation log).  Oracle: every op of the run WITH restarts must return the
//!   same values and the same multiset of executor invocations (key, reads, result) as the same
//!   history WITHOUT restarts (run on the same configuration), plus the from-scratch value oracle
//!   (expect.txt; failures of the from-scratch oracle that the run without restart shows as well are
//!   C01's business and are attributed by the plugin).
//! mode c08: a history is run to the end, the engine dropped; for every prefix p of the commit log a
//!   fresh store holding the first p commits is built, an engine opened on it (must not panic), the
//!   timestamp t read back, and every key queried: inputs must be those of the t-th session, all
//!   values the from-scratch values for those inputs (recomputing is allowed; executions are not
//!   compared).  A value failure is not counted if a never-crashed engine driven to some point
//!   between session t and the next session answers the same queries identically.
//! mode rocks (feature `backends`): the same two oracles on the real RocksDB backend, including a
//!   child process that is SIGKILLed at a seeded instant (supporting validation only).
use std::{collections::{BTreeMap, BTreeSet}, sync::Arc};

use qbice::{Config, Engine, Identifiable, serialize::Plugin, stable_hash::{SeededStableHasherBuilder, Sip128Hasher},
    storage::storage_engine::db_backed::{Configuration, DbBacked, DbBackedFactory}};
use qbice_verif_harness::{eng::*, kvmem::*, *};

#[derive(Debug, Clone, Copy, PartialEq, Eq, PartialOrd, Ord, Hash, Default, Identifiable)]
pub struct PCfg;
impl Config for PCfg {
    type StorageEngine = DbBacked<KvMem>;
    type BuildStableHasher = SeededStableHasherBuilder<Sip128Hasher>;
    type BuildHasher = fxhash::FxBuildHasher;
}

#[derive(Clone, Copy, Debug)]
struct ECfg { cap: u64, group: usize, workers: usize }

#[derive(Clone, Debug, PartialEq, Eq)]
enum Item { Op(Op), Restart }

#[derive(Clone, Debug, Default)]
struct PCase { program: Program, items: Vec<Item>, /** C08: after each crash point the history is continued (edit, query all, edit, query all) instead of only queried */ cont: bool }
impl PCase {
    fn render(&self) -> String {
        let mut s = format!("case {}{}\n", self.program.nodes.len(), if self.program.has_unordered() { " unordered" } else { "" });
        for l in self.program.render_lines() { s.push_str(&l); s.push('\n'); }
        for it in &self.items { match it { Item::Op(o) => s.push_str(&o.render()), Item::Restart => s.push_str("restart") } s.push('\n'); }
        if self.cont { s.push_str("continue-after-crash\n"); }
        s
    }
    fn parse(text: &str) -> PCase {
        let mut c = PCase::default();
        for line in text.lines() {
            let line = line.trim();
            if line.is_empty() || line.starts_with("case") || line.starts_with('#') || line.starts_with("cfg") || line.starts_with("crash") || line == "shutdown" { continue; }
            if line.starts_with("node") { c.program.parse_node_line(line); }
            else if line == "restart" { c.items.push(Item::Restart); }
            else if line == "continue-after-crash" { c.cont = true; }
            else { c.items.push(Item::Op(Op::parse(line))); }
        }
        c
    }
    fn ops(&self) -> Vec<Op> { self.items.iter().filter_map(|i| if let Item::Op(o) = i { Some(o.clone()) } else { None }).collect() }
    fn without_restarts(&self) -> PCase { PCase { program: self.program.clone(), items: self.items.iter().filter(|i| **i != Item::Restart).cloned().collect(), cont: self.cont } }
}

type Eng = Engine<PCfg>;

async fn open_engine(store: &Arc<MemStore>, cfg: ECfg, program: &Program, world: &BTreeMap<u32, i64>) -> (Arc<Eng>, Arc<Shared>) {
    let sh = Arc::new(Shared::default());
    *sh.program.write().unwrap() = program.clone();
    *sh.world.lock().unwrap() = world.clone();
    let factory = DbBackedFactory::builder()
        .configuration(Configuration::builder().cache_capacity(cfg.cap).serialization_workers(cfg.workers).build())
        .db_factory(KvMemFactory(store.clone())).build();
    let mut engine = Engine::<PCfg>::new_with(Plugin::default(), factory, SeededStableHasherBuilder::new(0)).await.unwrap();
    register_all(&mut engine, &sh);
    (Arc::new(engine), sh)
}

/// drop = shutdown: must be the last reference, dropped inside the runtime (Database::drop uses spawn_blocking)
fn shutdown(engine: Arc<Eng>) {
    let e = Arc::try_unwrap(engine).unwrap_or_else(|_| panic!("harness: engine still shared at shutdown"));
    drop(e);
}

#[derive(Default)]
struct RunOut { outs: Vec<OpOut>, crash: Option<String>, /** logical write batches in the store after each shutdown (restarts, then the final one) */ batches_at_shutdown: Vec<u64>,
    /** (`run_items_s` with `state`) the digest of the engine's persistent bookkeeping (eng::state_digest) after every completed op */ states: Vec<String>,
    /** (`state`) the digest right after the engine was opened, before any op; and right after every restart, before any op */ state0: Option<String>, restart_states: Vec<String> }

/// Runs the items on `store`; the engine is shut down at the end (also after a panic inside: by unwinding).
fn run_items(case: &PCase, cfg: ECfg, store: &Arc<MemStore>) -> RunOut { run_items_s(case, cfg, store, false) }

/// `state`: after every op the read-only dump of every node is taken (it reads every column of every key through the
/// caches, so it changes what is resident: the runs whose values / invocations / batch counts are compared never use it)
fn run_items_s(case: &PCase, cfg: ECfg, store: &Arc<MemStore>, state: bool) -> RunOut {
    let partial: Arc<std::sync::Mutex<RunOut>> = Default::default();
    let (p2, case2, store2) = (partial.clone(), case.clone(), store.clone());
    let (tx, rx) = std::sync::mpsc::channel();
    let _ = std::thread::Builder::new().stack_size(256 << 20).spawn(move || {
        let rt = tokio::runtime::Builder::new_current_thread().enable_all().build().unwrap();
        let r = std::panic::catch_unwind(std::panic::AssertUnwindSafe(|| {
            rt.block_on(async {
                let mut world: BTreeMap<u32, i64> = BTreeMap::new();
                let (mut engine, mut sh) = open_engine(&store2, cfg, &case2.program, &world).await;
                let big = case2.program.nodes.len() > 64;
                if state { let d = state_digest_opts(&engine, &case2.program, !big, if big { 16 } else { 1 }).await; p2.lock().unwrap().state0 = Some(d); }
                for it in &case2.items {
                    match it {
                        Item::Restart => {
                            world = sh.world.lock().unwrap().clone();
                            shutdown(engine);
                            p2.lock().unwrap().batches_at_shutdown.push(store2.log().iter().map(|c| c.logical).sum());
                            let (e, s) = open_engine(&store2, cfg, &case2.program, &world).await;
                            engine = e; sh = s;
                            if state { let d = state_digest_opts(&engine, &case2.program, !big, if big { 16 } else { 1 }).await; p2.lock().unwrap().restart_states.push(d); }
                        }
                        Item::Op(op) => {
                            match tokio::time::timeout(std::time::Duration::from_secs(5), run_op(&engine, &sh, op)).await {
                                Ok(o) => {
                                    let d = if state { { let big = case2.program.nodes.len() > 64; state_digest_opts(&engine, &case2.program, !big, if big { 16 } else { 1 }).await } } else { String::new() };
                                    let mut g = p2.lock().unwrap(); g.outs.push(o); g.states.push(d);
                                }
                                Err(_) => return Err(format!("hang at op {}", op.render())),
                            }
                        }
                    }
                }
                shutdown(engine);
                p2.lock().unwrap().batches_at_shutdown.push(store2.log().iter().map(|c| c.logical).sum());
                Ok(())
            })
        }));
        drop(rt);
        let r = match r { Ok(x) => x, Err(p) => Err(format!("panic: {}", panic_msg(&p))) };
        let _ = tx.send(r);
    });
    let r = match rx.recv_timeout(std::time::Duration::from_secs(20)) { Ok(r) => r, Err(_) => Err("hang (watchdog): the case did not finish within 20 s".to_string()) };
    let mut out = std::mem::take(&mut *partial.lock().unwrap());
    out.crash = r.err();
    out
}

fn panic_msg(p: &Box<dyn std::any::Any + Send>) -> String {
    p.downcast_ref::<String>().cloned().or_else(|| p.downcast_ref::<&str>().map(|s| s.to_string())).unwrap_or_else(|| "<non-string payload>".into())
}

// ------------------------------------------------------------------------------------------
// from-scratch expectations (value part of the C01 judge; independent of the Lean model)
// ------------------------------------------------------------------------------------------

struct Expect { lines: Vec<String>, /** truth after each op */ truths: Vec<(Truth, BTreeMap<u32, i64>)> }

fn expectations(p: &Program, ops: &[Op], outs: &[OpOut]) -> Expect {
    let mut truth = Truth::default();
    let mut world: BTreeMap<u32, i64> = BTreeMap::new();
    let mut computed: BTreeSet<u32> = BTreeSet::new();
    let mut lines = vec![]; let mut truths = vec![];
    for (i, op) in ops.iter().enumerate() {
        match op {
            Op::Session(ws) => {
                for w in ws { if let Write::World(k, v) = w { world.insert(*k, *v); } }
                let mut exps: Vec<String> = vec![];
                for w in ws {
                    match w {
                        Write::Set(k, v) => { exps.push(match truth.inputs.get(k) { None => "Fresh", Some(o) if o == v => "Unchanged", Some(_) => "Updated" }.into()); truth.inputs.insert(*k, *v); }
                        Write::Refresh => { exps.push("refreshed".into()); for k in computed.iter() { if p.kind(*k) == Kind::External { truth.ext.insert(*k, *world.get(k).unwrap_or(&0)); } } }
                        Write::World(..) => exps.push("world".into()),
                    }
                }
                lines.push(exps.join(" "));
            }
            Op::Round(ks) => {
                let mut sc_truth = truth.clone();
                for k in 0..p.nodes.len() as u32 { if p.kind(k) == Kind::External && !truth.ext.contains_key(&k) { sc_truth.ext.insert(k, *world.get(&k).unwrap_or(&0)); } }
                let mut sc = Scratch::new(p, &sc_truth);
                lines.push(ks.iter().map(|k| sc.value(*k).unwrap().to_string()).collect::<Vec<_>>().join(" "));
                if let Some(o) = outs.get(i) { for e in &o.execs { computed.insert(e.key); if p.kind(e.key) == Kind::External { truth.ext.insert(e.key, *world.get(&e.key).unwrap_or(&0)); } } }
            }
        }
        truths.push((truth.clone(), world.clone()));
    }
    Expect { lines, truths }
}

// ------------------------------------------------------------------------------------------
// generation
// ------------------------------------------------------------------------------------------

fn gen_case(rng: &mut Rng, i: u64, long: bool, externals: bool) -> Case {
    let cfg = GenCfg { max_keys: if i % 4 == 0 { 6 } else { 10 }, max_ops: if long { 24 } else { 9 }, firewalls: i % 5 != 4, externals: externals && i % 3 == 0, unordered: i % 7 == 0, cycles: false };
    let p = gen_program(rng, &cfg);
    let ops = gen_history(rng, &p, &cfg);
    Case { program: p, ops }
}

fn insert_restarts(rng: &mut Rng, c: &Case) -> PCase {
    let mut items = vec![];
    let style = rng.below(4); // 0: few, 1: many, 2: one, 3: after every session / before every round
    let mut any = false;
    for (i, op) in c.ops.iter().enumerate() {
        let r = match style { 0 => rng.chance(1, 5), 1 => rng.chance(1, 2), 2 => false, _ => matches!(op, Op::Round(_)) && rng.chance(2, 3) };
        if r && i > 0 { items.push(Item::Restart); any = true; if rng.chance(1, 8) { items.push(Item::Restart); } }
        items.push(Item::Op(op.clone()));
    }
    if !any { let at = 1 + rng.below(items.len() as u64 - 1) as usize; items.insert(at, Item::Restart); }
    if rng.chance(1, 6) { items.insert(0, Item::Restart); }
    PCase { program: c.program.clone(), items, cont: false }
}


// ------------------------------------------------------------------------------------------
// "wide fan-in": one key with N direct dependents, N around the size at which the storage layer stops
// holding a key-of-set entry (here: the backward-edge set of that key) in memory and streams it from
// the store instead.  Run by every check (shard 0), a few instances per run.
// ------------------------------------------------------------------------------------------

#[derive(Clone, Copy, Debug, PartialEq, Eq)]
enum Hub { Input, Firewall, Normal }

/// key 0: input; hub = key 0 itself, or key 1 = a firewall / normal node over key 0; `n` readers of the hub
fn fanin_program(hub: Hub, n: u32) -> (Program, Vec<u32>) {
    let mut nodes = vec![NodeDef { kind: Kind::Input, default: 0, expr: Expr::Const(0) }];
    let h = match hub {
        Hub::Input => 0,
        Hub::Firewall => { nodes.push(NodeDef { kind: Kind::Firewall, default: kind_default(Kind::Firewall), expr: Expr::Add(Box::new(Expr::Read(0)), Box::new(Expr::Const(100))) }); 1 }
        Hub::Normal => { nodes.push(NodeDef { kind: Kind::Normal, default: kind_default(Kind::Normal), expr: Expr::Add(Box::new(Expr::Read(0)), Box::new(Expr::Const(100))) }); 1 }
    };
    let first = nodes.len() as u32;
    for i in 0..n { nodes.push(NodeDef { kind: Kind::Normal, default: kind_default(Kind::Normal), expr: Expr::Add(Box::new(Expr::Read(h)), Box::new(Expr::Const((i % 7) as i64))) }); }
    (Program { nodes }, (first..first + n).collect())
}

/// the fan-in sizes of a run: both sides of every power of two at which a set representation could change
/// (the threshold is the code's business: sizes are spread over 1020..1030 in every run, plus larger ones)
fn fanin_sizes(rng: &mut Rng, thorough: bool) -> Vec<u32> {
    let mut v = vec![1025 + rng.below(6) as u32, 1020 + rng.below(5) as u32, 1100];
    if thorough { v.extend([1023, 1024, 1025, 1026, 1027 + rng.below(4) as u32, 2100, 33, 32]); }
    v
}

fn fanin_cfg(rng: &mut Rng, i: usize) -> ECfg {
    ECfg { cap: [1u64, 64, 1 << 18, 8][i % 4], group: *rng.pick(&[1usize, 5, 1_000_000]), workers: 1 + rng.below(2) as usize }
}

/// C07: set, compute all readers, restart, edit, query all readers, [restart,] edit again, query all
fn fanin_c07_cases(rng: &mut Rng, thorough: bool) -> Vec<(PCase, ECfg)> {
    let mut out = vec![];
    for (i, n) in fanin_sizes(rng, thorough).into_iter().enumerate() {
        let hub = [Hub::Input, Hub::Firewall, Hub::Normal][(i + rng.below(3) as usize) % 3];
        let (program, readers) = fanin_program(hub, n);
        let mut shuffled = readers.clone(); rng.shuffle(&mut shuffled);
        let mut items = vec![Item::Op(Op::Session(vec![Write::Set(0, 1)])), Item::Op(Op::Round(readers.clone())), Item::Restart,
            Item::Op(Op::Session(vec![Write::Set(0, 2)])), Item::Op(Op::Round(shuffled))];
        if rng.chance(1, 2) { items.push(Item::Restart); }
        items.push(Item::Op(Op::Session(vec![Write::Set(0, 3)])));
        items.push(Item::Op(Op::Round(readers.iter().rev().copied().collect())));
        out.push((PCase { program, items, cont: false }, fanin_cfg(rng, i)));
    }
    out
}

/// C08: set, compute all readers; then for a few prefixes of the commit log: reopen, edit, query all, edit, query all
fn fanin_c08_cases(rng: &mut Rng, thorough: bool) -> Vec<(PCase, ECfg)> {
    let mut out = vec![];
    let mut sizes = fanin_sizes(rng, thorough);
    if !thorough { sizes.truncate(2); }
    for (i, n) in sizes.into_iter().enumerate() {
        let hub = [Hub::Firewall, Hub::Input, Hub::Normal][(i + rng.below(3) as usize) % 3];
        let (program, readers) = fanin_program(hub, n);
        let items = vec![Item::Op(Op::Session(vec![Write::Set(0, 1)])), Item::Op(Op::Round(readers))];
        out.push((PCase { program, items, cont: true }, fanin_cfg(rng, i + 1)));
    }
    out
}

const CAPS: [u64; 4] = [1, 2, 8, 64];
const GROUPS: [usize; 5] = [1, 2, 3, 5, 1_000_000];

fn pick_cfg(rng: &mut Rng) -> ECfg { ECfg { cap: *rng.pick(&CAPS), group: *rng.pick(&GROUPS), workers: 1 + rng.below(2) as usize } }

fn nontrivial(ops: &[Op]) -> bool {
    let mut seen_round = false; let mut vals: BTreeMap<u32, i64> = BTreeMap::new(); let mut nt = false;
    for op in ops {
        match op {
            Op::Round(_) => seen_round = true,
            Op::Session(ws) => for w in ws { if let Write::Set(k, v) = w { if seen_round && vals.get(k).is_some_and(|o| o != v) { nt = true; } vals.insert(*k, *v); } if let Write::Refresh = w { if seen_round { nt = true; } } },
        }
    }
    nt
}

struct Failure { sig: String, desc: String, case: String }

/// State-invariant oracle (eng::state_invariant_check) on one dumped state of a reopened / restarted engine: verified nodes
/// hold the from-scratch values for the inputs that are committed in what the engine was opened on, backward edges are
/// the inverse of the recorded dependencies, firewall sets of verified nodes follow from the dependencies.
fn judge_digest(pid: &str, p: &Program, digest: &str, truth: &Truth, world: &BTreeMap<u32, i64>, what: &str, case_text: &str, failures: &mut Vec<Failure>, dist: &mut BTreeMap<String, u64>) {
    if p.nodes.len() > 64 || !is_acyclic(p) { return; }
    *dist.entry("state_dumps_judged_by_the_state_invariant_oracle".into()).or_insert(0) += 1;
    let mut t = truth.clone();
    for k in 0..p.nodes.len() as u32 { if p.kind(k) == Kind::External && !t.ext.contains_key(&k) { t.ext.insert(k, *world.get(&k).unwrap_or(&0)); } }
    // an external node's stored value is whatever the world was when it was last (re)computed: taken from the digest itself
    let leaves = digest_leaf_values(digest);
    for (k, v) in &leaves { if p.kind(*k) == Kind::External { t.ext.insert(*k, *v); } }
    let value_of = |k: u32| -> Option<i64> { if !defined(p, &t, k) { return None; } std::panic::catch_unwind(std::panic::AssertUnwindSafe(|| Scratch::new(p, &t).value(k).ok())).ok().flatten() };
    for (which, d) in state_invariant_check(p, digest, &value_of) {
        let sig = format!("{pid}:state-invariant:{which}");
        if failures.iter().filter(|f| f.sig == sig).count() < 3 { failures.push(Failure { sig, desc: format!("{what}: {d}"), case: case_text.to_string() }); }
    }
}

fn exec_key(e: &ExecRecord) -> String { format!("{}{:?}->{:?}", e.key, e.reads, e.result) }

fn compare_runs(case: &PCase, a: &RunOut, b: &RunOut) -> Option<(String, String)> {
    if let Some(m) = &b.crash { if a.crash.is_none() { return Some(("C07:crash-with-restart".into(), format!("the run with restarts stopped ({m}) after {} ops; the run without restarts completed", b.outs.len()))); } }
    let ops = case.ops();
    for (i, (x, y)) in a.outs.iter().zip(&b.outs).enumerate() {
        if x.vals != y.vals {
            let opr = ops[i].render();
            let what = match &ops[i] {
                Op::Round(ks) if ks.len() > 12 => { let d: Vec<String> = ks.iter().zip(x.vals.iter().zip(&y.vals)).filter(|(_, (a, b))| a != b).take(5).map(|(k, (a, b))| format!("key {k}: {b} with restarts, {a} without")).collect(); format!("{} of {} queried keys differ: {}", ks.iter().zip(x.vals.iter().zip(&y.vals)).filter(|(_, (a, b))| a != b).count(), ks.len(), d.join("; ")) }
                _ => format!("with restarts {:?}, without {:?}", y.vals, x.vals),
            };
            return Some(("C07:value-differs".into(), format!("op {i} `{}`: {what}", if opr.len() > 60 { format!("{}…", &opr[..60]) } else { opr })));
        }
        let (ex, ey): (Vec<String>, Vec<String>) = (x.execs.iter().map(exec_key).collect(), y.execs.iter().map(exec_key).collect());
        if ex != ey {
            let (kx, ky): (Vec<u32>, Vec<u32>) = (x.execs.iter().map(|e| e.key).collect(), y.execs.iter().map(|e| e.key).collect());
            let more = ky.len() > kx.len();
            let opr = ops[i].render();
            let show = |v: &Vec<u32>| if v.len() > 24 { format!("{} invocations", v.len()) } else { format!("{v:?}") };
            return Some((if kx == ky { "C07:exec-reads-differ".into() } else if more { "C07:exec-more-after-restart".into() } else { "C07:exec-differs".into() },
                format!("op {i} `{}`: executor invocations with restarts {}, without {}", if opr.len() > 60 { format!("{}…", &opr[..60]) } else { opr }, show(&ky), show(&kx))));
        }
    }
    if a.crash.is_some() != b.crash.is_some() || a.outs.len() != b.outs.len() { return Some(("C07:crash-differs".into(), format!("without restarts: {:?} after {} ops; with: {:?} after {} ops", a.crash, a.outs.len(), b.crash, b.outs.len()))); }
    None
}

fn shrink_c07(case: &PCase, cfg: ECfg, sig: &str) -> PCase {
    let fails = |c: &PCase| -> bool {
        let a = run_items(&c.without_restarts(), cfg, &MemStore::new(cfg.group, false));
        let b = run_items(c, cfg, &MemStore::new(cfg.group, false));
        compare_runs(c, &a, &b).is_some_and(|f| f.0 == sig)
    };
    let mut cur = case.clone();
    let mut progress = true; let mut budget = 120;
    while progress && budget > 0 {
        progress = false;
        for i in (1..cur.items.len()).rev() {
            if budget == 0 { break; }
            let mut c = cur.clone(); c.items.remove(i);
            if !c.items.iter().any(|x| *x == Item::Restart) { continue; }
            budget -= 1;
            if fails(&c) { cur = c; progress = true; }
        }
        for k in 0..cur.program.nodes.len() {
            if budget == 0 { break; }
            if matches!(cur.program.nodes[k].kind, Kind::Input | Kind::External) { continue; }
            if cur.program.nodes[k].expr != Expr::Const(0) { let mut c = cur.clone(); c.program.nodes[k].expr = Expr::Const(0); budget -= 1; if fails(&c) { cur = c; progress = true; } }
        }
    }
    cur
}

// ------------------------------------------------------------------------------------------
// C08: crash at every commit boundary
// ------------------------------------------------------------------------------------------

fn timestamp_of(t: &Tables) -> Option<u64> {
    for (_, (_, d)) in &t.wide { if let Some(d) = d { if d.column.ends_with("TimestampColumn") { return d.value.trim_start_matches("Timestamp(").trim_end_matches(')').parse().ok(); } } }
    None
}

struct CrashOut { opened: Result<(), String>, vals: Vec<String>, out: Option<OpOut>, crash: Option<String>, /** (`--state`) digest before the query / after it */ d0: Option<String>, d1: Option<String> }

/// `--state`: `probe` dumps the state of the reopened engine before any query and after the round
static PROBE_STATE: std::sync::atomic::AtomicBool = std::sync::atomic::AtomicBool::new(false);

/// open an engine on `store`, query `ks` in one round
fn probe(program: &Program, cfg: ECfg, store: &Arc<MemStore>, world: &BTreeMap<u32, i64>, ks: &[u32]) -> CrashOut {
    let (program2, store2, world2, ks2) = (program.clone(), store.clone(), world.clone(), ks.to_vec());
    let ds: Arc<std::sync::Mutex<(Option<String>, Option<String>)>> = Default::default();
    let ds2 = ds.clone();
    let (tx, rx) = std::sync::mpsc::channel();
    let _ = std::thread::Builder::new().stack_size(256 << 20).spawn(move || {
        let rt = tokio::runtime::Builder::new_current_thread().enable_all().build().unwrap();
        let opened = Arc::new(std::sync::atomic::AtomicBool::new(false));
        let o2 = opened.clone();
        let r = std::panic::catch_unwind(std::panic::AssertUnwindSafe(|| {
            rt.block_on(async {
                let (engine, sh) = open_engine(&store2, cfg, &program2, &world2).await;
                o2.store(true, std::sync::atomic::Ordering::SeqCst);
                let st = PROBE_STATE.load(std::sync::atomic::Ordering::Relaxed) && program2.nodes.len() <= 64;
                if st { *ds2.lock().unwrap() = (Some(state_digest(&engine, &program2).await), None); }
                let r = if ks2.is_empty() { Ok(None) } else {
                    match tokio::time::timeout(std::time::Duration::from_secs(5), run_op(&engine, &sh, &Op::Round(ks2.clone()))).await { Ok(o) => Ok(Some(o)), Err(_) => Err("hang".to_string()) }
                };
                if st && matches!(r, Ok(Some(_))) { let d = state_digest(&engine, &program2).await; ds2.lock().unwrap().1 = Some(d); }
                shutdown(engine);
                r
            })
        }));
        drop(rt);
        let _ = tx.send((opened.load(std::sync::atomic::Ordering::SeqCst), match r { Ok(x) => x, Err(p) => Err(format!("panic: {}", panic_msg(&p))) }));
    });
    let got = rx.recv_timeout(std::time::Duration::from_secs(20));
    let (d0, d1) = ds.lock().unwrap().clone();
    match got {
        Ok((true, Ok(v))) => CrashOut { opened: Ok(()), vals: v.as_ref().map(|o| o.vals.clone()).unwrap_or_default(), out: v, crash: None, d0, d1 },
        Ok((true, Err(m))) => CrashOut { opened: Ok(()), vals: vec![], out: None, crash: Some(m), d0, d1 },
        Ok((false, Err(m))) => CrashOut { opened: Err(m), vals: vec![], out: None, crash: None, d0: None, d1: None },
        Ok((false, Ok(_))) => unreachable!(),
        Err(_) => CrashOut { opened: Ok(()), vals: vec![], out: None, crash: Some("hang (watchdog)".into()), d0: None, d1: None },
    }
}


// ------------------------------------------------------------------------------------------
// the same two oracles on the real RocksDB backend (thorough tier; supporting validation only)
// ------------------------------------------------------------------------------------------
#[cfg(feature = "backends")]
mod rocks {
    use super::*;
    use qbice::storage::kv_database::rocksdb::RocksDB;
    use std::path::{Path, PathBuf};

    #[derive(Debug, Clone, Copy, PartialEq, Eq, PartialOrd, Ord, Hash, Default, Identifiable)]
    pub struct RCfg;
    impl Config for RCfg {
        type StorageEngine = DbBacked<RocksDB>;
        type BuildStableHasher = SeededStableHasherBuilder<Sip128Hasher>;
        type BuildHasher = fxhash::FxBuildHasher;
    }
    type REng = Engine<RCfg>;

    async fn open(dir: &Path, cap: u64, program: &Program, world: &BTreeMap<u32, i64>) -> (Arc<REng>, Arc<Shared>) {
        let sh = Arc::new(Shared::default());
        *sh.program.write().unwrap() = program.clone();
        *sh.world.lock().unwrap() = world.clone();
        let factory = DbBackedFactory::builder().configuration(Configuration::builder().cache_capacity(cap).serialization_workers(2).build()).db_factory(RocksDB::factory(dir.to_path_buf())).build();
        let mut engine = Engine::<RCfg>::new_with(Plugin::default(), factory, SeededStableHasherBuilder::new(0)).await.expect("open rocksdb");
        register_all(&mut engine, &sh);
        (Arc::new(engine), sh)
    }
    fn shutdown(engine: Arc<REng>) { drop(Arc::try_unwrap(engine).unwrap_or_else(|_| panic!("harness: engine still shared at shutdown"))); }

    /// runs the items; `progress` (if any) gets one byte per completed item (for the kill -9 parent)
    pub fn run_items(case: &PCase, cap: u64, dir: &Path, progress: Option<PathBuf>) -> RunOut {
        let partial: Arc<std::sync::Mutex<RunOut>> = Default::default();
        let (p2, case2, dir2) = (partial.clone(), case.clone(), dir.to_path_buf());
        let (tx, rx) = std::sync::mpsc::channel();
        let _ = std::thread::Builder::new().stack_size(256 << 20).spawn(move || {
            let rt = tokio::runtime::Builder::new_current_thread().enable_all().build().unwrap();
            let r = std::panic::catch_unwind(std::panic::AssertUnwindSafe(|| {
                rt.block_on(async {
                    let mut world: BTreeMap<u32, i64> = BTreeMap::new();
                    let (mut engine, mut sh) = open(&dir2, cap, &case2.program, &world).await;
                    for it in &case2.items {
                        match it {
                            Item::Restart => { world = sh.world.lock().unwrap().clone(); shutdown(engine); let (e, s) = open(&dir2, cap, &case2.program, &world).await; engine = e; sh = s; }
                            Item::Op(op) => match tokio::time::timeout(std::time::Duration::from_secs(10), run_op(&engine, &sh, op)).await {
                                Ok(o) => p2.lock().unwrap().outs.push(o),
                                Err(_) => return Err(format!("hang at op {}", op.render())),
                            },
                        }
                        if let Some(pp) = &progress { use std::io::Write; let mut f = std::fs::OpenOptions::new().create(true).append(true).open(pp).unwrap(); f.write_all(b".").unwrap(); f.sync_all().unwrap(); }
                    }
                    shutdown(engine);
                    Ok(())
                })
            }));
            drop(rt);
            let _ = tx.send(match r { Ok(x) => x, Err(p) => Err(format!("panic: {}", panic_msg(&p))) });
        });
        let r = match rx.recv_timeout(std::time::Duration::from_secs(60)) { Ok(r) => r, Err(_) => Err("hang (watchdog)".to_string()) };
        let mut out = std::mem::take(&mut *partial.lock().unwrap());
        out.crash = r.err();
        out
    }

    /// open an engine on `dir`; read the inputs back (None = the store has no inputs at all), then query `ks`
    pub fn probe(program: &Program, dir: &Path, inputs: &[u32], ks_of: impl Fn(&BTreeMap<u32, i64>) -> Vec<u32> + Send + 'static) -> Result<(Option<BTreeMap<u32, i64>>, Vec<u32>, Vec<String>), String> {
        let (program2, dir2, inputs2) = (program.clone(), dir.to_path_buf(), inputs.to_vec());
        let (tx, rx) = std::sync::mpsc::channel();
        let _ = std::thread::Builder::new().stack_size(256 << 20).spawn(move || {
            let rt = tokio::runtime::Builder::new_current_thread().enable_all().build().unwrap();
            let r = std::panic::catch_unwind(std::panic::AssertUnwindSafe(|| {
                rt.block_on(async {
                    let world = BTreeMap::new();
                    // which inputs does the store have?  an input that was never set has no executor: the query panics,
                    // so presence is probed on a throw-away engine per input
                    let mut have: BTreeMap<u32, i64> = BTreeMap::new();
                    for k in &inputs2 {
                        let (engine, sh) = open(&dir2, 64, &program2, &world).await;
                        let e2 = engine.clone(); let sh2 = sh.clone(); let k2 = *k;
                        let h = tokio::spawn(async move { let te = e2.tracked().await; let v = query_key(&sh2, &te, k2).await; drop(te); v });
                        let r = h.await;
                        if let Ok(v) = r { have.insert(*k, v); }
                        shutdown(engine);
                    }
                    if have.is_empty() { return (None, vec![], vec![]); }
                    let ks = ks_of(&have);
                    let (engine, sh) = open(&dir2, 8, &program2, &world).await;
                    let o = run_op(&engine, &sh, &Op::Round(ks.clone())).await;
                    shutdown(engine);
                    (Some(have), ks, o.vals)
                })
            }));
            drop(rt);
            let _ = tx.send(match r { Ok(x) => Ok(x), Err(p) => Err(format!("panic: {}", panic_msg(&p))) });
        });
        match rx.recv_timeout(std::time::Duration::from_secs(60)) { Ok(r) => r, Err(_) => Err("hang (watchdog)".into()) }
    }

    pub fn tmp(tag: &str) -> PathBuf { let d = std::env::temp_dir().join(format!("c0708-rocks-{}-{tag}", std::process::id())); let _ = std::fs::remove_dir_all(&d); d }

    /// judge a reopened store: the inputs must be those after SOME session of the history, every value from-scratch for them
    pub fn judge_reopened(case: &PCase, dir: &Path, what: &str, failures: &mut Vec<Failure>, dist: &mut BTreeMap<String, u64>, rng: &mut Rng) {
        let ops = case.ops();
        let exp = expectations(&case.program, &ops, &[]);
        let n = case.program.nodes.len() as u32;
        let inputs: Vec<u32> = (0..n).filter(|k| case.program.kind(*k) == Kind::Input).collect();
        let order = rng.below(3); let seed = rng.next();
        let program = case.program.clone();
        let ks_of = move |have: &BTreeMap<u32, i64>| { let t = Truth { inputs: have.clone(), ext: BTreeMap::new() }; let mut ks: Vec<u32> = (0..n).filter(|k| defined(&program, &t, *k)).collect(); match order { 0 => {}, 1 => ks.reverse(), _ => Rng::new(seed).shuffle(&mut ks) } ks };
        match probe(&case.program, dir, &inputs, ks_of) {
            Err(m) => failures.push(Failure { sig: format!("C08:rocksdb:{what}:reopen-failed"), desc: m.chars().take(300).collect(), case: case.render() }),
            Ok((None, _, _)) => { *dist.entry(format!("{what}_store_without_inputs")).or_insert(0) += 1; }
            Ok((Some(have), ks, vals)) => {
                let sess: Vec<usize> = ops.iter().enumerate().filter(|(_, o)| matches!(o, Op::Session(_))).map(|(i, _)| i).collect();
                let t = sess.iter().rposition(|i| exp.truths[*i].0.inputs == have);
                *dist.entry(format!("{what}_stores_checked")).or_insert(0) += 1;
                match t {
                    None => failures.push(Failure { sig: format!("C08:rocksdb:{what}:inputs-of-no-session"), desc: format!("inputs read back {:?} are not those after any session", have), case: case.render() }),
                    Some(ti) => {
                        *dist.entry(format!("{what}_recovered_session_{}", if ti + 1 == sess.len() { "last".to_string() } else { "earlier".to_string() })).or_insert(0) += 1;
                        let truth = Truth { inputs: have.clone(), ext: BTreeMap::new() };
                        let mut sc = Scratch::new(&case.program, &truth);
                        let expv: Vec<String> = ks.iter().map(|k| sc.value(*k).unwrap().to_string()).collect();
                        if vals != expv {
                            // F1/F14 also without a crash? same attribution as the KvMem run: a never-crashed in-memory engine driven to a point of that epoch
                            let lo = sess[ti]; let hi = sess.get(ti + 1).copied().unwrap_or(ops.len());
                            let mut same = false;
                            for j in lo..hi {
                                let mut items: Vec<Item> = ops[..=j].iter().cloned().map(Item::Op).collect(); items.push(Item::Op(Op::Round(ks.clone())));
                                let rr = super::run_items(&PCase { program: case.program.clone(), items, cont: false }, ECfg { cap: 64, group: 1, workers: 1 }, &MemStore::new(1, false));
                                if rr.crash.is_none() && rr.outs.last().map(|o| &o.vals) == Some(&vals) { same = true; break; }
                            }
                            if same { *dist.entry(format!("{what}_value_failures_shared_with_a_never_crashed_engine")).or_insert(0) += 1; }
                            failures.push(Failure { sig: format!("C08:rocksdb:{what}:value{}", if same { "-same-as-never-crashed" } else { "" }), desc: format!("keys {:?}: got {:?} expected {:?} (inputs {:?})", ks, vals, expv, have), case: case.render() });
                        }
                    }
                }
            }
        }
    }
}


// ------------------------------------------------------------------------------------------
// F8: a session opened while a reader is still publishing (concurrent scenario, no hooks)
// ------------------------------------------------------------------------------------------
mod f8 {
    use super::*;
    use qbice::{Decode, Encode, Query, StableHash, TrackedEngine, executor::Executor};

    #[derive(Debug, Clone, Copy, PartialEq, Eq, PartialOrd, Ord, Hash, StableHash, Encode, Decode, Identifiable)]
    pub struct Var(pub u32);
    impl Query for Var { type Value = i64; }
    #[derive(Debug, Clone, Copy, PartialEq, Eq, PartialOrd, Ord, Hash, StableHash, Encode, Decode, Identifiable)]
    pub struct Gated(pub u32);
    impl Query for Gated { type Value = i64; }

    /// reads `Var(0)`, then waits at the gate (if armed), returns 10 * value
    pub struct GatedEx { pub armed: Arc<std::sync::atomic::AtomicBool>, pub reached: Arc<tokio::sync::Notify>, pub gate: Arc<tokio::sync::Notify>, pub runs: Arc<std::sync::atomic::AtomicU64> }
    impl<C: Config> Executor<Gated, C> for GatedEx {
        async fn execute(&self, _q: &Gated, te: &TrackedEngine<C>) -> i64 {
            let v = te.query(&Var(0)).await;
            self.runs.fetch_add(1, std::sync::atomic::Ordering::SeqCst);
            if self.armed.swap(false, std::sync::atomic::Ordering::SeqCst) { self.reached.notify_one(); self.gate.notified().await; }
            10 * v
        }
    }

    async fn open(store: &Arc<MemStore>) -> (Arc<Eng>, Arc<GatedEx>) {
        let factory = DbBackedFactory::builder().configuration(Configuration::builder().cache_capacity(64).serialization_workers(1).build()).db_factory(KvMemFactory(store.clone())).build();
        let mut engine = Engine::<PCfg>::new_with(Plugin::default(), factory, SeededStableHasherBuilder::new(0)).await.unwrap();
        let ex = Arc::new(GatedEx { armed: Default::default(), reached: Default::default(), gate: Default::default(), runs: Default::default() });
        engine.register_executor::<Gated, _>(ex.clone());
        (Arc::new(engine), ex)
    }

    /// returns (value of Gated(0) on the never-restarted engine, value after a restart, from-scratch value)
    pub fn scenario(overlap: bool) -> Result<(i64, i64, i64), String> {
        let live = scenario1(overlap, false)?;
        let after = scenario1(overlap, true)?;
        Ok((live, after, 30))
    }

    /// the value of Gated(0) at the end: on the same engine (`restart` = false) or on an engine reopened on the drained store
    fn scenario1(overlap: bool, restart: bool) -> Result<i64, String> {
        let rt = tokio::runtime::Builder::new_current_thread().enable_all().build().unwrap();
        let r = std::panic::catch_unwind(std::panic::AssertUnwindSafe(|| rt.block_on(async {
            let store = MemStore::new(1, std::env::var("VERIF_TRACE").is_ok());
            let (engine, ex) = open(&store).await;
            { let mut s = engine.input_session().await; s.set_input(Var(0), 1).await; s.commit().await; }
            { let te = engine.clone().tracked().await; assert_eq!(te.query(&Gated(0)).await, 10); }
            { let mut s = engine.input_session().await; s.set_input(Var(0), 2).await; s.commit().await; }
            // a reader re-executes Gated(0) (its edge to Var(0) is dirty) and is held inside its executor
            let reader = if overlap {
                ex.armed.store(true, std::sync::atomic::Ordering::SeqCst);
                let e2 = engine.clone();
                let h = tokio::spawn(async move { let te = e2.tracked().await; let v = te.query(&Gated(0)).await; drop(te); v });
                ex.reached.notified().await;
                Some(h)
            } else { let te = engine.clone().tracked().await; assert_eq!(te.query(&Gated(0)).await, 20); None };
            // the next session is opened now: its write batch is created (and the timestamp bumped) before it waits
            // for the reader to leave
            let e3 = engine.clone();
            let writer = tokio::spawn(async move { let mut s = e3.input_session().await; s.set_input(Var(0), 3).await; s.commit().await; });
            for _ in 0..20 { tokio::task::yield_now().await; }
            if let Some(h) = reader { ex.gate.notify_one(); let v = h.await.unwrap(); assert_eq!(v, 20); }
            writer.await.unwrap();
            if !restart {
                let live = { let te = engine.clone().tracked().await; let v = te.query(&Gated(0)).await; drop(te); v };
                shutdown(engine);
                return live;
            }
            shutdown(engine);
            if std::env::var("VERIF_TRACE").is_ok() { for (i, c) in store.log().iter().enumerate() { eprintln!("commit {i} (logical {})", c.logical); for op in &c.ops { match op { MemOp::Put { desc, .. } => eprintln!("   put {:?}", desc.as_ref().map(|d| format!("{} {} = {}", d.value_type, d.key, d.value))), MemOp::Del { desc, .. } => eprintln!("   del {:?}", desc.as_ref().map(|d| format!("{} {}", d.value_type, d.key))), MemOp::InsM { desc, .. } => eprintln!("   ins {:?}", desc.as_ref().map(|d| format!("{} {} ∋ {}", d.column, d.key, d.value))), MemOp::DelM { desc, .. } => eprintln!("   delm {:?}", desc.as_ref().map(|d| format!("{} {} ∌ {}", d.column, d.key, d.value))) } } } }
            let (engine2, _ex2) = open(&store).await;
            let after = { let te = engine2.clone().tracked().await; let v = te.query(&Gated(0)).await; drop(te); v };
            shutdown(engine2);
            after
        })));
        drop(rt);
        r.map_err(|p| format!("panic: {}", panic_msg(&p)))
    }
}


// ------------------------------------------------------------------------------------------
// C08, overlapping session: readers re-executing and held inside their executors while the next
// session is requested.  Every prefix of the commit log is reopened and judged by the from-scratch
// oracle for the inputs found in that prefix, and the log is compared, commit by commit, with the
// log of the same logical history run without the overlap (= the logical batches in the order in
// which they were published in memory).
// ------------------------------------------------------------------------------------------
mod overlap8 {
    use super::*;
    use qbice::{Decode, Encode, Query, StableHash, TrackedEngine, executor::Executor, query::ExecutionStyle};

    #[derive(Debug, Clone, Copy, PartialEq, Eq, PartialOrd, Ord, Hash, StableHash, Encode, Decode, Identifiable)]
    pub struct OVar(pub u32);
    impl Query for OVar { type Value = i64; }
    #[derive(Debug, Clone, Copy, PartialEq, Eq, PartialOrd, Ord, Hash, StableHash, Encode, Decode, Identifiable)]
    pub struct OFw(pub u32);
    impl Query for OFw { type Value = i64; }
    #[derive(Debug, Clone, Copy, PartialEq, Eq, PartialOrd, Ord, Hash, StableHash, Encode, Decode, Identifiable)]
    pub struct OReader(pub u32);
    impl Query for OReader { type Value = i64; }

    #[derive(Clone, Copy, Debug)]
    pub struct Variant { pub readers: u32, pub same_input: bool, pub firewall: bool, pub group: usize }

    /// firewall over `OVar(0)`: value + 100
    pub struct FwEx;
    impl<C: Config> Executor<OFw, C> for FwEx {
        async fn execute(&self, _q: &OFw, te: &TrackedEngine<C>) -> i64 { te.query(&OVar(0)).await + 100 }
        fn execution_style() -> ExecutionStyle { ExecutionStyle::Firewall }
    }
    /// reader j: 10 * (OVar(0) or OFw(0)) + j; waits at its gate after the read when armed
    pub struct ReaderEx { pub firewall: bool, pub armed: std::sync::Mutex<BTreeSet<u32>>, pub reached: tokio::sync::Notify, pub gates: Vec<tokio::sync::Notify> }
    impl<C: Config> Executor<OReader, C> for ReaderEx {
        async fn execute(&self, q: &OReader, te: &TrackedEngine<C>) -> i64 {
            let v = if self.firewall { te.query(&OFw(0)).await } else { te.query(&OVar(0)).await };
            let held = self.armed.lock().unwrap().remove(&q.0);
            if held { self.reached.notify_one(); self.gates[q.0 as usize].notified().await; }
            10 * v + q.0 as i64
        }
    }
    pub fn expected(v: Variant, var0: i64, j: u32) -> i64 { 10 * (if v.firewall { var0 + 100 } else { var0 }) + j as i64 }

    async fn open(store: &Arc<MemStore>, v: Variant) -> (Arc<Eng>, Arc<ReaderEx>) {
        let factory = DbBackedFactory::builder().configuration(Configuration::builder().cache_capacity(64).serialization_workers(1).build()).db_factory(KvMemFactory(store.clone())).build();
        let mut engine = Engine::<PCfg>::new_with(Plugin::default(), factory, SeededStableHasherBuilder::new(0)).await.unwrap();
        let ex = Arc::new(ReaderEx { firewall: v.firewall, armed: Default::default(), reached: Default::default(), gates: (0..v.readers).map(|_| tokio::sync::Notify::new()).collect() });
        engine.register_executor::<OReader, _>(ex.clone());
        engine.register_executor::<OFw, _>(Arc::new(FwEx));
        (Arc::new(engine), ex)
    }

    /// runs the history (overlapping or not) on a fresh logging store; returns its commit log
    pub fn history(v: Variant, overlap: bool) -> Result<Vec<Commit>, String> {
        let rt = tokio::runtime::Builder::new_current_thread().enable_all().build().unwrap();
        let r = std::panic::catch_unwind(std::panic::AssertUnwindSafe(|| rt.block_on(async {
            let store = MemStore::new(v.group, true);
            let (engine, ex) = open(&store, v).await;
            { let mut s = engine.input_session().await; s.set_input(OVar(0), 1).await; s.set_input(OVar(1), 5).await; s.commit().await; }
            { let te = engine.clone().tracked().await; for j in 0..v.readers { assert_eq!(te.query(&OReader(j)).await, expected(v, 1, j)); } }
            { let mut s = engine.input_session().await; s.set_input(OVar(0), 2).await; s.commit().await; }
            let mut held = vec![];
            if overlap {
                for j in 0..v.readers {
                    ex.armed.lock().unwrap().insert(j);
                    let e2 = engine.clone();
                    held.push(tokio::spawn(async move { let te = e2.tracked().await; let x = te.query(&OReader(j)).await; drop(te); x }));
                    ex.reached.notified().await;
                }
            } else {
                for j in 0..v.readers { let te = engine.clone().tracked().await; assert_eq!(te.query(&OReader(j)).await, expected(v, 2, j)); }
            }
            // the next session is requested while the readers are still inside their executors
            let e3 = engine.clone();
            let same = v.same_input;
            let writer = tokio::spawn(async move { let mut s = e3.input_session().await; if same { s.set_input(OVar(0), 3).await; } else { s.set_input(OVar(1), 7).await; } s.commit().await; });
            for _ in 0..20 { tokio::task::yield_now().await; }
            for (j, h) in held.into_iter().enumerate() { ex.gates[j].notify_one(); let x = h.await.unwrap(); assert_eq!(x, expected(v, 2, j as u32)); }
            writer.await.unwrap();
            shutdown(engine);
            store.log()
        })));
        drop(rt);
        r.map_err(|p| format!("panic: {}", panic_msg(&p)))
    }

    /// the inputs `OVar(i)` a store shows
    pub fn inputs_of(t: &Tables) -> BTreeMap<u32, i64> {
        let (mut names, mut vals): (BTreeMap<String, u32>, BTreeMap<String, i64>) = Default::default();
        for (_, (_, d)) in &t.wide { if let Some(d) = d {
            if d.value_type.contains("QueryInput<") && d.value_type.contains("OVar>") { if let Some(i) = d.value.trim_start_matches("QueryInput(OVar(").trim_end_matches("))").parse().ok() { names.insert(d.key.clone(), i); } }
            if d.value_type.contains("QueryResult<") && d.value_type.contains("OVar>") { if let Some(x) = d.value.trim_start_matches("QueryResult(").trim_end_matches(')').parse().ok() { vals.insert(d.key.clone(), x); } }
        } }
        names.into_iter().filter_map(|(k, i)| vals.get(&k).map(|v| (i, *v))).collect()
    }

    /// reopen on `store`, query every reader
    pub fn reopen(store: &Arc<MemStore>, v: Variant) -> Result<Vec<i64>, String> {
        let rt = tokio::runtime::Builder::new_current_thread().enable_all().build().unwrap();
        let r = std::panic::catch_unwind(std::panic::AssertUnwindSafe(|| rt.block_on(async {
            let (engine, _ex) = open(store, v).await;
            let te = engine.clone().tracked().await;
            let mut out = vec![];
            for j in 0..v.readers { out.push(te.query(&OReader(j)).await); }
            drop(te);
            shutdown(engine);
            out
        })));
        drop(rt);
        r.map_err(|p| format!("panic: {}", panic_msg(&p)))
    }
}

fn main() {
    std::panic::set_hook(Box::new(|_| {}));
    let a = args();
    let mode = a.rest.iter().position(|x| x == "--mode").map(|i| a.rest[i + 1].clone()).unwrap_or("c07".into());
    let thorough = a.tier != "quick";
    let mut out = Out::new(&a.out);
    let mut rng = Rng::new(a.seed);
    let mut failures: Vec<Failure> = vec![];
    let mut distinct: BTreeSet<u64> = BTreeSet::new();
    let mut samples: Vec<String> = vec![];
    let mut exp_lines: Vec<String> = vec![];
    let mut dist: BTreeMap<String, u64> = BTreeMap::new();
    let mut evals = 0u64;
    let bump = |d: &mut BTreeMap<String, u64>, k: &str, n: u64| { *d.entry(k.to_string()).or_insert(0) += n; };
    let hash = |s: &str| { use std::hash::{Hash, Hasher}; let mut h = std::collections::hash_map::DefaultHasher::new(); s.hash(&mut h); h.finish() };

    // `--state` (mode c07): two more runs of every case, without and with the restarts, that take the state digest
    // after every op; state_a.txt / state_b.txt are aligned with ops.txt (`-` on lines that are not a session / round)
    let with_state = a.rest.iter().any(|x| x == "--state");
    let state_max: usize = a.rest.iter().position(|x| x == "--state-max").map(|i| a.rest[i + 1].parse().unwrap()).unwrap_or(usize::MAX);
    // `--state-every K`: of the GENERATED cases only every K-th gets the two digest runs (corpus and wide fan-in cases: all)
    let state_every: usize = a.rest.iter().position(|x| x == "--state-every").map(|i| a.rest[i + 1].parse().unwrap()).unwrap_or(1).max(1);
    let mut n_fixed_cases = 0usize;
    let (mut state_a, mut state_b): (Vec<String>, Vec<String>) = (vec![], vec![]);
    // input of `drv_engine inv`: case / node lines, op lines each followed by `#D <digest>` (inv_ops.txt)
    let mut inv_lines: Vec<String> = vec![];
    if mode == "c07" {
        let n_cases = a.n.unwrap_or(if thorough { 1500 } else { 60 });
        let mut cases: Vec<(PCase, ECfg)> = vec![];
        if let Some(rp) = &a.replay {
            let text = std::fs::read_to_string(rp).unwrap();
            let cfg = parse_cfg(&text).unwrap_or(ECfg { cap: 1, group: 1, workers: 1 });
            cases.push((PCase::parse(&text), cfg));
        } else {
            if a.rest.iter().any(|x| x == "--no-corpus") {} else if let Ok(rd) = std::fs::read_dir(format!("{}/../corpus", env!("CARGO_MANIFEST_DIR"))) {
                let mut fs: Vec<_> = rd.flatten().map(|e| e.path()).filter(|p| p.file_name().unwrap().to_string_lossy().starts_with("C07-")).collect(); fs.sort();
                for f in fs { let text = std::fs::read_to_string(f).unwrap(); cases.push((PCase::parse(&text), parse_cfg(&text).unwrap_or(ECfg { cap: 1, group: 1, workers: 1 }))); }
            }
            if !a.rest.iter().any(|x| x == "--no-corpus") { let mut r2 = Rng::new(a.seed ^ 0xfa9); cases.extend(fanin_c07_cases(&mut r2, thorough)); }
            n_fixed_cases = cases.len();
            for i in 0..n_cases {
                let c = gen_case(&mut rng, i, thorough && i % 3 == 0, true);
                let pc = insert_restarts(&mut rng, &c);
                cases.push((pc, pick_cfg(&mut rng)));
            }
        }
        for (case_no, (case, cfg)) in cases.iter().enumerate() {
            evals += 1;
            let text = case.render();
            if nontrivial(&case.ops()) { distinct.insert(hash(&text)); if samples.len() < 3 { samples.push(text.clone()); } }
            bump(&mut dist, &format!("cases_cache_capacity_{}", cfg.cap), 1);
            bump(&mut dist, &format!("cases_group_{}", if cfg.group > 100 { "all_at_shutdown".to_string() } else { cfg.group.to_string() }), 1);
            bump(&mut dist, "restarts", case.items.iter().filter(|i| **i == Item::Restart).count() as u64);
            if case.program.nodes.len() > 200 { bump(&mut dist, "wide_fan_in_cases", 1); bump(&mut dist, &format!("wide_fan_in_readers_{}", case.program.nodes.len() - if case.program.nodes[1].expr == Expr::Add(Box::new(Expr::Read(0)), Box::new(Expr::Const(100))) { 2 } else { 1 }), 1); }
            if case.program.nodes.iter().any(|n| n.kind == Kind::Firewall) { bump(&mut dist, "cases_with_firewall", 1); }
            if case.program.nodes.iter().any(|n| n.kind == Kind::Projection) { bump(&mut dist, "cases_with_projection", 1); }
            if case.program.nodes.iter().any(|n| n.kind == Kind::External) { bump(&mut dist, "cases_with_external", 1); }
            let store_a = MemStore::new(cfg.group, false);
            let ra = run_items(&case.without_restarts(), *cfg, &store_a);
            let store_b = MemStore::new(cfg.group, false);
            let rb = run_items(case, *cfg, &store_b);
            bump(&mut dist, "physical_commits", store_b.log_len() as u64);
            bump(&mut dist, "logical_batches", store_b.log().iter().map(|c| c.logical).sum());
            // restarts that found the store exactly as the never-restarted run would have it at the end are not checkable
            // per restart; the final byte-level content of the two stores is compared instead (same history => same image)
            let same_image = store_a.tables().content() == store_b.tables().content();
            bump(&mut dist, if same_image { "final_store_image_equal_to_no_restart_run" } else { "final_store_image_differs_from_no_restart_run" }, 1);
            // emit lines: ops + impl (run B), expect (from-scratch)
            let with_execs = !case.program.has_unordered();
            let ops = case.ops();
            let exp = expectations(&case.program, &ops, &rb.outs);
            let mut lines = text.lines();
            out.line(lines.next().unwrap(), "case"); exp_lines.push("case".into());
            out.line(&format!("cfg cap={} group={} workers={}", cfg.cap, cfg.group, cfg.workers), "cfg"); exp_lines.push("cfg".into());
            for _ in 0..case.program.nodes.len() { out.line(lines.next().unwrap(), "ok"); exp_lines.push("ok".into()); }
            let mut oi = 0; let mut ri = 0;
            for it in &case.items {
                match it {
                    Item::Restart => { if oi <= rb.outs.len() && !(oi == rb.outs.len() && rb.crash.is_some()) { let l = format!("restarted {}", rb.batches_at_shutdown.get(ri).map(|n| n.to_string()).unwrap_or("?".into())); ri += 1; out.line("restart", &l); exp_lines.push(l); } }
                    Item::Op(op) => {
                        if oi < rb.outs.len() { out.line(&op.render(), &render_out(&rb.outs[oi], with_execs)); exp_lines.push(exp.lines[oi].clone()); bump(&mut dist, "ops", 1); bump(&mut dist, "executor_invocations", rb.outs[oi].execs.len() as u64); }
                        else if oi == rb.outs.len() && rb.crash.is_some() { let m = rb.crash.as_ref().unwrap(); out.line(&op.render(), &format!("crash {}", if m.starts_with("hang") { "hang" } else { "panic" })); exp_lines.push(exp.lines[oi].clone()); }
                        oi += 1;
                    }
                }
            }
            if rb.crash.is_none() { let l = format!("shutdown {}", rb.batches_at_shutdown.get(ri).map(|n| n.to_string()).unwrap_or("?".into())); out.line("shutdown", &l); exp_lines.push(l); }
            if with_state {
                let digest_this = case_no < state_max && (case_no < n_fixed_cases || (case_no - n_fixed_cases) % state_every == 0);
                let (sa, sb) = if digest_this {
                    (run_items_s(&case.without_restarts(), *cfg, &MemStore::new(cfg.group, false), true), run_items_s(case, *cfg, &MemStore::new(cfg.group, false), true))
                } else { (RunOut::default(), RunOut::default()) };
                if digest_this { bump(&mut dist, "state_digest_runs", 2); }
                if digest_this && case.program.nodes.len() <= 64 && is_acyclic(&case.program) {
                    // input of the Lean checker `drv_engine inv` + the state-invariant oracle: the run WITH restarts, every state
                    // after an op and the state of every reopened engine before any op
                    let cfgl = format!("cfg cap={} group={} workers={}\n", cfg.cap, cfg.group, cfg.workers);
                    let case_text = cfgl.clone() + &text;
                    let mut tl = text.lines();
                    inv_lines.push(tl.next().unwrap().to_string());
                    inv_lines.push(format!("# c07 case {case_no}")); inv_lines.push(cfgl.trim().to_string());
                    for _ in 0..case.program.nodes.len() { inv_lines.push(tl.next().unwrap().to_string()); }
                    let exp_s = expectations(&case.program, &ops, &sb.outs);
                    let (mut oi, mut ri) = (0usize, 0usize);
                    let empty = (Truth::default(), BTreeMap::new());
                    for it in &case.items {
                        match it {
                            Item::Restart => { if let Some(d) = sb.restart_states.get(ri) {
                                inv_lines.push("restart".into()); inv_lines.push(format!("#D {d}"));
                                let (t, w) = if oi == 0 { &empty } else { &exp_s.truths[oi - 1] };
                                judge_digest("C07", &case.program, d, t, w, &format!("right after restart #{} (before any query of the new engine)", ri + 1), &case_text, &mut failures, &mut dist);
                            } ri += 1; }
                            Item::Op(op) => { if let Some(d) = sb.states.get(oi) {
                                inv_lines.push(op.render()); inv_lines.push(format!("#D {d}"));
                                let (t, w) = &exp_s.truths[oi];
                                judge_digest("C07", &case.program, d, t, w, &format!("after op {oi} `{}` of the run with restarts", op.render()), &case_text, &mut failures, &mut dist);
                            } oi += 1; }
                        }
                    }
                }
                // the digest runs must behave like the compared runs as far as values go (sanity; walk orders may differ)
                if digest_this && (sa.outs.len() != ra.outs.len() || sb.outs.len() != rb.outs.len()) { bump(&mut dist, "state_digest_runs_of_other_length", 1); }
                let pre = 2 + case.program.nodes.len();
                for _ in 0..pre { state_a.push("-".into()); state_b.push("-".into()); }
                let mut oi = 0;
                for it in &case.items {
                    match it {
                        Item::Restart => { if oi <= rb.outs.len() && !(oi == rb.outs.len() && rb.crash.is_some()) { state_a.push("-".into()); state_b.push("-".into()); } }
                        Item::Op(_) => {
                            if oi < rb.outs.len() || (oi == rb.outs.len() && rb.crash.is_some()) {
                                state_a.push(sa.states.get(oi).cloned().unwrap_or_else(|| "-".into()));
                                state_b.push(sb.states.get(oi).cloned().unwrap_or_else(|| "-".into()));
                            }
                            oi += 1;
                        }
                    }
                }
                if rb.crash.is_none() { state_a.push("-".into()); state_b.push("-".into()); }
            }
            if let Some((sig, desc)) = compare_runs(case, &ra, &rb) {
                let cfgline = format!("cfg cap={} group={} workers={}\n", cfg.cap, cfg.group, cfg.workers);
                // the two runs as observed are recorded with the case (`#A` without, `#B` with restarts): the walk order of a
                // backward-edge set that was evicted and reloaded is timing dependent, so a replay need not show the same pair
                let observed = |c: &PCase, a: &RunOut, b: &RunOut| -> String {
                    let we = !c.program.has_unordered(); let ops = c.ops(); let mut t = String::new();
                    for (i, o) in a.outs.iter().enumerate() { t.push_str(&format!("#A\t{}\t{}\n", ops[i].render(), render_out(o, we))); }
                    for (i, o) in b.outs.iter().enumerate() { t.push_str(&format!("#B\t{}\t{}\n", ops[i].render(), render_out(o, we))); }
                    t
                };
                let mut pushed = false;
                if failures.iter().filter(|f| f.sig == sig).count() < 2 && case.program.nodes.len() <= 200 {
                    let small = shrink_c07(case, *cfg, &sig);
                    let (sa, sb) = (run_items(&small.without_restarts(), *cfg, &MemStore::new(cfg.group, false)), run_items(&small, *cfg, &MemStore::new(cfg.group, false)));
                    if let Some((s2, d)) = compare_runs(&small, &sa, &sb) { if s2 == sig {
                        failures.push(Failure { sig: sig.clone(), desc: d, case: cfgline.clone() + &small.render() + &observed(&small, &sa, &sb) }); pushed = true; } }
                }
                if !pushed { failures.push(Failure { sig, desc, case: cfgline + &text + &observed(case, &ra, &rb) }); }
            }
            // run A's own line stream is needed by the plugin for attribution: written to a side file
            exp_lines.push(String::new()); exp_lines.pop();
            let mut a_lines = String::new();
            for (i, o) in ra.outs.iter().enumerate() { a_lines.push_str(&format!("{}\t{}\n", ops[i].render(), render_out(o, with_execs))); }
            std::fs::OpenOptions::new().create(true).append(true).open(format!("{}/norestart.txt", a.out)).and_then(|mut f| { use std::io::Write; f.write_all(format!("case\n{a_lines}").as_bytes()) }).unwrap();
        }
    } else if mode == "c08" {
        if with_state { PROBE_STATE.store(true, std::sync::atomic::Ordering::Relaxed); }
        let n_cases = a.n.unwrap_or(if thorough { 400 } else { 14 });
        let mut cases: Vec<(PCase, ECfg)> = vec![];
        if let Some(rp) = &a.replay {
            let text = std::fs::read_to_string(rp).unwrap();
            cases.push((PCase::parse(&text), parse_cfg(&text).unwrap_or(ECfg { cap: 1, group: 1, workers: 1 })));
        } else {
            if a.rest.iter().any(|x| x == "--no-corpus") {} else if let Ok(rd) = std::fs::read_dir(format!("{}/../corpus", env!("CARGO_MANIFEST_DIR"))) {
                let mut fs: Vec<_> = rd.flatten().map(|e| e.path()).filter(|p| p.file_name().unwrap().to_string_lossy().starts_with("C08-")).collect(); fs.sort();
                for f in fs { let text = std::fs::read_to_string(f).unwrap(); cases.push((PCase::parse(&text), parse_cfg(&text).unwrap_or(ECfg { cap: 1, group: 1, workers: 1 }))); }
            }
            if !a.rest.iter().any(|x| x == "--no-corpus") { let mut r2 = Rng::new(a.seed ^ 0xfa9); cases.extend(fanin_c08_cases(&mut r2, thorough)); }
            for i in 0..n_cases {
                let c = gen_case(&mut rng, i, thorough && i % 2 == 0, false);
                let pc = if rng.chance(1, 3) { insert_restarts(&mut rng, &c) } else { PCase { program: c.program.clone(), items: c.ops.iter().cloned().map(Item::Op).collect(), cont: false } };
                let mut cfg = pick_cfg(&mut rng);
                if !thorough && cfg.group > 100 && rng.chance(1, 2) { cfg.group = 1; }
                cases.push((pc, cfg));
            }
        }
        for (case, cfg) in &cases {
            evals += 1;
            let text = case.render();
            if nontrivial(&case.ops()) { distinct.insert(hash(&text)); if samples.len() < 3 { samples.push(text.clone()); } }
            let store = MemStore::new(cfg.group, true);
            let r = run_items(case, *cfg, &store);
            let ops = case.ops();
            let with_execs = !case.program.has_unordered();
            let exp = expectations(&case.program, &ops, &r.outs);
            let mut lines = text.lines();
            out.line(lines.next().unwrap(), "case"); exp_lines.push("case".into());
            out.line(&format!("cfg cap={} group={} workers={}", cfg.cap, cfg.group, cfg.workers), "cfg"); exp_lines.push("cfg".into());
            for _ in 0..case.program.nodes.len() { out.line(lines.next().unwrap(), "ok"); exp_lines.push("ok".into()); }
            if r.crash.is_some() {
                // a history that does not complete is C01/C05's business; the crash points of what was committed are still checked
                bump(&mut dist, "histories_that_stopped_early", 1);
            }
            let mut oi = 0; let mut ri = 0;
            for it in &case.items {
                match it {
                    Item::Restart => { if oi < r.outs.len() || r.crash.is_none() { let l = format!("restarted {}", r.batches_at_shutdown.get(ri).map(|n| n.to_string()).unwrap_or("?".into())); ri += 1; out.line("restart", &l); exp_lines.push(l); } }
                    Item::Op(op) => { if oi < r.outs.len() { out.line(&op.render(), &render_out(&r.outs[oi], with_execs)); exp_lines.push(exp.lines[oi].clone()); } oi += 1; }
                }
            }
            if r.crash.is_some() { continue; }
            { let l = format!("shutdown {}", r.batches_at_shutdown.get(ri).map(|n| n.to_string()).unwrap_or("?".into())); out.line("shutdown", &l); exp_lines.push(l); }
            let log = store.log();
            bump(&mut dist, "physical_commits", log.len() as u64);
            bump(&mut dist, "logical_batches", log.iter().map(|c| c.logical).sum());
            bump(&mut dist, &format!("cases_group_{}", if cfg.group > 100 { "all_at_shutdown".to_string() } else { cfg.group.to_string() }), 1);
            bump(&mut dist, &format!("cases_cache_capacity_{}", cfg.cap), 1);
            // sessions: index of the op that is the t-th session
            let sess_idx: Vec<usize> = ops.iter().enumerate().filter(|(_, o)| matches!(o, Op::Session(_))).map(|(i, _)| i).collect();
            let n = case.program.nodes.len() as u32;
            let big = case.program.nodes.len() > 200;
            let boundaries: Vec<usize> = if big {
                // wide fan-in: the full log (everything computed, then the crash), and a few earlier cuts
                let mut v: Vec<usize> = (1..log.len()).collect(); rng.shuffle(&mut v); v.truncate(if thorough { 4 } else { 2 }); v.push(log.len()); v.sort(); v.dedup(); v
            } else if log.len() <= 40 || thorough { (0..=log.len()).collect() } else { let mut v: Vec<usize> = (0..=log.len()).collect(); rng.shuffle(&mut v); v.truncate(40); v.sort(); v };
            if big { bump(&mut dist, "wide_fan_in_cases", 1); }
            for p in boundaries {
                let pstore = MemStore::from_prefix(&log, p, if case.cont { cfg.group } else { 1 }, true);
                if case.cont {
                    // the history is CONTINUED on the reopened engine: edit the first input, query everything, twice
                    let logical: u64 = log[..p].iter().map(|c| c.logical).sum();
                    let ts = timestamp_of(&pstore.tables());
                    let t = ts.unwrap_or(0) as usize;
                    bump(&mut dist, "crash_points", 1); bump(&mut dist, "crash_points_with_continuation", 1);
                    if t == 0 || t > sess_idx.len() { continue; }
                    let mut truth = exp.truths[sess_idx[t - 1]].0.clone();
                    let Some((&ik, &iv)) = truth.inputs.iter().next() else { continue };
                    let mut cont_ops: Vec<Op> = vec![];
                    let mut cont_exp: Vec<String> = vec![];
                    for step in 1..=2i64 {
                        cont_ops.push(Op::Session(vec![Write::Set(ik, iv + step)])); cont_exp.push("Updated".into());
                        truth.inputs.insert(ik, iv + step);
                        let mut ks: Vec<u32> = (0..n).filter(|k| defined(&case.program, &truth, *k)).collect();
                        if step == 2 { ks.reverse(); }
                        let mut sc = Scratch::new(&case.program, &truth);
                        cont_exp.push(ks.iter().map(|k| sc.value(*k).unwrap().to_string()).collect::<Vec<_>>().join(" "));
                        cont_ops.push(Op::Round(ks));
                    }
                    let rr = run_items_s(&PCase { program: case.program.clone(), items: cont_ops.iter().cloned().map(Item::Op).collect(), cont: false }, *cfg, &pstore, with_state);
                    out.line(&format!("crash {logical}"), &format!("crashed {}", ts.map(|x| x.to_string()).unwrap_or("none".into()))); exp_lines.push(format!("crashed {t}"));
                    if with_state && case.program.nodes.len() <= 64 && is_acyclic(&case.program) {
                        // the reopened engine before any op, then after every op of the continuation
                        let case_text = format!("cfg cap={} group={} workers={}\n{}crash {logical}\n", cfg.cap, cfg.group, cfg.workers, text);
                        let mut tl = text.lines();
                        inv_lines.push(tl.next().unwrap().to_string()); inv_lines.push(format!("# c08 case {evals} crash {logical} (prefix {p} of {} commits, timestamp {t}, continued)", log.len())); inv_lines.push(format!("cfg cap={} group={} workers={}", cfg.cap, cfg.group, cfg.workers));
                        for _ in 0..case.program.nodes.len() { inv_lines.push(tl.next().unwrap().to_string()); }
                        for o in &ops[..=sess_idx[t - 1]] { if let Op::Session(_) = o { inv_lines.push(o.render()); } }
                        let mut tr = exp.truths[sess_idx[t - 1]].0.clone();
                        let w = BTreeMap::new();
                        if let Some(d) = &rr.state0 { inv_lines.push(format!("crash {logical}")); inv_lines.push(format!("#D {d}")); judge_digest("C08", &case.program, d, &tr, &w, &format!("reopened after a crash keeping {p} of {} commits (timestamp {t}), before any query", log.len()), &case_text, &mut failures, &mut dist); }
                        for (j, op) in cont_ops.iter().enumerate() {
                            if let Op::Session(ws) = op { for wr in ws { if let Write::Set(k, v) = wr { tr.inputs.insert(*k, *v); } } }
                            if let Some(d) = rr.states.get(j) { inv_lines.push(op.render()); inv_lines.push(format!("#D {d}")); judge_digest("C08", &case.program, d, &tr, &w, &format!("crash keeping {p} of {} commits, continuation op {j} `{}`", log.len(), op.render().chars().take(50).collect::<String>()), &case_text, &mut failures, &mut dist); }
                        }
                    }
                    let mut post = String::new();
                    for (j, op) in cont_ops.iter().enumerate() {
                        post.push_str(&op.render()); post.push('\n');
                        if j < rr.outs.len() {
                            out.line(&op.render(), &render_out(&rr.outs[j], with_execs)); exp_lines.push(cont_exp[j].clone());
                            bump(&mut dist, "values_checked_after_crash", rr.outs[j].vals.len() as u64);
                            if rr.outs[j].vals.join(" ") != cont_exp[j] {
                                let got = &rr.outs[j].vals; let want: Vec<&str> = cont_exp[j].split(' ').collect();
                                let wrong: Vec<String> = if let Op::Round(ks) = op { ks.iter().zip(got.iter().zip(&want)).filter(|(_, (x, y))| x.as_str() != **y).take(4).map(|(k, (x, y))| format!("key {k} = {x} expected {y}")).collect() } else { vec![format!("{got:?} expected {want:?}")] };
                                failures.push(Failure { sig: "C08:value-after-continuation".into(),
                                    desc: format!("crash keeping {p} of {} commits ({logical} logical batches, timestamp {t}); reopened, then `{}`: {}", log.len(), cont_ops[..=j].iter().map(|o| { let r = o.render(); if r.len() > 40 { format!("{}…", &r[..40]) } else { r } }).collect::<Vec<_>>().join("; "), wrong.join(", ")),
                                    case: format!("cfg cap={} group={} workers={}\n{}", cfg.cap, cfg.group, cfg.workers, text) });
                                break;
                            }
                        } else {
                            let m = rr.crash.clone().unwrap_or_default();
                            out.line(&op.render(), &format!("crash {}", if m.starts_with("hang") { "hang" } else { "panic" })); exp_lines.push(cont_exp[j].clone());
                            failures.push(Failure { sig: format!("C08:continuation-{}", if m.starts_with("hang") { "hang" } else { "panic" }), desc: format!("crash keeping {p} of {} commits; reopened; `{}` failed: {}", log.len(), op.render().chars().take(60).collect::<String>(), m.chars().take(200).collect::<String>()), case: format!("cfg cap={} group={} workers={}\n{}", cfg.cap, cfg.group, cfg.workers, text) });
                            break;
                        }
                    }
                    let _ = post;
                    continue;
                }
                let logical: u64 = log[..p].iter().map(|c| c.logical).sum();
                let ts = timestamp_of(&pstore.tables());
                bump(&mut dist, "crash_points", 1);
                let t = ts.unwrap_or(0) as usize;
                let mut ks: Vec<u32> = (0..n).collect();
                match rng.below(3) { 0 => {}, 1 => ks.reverse(), _ => rng.shuffle(&mut ks) }
                let (truth, world) = if t == 0 { ks.clear(); (Truth::default(), BTreeMap::new()) } else if t > sess_idx.len() {
                    failures.push(Failure { sig: "C08:timestamp-from-the-future".into(), desc: format!("prefix {p}: stored timestamp {t} but the history has {} sessions", sess_idx.len()), case: format!("cfg cap={} group={}\n{}crash {logical}\n", cfg.cap, cfg.group, text) });
                    continue;
                } else { exp.truths[sess_idx[t - 1]].clone() };
                // inputs never set by session t cannot be queried (no executor): keep keys whose from-scratch value is defined
                ks.retain(|k| defined(&case.program, &truth, *k));
                let world_end = exp.truths.last().map(|x| x.1.clone()).unwrap_or_default();
                let _ = world;
                let co = probe(&case.program, *cfg, &pstore, &world_end, &ks);
                let opline = format!("crash {logical}");
                if with_state && co.d0.is_some() && is_acyclic(&case.program) {
                    let case_text = format!("cfg cap={} group={} workers={}\n{}crash {logical}\n", cfg.cap, cfg.group, cfg.workers, text);
                    let mut tl = text.lines();
                    inv_lines.push(tl.next().unwrap().to_string()); inv_lines.push(format!("# c08 case {evals} crash {logical} (prefix {p} of {} commits, timestamp {t})", log.len())); inv_lines.push(format!("cfg cap={} group={} workers={}", cfg.cap, cfg.group, cfg.workers));
                    for _ in 0..case.program.nodes.len() { inv_lines.push(tl.next().unwrap().to_string()); }
                    if t > 0 { for o in &ops[..=sess_idx[t - 1]] { if let Op::Session(_) = o { inv_lines.push(o.render()); } } }
                    let w = BTreeMap::new();
                    if let Some(d) = &co.d0 { inv_lines.push(opline.clone()); inv_lines.push(format!("#D {d}")); judge_digest("C08", &case.program, d, &truth, &w, &format!("reopened after a crash keeping {p} of {} commits (timestamp {t}), before any query", log.len()), &case_text, &mut failures, &mut dist); }
                    if let Some(d) = &co.d1 { inv_lines.push(Op::Round(ks.clone()).render()); inv_lines.push(format!("#D {d}")); judge_digest("C08", &case.program, d, &truth, &w, &format!("crash keeping {p} of {} commits (timestamp {t}), after querying {:?}", log.len(), ks), &case_text, &mut failures, &mut dist); }
                }
                match &co.opened {
                    Err(m) => {
                        out.line(&opline, "open-failed"); exp_lines.push(format!("crashed {t}"));
                        failures.push(Failure { sig: "C08:open-failed".into(), desc: format!("engine failed to open on the first {p} commits: {m}"), case: format!("cfg cap={} group={} workers={}\n{}crash {logical}\n", cfg.cap, cfg.group, cfg.workers, text) });
                        continue;
                    }
                    Ok(()) => { out.line(&opline, &format!("crashed {}", ts.map(|x| x.to_string()).unwrap_or("none".into()))); exp_lines.push(format!("crashed {}", if p == 0 { "none".to_string() } else { t.to_string() })); }
                }
                if ks.is_empty() { continue; }
                let mut sc = Scratch::new(&case.program, &truth);
                let expv: Vec<String> = ks.iter().map(|k| sc.value(*k).unwrap().to_string()).collect();
                let rline = Op::Round(ks.clone()).render();
                if let Some(m) = &co.crash {
                    out.line(&rline, &format!("crash {}", if m.starts_with("hang") { "hang" } else { "panic" })); exp_lines.push(expv.join(" "));
                    failures.push(Failure { sig: format!("C08:query-{}", if m.starts_with("hang") { "hang" } else { "panic" }), desc: format!("after a crash keeping {p} of {} commits (timestamp {t}) querying {:?} failed: {}", log.len(), ks, m.chars().take(200).collect::<String>()), case: format!("cfg cap={} group={} workers={}\n{}crash {logical}\n{rline}\n", cfg.cap, cfg.group, cfg.workers, text) });
                    continue;
                }
                out.line(&rline, &render_out(co.out.as_ref().unwrap(), with_execs)); exp_lines.push(expv.join(" "));
                bump(&mut dist, "values_checked_after_crash", ks.len() as u64);
                if co.vals != expv {
                    // would a never-crashed engine, driven to some op between session t and the next session, answer the same?
                    let lo = sess_idx[t - 1]; let hi = sess_idx.get(t).copied().unwrap_or(ops.len());
                    let mut same_as_uncrashed = false;
                    for j in lo..hi {
                        let mut items: Vec<Item> = ops[..=j].iter().cloned().map(Item::Op).collect();
                        items.push(Item::Op(Op::Round(ks.clone())));
                        let rr = run_items(&PCase { program: case.program.clone(), items, cont: false }, *cfg, &MemStore::new(cfg.group, false));
                        if rr.crash.is_none() && rr.outs.last().map(|o| &o.vals) == Some(&co.vals) { same_as_uncrashed = true; break; }
                    }
                    let bad = ks.iter().zip(co.vals.iter().zip(&expv)).find(|(_, (x, y))| x != y).unwrap();
                    let sig = if same_as_uncrashed { "C08:value-same-as-never-crashed" } else if p == log.len() { "C08:value-at-full-log" } else { "C08:value" };
                    bump(&mut dist, if same_as_uncrashed { "value_failures_shared_with_a_never_crashed_engine" } else { "value_failures_specific_to_the_crash" }, 1);
                    failures.push(Failure { sig: sig.into(), desc: format!("after a crash keeping {p} of {} commits ({logical} logical batches, timestamp {t}): key {} = {} expected {}", log.len(), bad.0, bad.1.0, bad.1.1),
                        case: format!("cfg cap={} group={} workers={}\n{}crash {logical}\n{rline}\n", cfg.cap, cfg.group, cfg.workers, text) });
                }
            }
        }
    } else if mode == "overlap8" {
        // 1–3 held readers x the session writes the same / another input x with / without a firewall between
        let groups: Vec<usize> = if thorough { vec![1, 2, 3, 1_000_000] } else { vec![1] };
        for group in groups { for readers in 1..=3u32 { for same_input in [true, false] { for firewall in [false, true] {
            let v = overlap8::Variant { readers, same_input, firewall, group };
            evals += 1;
            let name = format!("overlap8 readers={readers} session-writes={} firewall={firewall} group={group}", if same_input { "same-input" } else { "other-input" });
            let run = |overlap: bool| { let (tx, rx) = std::sync::mpsc::channel(); std::thread::spawn(move || { let _ = tx.send(overlap8::history(v, overlap)); }); rx.recv_timeout(std::time::Duration::from_secs(30)).unwrap_or_else(|_| Err("hang".into())) };
            let (lo, ls) = (run(true), run(false));
            let (lo, ls) = match (lo, ls) { (Ok(a), Ok(b)) => (a, b), (a, b) => { failures.push(Failure { sig: "C08:overlap:history-failed".into(), desc: format!("{name}: overlapped {:?} / sequential {:?}", a.err(), b.err()), case: name.clone() }); continue; } };
            bump(&mut dist, "overlap_histories", 1); bump(&mut dist, "overlap_commits", lo.len() as u64);
            // (1) structure: the store after k commits is the fold of the first k logical batches in the order in which they
            //     were published in memory — the same logical history without the overlap publishes the same batches in that
            //     order, so the two logs must agree commit by commit (compared as store contents, byte for byte)
            if group == 1 {
                let (mut ta, mut tb) = (Tables::default(), Tables::default());
                let mut bad: Option<String> = None;
                if lo.len() != ls.len() { bad = Some(format!("{} commits with the overlap, {} without", lo.len(), ls.len())); }
                for k in 0..lo.len().min(ls.len()) {
                    ta.apply(&lo[k]); tb.apply(&ls[k]);
                    if ta.content() != tb.content() {
                        let (da, db) = (describe_tables(&ta), describe_tables(&tb));
                        let only_a: Vec<&String> = da.difference(&db).take(3).collect(); let only_b: Vec<&String> = db.difference(&da).take(3).collect();
                        bad = Some(format!("after {} commits the store differs from the fold of the first {} logical batches in publication order; only with the overlap: {:?}; only in publication order: {:?}", k + 1, k + 1, only_a.iter().map(|x| x.chars().take(140).collect::<String>()).collect::<Vec<_>>(), only_b.iter().map(|x| x.chars().take(140).collect::<String>()).collect::<Vec<_>>()));
                        break;
                    }
                }
                bump(&mut dist, "overlap_prefixes_compared_with_publication_order", lo.len().min(ls.len()) as u64);
                if let Some(b) = bad { failures.push(Failure { sig: "C08:overlap:store-is-not-a-prefix-of-the-publications".into(), desc: format!("{name}: {b}"), case: name.clone() }); }
            }
            // (2) every prefix reopened: from-scratch values for the inputs found in it
            for k in 0..=lo.len() {
                let ps = MemStore::from_prefix(&lo, k, 1, true);
                let inputs = overlap8::inputs_of(&ps.tables());
                let Some(&var0) = inputs.get(&0) else { continue };
                let (tx, rx) = std::sync::mpsc::channel(); let ps2 = ps.clone();
                std::thread::spawn(move || { let _ = tx.send(overlap8::reopen(&ps2, v)); });
                bump(&mut dist, "overlap_prefixes_reopened", 1);
                match rx.recv_timeout(std::time::Duration::from_secs(30)).unwrap_or_else(|_| Err("hang".into())) {
                    Err(m) => { failures.push(Failure { sig: "C08:overlap:reopen-failed".into(), desc: format!("{name}: first {k} of {} commits: {m}", lo.len()), case: name.clone() }); break; }
                    Ok(vals) => {
                        let want: Vec<i64> = (0..readers).map(|j| overlap8::expected(v, var0, j)).collect();
                        if vals != want {
                            failures.push(Failure { sig: "C08:overlap:value".into(), desc: format!("{name}: the engine reopened on the first {k} of {} commits shows inputs {:?} and answers the readers {:?}, from-scratch {:?}", lo.len(), inputs, vals, want), case: name.clone() });
                            break;
                        }
                    }
                }
            }
        } } } }
    } else if mode == "f8" {
        // sequential control first (no overlap), then the overlapping session
        for overlap in [false, true] {
            evals += 1;
            let (tx, rx) = std::sync::mpsc::channel();
            std::thread::spawn(move || { let _ = tx.send(f8::scenario(overlap)); });
            match rx.recv_timeout(std::time::Duration::from_secs(30)) {
                Ok(Ok((live, after, want))) => {
                    bump(&mut dist, &format!("f8_overlap_{overlap}_live_{live}_after_restart_{after}_expected_{want}"), 1);
                    if after != want || live != want {
                        failures.push(Failure { sig: if overlap && live == want { "C07:F8:session-opened-while-reader-publishes".into() } else { "C07:F8-scenario:unexpected".into() },
                            desc: format!("Var(0)=1; query G; Var(0)=2; reader re-executes G=10*Var(0) and is held inside its executor while the next session (Var(0)=3) is opened; after both finish the never-restarted engine answers G={live}, the engine reopened on the drained store answers G={after}, from-scratch {want} (overlap={overlap})"),
                            case: "persist --mode f8".into() });
                    }
                }
                Ok(Err(m)) => failures.push(Failure { sig: "C07:F8-scenario:panic".into(), desc: m.chars().take(300).collect(), case: "persist --mode f8".into() }),
                Err(_) => failures.push(Failure { sig: "C07:F8-scenario:hang".into(), desc: format!("overlap={overlap}"), case: "persist --mode f8".into() }),
            }
        }
    } else if mode == "rocks-child" {
        #[cfg(feature = "backends")]
        {
            // child of the kill -9 run: run the history on RocksDB in `--dir`, reporting progress; never returns normally if killed
            let dir = a.rest.iter().position(|x| x == "--dir").map(|i| a.rest[i + 1].clone()).expect("--dir");
            let case = PCase::parse(&std::fs::read_to_string(a.replay.as_ref().expect("--replay")).unwrap());
            let r = rocks::run_items(&case, 8, std::path::Path::new(&dir), Some(std::path::PathBuf::from(format!("{dir}.progress"))));
            std::process::exit(if r.crash.is_some() { 3 } else { 0 });
        }
    } else if mode == "rocks-c07" || mode == "rocks-c08" {
        #[cfg(not(feature = "backends"))]
        { eprintln!("built without the `backends` feature"); std::process::exit(2); }
        #[cfg(feature = "backends")]
        {
            let n_cases = a.n.unwrap_or(30);
            for i in 0..n_cases {
                let c = gen_case(&mut rng, i, i % 2 == 0, mode == "rocks-c07");
                let pc = insert_restarts(&mut rng, &c);
                evals += 1;
                let text = pc.render();
                if nontrivial(&pc.ops()) { distinct.insert(hash(&text)); if samples.len() < 2 { samples.push(text.clone()); } }
                if mode == "rocks-c07" {
                    let (da, db) = (rocks::tmp("a"), rocks::tmp("b"));
                    let cap = *rng.pick(&CAPS);
                    let ra = rocks::run_items(&pc.without_restarts(), cap, &da, None);
                    let rb = rocks::run_items(&pc, cap, &db, None);
                    bump(&mut dist, "rocksdb_restarts", pc.items.iter().filter(|i| **i == Item::Restart).count() as u64);
                    bump(&mut dist, "rocksdb_ops", pc.ops().len() as u64);
                    if let Some((sig, desc)) = compare_runs(&pc, &ra, &rb) { failures.push(Failure { sig: sig.replace("C07:", "C07:rocksdb:"), desc, case: text.clone() }); }
                    let _ = std::fs::remove_dir_all(&da); let _ = std::fs::remove_dir_all(&db);
                } else {
                    // (1) clean end of the history, reopened; (2) kill -9 of a child at a seeded instant, reopened
                    let d1 = rocks::tmp("clean");
                    let r1 = rocks::run_items(&pc, 8, &d1, None);
                    if r1.crash.is_none() { rocks::judge_reopened(&pc, &d1, "clean_shutdown", &mut failures, &mut dist, &mut rng); }
                    let _ = std::fs::remove_dir_all(&d1);
                    let d2 = rocks::tmp("kill");
                    let casefile = format!("{}/kill-case-{i}.txt", a.out);
                    std::fs::write(&casefile, &text).unwrap();
                    let progress = std::path::PathBuf::from(format!("{}.progress", d2.display()));
                    let _ = std::fs::remove_file(&progress);
                    let mut child = std::process::Command::new(std::env::current_exe().unwrap()).args(["--mode", "rocks-child", "--replay", &casefile, "--dir", &d2.display().to_string(), "--out", &format!("{}/child", a.out)])
                        .stdout(std::process::Stdio::null()).stderr(std::process::Stdio::null()).spawn().expect("spawn child");
                    // kill when a seeded number of items has completed (or after a seeded delay, whichever comes first)
                    let want = rng.below(pc.items.len() as u64 + 1) as usize;
                    let extra_us = rng.below(3000);
                    let t0 = std::time::Instant::now();
                    loop {
                        let done = std::fs::metadata(&progress).map(|m| m.len() as usize).unwrap_or(0);
                        if done >= want || t0.elapsed() > std::time::Duration::from_secs(20) { break; }
                        if let Ok(Some(_)) = child.try_wait() { break; }
                        std::thread::sleep(std::time::Duration::from_micros(200));
                    }
                    std::thread::sleep(std::time::Duration::from_micros(extra_us));
                    let finished = matches!(child.try_wait(), Ok(Some(_)));
                    unsafe { kill(child.id() as i32, 9); }
                    let _ = child.wait();
                    bump(&mut dist, if finished { "kill9_child_had_finished" } else { "kill9_child_killed_mid_run" }, 1);
                    let _ = std::fs::remove_file(d2.join("LOCK"));
                    rocks::judge_reopened(&pc, &d2, "kill9", &mut failures, &mut dist, &mut rng);
                    let _ = std::fs::remove_dir_all(&d2); let _ = std::fs::remove_file(&progress);
                }
            }
        }
    } else { eprintln!("unknown mode {mode}"); std::process::exit(2); }

    if with_state && mode == "c07" { dist.insert("state_digest_duplicate_elements_yielded_by_backward_edge_iterators".into(), STATE_DIGEST_DUPLICATES.load(std::sync::atomic::Ordering::Relaxed)); }
    let mut rep = String::from("{");
    rep.push_str(&format!("\"evaluations\":{evals},\"distinct_nontrivial\":{},", distinct.len()));
    rep.push_str(&format!("\"rule\":{},", jstr(if mode.starts_with("rocks") { "the C07 / C08 oracles on the real RocksDB backend in temp dirs: histories with restarts vs without (rocks-c07); reopen after the clean end and after SIGKILL of a child process at a seeded instant (rocks-c08): inputs read back must be those after some session, every value from-scratch for them" } else if mode == "c07" {
        "random ranked programs (3..10 keys; input/normal/firewall/projection/external; conditional and unordered reads) x sequential histories of sessions and query rounds with restarts (engine dropped, new engine with fresh executors on the same store) at random positions (between any two ops, doubled, before the first op) x cache capacity {1,2,8,64} x write-behind grouping {1,2,3,5,all-at-shutdown} x serialization workers {1,2}; every case is run with and without its restarts; plus (shard 0, every run) the wide fan-in family: an input / firewall / normal node with N direct dependents, N on both sides of 1024 (1020..1030, 1100; thorough also 1023..1030, 2100, 32, 33), cache capacity {1,8,64,2^18}: set, compute all readers, restart, edit, query all, [restart,] edit, query all; non-trivial = a session after the first round changes an input that had a value (or refreshes); distinct by hash of the case text"
    } else {
        "random ranked programs (3..10 keys; input/normal/firewall/projection; conditional and unordered reads) x sequential histories (a third with restarts) run to shutdown on DbBacked<KvMem> x cache capacity {1,2,8,64} x grouping {1,2,3,5,all-at-shutdown}; then one engine per prefix of the physical commit log (every boundary; >40 boundaries in the quick tier: 40 sampled) queried for every key in ascending / descending / random order; plus (shard 0, every run) the wide fan-in family (a key with N direct dependents, N on both sides of 1024): the history is CONTINUED on the engine reopened on the full log and on a few earlier cuts (edit, query all, edit, query all); non-trivial as for C07"
    })));
    rep.push_str(&format!("\"samples\":[{}],", samples.iter().map(|s| jstr(s)).collect::<Vec<_>>().join(",")));
    rep.push_str(&format!("\"distribution\":{{{}}},", dist.iter().map(|(k, v)| format!("{}:{v}", jstr(k))).collect::<Vec<_>>().join(",")));
    rep.push_str(&format!("\"oracle_failures\":[{}]", failures.iter().map(|f| format!("{{\"sig\":{},\"desc\":{},\"case\":{}}}", jstr(&f.sig), jstr(&f.desc), jstr(&f.case))).collect::<Vec<_>>().join(",")));
    rep.push('}');
    std::fs::write(format!("{}/expect.txt", a.out), exp_lines.join("\n") + "\n").unwrap();
    if with_state && (mode == "c07" || mode == "c08") { std::fs::write(format!("{}/inv_ops.txt", a.out), inv_lines.join("\n") + "\n").unwrap(); }
    if with_state && mode == "c07" {
        std::fs::write(format!("{}/state_a.txt", a.out), state_a.join("\n") + "\n").unwrap();
        std::fs::write(format!("{}/state_b.txt", a.out), state_b.join("\n") + "\n").unwrap();
    }
    out.finish(&rep);
}

#[cfg(feature = "backends")]
unsafe extern "C" { fn kill(pid: i32, sig: i32) -> i32; }

fn parse_cfg(text: &str) -> Option<ECfg> {
    let l = text.lines().find(|l| l.trim().starts_with("cfg"))?;
    let mut c = ECfg { cap: 1, group: 1, workers: 1 };
    for t in l.split_whitespace().skip(1) {
        let (k, v) = t.split_once('=')?;
        match k { "cap" => c.cap = v.parse().ok()?, "group" => c.group = v.parse().ok()?, "workers" => c.workers = v.parse().ok()?, _ => {} }
    }
    Some(c)
}

/// is the from-scratch value of `k` defined (every input it transitively reads is set)?
fn defined(p: &Program, t: &Truth, k: u32) -> bool {
    fn go(p: &Program, t: &Truth, k: u32, seen: &mut BTreeSet<u32>) -> bool {
        if !seen.insert(k) { return true; }
        match p.kind(k) { Kind::Input => t.inputs.contains_key(&k), Kind::External => true, _ => { let mut rs = vec![]; p.nodes[k as usize].expr.reads(&mut rs); rs.iter().all(|r| go(p, t, *r, seen)) } }
    }
    go(p, t, k, &mut BTreeSet::new())
}
