//! C16 harness: drives the REAL `qbice_storage::tiny_lfu::TinyLFU` through its public API.
//!
//! Part 1 (correspondence + oracle, one thread): generated histories of
//!   get / put / ins / upd / rem / peek / pin / unpin / unpinn / notify / acq / rel / len / res
//! over key sets much larger than the capacity, capacities 1..300, both unpin strategies, with a
//! lifecycle listener whose pin multiset the case controls and which logs every question the
//! removal closure asks.  Every line goes to ops.txt, the implementation's answer to impl.txt.
//! Part 2 (oracle only): multi-threaded histories on one shared cache, and a lock table
//! (`get_lock_instance` glue replicated here because `QueryLockManager` is crate-private; the
//! TinyLFU underneath is the real one) stressed from a multi-thread tokio runtime.
//!
//! Oracle (independent of the Lean model): the cache content must equal a reference map that
//! loses entries only by `rem` and by evictions the listener allowed (answer `false`); `get`
//! returns the reference value; pinned resident keys stay resident; resident count stays within
//! capacity + currently pinned + 32 (Notify, protocol followed), within capacity + currently pinned + 32 + releases
//! since the last maintenance round (Poll, pin token = key: exactly `bounded_poll` of Props/C16.lean — a polling cache
//! cannot know about a release before it polls again) and within capacity + entries that may sit in the pinned region
//! + 32 (any listener, `bounded_poll_partial`); no call panics.  Notify, protocol followed, additionally the bound of
//! `bounded_notify_buffered` (Props/C16.lean): resident <= capacity + currently pinned + messages buffered since the
//! last maintenance pass — in particular right after a pass with nothing pinned: resident <= capacity ("every resident
//! unpinned entry is tracked by the policy, i.e. evictable"; a surplus there can never be evicted).
//! Part 1b: the write-behind family (`write_behind`): more keys than capacity, every key written pinned, flushed
//! (unpin notification queued), re-written/re-pinned before the next maintenance pass, flushed again; then everything
//! is released and maintenance is run to quiescence.
#![allow(clippy::all)]
use qbice_storage::tiny_lfu::{Entry, LifecycleListener, MaintenanceMode, TinyLFU, UnpinStrategy};
use qbice_verif_harness::{args, jstr, Out, Rng};
use std::collections::{BTreeMap, HashMap, HashSet};
use std::hash::BuildHasher;
use std::panic::{catch_unwind, AssertUnwindSafe};
use std::sync::atomic::{AtomicBool, AtomicU64, Ordering};
use std::sync::{Arc, LazyLock};

// ------------------------------------------------------------------ listener (global: `L: Default`)
static PINS: LazyLock<parking_lot::Mutex<HashMap<u64, u32>>> = LazyLock::new(|| parking_lot::Mutex::new(HashMap::new()));
static EVLOG: LazyLock<parking_lot::Mutex<Vec<(u64, bool)>>> = LazyLock::new(|| parking_lot::Mutex::new(Vec::new()));
static TOK_V: AtomicBool = AtomicBool::new(false);
static LOG_ON: AtomicBool = AtomicBool::new(true);

#[derive(Default)]
struct Lsn;
impl LifecycleListener<u64, u64> for Lsn {
    fn is_pinned(&self, key: &u64, value: &u64) -> bool {
        let tok = if TOK_V.load(Ordering::Relaxed) { *value } else { *key };
        let p = PINS.lock().get(&tok).copied().unwrap_or(0) > 0;
        if LOG_ON.load(Ordering::Relaxed) { EVLOG.lock().push((*key, p)); }
        p
    }
}
fn pin_tok(t: u64) { *PINS.lock().entry(t).or_insert(0) += 1; }
fn unpin_tok(t: u64) { let mut g = PINS.lock(); if let Some(c) = g.get_mut(&t) { if *c > 0 { *c -= 1; } if *c == 0 { g.remove(&t); } } }
fn tok_pinned(t: u64) -> bool { PINS.lock().get(&t).copied().unwrap_or(0) > 0 }

// ------------------------------------------------------------------ panic capture
static LAST_PANIC: LazyLock<parking_lot::Mutex<Option<(String, u32, String)>>> = LazyLock::new(|| parking_lot::Mutex::new(None));
fn install_hook() {
    std::panic::set_hook(Box::new(|info| {
        let (f, l) = info.location().map(|x| (x.file().to_string(), x.line())).unwrap_or(("?".into(), 0));
        let msg = if let Some(s) = info.payload().downcast_ref::<&str>() { s.to_string() }
                  else if let Some(s) = info.payload().downcast_ref::<String>() { s.clone() } else { "?".into() };
        let mut g = LAST_PANIC.lock();
        if g.is_none() { *g = Some((f, l, msg)); }
    }));
}
/// `panic:<file>:fn <enclosing fn>:<source text of the panicking line>` — stable while that code is unchanged.
fn panic_sig() -> String {
    let Some((file, line, msg)) = LAST_PANIC.lock().take() else { return "panic:unknown".into() };
    let base = file.rsplit('/').next().unwrap_or("?").to_string();
    let repo = std::env::var("QBICE_REPO").unwrap_or("/repo".into());
    let cands = [file.clone(), format!("{repo}/{file}"), format!("{repo}/crates/storage/{file}")];
    let mut fname = String::from("?"); let mut text = String::new();
    for c in cands.iter() {
        if let Ok(src) = std::fs::read_to_string(c) {
            let ls: Vec<&str> = src.lines().collect();
            if (line as usize) >= 1 && (line as usize) <= ls.len() {
                text = ls[line as usize - 1].split_whitespace().collect::<Vec<_>>().join(" ");
                for i in (0..line as usize).rev() {
                    let t = ls[i].trim_start();
                    if let Some(p) = t.find("fn ") {
                        if t.starts_with("pub ") || t.starts_with("fn ") || t.starts_with("const fn") || t.starts_with("pub(") {
                            fname = t[p + 3..].split(|c: char| !(c.is_alphanumeric() || c == '_')).next().unwrap_or("?").to_string();
                            break;
                        }
                    }
                }
            }
            break;
        }
    }
    let class = if msg.contains("`Option::unwrap()` on a `None`") { "unwrap-none".to_string() } else { msg.chars().take(40).collect() };
    let text: String = text.chars().filter(|c| *c != '"').take(90).collect();
    format!("panic:{base}:fn {fname}:{class}:{text}")
}

// ------------------------------------------------------------------ ops
#[derive(Clone, Debug, PartialEq)]
enum O { Get(u64), Put(u64, u64), Ins(u64, u64), Upd(u64, u64), Rem(u64), Peek(u64), Pin(u64), Unpin(u64), UnpinN(u64), Notify(u64), Acq(u64), Rel(u64), Len, Res }
impl O {
    fn text(&self) -> String {
        match self {
            O::Get(k) => format!("get {k}"), O::Put(k, v) => format!("put {k} {v}"), O::Ins(k, v) => format!("ins {k} {v}"),
            O::Upd(k, v) => format!("upd {k} {v}"), O::Rem(k) => format!("rem {k}"), O::Peek(k) => format!("peek {k}"),
            O::Pin(t) => format!("pin {t}"), O::Unpin(t) => format!("unpin {t}"), O::UnpinN(k) => format!("unpinn {k}"),
            O::Notify(k) => format!("notify {k}"), O::Acq(q) => format!("acq {q}"), O::Rel(h) => format!("rel {h}"),
            O::Len => "len".into(), O::Res => "res".into(),
        }
    }
    fn parse(s: &str) -> Option<O> {
        let w: Vec<&str> = s.split_whitespace().collect();
        let n = |i: usize| -> Option<u64> { w.get(i)?.parse().ok() };
        Some(match (*w.first()?, w.len()) {
            ("get", 2) => O::Get(n(1)?), ("put", 3) => O::Put(n(1)?, n(2)?), ("ins", 3) => O::Ins(n(1)?, n(2)?),
            ("upd", 3) => O::Upd(n(1)?, n(2)?), ("rem", 2) => O::Rem(n(1)?), ("peek", 2) => O::Peek(n(1)?),
            ("pin", 2) => O::Pin(n(1)?), ("unpin", 2) => O::Unpin(n(1)?), ("unpinn", 2) => O::UnpinN(n(1)?),
            ("notify", 2) => O::Notify(n(1)?), ("acq", 2) => O::Acq(n(1)?), ("rel", 2) => O::Rel(n(1)?),
            ("len", 1) => O::Len, ("res", 1) => O::Res, _ => return None,
        })
    }
    fn kind(&self) -> &'static str {
        match self { O::Get(_) => "get", O::Put(..) => "put", O::Ins(..) => "ins", O::Upd(..) => "upd", O::Rem(_) => "rem", O::Peek(_) => "peek",
            O::Pin(_) => "pin", O::Unpin(_) => "unpin", O::UnpinN(_) => "unpinn", O::Notify(_) => "notify", O::Acq(_) => "acq", O::Rel(_) => "rel", O::Len => "len", O::Res => "res" }
    }
}

#[derive(Clone, Debug)]
struct Header { cap: usize, poll: bool, tokv: bool }
impl Header {
    fn text(&self) -> String { format!("new {} {} {}", self.cap, if self.poll { "P" } else { "N" }, if self.tokv { "V" } else { "K" }) }
    fn parse(s: &str) -> Option<Header> {
        let w: Vec<&str> = s.split_whitespace().collect();
        if w.len() != 4 || w[0] != "new" { return None; }
        Some(Header { cap: w[1].parse().ok()?, poll: w[2] == "P", tokv: w[3] == "V" })
    }
}

/// `Policy::new` arithmetic, copied (the fields are private): (window, protected, main limit).
/// Only used for the `caps` cross-check of the model's integer formula against IEEE arithmetic and
/// for the oracle's capacity term.
fn caps_float(capacity: usize) -> (usize, usize, usize) {
    let window_capacity = (capacity as f64 * 0.01).ceil() as usize;
    let main_capacity = capacity - window_capacity;
    let protected_capacity = (main_capacity as f64 * 0.8).ceil() as usize;
    let probation_capacity = (main_capacity - protected_capacity).max(1);
    (window_capacity, protected_capacity, protected_capacity + probation_capacity)
}

type Cache = TinyLFU<u64, u64, Lsn>;

/// FIXED finding F15 (Poll: the trim stopped at the first still-pinned entry of the pinned region, so released entries
/// behind it survived maintenance rounds): the adversary, and any other Poll history that exceeds the bound of
/// `bounded_poll` (capacity + currently pinned + 32 + releases since the last maintenance round).  Plain violations.
const SIG_F15: &str = "bound-poll:excess-grows-with-blockers";
const SIG_F15_RANDOM: &str = "bound-poll:history-exceeds-capacity+pinned+32";
/// Notify, protocol followed (`bounded_notify_buffered`): resident > capacity + currently pinned + buffered messages …
const SIG_BUFFERED: &str = "bound-notify-buffered:resident-exceeds-capacity+pinned+buffered-messages";
/// … and the same at a quiescent point (nothing pinned, maintenance just ran): the surplus is resident for good
const SIG_RESIDUE: &str = "unevictable-residue:resident-unpinned-entries-tracked-by-no-region";

// ------------------------------------------------------------------ one single-thread case
#[derive(Default, Clone)]
struct Stats { ops: BTreeMap<&'static str, u64>, evictions: u64, kept_pinned: u64, maint_rounds: u64, max_excess: i64, max_excess_notify: i64, max_excess_poll: i64, max_excess_poll_rel: i64, max_resident: u64, panics: u64 }

struct Fail { sig: String, desc: String, at: usize }

struct Sim {
    hdr: Header, cache: Cache, refmap: HashMap<u64, u64>, pins: HashMap<u64, u32>, maybe_region: HashSet<u64>,
    quiet_unpin_seen: bool, msgs: u64, handles: Vec<Option<(u64, u64)>>, lock_ids: HashMap<u64, u64>, next_id: u64,
    max_cap: usize, universe_hi: u64, evicted_any: bool, kept_any: bool,
    /// first point where a Poll history exceeds capacity + currently pinned + 32 (finding F15): recorded, the history goes on
    soft: Option<(String, String, usize)>, step_no: usize,
    /// releases (`unpin t` / `unpinn k`) since the last maintenance round — `Cache.rel` of the model
    rel: u64,
}

impl Sim {
    fn new(hdr: Header, universe_hi: u64) -> Sim {
        PINS.lock().clear(); EVLOG.lock().clear(); TOK_V.store(hdr.tokv, Ordering::Relaxed); LOG_ON.store(true, Ordering::Relaxed);
        let cache = Cache::new(hdr.cap, if hdr.poll { UnpinStrategy::Poll } else { UnpinStrategy::Notify }, MaintenanceMode::Piggyback);
        let (w, _, m) = caps_float(hdr.cap);
        Sim { hdr, cache, refmap: HashMap::new(), pins: HashMap::new(), maybe_region: HashSet::new(), quiet_unpin_seen: false, msgs: 0,
              handles: vec![], lock_ids: HashMap::new(), next_id: 0, max_cap: w + m, universe_hi, evicted_any: false, kept_any: false, soft: None, step_no: 0, rel: 0 }
    }
    fn probe(&self, k: u64) -> Option<u64> { self.cache.entry(k, |e| match e { Entry::Occupied(o) => Some(*o.get()), Entry::Vacant(_) => None }) }
    fn pinned_kv(&self, k: u64, v: u64) -> bool { let t = if self.hdr.tokv { v } else { k }; self.pins.get(&t).copied().unwrap_or(0) > 0 }
    fn pin(&mut self, t: u64) { *self.pins.entry(t).or_insert(0) += 1; pin_tok(t); }
    fn unpin(&mut self, t: u64) { if let Some(c) = self.pins.get_mut(&t) { if *c > 0 { *c -= 1; } if *c == 0 { self.pins.remove(&t); } } unpin_tok(t); }
    fn pushed(&mut self, st: &mut Stats) { self.msgs += 1; if self.msgs > 32 { self.msgs = 0; self.rel = 0; st.maint_rounds += 1; } }

    /// Executes one op on the real cache; returns the canonical answer (without the ev suffix).
    fn exec(&mut self, op: &O, st: &mut Stats) -> String {
        match *op {
            O::Get(k) => match self.cache.get(&k) { Some(v) => format!("some {v}"), None => "none".into() },
            O::Put(k, v) => { let r = self.cache.entry(k, |e| match e { Entry::Vacant(x) => { x.insert(v); true } Entry::Occupied(mut o) => { *o.get_mut() = v; false } });
                if r { self.pushed(st); "inserted".into() } else { "updated".into() } }
            O::Ins(k, v) => { let r = self.cache.entry(k, |e| match e { Entry::Vacant(x) => { x.insert(v); None } Entry::Occupied(o) => Some(*o.get()) });
                match r { None => { self.pushed(st); "inserted".into() } Some(w) => format!("occupied {w}") } }
            O::Upd(k, v) => { let r = self.cache.entry(k, |e| match e { Entry::Vacant(_) => false, Entry::Occupied(mut o) => { *o.get_mut() = v; true } });
                if r { "updated".into() } else { "absent".into() } }
            O::Rem(k) => { let r = self.cache.entry(k, |e| match e { Entry::Vacant(_) => None, Entry::Occupied(o) => Some(o.remove()) });
                match r { Some(w) => { self.pushed(st); format!("removed {w}") } None => "absent".into() } }
            O::Peek(k) => match self.probe(k) { Some(v) => format!("some {v}"), None => "none".into() },
            O::Pin(t) => { self.pin(t); "ok".into() }
            O::Unpin(t) => { self.unpin(t); self.rel += 1; "ok".into() }
            O::UnpinN(k) => { self.unpin(k); self.rel += 1; self.cache.unpin(k); self.pushed(st); "ok".into() }
            O::Notify(k) => { self.cache.unpin(k); self.pushed(st); "ok".into() }
            // get_lock_instance: value = lock id, a handle is one reference (pin) of that id
            O::Acq(q) => {
                // `hot.get` clones the stored instance inside the read (reference taken before its maintenance)
                let pre = self.probe(q);
                if let Some(id) = pre { self.pin(id); }
                let got = match self.cache.get(&q) {
                    Some(id) => id,
                    None => { let id = self.next_id; self.pin(id);
                        let r = self.cache.entry(q, |e| match e { Entry::Vacant(x) => { x.insert(id); None } Entry::Occupied(o) => Some(*o.get()) });
                        match r { None => { self.pushed(st); self.next_id += 1; id } Some(w) => { self.unpin(id); self.pin(w); w } } }
                };
                self.handles.push(Some((q, got))); format!("lock {got}")
            }
            O::Rel(h) => match self.handles.get(h as usize).cloned().flatten() { Some((_, id)) => { self.unpin(id); self.handles[h as usize] = None; "ok".into() } None => "bad-op".into() },
            O::Len => { let mut n = 0u64; for k in 0..=self.universe_hi { if self.probe(k).is_some() { n += 1; } } format!("len {n}") }
            O::Res => { let mut s = String::from("res"); for k in 0..=self.universe_hi { if let Some(v) = self.probe(k) { s.push_str(&format!(" {k}:{v}")); } } s }
        }
    }

    /// The oracle's view of the op (applied after `exec`), returns a failure if the answer is not what
    /// a map that only loses unpinned entries would give.
    fn judge(&mut self, op: &O, ans: &str, ev: &[(u64, bool)], st: &mut Stats) -> Option<(String, String)> {
        let mut fail: Option<(String, String)> = None;
        let mut flag = |sig: &str, desc: String| { if fail.is_none() { fail = Some((sig.to_string(), desc)); } };
        let exp_get = |m: &HashMap<u64, u64>, k: u64| match m.get(&k) { Some(v) => format!("some {v}"), None => "none".into() };
        match *op {
            O::Get(k) | O::Peek(k) => { let e = exp_get(&self.refmap, k); if ans != e {
                let sig = if ans == "none" { if self.refmap.get(&k).map(|v| self.pinned_kv(k, *v)).unwrap_or(false) { "pinned-evicted" } else { "vanished-without-eviction" } }
                          else if e == "none" { "resurrected" } else { "stale-value" };
                flag(sig, format!("{} answered `{ans}`, reference `{e}`", op.text())); } }
            O::Put(k, v) => { let e = if self.refmap.contains_key(&k) { "updated" } else { "inserted" }; if ans != e { flag("entry-mismatch", format!("{} answered `{ans}`, reference `{e}`", op.text())); }
                if e == "inserted" { self.maybe_region.remove(&k); } self.refmap.insert(k, v); }
            O::Ins(k, v) => { let e = match self.refmap.get(&k) { Some(w) => format!("occupied {w}"), None => "inserted".into() }; if ans != e { flag("entry-mismatch", format!("{} answered `{ans}`, reference `{e}`", op.text())); }
                if !self.refmap.contains_key(&k) { self.refmap.insert(k, v); self.maybe_region.remove(&k); } }
            O::Upd(k, v) => { let e = if self.refmap.contains_key(&k) { "updated" } else { "absent" }; if ans != e { flag("entry-mismatch", format!("{} answered `{ans}`, reference `{e}`", op.text())); }
                if self.refmap.contains_key(&k) { self.refmap.insert(k, v); } }
            O::Rem(k) => { let e = match self.refmap.get(&k) { Some(w) => format!("removed {w}"), None => "absent".into() }; if ans != e { flag("entry-mismatch", format!("{} answered `{ans}`, reference `{e}`", op.text())); }
                self.refmap.remove(&k); }
            O::Unpin(_) => { if !self.hdr.poll { self.quiet_unpin_seen = true; } }
            O::Acq(q) => { // same lock while a handle is alive
                let id: u64 = ans.strip_prefix("lock ").and_then(|x| x.parse().ok()).unwrap_or(u64::MAX);
                let n = self.handles.len() - 1;
                for (i, h) in self.handles.iter().enumerate() { if i != n { if let Some((q2, id2)) = h { if *q2 == q && *id2 != id {
                    flag("lock-split", format!("acq {q} returned lock {id} while handle {i} holds lock {id2} of the same key")); } } } }
                if !self.refmap.contains_key(&q) || self.refmap[&q] != id { if self.refmap.contains_key(&q) { flag("lock-split", format!("acq {q} returned {id}, table holds {}", self.refmap[&q])); } self.refmap.insert(q, id); self.maybe_region.remove(&q); }
            }
            O::Len => { let e = format!("len {}", self.refmap.len()); if ans != e { flag("resident-set-mismatch", format!("len answered `{ans}`, reference `{e}`")); } }
            O::Res => { let mut ks: Vec<_> = self.refmap.iter().map(|(k, v)| (*k, *v)).collect(); ks.sort();
                let mut e = String::from("res"); for (k, v) in ks { e.push_str(&format!(" {k}:{v}")); }
                if ans != e { flag("resident-set-mismatch", format!("resident set differs from reference map minus allowed evictions: impl `{}` ref `{}`", &ans[..ans.len().min(200)], &e[..e.len().min(200)])); } }
            _ => {}
        }
        // the listener's answers: `false` allows the eviction, `true` forbids it
        for (k, p) in ev {
            let exp = self.refmap.get(k).map(|v| self.pinned_kv(*k, *v));
            if exp != Some(*p) { flag("listener-asked-about-unknown-entry", format!("removal closure asked about key {k} (answer {p}), reference says {:?}", exp)); }
            if *p { self.maybe_region.insert(*k); st.kept_pinned += 1; self.kept_any = true; } else { self.refmap.remove(k); self.maybe_region.remove(k); st.evictions += 1; self.evicted_any = true; }
        }
        // pinned resident entries must still be there, with their value
        let pinned_keys: Vec<(u64, u64)> = if self.hdr.tokv { self.refmap.iter().filter(|(k, v)| self.pinned_kv(**k, **v)).map(|(k, v)| (*k, *v)).collect() }
            else { self.pins.keys().filter_map(|k| self.refmap.get(k).map(|v| (*k, *v))).collect() };
        for (k, v) in &pinned_keys { let got = self.probe(*k); if got != Some(*v) { flag("pinned-evicted", format!("key {k} is pinned and was resident with value {v}; after `{}` the cache holds {:?}", op.text(), got)); } }
        // bound
        let resident = self.refmap.len() as i64; let pinned_now = pinned_keys.len() as i64;
        st.max_resident = st.max_resident.max(resident as u64);
        let excess = resident - self.max_cap as i64 - pinned_now; st.max_excess = st.max_excess.max(excess);
        if self.hdr.poll { st.max_excess_poll = st.max_excess_poll.max(excess); } else if !self.hdr.tokv && !self.quiet_unpin_seen { st.max_excess_notify = st.max_excess_notify.max(excess); }
        if !self.hdr.poll && !self.hdr.tokv && !self.quiet_unpin_seen && excess > 32 {
            flag("bound-notify", format!("resident {resident} > capacity {} + pinned {pinned_now} + 32", self.max_cap)); }
        // Notify, protocol followed: the bound with the number of buffered messages in place of the batch size
        // (theorem bounded_notify_buffered; `msgs` = write messages pushed since the last maintenance pass).  Recorded,
        // the history goes on (so that the property's own bound, slack 32, can be seen failing too).
        let msgs = self.msgs as i64;
        if !self.hdr.poll && !self.hdr.tokv && !self.quiet_unpin_seen && excess > msgs && excess <= 32 && self.soft.is_none() {
            self.soft = Some(if pinned_now == 0 && msgs == 0 {
                (SIG_RESIDUE.to_string(), format!("after `{}`: nothing is pinned and maintenance has just run (no message buffered), yet {resident} entries are resident, capacity {}: {} resident unpinned entr{} tracked by no policy region and will never be evicted", op.text(), self.max_cap, excess, if excess == 1 { "y is" } else { "ies are" }), self.step_no)
            } else {
                (SIG_BUFFERED.to_string(), format!("after `{}`: resident {resident} > capacity {} + currently pinned {pinned_now} + buffered messages {msgs}", op.text(), self.max_cap), self.step_no)
            });
        }
        // Poll, pin token = key: exactly the bound of `bounded_poll` (any history, silent releases included)
        let rel = self.rel as i64;
        if self.hdr.poll && !self.hdr.tokv { st.max_excess_poll_rel = st.max_excess_poll_rel.max(excess - rel); }
        if self.hdr.poll && !self.hdr.tokv && excess > 32 + rel {
            flag(SIG_F15_RANDOM, format!("Poll: resident {resident} > capacity {} + currently pinned {pinned_now} + 32 + releases since the last maintenance round {rel}", self.max_cap)); }
        let region = self.maybe_region.iter().filter(|k| self.refmap.contains_key(k)).count() as i64;
        if resident > self.max_cap as i64 + region + 32 { flag("bound-partial", format!("resident {resident} > capacity {} + possibly-in-pinned-region {region} + 32", self.max_cap)); }
        fail
    }
}

/// `fail`: the first hard failure, else the recorded soft one; `soft_also`: the recorded soft one when a hard failure followed it
struct CaseOut { lines: Vec<(String, String)>, fail: Option<Fail>, soft_also: Option<Fail>, nontrivial: bool, panicked: bool }

/// Runs header + ops (a generator may extend `ops` on the fly through `next`).
fn run_case(hdr: &Header, universe_hi: u64, mut next: impl FnMut(&Sim, usize) -> Option<O>, st: &mut Stats) -> (CaseOut, Vec<O>) {
    let mut sim = Sim::new(hdr.clone(), universe_hi);
    let mut lines = vec![(hdr.text(), "ok".to_string())];
    let (w, p, m) = caps_float(hdr.cap);
    lines.push((format!("caps {}", hdr.cap), format!("caps {w} {p} {m}")));
    let mut done: Vec<O> = vec![]; let mut fail = None; let mut panicked = false;
    let mut i = 0usize;
    while let Some(op) = next(&sim, i) {
        *st.ops.entry(op.kind()).or_insert(0) += 1;
        EVLOG.lock().clear(); *LAST_PANIC.lock() = None;
        let r = catch_unwind(AssertUnwindSafe(|| sim.exec(&op, st)));
        let ev: Vec<(u64, bool)> = EVLOG.lock().drain(..).collect();
        done.push(op.clone());
        match r {
            Err(_) => { lines.push((op.text(), "panic".into())); st.panics += 1; panicked = true;
                fail = Some(Fail { sig: panic_sig(), desc: format!("`{}` panicked inside the cache", op.text()), at: i }); break; }
            Ok(ans) => {
                LOG_ON.store(false, Ordering::Relaxed);
                sim.step_no = i;
                let j = sim.judge(&op, &ans, &ev, st);
                LOG_ON.store(true, Ordering::Relaxed);
                let mut full = ans.clone();
                if !ev.is_empty() { full.push_str(" ev"); for (k, p) in &ev { full.push_str(&format!(" {k}:{}", if *p { 1 } else { 0 })); } }
                lines.push((op.text(), full));
                if let Some((sig, desc)) = j { fail = Some(Fail { sig, desc, at: i }); break; }
            }
        }
        i += 1;
    }
    let mut soft_also = None;
    if let Some((sig, desc, at)) = sim.soft.take() { if fail.is_none() { fail = Some(Fail { sig, desc, at }); } else { soft_also = Some(Fail { sig, desc, at }); } }
    let nontrivial = sim.evicted_any && sim.kept_any;
    // leak the cache after a panic (its internal lists may be inconsistent; Drop walks them)
    if panicked { std::mem::forget(sim); }
    (CaseOut { lines, fail, soft_also, nontrivial, panicked }, done)
}

// ------------------------------------------------------------------ generator
struct Gen { rng: Rng, w: [u64; 12], hot: Vec<u64>, universe: u64, fresh: u64, vctr: u64, n_ops: usize, vrange: u64, lock_mode: bool, probe_every: usize }
fn pick_cap(r: &mut Rng) -> usize {
    (match r.below(100) { 0..=34 => r.range(1, 6), 35..=64 => r.range(7, 40), 65..=87 => r.range(41, 120), _ => r.range(121, 300) }) as usize
}
impl Gen {
    fn new(mut rng: Rng, hdr: &Header, lock_mode: bool) -> Gen {
        let cap = hdr.cap as u64;
        let universe = cap * rng.range(3, 9) + 8;
        let profile = rng.below(5);
        //            get put ins upd rem peek pin unpin unpinn notify len res
        let mut w: [u64; 12] = match profile {
            0 => [30, 30, 5, 5, 8, 3, 8, 2, 7, 1, 0, 0],
            1 => [25, 50, 3, 2, 3, 1, 6, 1, 6, 1, 0, 0],
            2 => [15, 30, 4, 4, 5, 2, 18, 3, 14, 2, 0, 0],
            3 => [15, 25, 4, 4, 25, 2, 10, 1, 9, 2, 0, 0],
            _ => [45, 20, 2, 6, 6, 4, 6, 1, 6, 1, 0, 0],
        };
        if hdr.poll { w[7] += w[8]; w[8] = if rng.chance(1, 4) { 2 } else { 0 }; }       // Poll: quiet unpins are the protocol
        else if !rng.chance(1, 8) { w[7] = 0; }                                           // Notify: mostly protocol-following
        let hot_n = (cap / 2 + 1 + rng.below(4)).min(universe);
        let mut hot = vec![]; for _ in 0..hot_n { hot.push(rng.below(universe)); }
        let n_ops = 200 + (cap * rng.range(2, 8)) as usize;
        let vrange = cap * 2 + 4;
        Gen { rng, w, hot, universe, fresh: 0, vctr: 0, n_ops, vrange, lock_mode, probe_every: 40 + (cap as usize) }
    }
    fn key(&mut self) -> u64 {
        match self.rng.below(10) { 0..=4 => *self.rng.pick(&self.hot), 5..=7 => self.rng.below(self.universe), _ => { self.fresh = (self.fresh + 1) % self.universe; self.fresh } }
    }
    fn val(&mut self, tokv: bool) -> u64 { if tokv { self.rng.below(self.vrange) } else { self.vctr += 1; self.vctr } }
    fn resident_key(&mut self, sim: &Sim) -> u64 {
        for _ in 0..6 { let k = self.key(); if sim.refmap.contains_key(&k) { return k; } }
        self.key()
    }
    fn next(&mut self, sim: &Sim, i: usize) -> Option<O> {
        if i >= self.n_ops { return if i == self.n_ops { Some(O::Res) } else { None }; }
        if i > 0 && i % self.probe_every == 0 { return Some(if self.rng.chance(1, 2) { O::Res } else { O::Len }); }
        if self.lock_mode {
            let live: Vec<u64> = sim.handles.iter().enumerate().filter(|(_, h)| h.is_some()).map(|(i, _)| i as u64).collect();
            if !live.is_empty() && (live.len() > 12 || self.rng.chance(2, 5)) { return Some(O::Rel(*self.rng.pick(&live))); }
            return Some(O::Acq(self.key()));
        }
        let tot: u64 = self.w.iter().sum(); let mut x = self.rng.below(tot); let mut c = 0;
        for (j, wj) in self.w.iter().enumerate() { if x < *wj { c = j; break; } x -= *wj; }
        let tokv = sim.hdr.tokv;
        Some(match c {
            0 => O::Get(self.key()),
            1 => { let k = self.key(); O::Put(k, self.val(tokv)) }
            2 => { let k = self.key(); O::Ins(k, self.val(tokv)) }
            3 => { let k = self.resident_key(sim); O::Upd(k, self.val(tokv)) }
            4 => O::Rem(self.resident_key(sim)),
            5 => O::Peek(self.key()),
            6 => { let k = self.resident_key(sim); if tokv { O::Pin(sim.refmap.get(&k).copied().unwrap_or_else(|| self.rng.below(self.vrange))) } else { O::Pin(k) } }
            7 | 8 => { let ps: Vec<u64> = sim.pins.keys().copied().collect();
                let t = if ps.is_empty() || self.rng.chance(1, 12) { self.key() } else { let mut ps = ps; ps.sort(); *self.rng.pick(&ps) };
                if c == 7 || tokv { O::Unpin(t) } else { O::UnpinN(t) } }
            _ => O::Notify(self.key()),
        })
    }
}

fn case_text(hdr: &Header, ops: &[O]) -> String { let mut s = hdr.text(); for o in ops { s.push(';'); s.push_str(&o.text()); } s }
fn parse_case(s: &str) -> Option<(Header, Vec<O>)> {
    let mut it = s.split(|c| c == ';' || c == '\n').map(|x| x.trim()).filter(|x| !x.is_empty() && !x.starts_with("caps") && !x.starts_with("hash"));
    let h = Header::parse(it.next()?)?; let mut ops = vec![]; for l in it { ops.push(O::parse(l)?); } Some((h, ops))
}
fn replay_ops(hdr: &Header, ops: &[O], st: &mut Stats) -> CaseOut {
    let hi = ops.iter().map(|o| match o { O::Get(k) | O::Rem(k) | O::Peek(k) | O::Put(k, _) | O::Ins(k, _) | O::Upd(k, _) | O::Acq(k) | O::UnpinN(k) | O::Notify(k) => *k, _ => 0 }).max().unwrap_or(0);
    run_case(hdr, hi, |_, i| ops.get(i).cloned(), st).0
}
/// ddmin-light: drop chunks of ops while the same signature is reproduced.
fn shrink(hdr: &Header, ops: Vec<O>, sig: &str) -> Vec<O> {
    let mut cur = ops; let mut chunk = (cur.len() / 2).max(1); let mut budget = 400;
    while chunk >= 1 && budget > 0 {
        let mut i = 0; let mut progressed = false;
        while i < cur.len() && budget > 0 {
            let mut cand = cur.clone(); let hi = (i + chunk).min(cand.len()); cand.drain(i..hi);
            // `rel h` indices refer to acquisition order: never drop acquisitions
            if cur[i..hi].iter().any(|o| matches!(o, O::Acq(_) | O::Rel(_))) { i += chunk; continue; }
            budget -= 1; let mut st = Stats::default();
            let r = replay_ops(hdr, &cand, &mut st);
            if r.fail.as_ref().map(|f| f.sig == sig).unwrap_or(false) { let at = r.fail.unwrap().at; cand.truncate(at + 1); cur = cand; progressed = true; } else { i += chunk; }
        }
        if !progressed { if chunk == 1 { break; } chunk /= 2; }
    }
    cur
}

/// F4, canonical: capacity 1, Notify.  Round 1 (33 inserts): key 2 is pinned when the window duel
/// wants to evict it, so it goes to the pinned region; 23 (probation) and 39 (window) stay.  Both are
/// removed explicitly, 2 is unpinned with a notification, and 30 no-op notifications fill the
/// buffer: round 2 empties probation and then `Policy::unpin(2)` unwraps its empty tail.
fn canonical_f4() -> (Header, Vec<O>) {
    let mut ops = vec![O::Pin(2), O::Put(1, 1), O::Put(2, 2), O::Put(3, 3)];
    for k in 10..40 { ops.push(O::Put(k, k)); }
    ops.extend([O::Rem(23), O::Rem(39), O::UnpinN(2)]);
    for _ in 0..30 { ops.push(O::Notify(999)); }
    (Header { cap: 1, poll: false, tokv: false }, ops)
}

/// `repinHistory` of Lemmas/TinyLfuUnpinSeed.lean (witness `unpin_forgetting_unconfirmed_leaks` of Props/C16.lean),
/// capacity 1, Notify: key 0 is written pinned, parked in the Pinned region, flushed, re-written before the maintenance
/// pass that processes its `Unpinned` message (the storage refuses the removal: `Policy::unpin` must keep tracking it),
/// flushed again, two more passes; then key 0 must be gone and 2 entries resident.
fn canonical_repin() -> (Header, Vec<O>) {
    let fill = |ops: &mut Vec<O>, base: u64, n: u64| for k in base..base + n { ops.push(O::Put(k, 0)); };
    let mut ops = vec![]; fill(&mut ops, 1000, 4); ops.extend([O::Pin(0), O::Put(0, 1)]); fill(&mut ops, 1100, 33);
    ops.extend([O::UnpinN(0), O::Pin(0), O::Put(0, 2)]); fill(&mut ops, 1200, 33); ops.push(O::UnpinN(0)); fill(&mut ops, 1300, 33); fill(&mut ops, 1400, 26);
    ops.extend([O::Peek(0), O::Len]);
    (Header { cap: 1, poll: false, tokv: false }, ops)
}

/// `Poll` adversary (see `bounded_poll_slack32_refuted` in Props/C16.lean): `b` keys stay pinned for ever and sit
/// in the pinned region; every round pins 33 fresh keys, inserts them (the 33rd insert runs maintenance) and
/// silently releases them.  The trim loop stops at the first still-pinned entry, so released entries survive.
fn poll_adversary(b: u64, rounds: u64) -> (Header, Vec<O>) {
    let mut ops = vec![]; let mut nxt = 1000u64;
    for i in 1..=b { ops.push(O::Pin(i)); ops.push(O::Put(i, i)); }
    for _ in 0..40 { ops.push(O::Put(nxt, 0)); nxt += 1; }
    for _ in 0..rounds {
        let ks: Vec<u64> = (nxt..nxt + 33).collect(); nxt += 33;
        for k in &ks { ops.push(O::Pin(*k)); } for k in &ks { ops.push(O::Put(*k, 0)); } for k in &ks { ops.push(O::Unpin(*k)); }
        ops.push(O::Len);
    }
    (Header { cap: 1, poll: true, tokv: false }, ops)
}

/// Write-behind family (how `wide_column_cache.rs` / the key-of-set staging drive a `Notify` cache): far more keys
/// than capacity; an epoch writes a few keys pinned (`pin k; put k v`), unrelated clean traffic (> 32 inserts = at
/// least one maintenance pass) pushes them out of the window while pinned (they lose the admission duel and are
/// parked in the policy's Pinned region); the epoch is flushed (`unpinn k`: released, notification queued) and the
/// next epoch re-writes (re-pins) most of the keys BEFORE the next maintenance pass (< 33 buffered messages), so the
/// pass processes `Unpinned(k)` for an entry that is pinned again; it is flushed again, more traffic.  At the end
/// nothing is pinned and no-op notifications run maintenance to quiescence (two passes), then `len`.
/// `poll`: the same shape with silent releases (the Poll protocol), sometimes notified.
fn write_behind(r: &mut Rng, poll: bool, long: bool) -> (Header, Vec<O>) {
    let cap = (match r.below(10) { 0..=5 => r.range(1, 4), 6..=8 => r.range(5, 12), _ => r.range(13, 40) }) as usize;
    let (w, _, m) = caps_float(cap); let maxc = (w + m) as u64;
    let mut ops: Vec<O> = vec![]; let mut filler = 1000u64; let mut val = 0u64;
    fn churn(ops: &mut Vec<O>, filler: &mut u64, n: u64) { for _ in 0..n { ops.push(O::Put(*filler, 0)); *filler += 1; } }
    let pass = |r: &mut Rng| if r.chance(1, 7) { r.below(33) } else { 33 + r.below(10) };
    churn(&mut ops, &mut filler, 2 * maxc + r.below(40));
    let n_keys = if long { r.range(90, 200) } else { r.range(44, 80) };
    let (mut written, mut next_key) = (0u64, 0u64);
    while written < n_keys {
        let e = r.range(1, 6);
        let mut keys: Vec<u64> = vec![];
        for _ in 0..e { let k = if next_key > 0 && r.chance(1, 6) { r.below(next_key) } else { next_key += 1; next_key - 1 }; if !keys.contains(&k) { keys.push(k); } }
        written += keys.len() as u64;
        let release = |ops: &mut Vec<O>, r: &mut Rng, k: u64| ops.push(if poll && !r.chance(1, 4) { O::Unpin(k) } else { O::UnpinN(k) });
        for k in &keys { ops.push(O::Pin(*k)); val += 1; ops.push(O::Put(*k, val)); if r.chance(1, 10) { ops.push(O::Get(*k)); } }
        let n = pass(r); churn(&mut ops, &mut filler, n);
        for k in &keys { release(&mut ops, r, *k); }
        if r.chance(1, 4) { let n = r.below(5); churn(&mut ops, &mut filler, n); }
        let again: Vec<u64> = keys.iter().copied().filter(|_| r.chance(3, 4)).collect();
        for k in &again { ops.push(O::Pin(*k)); val += 1; ops.push(O::Put(*k, val)); }
        let n = pass(r); churn(&mut ops, &mut filler, n);
        for k in &again { release(&mut ops, r, *k); }
        let n = pass(r); churn(&mut ops, &mut filler, n);
    }
    for _ in 0..68 { ops.push(O::Notify(filler)); }
    ops.push(O::Len);
    (Header { cap, poll, tokv: false }, ops)
}

// ------------------------------------------------------------------ part 2: multi-threaded, oracle only
#[derive(Default)]
struct MtReport { runs: u64, ops: u64, fails: Vec<(String, String, String)>, rr_sequences: u64, rr_removes: u64, rr_max_resident: u64 }

fn mt_cache_run(seed: u64, rep: &mut MtReport) {
    let mut r = Rng::new(seed ^ 0xC16);
    let cap = r.range(1, 24) as usize; let poll = r.chance(1, 2); let threads = r.range(3, 8) as u64; let per = r.range(20, 80); let iters = 4000u64;
    PINS.lock().clear(); TOK_V.store(false, Ordering::Relaxed); LOG_ON.store(false, Ordering::Relaxed); *LAST_PANIC.lock() = None;
    let cache: Arc<Cache> = Arc::new(Cache::new(cap, if poll { UnpinStrategy::Poll } else { UnpinStrategy::Notify }, MaintenanceMode::Piggyback));
    let desc = format!("mt-cache seed={seed} cap={cap} {} threads={threads} keys/thread={per} iters={iters}", if poll { "Poll" } else { "Notify" });
    let fails: Arc<parking_lot::Mutex<Vec<(String, String)>>> = Arc::new(parking_lot::Mutex::new(vec![]));
    let total = AtomicU64::new(0); let panicked = AtomicBool::new(false);
    std::thread::scope(|s| {
        for t in 0..threads {
            let cache = cache.clone(); let fails = fails.clone(); let total = &total; let panicked = &panicked; let mut rng = Rng::new(seed.wrapping_mul(31).wrapping_add(t));
            s.spawn(move || {
                // thread t owns keys t*per .. (t+1)*per: only the owner writes/removes/pins them
                let base = t * per; let mut mine: HashMap<u64, u64> = HashMap::new(); let mut pinned: HashSet<u64> = HashSet::new(); let mut ctr = 0u64;
                let res = catch_unwind(AssertUnwindSafe(|| {
                    for _ in 0..iters {
                        total.fetch_add(1, Ordering::Relaxed);
                        let own = base + rng.below(per);
                        match rng.below(100) {
                            0..=29 => { ctr += 1; let v = (own << 24) | ctr; let ins = cache.entry(own, |e| match e { Entry::Vacant(x) => { x.insert(v); } Entry::Occupied(mut o) => { *o.get_mut() = v; } }); let _ = ins; mine.insert(own, v); }
                            30..=39 => { let _ = cache.entry(own, |e| match e { Entry::Occupied(o) => Some(o.remove()), Entry::Vacant(_) => None }); mine.remove(&own); pinned.contains(&own); }
                            40..=54 => { if !pinned.contains(&own) { // pin only what is resident now: check under the entry lock
                                    let ok = cache.entry(own, |e| match e { Entry::Occupied(_) => { pin_tok(own); true } Entry::Vacant(_) => false }); if ok { pinned.insert(own); } } }
                            55..=66 => { if let Some(k) = pinned.iter().next().copied() { pinned.remove(&k); unpin_tok(k); if !poll { cache.unpin(k); } } }
                            67..=84 => { let g = cache.get(&own); match (g, mine.get(&own)) {
                                    (Some(v), Some(w)) if v != *w => fails.lock().push(("stale-value".into(), format!("own key {own}: got {v}, last written {w}"))),
                                    (Some(v), None) => fails.lock().push(("resurrected".into(), format!("own key {own}: got {v} after removing it"))),
                                    (None, Some(_)) if pinned.contains(&own) => fails.lock().push(("pinned-evicted".into(), format!("own key {own} pinned while resident, now gone"))),
                                    (None, Some(_)) => { mine.remove(&own); } _ => {} } }
                            _ => { let other = rng.below(threads * per); if let Some(v) = cache.get(&other) { if (v >> 24) != other { fails.lock().push(("foreign-value".into(), format!("key {other} holds value {v} written for key {}", v >> 24))); } } }
                        }
                        // every pinned key of mine must be resident with my latest value
                        if rng.chance(1, 8) { for k in pinned.iter() { let got = cache.entry(*k, |e| match e { Entry::Occupied(o) => Some(*o.get()), Entry::Vacant(_) => None });
                            if got != mine.get(k).copied() { fails.lock().push(("pinned-evicted".into(), format!("key {k} pinned since it was resident; cache holds {:?}, last written {:?}", got, mine.get(k)))); } } }
                    }
                    for k in pinned.drain() { unpin_tok(k); if !poll { cache.unpin(k); } }
                }));
                if res.is_err() { panicked.store(true, Ordering::SeqCst); }
            });
        }
    });
    rep.runs += 1; rep.ops += total.load(Ordering::Relaxed);
    // the hook keeps the FIRST panic of the run (later ones may be consequences of the interrupted maintenance)
    if panicked.load(Ordering::SeqCst) { fails.lock().insert(0, (panic_sig(), "a cache call panicked in a worker thread".into())); }
    let mut fs = fails.lock().clone();
    if fs.iter().all(|f| !f.0.starts_with("panic")) {
        // quiescent: nothing pinned any more; push maintenance rounds, then the resident count must be within capacity + 32
        let r2 = catch_unwind(AssertUnwindSafe(|| { for round in 0..3 { for i in 0..40u64 { cache.unpin(u64::MAX - i - round); } }
            let mut n = 0usize; for k in 0..threads * per { if cache.entry(k, |e| matches!(e, Entry::Occupied(_))) { n += 1; } } n }));
        match r2 { Ok(n) => { let (w, _, m) = caps_float(cap); if n > w + m + 32 { fs.push(("bound-quiescent".into(), format!("{n} resident entries after quiescence, capacity {}", w + m))); } }
                   Err(_) => fs.push((panic_sig(), "a cache call panicked while flushing maintenance".into())) }
        drop(cache);
    } else { std::mem::forget(cache); }
    fs.truncate(3);
    for (s, d) in fs { rep.fails.push((s, d, desc.clone())); }
}

/// "remove vs re-insert" (oracle only): per group one remover walks a stream of fresh keys (each key is inserted, removed
/// once through `OccupiedEntry::remove`, re-inserted) and 3–7 inserter threads spin on inserting the current key whenever
/// they find it vacant, i.e. exactly when the remover has just taken it out.  Nothing is ever pinned, small capacity, both
/// strategies.  `Insert(K)` / `Removed(K)` must reach the write buffer in the order of the storage operations on K (both are
/// pushed under K's bucket lock: Lemmas/TinyLfuMsgOrder.lean, `tracked_iff_resident_after_drain`); if `Removed(K)` of the
/// old incarnation is overtaken by `Insert(K)` of the new one, the policy forgets a resident entry for good.
/// Judgement after the threads have stopped: no-op notifications run two maintenance passes (so every message the
/// threads buffered has been processed and whatever is buffered now is a no-op notification of a never-inserted key),
/// nothing is pinned: `bounded_quiescent` (Props/C16.lean) gives resident <= window + main capacity, exactly.  Then
/// capacity + 40 fresh keys go through the cache, two more passes: the same bound again (a surplus is resident for good).
const SIG_MT_LEAK: &str = "mt-leak:resident-untracked-after-remove-reinsert";
fn mt_remove_reinsert(seed: u64, budget: std::time::Duration, rep: &mut MtReport) {
    let mut r = Rng::new(seed ^ 0x5EED_C16A);
    let cap = r.range(1, 12) as usize; let poll = r.chance(1, 2); let groups = r.range(1, 2); let inserters = r.range(3, 7);
    let desc = format!("mt-remove-reinsert seed={seed} cap={cap} {} groups={groups} inserters/remover={inserters} ms={}", if poll { "Poll" } else { "Notify" }, budget.as_millis());
    PINS.lock().clear(); TOK_V.store(false, Ordering::Relaxed); LOG_ON.store(false, Ordering::Relaxed); *LAST_PANIC.lock() = None;
    let cache: Arc<Cache> = Arc::new(Cache::new(cap, if poll { UnpinStrategy::Poll } else { UnpinStrategy::Notify }, MaintenanceMode::Piggyback));
    let stop = Arc::new(AtomicBool::new(false)); let panicked = Arc::new(AtomicBool::new(false));
    // per group: number of successful inserts; key i of the group is finished once it has been inserted twice
    let counters: Vec<Arc<AtomicU64>> = (0..groups).map(|_| Arc::new(AtomicU64::new(0))).collect();
    let removed_total = Arc::new(AtomicU64::new(0));
    let ins = |cache: &Cache, k: u64| cache.entry(k, |e| match e { Entry::Vacant(x) => { x.insert(k); true } Entry::Occupied(_) => false });
    let mut hs = vec![];
    for g in 0..groups {
        let base = (g + 1) << 32;
        for _ in 0..inserters {
            let (cache, stop, panicked, ctr) = (cache.clone(), stop.clone(), panicked.clone(), counters[g as usize].clone());
            hs.push(std::thread::spawn(move || { let res = catch_unwind(AssertUnwindSafe(|| {
                while !stop.load(Ordering::Relaxed) { let k = base + ctr.load(Ordering::SeqCst) / 2; if ins(&cache, k) { ctr.fetch_add(1, Ordering::SeqCst); } } }));
                if res.is_err() { panicked.store(true, Ordering::SeqCst); stop.store(true, Ordering::SeqCst); } }));
        }
        let (cache, stop, panicked, ctr, removed_total) = (cache.clone(), stop.clone(), panicked.clone(), counters[g as usize].clone(), removed_total.clone());
        hs.push(std::thread::spawn(move || { let res = catch_unwind(AssertUnwindSafe(|| {
            while !stop.load(Ordering::Relaxed) {
                let done = ctr.load(Ordering::SeqCst);
                if done % 2 == 1 {
                    let k = base + done / 2;
                    let rm = cache.entry(k, |e| match e { Entry::Occupied(o) => Some(o.remove()), Entry::Vacant(_) => None });
                    if rm.is_some() { removed_total.fetch_add(1, Ordering::Relaxed); while ctr.load(Ordering::SeqCst) == done && !stop.load(Ordering::Relaxed) { std::hint::spin_loop(); } }
                } else { std::hint::spin_loop(); }
            } }));
            if res.is_err() { panicked.store(true, Ordering::SeqCst); stop.store(true, Ordering::SeqCst); } }));
    }
    let start = std::time::Instant::now();
    while !stop.load(Ordering::Relaxed) && start.elapsed() < budget { std::thread::sleep(std::time::Duration::from_millis(2)); }
    stop.store(true, Ordering::SeqCst);
    for h in hs { let _ = h.join(); }
    let seqs: u64 = counters.iter().map(|c| c.load(Ordering::SeqCst) / 2).sum();
    rep.runs += 1; rep.ops += seqs; rep.rr_sequences += seqs; rep.rr_removes += removed_total.load(Ordering::Relaxed);
    if panicked.load(Ordering::SeqCst) { rep.fails.push((panic_sig(), "a cache call panicked in a remove/re-insert thread".into(), desc)); std::mem::forget(cache); return; }
    let (w, _, m) = caps_float(cap); let maxc = w + m;
    let r2 = catch_unwind(AssertUnwindSafe(|| {
        let noop = |round: u64| for i in 0..70u64 { cache.unpin(u64::MAX - i - 100 * round); };
        let count = |fill_hi: u64| { let mut n = 0usize; let mut old = 0usize;
            for g in 0..groups { let base = (g + 1) << 32; for i in 0..=counters[g as usize].load(Ordering::SeqCst) / 2 + 1 { if cache.entry(base + i, |e| matches!(e, Entry::Occupied(_))) { n += 1; old += 1; } } }
            for k in 0..fill_hi { if cache.entry((1u64 << 60) + k, |e| matches!(e, Entry::Occupied(_))) { n += 1; } }
            (n, old) };
        noop(0);
        let (n1, _) = count(0);
        let fill = (maxc + 40) as u64;
        for k in 0..fill { ins(&cache, (1u64 << 60) + k); }
        noop(1);
        let (n2, old2) = count(fill);
        (n1, n2, old2, fill)
    }));
    match r2 {
        Ok((n1, n2, old2, fill)) => {
            rep.rr_max_resident = rep.rr_max_resident.max(n1.max(n2) as u64);
            if n1 > maxc || n2 > maxc { rep.fails.push((SIG_MT_LEAK.into(), format!("after {seqs} remove/re-insert sequences, threads stopped, two maintenance passes, nothing pinned, only no-op notifications buffered: {n1} entries resident, capacity {maxc}; after {fill} newer keys went through the cache and two more passes: {n2} resident, {old2} of them keys of the remove/re-insert streams — resident entries the policy does not track (never evicted)"), desc)); }
            drop(cache); }
        Err(_) => { rep.fails.push((panic_sig(), "a cache call panicked while quiescing after remove/re-insert".into(), desc)); std::mem::forget(cache); }
    }
}

// lock-table glue, replicated from crates/qbice/src/engine/computation_graph/query_lock_manager.rs
#[derive(Clone)]
struct OwnedLock(Arc<tokio::sync::RwLock<()>>);
#[derive(Default)]
struct ActiveLockLifecycleListener;
impl LifecycleListener<u64, OwnedLock> for ActiveLockLifecycleListener {
    fn is_pinned(&self, _k: &u64, v: &OwnedLock) -> bool { Arc::strong_count(&v.0) > 1 }
}
struct LockTable { hot: TinyLFU<u64, OwnedLock, ActiveLockLifecycleListener> }
impl LockTable {
    fn new(cap: usize) -> Self { LockTable { hot: TinyLFU::new(cap, UnpinStrategy::Poll, MaintenanceMode::Piggyback) } }
    fn get_lock_instance(&self, q: &u64) -> OwnedLock {
        if let Some(l) = self.hot.get(q) { return l; }
        let li = OwnedLock(Arc::new(tokio::sync::RwLock::new(())));
        self.hot.entry(*q, |x| match x { Entry::Vacant(v) => { v.insert(li.clone()); li } Entry::Occupied(o) => o.get().clone() })
    }
}
fn mt_lock_run(seed: u64, rep: &mut MtReport) {
    let mut r = Rng::new(seed ^ 0x10C4); let cap = r.range(1, 8) as usize; let keys = r.range(12, 64); let tasks = r.range(8, 32); let iters = 600u64;
    let desc = format!("mt-lock-table seed={seed} cap={cap} keys={keys} tasks={tasks} iters={iters}");
    *LAST_PANIC.lock() = None;
    let table = Arc::new(LockTable::new(cap));
    // registry of instances currently referenced per key: two different live instances for one key = split lock
    let reg: Arc<parking_lot::Mutex<HashMap<u64, (usize, u64)>>> = Arc::new(parking_lot::Mutex::new(HashMap::new()));
    let inside: Arc<Vec<AtomicBool>> = Arc::new((0..keys).map(|_| AtomicBool::new(false)).collect());
    let fails: Arc<parking_lot::Mutex<Vec<(String, String)>>> = Arc::new(parking_lot::Mutex::new(vec![]));
    let total = Arc::new(AtomicU64::new(0));
    let rt = tokio::runtime::Builder::new_multi_thread().worker_threads(8).enable_all().build().unwrap();
    let res = catch_unwind(AssertUnwindSafe(|| rt.block_on(async {
        let mut hs = vec![];
        for t in 0..tasks {
            let (table, reg, inside, fails, total) = (table.clone(), reg.clone(), inside.clone(), fails.clone(), total.clone());
            let mut rng = Rng::new(seed.wrapping_mul(131).wrapping_add(t));
            hs.push(tokio::spawn(async move {
                for _ in 0..iters {
                    total.fetch_add(1, Ordering::Relaxed);
                    let q = if rng.chance(1, 2) { rng.below(4.min(keys)) } else { rng.below(keys) };
                    let l = table.get_lock_instance(&q);
                    let p = Arc::as_ptr(&l.0) as usize;
                    { let mut g = reg.lock(); let e = g.entry(q).or_insert((p, 0)); if e.1 > 0 && e.0 != p { fails.lock().push(("lock-split".into(), format!("key {q}: two live lock instances"))); } if e.1 == 0 { e.0 = p; } e.1 += 1; }
                    let excl = rng.chance(2, 3);
                    if excl { let g = l.0.clone().write_owned().await;
                        if inside[q as usize].swap(true, Ordering::SeqCst) { fails.lock().push(("mutual-exclusion".into(), format!("key {q}: two tasks inside the exclusive section"))); }
                        if rng.chance(1, 3) { tokio::task::yield_now().await; }
                        inside[q as usize].store(false, Ordering::SeqCst); drop(g);
                    } else { let g = l.0.clone().read_owned().await; if inside[q as usize].load(Ordering::SeqCst) { fails.lock().push(("mutual-exclusion".into(), format!("key {q}: reader inside while a writer is"))); } if rng.chance(1, 3) { tokio::task::yield_now().await; } drop(g); }
                    { let mut g = reg.lock(); if let Some(e) = g.get_mut(&q) { e.1 -= 1; } }
                    drop(l);
                }
            }));
        }
        let mut any = false; for h in hs { if h.await.is_err() { any = true; } }
        if any { fails.lock().insert(0, (panic_sig(), "a lock-table task panicked".into())); }
    })));
    if res.is_err() { fails.lock().push((panic_sig(), "the lock-table run panicked".into())); }
    rep.runs += 1; rep.ops += total.load(Ordering::Relaxed);
    let mut fs = fails.lock().clone(); fs.truncate(3);
    let bad = !fs.is_empty();
    for (s, d) in fs { rep.fails.push((s, d, desc.clone())); }
    if bad { std::mem::forget(table); }
}

/// Lock-table stress on plain threads (the shape of the engine's QueryLockManager: Poll, value = Arc, pinned while
/// referenced): tiny capacity, a handful of keys, many threads.  A thread takes the lock object of a key, registers it
/// as live, sometimes keeps it while it asks for other keys (eviction pressure while pinned pushes the entry into the
/// pinned region), releases it — so maintenance passes on other threads keep polling entries that were just released
/// while lookups of the same key race with them.  Oracle: two simultaneously live, different lock objects for one key.
fn mt_lock_threads(seed: u64, budget: std::time::Duration, rep: &mut MtReport) {
    let mut r = Rng::new(seed ^ 0x7A7A_0C16);
    let cap = r.range(1, 3) as usize; let keys = r.range(4, 8); let threads = r.range(8, 16);
    let desc = format!("mt-lock-threads seed={seed} cap={cap} keys={keys} threads={threads} ms={}", budget.as_millis());
    *LAST_PANIC.lock() = None;
    let table = Arc::new(LockTable::new(cap));
    let holders: Arc<Vec<parking_lot::Mutex<(usize, usize)>>> = Arc::new((0..keys).map(|_| parking_lot::Mutex::new((0, 0))).collect());
    let stop = Arc::new(AtomicBool::new(false)); let violations = Arc::new(parking_lot::Mutex::new(Vec::<String>::new()));
    let rounds = Arc::new(AtomicU64::new(0)); let panicked = Arc::new(AtomicBool::new(false));
    let start = std::time::Instant::now();
    let hs: Vec<_> = (0..threads).map(|t| {
        let (table, holders, stop, violations, rounds, panicked) = (table.clone(), holders.clone(), stop.clone(), violations.clone(), rounds.clone(), panicked.clone());
        let mut rng = Rng::new(seed.wrapping_mul(977).wrapping_add(t));
        std::thread::spawn(move || {
            let res = catch_unwind(AssertUnwindSafe(|| {
                let mut n = 0u64;
                while !stop.load(Ordering::Relaxed) {
                    let key = if rng.chance(1, 3) { rng.below(2.min(keys)) } else { rng.below(keys) };
                    let lock = table.get_lock_instance(&key);
                    let addr = Arc::as_ptr(&lock.0) as usize;
                    { let mut slot = holders[key as usize].lock();
                      if slot.0 > 0 && slot.1 != addr { violations.lock().push(format!("key {key}: a second, different lock object was handed out while {} reference(s) to the first are alive (after {} rounds, {} ms)", slot.0, rounds.load(Ordering::Relaxed), start.elapsed().as_millis())); stop.store(true, Ordering::SeqCst); }
                      slot.0 += 1; slot.1 = addr; }
                    match rng.below(6) {
                        0 | 1 => std::thread::yield_now(),
                        2 => { for _ in 0..rng.range(1, 4) { let k2 = rng.below(keys); if k2 != key { drop(table.get_lock_instance(&k2)); } } }   // pressure while pinned
                        3 => { for _ in 0..rng.range(1, 200) { std::hint::spin_loop(); } }
                        _ => {}
                    }
                    holders[key as usize].lock().0 -= 1;
                    drop(lock);
                    n += 1; if n % 64 == 0 { rounds.fetch_add(64, Ordering::Relaxed); }
                }
            }));
            if res.is_err() { panicked.store(true, Ordering::SeqCst); stop.store(true, Ordering::SeqCst); }
        })
    }).collect();
    while !stop.load(Ordering::Relaxed) && start.elapsed() < budget { std::thread::sleep(std::time::Duration::from_millis(5)); }
    stop.store(true, Ordering::SeqCst);
    for h in hs { let _ = h.join(); }
    rep.runs += 1; rep.ops += rounds.load(Ordering::Relaxed);
    let mut bad = false;
    if panicked.load(Ordering::SeqCst) { rep.fails.push((panic_sig(), "a lock-table thread panicked".into(), desc.clone())); bad = true; }
    if let Some(v) = violations.lock().first() { rep.fails.push(("lock-split".into(), v.clone(), desc.clone())); bad = true; }
    if bad { std::mem::forget(table); }
}

// ------------------------------------------------------------------ main
fn main() {
    let a = args(); install_hook();
    let quick = a.tier != "thorough";
    let mut out = Out::new(&a.out);
    let mut st = Stats::default();
    let mut fails: Vec<(String, String, String)> = vec![];
    let mut evals = 0u64; let mut distinct: HashSet<u64> = HashSet::new(); let mut samples: Vec<String> = vec![];
    let mut caps_hist: BTreeMap<&'static str, u64> = BTreeMap::new(); let mut strat: BTreeMap<&'static str, u64> = BTreeMap::new();
    let mut len_hist: BTreeMap<&'static str, u64> = BTreeMap::new();
    let mut poll_probe: Vec<(u64, i64)> = vec![];
    let mut emit = |co: &CaseOut, out: &mut Out| { for (o, i) in &co.lines { out.line(o, i); } };
    let hasher = fxhash::FxBuildHasher::default();

    if let Some(f) = &a.replay {
        let raw = std::fs::read_to_string(f).expect("replay file");
        let case = if raw.trim_start().starts_with('{') {
            let i = raw.find("\"case\"").expect("no case in replay json"); let rest = &raw[i + 6..]; let s = rest.find('"').unwrap() + 1; let e = rest[s..].find('"').unwrap();
            rest[s..s + e].replace("\\n", "\n")
        } else { raw };
        if case.starts_with("mt-") {
            let seed: u64 = case.split_whitespace().find_map(|w| w.strip_prefix("seed=")).and_then(|x| x.parse().ok()).unwrap_or(1);
            let mut rep = MtReport::default();
            let ms: u64 = case.split_whitespace().find_map(|w| w.strip_prefix("ms=")).and_then(|x| x.parse().ok()).unwrap_or(500);
            for _ in 0..5 {
                if case.starts_with("mt-remove-reinsert") { mt_remove_reinsert(seed, std::time::Duration::from_millis(ms * 4), &mut rep) }
                else if case.starts_with("mt-lock-threads") { mt_lock_threads(seed, std::time::Duration::from_millis(ms * 4), &mut rep) }
                else if case.starts_with("mt-lock") { mt_lock_run(seed, &mut rep) } else { mt_cache_run(seed, &mut rep) }
                if !rep.fails.is_empty() { break; }
            }
            evals = rep.runs; fails = rep.fails;
        } else {
            let (h, ops) = parse_case(&case).expect("unparsable case");
            let co = replay_ops(&h, &ops, &mut st); emit(&co, &mut out); evals = 1;
            if let Some(fl) = &co.fail { fails.push((fl.sig.clone(), fl.desc.clone(), case_text(&h, &ops[..=fl.at.min(ops.len() - 1)]))); }
        }
    } else {
        // function correspondence: capacities and key hashes
        for c in 1..=(if quick { 2000 } else { 20000 }) { let (w, p, m) = caps_float(c); out.line(&format!("caps {c}"), &format!("caps {w} {p} {m}")); }
        let mut hr = Rng::new(a.seed ^ 0xF0);
        for i in 0..2000u64 { let k = if i < 400 { i } else { hr.next() >> hr.below(64) }; out.line(&format!("hash {k}"), &format!("hash {}", hasher.hash_one(&k))); }
        // canonical replay of the known finding first (shard with the base seed only would do; it is cheap)
        // the history of the FIXED finding F4 must run clean (a panic here = the defect is back)
        { let (h, ops) = canonical_f4(); let co = replay_ops(&h, &ops, &mut st); emit(&co, &mut out); evals += 1;
          if let Some(fl) = &co.fail { fails.push((fl.sig.clone(), format!("[history of fixed finding F4] {}", fl.desc), case_text(&h, &ops[..=fl.at]))); } }
        // the Lean witness history of `Policy::unpin`'s "only when the storage confirmed" condition, on the real cache
        { let (h, ops) = canonical_repin(); let co = replay_ops(&h, &ops, &mut st); emit(&co, &mut out); evals += 1;
          for fl in [co.soft_also, co.fail].into_iter().flatten() { fails.push((fl.sig.clone(), format!("[repinHistory of Props/C16.lean] {}", fl.desc), case_text(&h, &ops[..=fl.at.min(ops.len() - 1)]))); } }
        // the histories of the FIXED finding F15 must stay within the bound of `bounded_poll` (a failure here = the defect is
        // back): 2 blockers, 2 rounds (the shape of `pollAdversary` of Props/C16.lean) and 5 blockers, 4 rounds (the shape of `pollAdversary5`, the
        // history of `bounded_poll_needs_whole_region_trim`: 95 resident > 2 + 5 + 32 + 33 with the code before the fix)
        for (b, rounds) in [(2u64, 2u64), (5, 4)] { let (h, ops) = poll_adversary(b, rounds); let mut st2 = Stats::default();
          let co = replay_ops(&h, &ops, &mut st2); emit(&co, &mut out); evals += 1;
          match &co.fail {
              Some(fl) if fl.sig == SIG_F15_RANDOM => fails.push((SIG_F15.to_string(), format!("[history of fixed finding F15: poll adversary, {b} blockers, {rounds} rounds] {}", fl.desc), case_text(&h, &ops[..=fl.at]))),
              Some(fl) => fails.push((fl.sig.clone(), format!("[poll adversary, {b} blockers] {}", fl.desc), case_text(&h, &ops[..=fl.at]))),
              None => {} } }
        // the family on the real cache (measurement): excess of resident over capacity + pinned, per number of blockers
        for b in [0u64, 2, 5, 10, 20, 40] {
            let (h, ops) = poll_adversary(b, b + 6); let mut st2 = Stats::default();
            let co = replay_ops(&h, &ops, &mut st2); emit(&co, &mut out); evals += 1;
            poll_probe.push((b, st2.max_excess_poll));
            if let Some(fl) = &co.fail { let sig = if fl.sig == SIG_F15_RANDOM { SIG_F15.to_string() } else { fl.sig.clone() };
                fails.push((sig, format!("[poll adversary b={b}] {}", fl.desc), if b <= 10 { case_text(&h, &ops[..=fl.at]) } else { String::new() })); }
        }
        // the write-behind family (LFU_WB = cases per shard, LFU_WB_LONG = longer histories: used by the plugin's boosted search)
        let envn = |k: &str| std::env::var(k).ok().and_then(|x| x.parse::<u64>().ok());
        let n_wb = envn("LFU_WB").unwrap_or(if quick { 10 } else { 60 }); let wb_long = envn("LFU_WB_LONG").unwrap_or(0) > 0;
        { let mut wr = Rng::new(a.seed ^ 0x57B1_7EB4); let mut shrunk_wb = 0;
          for i in 0..n_wb {
            let poll = i % 4 == 3;
            let (h, ops) = write_behind(&mut wr, poll, wb_long);
            let co = replay_ops(&h, &ops, &mut st); emit(&co, &mut out); evals += 1;
            *strat.entry(if poll { "write-behind family (Poll)" } else { "write-behind family (Notify)" }).or_insert(0) += 1;
            if co.nontrivial { distinct.insert(hasher.hash_one(&case_text(&h, &ops))); }
            for fl in [co.soft_also, co.fail].into_iter().flatten() {
                if fails.iter().filter(|f| f.0 == fl.sig).count() < 2 && shrunk_wb < 4 {
                    shrunk_wb += 1;
                    let small = shrink(&h, ops[..=fl.at.min(ops.len() - 1)].to_vec(), &fl.sig);
                    fails.push((fl.sig.clone(), format!("[write-behind family] {}", fl.desc), case_text(&h, &small)));
                } else { fails.push((fl.sig.clone(), format!("[write-behind family] {}", fl.desc), String::new())); }
            }
          } }
        let n_cases = a.n.unwrap_or(if quick { 260 } else { 1500 });
        let mut master = Rng::new(a.seed); let mut shrunk = 0; let mut stopped_early = false;
        for _ in 0..n_cases {
            let cs = master.next(); let mut r = Rng::new(cs);
            let lock_mode = r.chance(1, 10);
            let hdr = if lock_mode { Header { cap: r.range(1, 12) as usize, poll: true, tokv: true } } else { Header { cap: pick_cap(&mut r), poll: r.chance(1, 2), tokv: r.chance(1, 7) } };
            let mut g = Gen::new(r, &hdr, lock_mode);
            let uni = g.universe;
            let (co, ops) = run_case(&hdr, uni, |sim, i| g.next(sim, i), &mut st);
            emit(&co, &mut out); evals += 1;
            *caps_hist.entry(match hdr.cap { 1..=6 => "cap 1-6", 7..=40 => "cap 7-40", 41..=120 => "cap 41-120", _ => "cap 121-300" }).or_insert(0) += 1;
            *strat.entry(if lock_mode { "lock-table(Poll,value-pins)" } else if hdr.poll { "Poll" } else { "Notify" }).or_insert(0) += 1;
            *len_hist.entry(match ops.len() { 0..=199 => "ops <200 (ended by a failure)", 200..=499 => "ops 200-499", 500..=1199 => "ops 500-1199", _ => "ops >=1200" }).or_insert(0) += 1;
            if co.nontrivial { let t = case_text(&hdr, &ops); distinct.insert(hasher.hash_one(&t)); if samples.len() < 4 && ops.len() < 260 { samples.push(t.chars().take(300).collect()); } }
            if let Some(fl) = co.fail {
                // shrink only the first two failures of a signature (and at most 6 per shard); a storm of failures ends the shard
                if fails.iter().filter(|f| f.0 == fl.sig).count() < 2 && shrunk < 6 {
                    shrunk += 1;
                    let small = shrink(&hdr, ops[..=fl.at].to_vec(), &fl.sig);
                    fails.push((fl.sig.clone(), fl.desc.clone(), case_text(&hdr, &small)));
                } else { fails.push((fl.sig.clone(), fl.desc.clone(), String::new())); }
                if fails.len() >= 60 { stopped_early = true; break; }
            }
        }
        // part 2
        let mut rep = MtReport::default();
        let skip_mt = envn("LFU_SKIP_MT").unwrap_or(0) > 0;
        let (n_mt, n_lock) = if skip_mt { (0, 0) } else if quick { (3, 3) } else { (16, 16) };
        for i in 0..n_mt { mt_cache_run(a.seed.wrapping_mul(1000).wrapping_add(i), &mut rep); }
        let mt_cache_ops = rep.ops;
        for i in 0..n_lock { mt_lock_run(a.seed.wrapping_mul(1000).wrapping_add(i), &mut rep); }
        let before = rep.ops;
        let (n_st, st_ms) = if skip_mt { (0u64, 0u64) } else if quick { (8u64, 350u64) } else { (40, 500) };
        let st_ms = std::env::var("LFU_STRESS_MS").ok().and_then(|x| x.parse().ok()).unwrap_or(st_ms);
        for i in 0..n_st { mt_lock_threads(a.seed.wrapping_mul(1000).wrapping_add(i), std::time::Duration::from_millis(st_ms), &mut rep);
            if rep.fails.iter().filter(|f| f.0 == "lock-split").count() >= 2 { break; } }
        strat.insert("mt-lock-threads runs", n_st); strat.insert("mt-lock-threads rounds", rep.ops - before);
        // remove vs re-insert (LFU_RR_RUNS / LFU_RR_MS override)
        let (n_rr, rr_ms) = if skip_mt { (0u64, 0u64) } else if quick { (3u64, 500u64) } else { (12, 1500) };
        let n_rr = envn("LFU_RR_RUNS").unwrap_or(n_rr); let rr_ms = envn("LFU_RR_MS").unwrap_or(rr_ms);
        for i in 0..n_rr { mt_remove_reinsert(a.seed.wrapping_mul(1000).wrapping_add(i), std::time::Duration::from_millis(rr_ms), &mut rep);
            if rep.fails.iter().filter(|f| f.0 == SIG_MT_LEAK).count() >= 2 { break; } }
        strat.insert("mt-remove-reinsert runs", n_rr); strat.insert("mt-remove-reinsert sequences", rep.rr_sequences); strat.insert("mt-remove-reinsert removals", rep.rr_removes);
        let rr_ops = rep.rr_sequences;
        evals += rep.runs;
        if stopped_early { strat.insert("shard stopped early after 60 oracle failures", 1); }
        strat.insert("mt-cache runs", n_mt); strat.insert("mt-lock-table runs", n_lock);
        strat.insert("mt-cache ops", mt_cache_ops); strat.insert("mt-lock-table acquisitions", rep.ops - mt_cache_ops - rr_ops);
        fails.extend(rep.fails);
    }

    let jmap = |m: &BTreeMap<&'static str, u64>| { let v: Vec<String> = m.iter().map(|(k, v)| format!("{}:{}", jstr(k), v)).collect(); format!("{{{}}}", v.join(",")) };
    let fj: Vec<String> = fails.iter().map(|(s, d, c)| format!("{{\"sig\":{},\"desc\":{},\"case\":{}}}", jstr(s), jstr(d), jstr(c))).collect();
    let sj: Vec<String> = samples.iter().map(|s| jstr(s)).collect();
    let report = format!(
        "{{\"evaluations\":{evals},\"distinct_nontrivial\":{},\"rule\":{},\"samples\":[{}],\"distribution\":{{\"ops\":{},\"capacity\":{},\"strategy\":{},\"length\":{},\"evictions\":{},\"eviction_attempts_refused_pinned\":{},\"maintenance_rounds\":{},\"max_resident\":{},\"max_resident_minus_capacity_minus_pinned\":{},\"max_excess_notify_protocol_followed\":{},\"max_excess_poll\":{},\"max_excess_poll_minus_releases_since_last_round\":{},\"poll_adversary_excess_by_blockers\":{{{}}},\"panics\":{}}},\"oracle_failures\":[{}]}}",
        distinct.len(), jstr("a history is non-trivial when the cache evicted at least one entry and the listener refused at least one eviction of a pinned entry"),
        sj.join(","), jmap(&st.ops), jmap(&caps_hist), jmap(&strat), jmap(&len_hist), st.evictions, st.kept_pinned, st.maint_rounds, st.max_resident, st.max_excess, st.max_excess_notify, st.max_excess_poll, st.max_excess_poll_rel, poll_probe.iter().map(|(b, e)| format!("\"{b}\":{e}")).collect::<Vec<_>>().join(","), st.panics, fj.join(","));
    out.finish(&report);
}
