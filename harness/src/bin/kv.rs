//! C11 correspondence + oracle harness: runs the REAL RocksDB and Fjall backends of
//! `qbice_storage::kv_database` (temp dirs under /tmp/c11-*) on generated operation sequences.
//!
//! ops.txt  : the line protocol of `lean/Driver/Kv.lean` (encoded bytes come from the real serializer)
//! impl.txt : what the backend answered (reads re-encoded with the real serializer; `raw` = the column
//!            families / keyspaces read back byte for byte with the backend's own crate)
//! oracle   : a reference BTreeMap keyed by LOGICAL identity (column, value type, key) / (column, key),
//!            independent of any composite-key construction.
#![allow(clippy::all)]
use qbice_serialize::{
    session::Session, Decode, Decoder, Encode, Encoder, Plugin, PostcardEncoder,
};
use qbice_stable_type_id::{Identifiable, StableTypeID};
use qbice_storage::kv_database::{
    fjall::Fjall, rocksdb::RocksDB, DiscriminantEncoding, KeyOfSetColumn, KvDatabase,
    SerializationBuffer, WideColumn, WideColumnValue, WriteBatch,
};
use qbice_verif_harness::{args, hex, jstr, Out, Rng};
use std::any::Any;
use std::collections::{BTreeMap, BTreeSet, HashMap, HashSet};
use std::io;
use std::panic::{catch_unwind, AssertUnwindSafe};
use std::path::{Path, PathBuf};

// ------------------------------------------------------------------------------------------------
// key / element / value types
// ------------------------------------------------------------------------------------------------

/// A key whose encoding is its raw bytes: injective but NOT prefix-free, possibly empty
/// (`KeyOfSetColumn::Key` needs no `Decode`, so such keys are legal for key-of-set columns).
#[derive(Debug, Clone, PartialEq, Eq, Hash)]
struct RawKey(Vec<u8>);
impl Encode for RawKey {
    fn encode<E: Encoder + ?Sized>(&self, e: &mut E, _p: &Plugin, _s: &mut Session) -> io::Result<()> {
        e.emit_raw_bytes(&self.0)
    }
}

/// An element whose encoding is its raw bytes and whose decoder takes everything that is left.
#[derive(Debug, Clone, PartialEq, Eq, Hash)]
struct RawRest(Vec<u8>);
impl Encode for RawRest {
    fn encode<E: Encoder + ?Sized>(&self, e: &mut E, _p: &Plugin, _s: &mut Session) -> io::Result<()> {
        e.emit_raw_bytes(&self.0)
    }
}
impl Decode for RawRest {
    fn decode<D: Decoder + ?Sized>(d: &mut D, _p: &Plugin, _s: &mut Session) -> io::Result<Self> {
        let mut v = Vec::new();
        while let Ok(b) = d.read_u8() {
            v.push(b);
        }
        Ok(RawRest(v))
    }
}

/// like `RawRest`, a second value type for the dual-kind column (decodes any stored bytes)
#[derive(Debug, Clone, PartialEq, Eq, Hash)]
struct RawVal2(Vec<u8>);
impl Encode for RawVal2 {
    fn encode<E: Encoder + ?Sized>(&self, e: &mut E, _p: &Plugin, _s: &mut Session) -> io::Result<()> {
        e.emit_raw_bytes(&self.0)
    }
}
impl Decode for RawVal2 {
    fn decode<D: Decoder + ?Sized>(d: &mut D, _p: &Plugin, _s: &mut Session) -> io::Result<Self> {
        let mut v = Vec::new();
        while let Ok(b) = d.read_u8() {
            v.push(b);
        }
        Ok(RawVal2(v))
    }
}

#[derive(Debug, Clone, PartialEq, Eq, Encode, Decode)]
struct VA(Vec<u8>);
#[derive(Debug, Clone, PartialEq, Eq, Encode, Decode)]
struct VB(String);
#[derive(Debug, Clone, PartialEq, Eq, Encode, Decode)]
struct VC(u64);

fn enc<T: Encode>(v: &T) -> Vec<u8> {
    let mut buf = Vec::new();
    let mut e = PostcardEncoder::new(&mut buf);
    e.encode(v, &Plugin::default()).expect("encode");
    buf
}

// ------------------------------------------------------------------------------------------------
// value pools
// ------------------------------------------------------------------------------------------------

fn byte_strings(rng: &mut Rng, big: bool) -> Vec<Vec<u8>> {
    let mut all: Vec<Vec<u8>> = vec![
        vec![],
        vec![0],
        vec![0xFF],
        vec![0xFF, 0xFF],
        vec![0xFF; 8],
        vec![0; 8],
        vec![1, 0, 0, 0, 0, 0, 0, 0],
        vec![1, 0, 0, 0, 0, 0, 0, 0, 0xFF],
        vec![0x7F],
        vec![0x80],
        vec![0xFE, 0xFF],
        vec![0xFF, 0x00],
        vec![0xFF; 127],
        vec![0xFF; 128],
        vec![0xFF; 4096],
        {
            let mut v = vec![0u8; 2048];
            v.push(0xFF);
            v
        },
        (0..3000).map(|_| rng.next() as u8).collect(),
    ];
    // a prefix chain around a random stem
    let stem: Vec<u8> = (0..rng.range(1, 4)).map(|_| *rng.pick(&[0u8, 1, 0x7F, 0xFE, 0xFF, rng.0 as u8])).collect();
    for suf in [&[][..], &[0][..], &[0xFF][..], &[0xFF, 0xFF][..], &[0xFF, 0x00][..]] {
        let mut v = stem.clone();
        v.extend_from_slice(suf);
        all.push(v);
    }
    all.push(stem[..stem.len() - 1].to_vec());
    // keep a subset so that keys are reused inside a case
    rng.shuffle(&mut all);
    let keep = rng.range(6, 10) as usize;
    all.truncate(keep);
    if rng.chance(1, 2) {
        all.push(vec![]);
    }
    if rng.chance(1, 2) {
        all.push(vec![0xFF]);
    }
    if big {
        all.push(vec![0xAB; 70_000]);
    }
    all.sort();
    all.dedup();
    rng.shuffle(&mut all);
    all
}

fn strings(rng: &mut Rng) -> Vec<String> {
    let mut all: Vec<String> = vec![
        "".into(),
        "a".into(),
        "ab".into(),
        "a\0".into(),
        "\u{ff}".into(),
        "\u{10FFFF}".into(),
        "x".repeat(4096),
        "\u{7f}".repeat(127),
        "\u{7f}".repeat(128),
    ];
    rng.shuffle(&mut all);
    all.truncate(rng.range(3, 6) as usize);
    all
}

trait Pool: Sized + Clone + 'static {
    fn pool(rng: &mut Rng, big: bool) -> Vec<Self>;
}
impl Pool for Vec<u8> {
    fn pool(rng: &mut Rng, big: bool) -> Vec<Self> { byte_strings(rng, big) }
}
impl Pool for RawKey {
    fn pool(rng: &mut Rng, big: bool) -> Vec<Self> { byte_strings(rng, big).into_iter().map(RawKey).collect() }
}
impl Pool for RawRest {
    fn pool(rng: &mut Rng, _big: bool) -> Vec<Self> { byte_strings(rng, false).into_iter().map(RawRest).collect() }
}
impl Pool for String {
    fn pool(rng: &mut Rng, _big: bool) -> Vec<Self> { strings(rng) }
}
impl Pool for () {
    fn pool(_rng: &mut Rng, _big: bool) -> Vec<Self> { vec![()] }
}
impl Pool for u64 {
    fn pool(rng: &mut Rng, _big: bool) -> Vec<Self> {
        let mut v = vec![0, 1, 127, 128, 255, 16383, 16384, u64::MAX, u64::MAX - 1, 0xFFFF_FFFF, rng.next(), rng.next() >> 20];
        rng.shuffle(&mut v);
        v.truncate(rng.range(4, 8) as usize);
        v
    }
}
impl Pool for (Vec<u8>, String) {
    fn pool(rng: &mut Rng, _big: bool) -> Vec<Self> {
        let a = byte_strings(rng, false);
        let b = strings(rng);
        let mut v = vec![(vec![], String::new())];
        for _ in 0..rng.range(3, 7) {
            v.push((rng.pick(&a).clone(), rng.pick(&b).clone()));
        }
        v
    }
}
impl Pool for Option<Vec<Vec<u8>>> {
    fn pool(rng: &mut Rng, _big: bool) -> Vec<Self> {
        let a = byte_strings(rng, false);
        let mut v = vec![None, Some(vec![]), Some(vec![vec![]]), Some(vec![vec![], vec![]]), Some(vec![vec![0xFF]])];
        for _ in 0..rng.range(2, 5) {
            let n = rng.range(1, 3);
            v.push(Some((0..n).map(|_| rng.pick(&a).clone()).collect()));
        }
        v
    }
}
impl Pool for (u8, Vec<u8>) {
    fn pool(rng: &mut Rng, _big: bool) -> Vec<Self> {
        let a = byte_strings(rng, false);
        let mut v = vec![(0, vec![]), (0xFF, vec![0xFF]), (0xFF, vec![])];
        for _ in 0..rng.range(2, 5) {
            v.push((*rng.pick(&[0u8, 1, 0xFF]), rng.pick(&a).clone()));
        }
        v
    }
}
impl Pool for [u8; 9] {
    fn pool(rng: &mut Rng, _big: bool) -> Vec<Self> {
        vec![[0; 9], [0xFF; 9], [0, 0, 0, 0, 0, 0, 0, 5, 7], [0, 0, 0, 0, 0, 0, 0, 0xFF, 0xFF],
             [1, 0, 0, 0, 0, 0, 0, 0xFF, rng.next() as u8], [0, 0, 0, 0, 0, 0, 0, rng.next() as u8, 1]]
    }
}

trait GenVal: Sized {
    fn make(rng: &mut Rng) -> Self;
}
impl GenVal for VA {
    fn make(rng: &mut Rng) -> Self {
        let n = *rng.pick(&[0u64, 0, 1, 2, 5, 40, 41, 300, 5000]);
        VA((0..n).map(|_| rng.next() as u8).collect())
    }
}
impl GenVal for VB {
    fn make(rng: &mut Rng) -> Self {
        let n = *rng.pick(&[0u64, 1, 3, 50]);
        VB((0..n).map(|_| char::from(b'a' + (rng.below(26) as u8))).collect())
    }
}
impl GenVal for RawRest {
    fn make(rng: &mut Rng) -> Self { RawRest(VA::make(rng).0) }
}
impl GenVal for RawVal2 {
    fn make(rng: &mut Rng) -> Self { RawVal2(VA::make(rng).0) }
}
impl GenVal for VC {
    fn make(rng: &mut Rng) -> Self { VC(*rng.pick(&[0u64, 1, 127, 128, u64::MAX, rng.0])) }
}

// ------------------------------------------------------------------------------------------------
// columns
// ------------------------------------------------------------------------------------------------

macro_rules! ident {
    ($name:ident) => {
        #[derive(Debug)]
        struct $name;
        impl Identifiable for $name {
            const STABLE_TYPE_ID: StableTypeID =
                StableTypeID::from_unique_type_name(concat!("qbice_verif_harness::kv::", stringify!($name)));
        }
    };
}
macro_rules! wide_col {
    ($name:ident, $key:ty, $disc:ty, $pl:ident, [$( $v:ty => $d:expr ),*]) => {
        impl WideColumn for $name {
            type Discriminant = $disc;
            type Key = $key;
            fn discriminant_encoding() -> DiscriminantEncoding { DiscriminantEncoding::$pl }
        }
        $( impl WideColumnValue<$name> for $v { fn discriminant() -> $disc { $d } } )*
    };
}
macro_rules! set_col {
    ($name:ident, $key:ty, $el:ty) => {
        impl KeyOfSetColumn for $name {
            type Key = $key;
            type Element = $el;
        }
    };
}

ident!(W0); ident!(W1); ident!(W2); ident!(W3); ident!(W4); ident!(W5); ident!(W6);
ident!(S0); ident!(S1); ident!(S2); ident!(S3); ident!(S4); ident!(S5);
ident!(Dual);

wide_col!(W0, Vec<u8>, u8, Prefixed, [VA => 0, VB => 1, VC => 255]);
wide_col!(W1, Vec<u8>, u8, Suffixed, [VA => 0, VB => 1, VC => 255]);
wide_col!(W2, (), Vec<u8>, Prefixed, [VA => vec![], VB => vec![0xFF], VC => vec![0xFF, 0xFF]]);
wide_col!(W3, (), (), Suffixed, [VA => ()]);
wide_col!(W4, (Vec<u8>, String), String, Suffixed, [VA => String::new(), VB => "a".to_string(), VC => "ab".to_string()]);
wide_col!(W5, Option<Vec<Vec<u8>>>, u32, Prefixed, [VA => 0, VB => 128, VC => u32::MAX]);
wide_col!(W6, u64, u16, Suffixed, [VA => 0, VB => 255, VC => 65535]);
set_col!(S0, Vec<u8>, Vec<u8>);
set_col!(S1, RawKey, RawRest);
set_col!(S2, (), u64);
set_col!(S3, (Vec<u8>, String), (u8, Vec<u8>));
set_col!(S4, u64, String);
set_col!(S5, RawKey, Vec<u8>);
// one type used as BOTH a wide column and a key-of-set column: ONE stable type id, two column
// families / keyspaces (`*_wide_column_<id>` and `*_key_of_set_<id>`).  An ordinary column for the
// generator, the model and the oracle.  (Until the repair of F19 both backends cached the family by the
// type id alone, so whichever kind touched the id first in a session owned it for both kinds.)
wide_col!(Dual, [u8; 9], u8, Prefixed, [RawRest => 0, RawVal2 => 1]);
set_col!(Dual, RawKey, RawRest);

const N_WIDE: usize = 8; // W0..W6, Dual
const N_SET: usize = 7; // S0..S5, Dual
const DUAL_W: usize = 7;
const DUAL_S: usize = 6;

// ------------------------------------------------------------------------------------------------
// backends
// ------------------------------------------------------------------------------------------------

trait Be: KvDatabase {
    const TAG: &'static str;
    fn open_at(path: &Path) -> Self;
    /// every column family / keyspace read back with the backend's own crate: name{key=value,…};…
    fn raw_dump(path: &Path) -> String;
}

fn fnv(b: &[u8]) -> u64 {
    let mut h: u64 = 0xcbf29ce484222325;
    for x in b {
        h = (h ^ (*x as u64)).wrapping_mul(0x100000001b3);
    }
    h
}
/// same abbreviation rule as the Lean driver
fn fmt(b: &[u8]) -> String {
    if b.len() <= 40 { hex(b) } else { format!("L{}:{:016x}", b.len(), fnv(b)) }
}

fn dump(mut cfs: Vec<(String, Vec<(Vec<u8>, Vec<u8>)>)>) -> String {
    cfs.sort();
    cfs.iter()
        .map(|(n, kv)| {
            let mut kv = kv.clone();
            kv.sort();
            format!("{}{{{}}}", n, kv.iter().map(|(k, v)| format!("{}={}", fmt(k), fmt(v))).collect::<Vec<_>>().join(","))
        })
        .collect::<Vec<_>>()
        .join(";")
}

impl Be for RocksDB {
    const TAG: &'static str = "r";
    fn open_at(path: &Path) -> Self { RocksDB::open(path, Plugin::default()).expect("open rocksdb") }
    fn raw_dump(path: &Path) -> String {
        use rust_rocksdb::{IteratorMode, Options, ReadOptions, DB};
        let opts = Options::default();
        let names = DB::list_cf(&opts, path).unwrap_or_default();
        let db = DB::open_cf_for_read_only(&opts, path, names.iter(), false).expect("raw open");
        let mut out = vec![];
        for n in &names {
            if n == "default" { continue; }
            let cf = db.cf_handle(n).expect("cf");
            let mut ro = ReadOptions::default();
            ro.set_total_order_seek(true);
            let kv: Vec<(Vec<u8>, Vec<u8>)> = db
                .iterator_cf_opt(&cf, ro, IteratorMode::Start)
                .map(|r| { let (k, v) = r.expect("iter"); (k.to_vec(), v.to_vec()) })
                .collect();
            out.push((n.clone(), kv));
        }
        dump(out)
    }
}

impl Be for Fjall {
    const TAG: &'static str = "f";
    fn open_at(path: &Path) -> Self { Fjall::open(path, Plugin::default()).expect("open fjall") }
    fn raw_dump(path: &Path) -> String {
        let db = fjall::Database::builder(path).open().expect("raw open");
        let mut out = vec![];
        for n in db.list_keyspace_names() {
            let name: String = n.to_string();
            let ks = db.keyspace(&name, fjall::KeyspaceCreateOptions::default).expect("keyspace");
            let kv: Vec<(Vec<u8>, Vec<u8>)> = ks
                .iter()
                .map(|g| { let (k, v) = g.into_inner().expect("iter"); (k.to_vec(), v.to_vec()) })
                .collect();
            out.push((name, kv));
        }
        let s = dump(out);
        if !close_db(db) { return "raw-close-hung".into(); }
        s
    }
}

// ------------------------------------------------------------------------------------------------
// operations
// ------------------------------------------------------------------------------------------------

type WKey = (usize, usize, Vec<u8>); // column, value type, encoded key   (logical identity)
type SKey = (usize, Vec<u8>); // column, encoded key

#[derive(Clone, Debug)]
enum Eff {
    Put(WKey, Vec<u8>),
    Del(WKey),
    Ins(SKey, Vec<u8>),
    Rem(SKey, Vec<u8>),
}
impl Eff {
    /// above Fjall's documented key limit (generated oversize keys are 70 000 bytes, all others ≤ 8200)
    fn oversize(&self) -> bool {
        match self {
            Eff::Put(k, _) | Eff::Del(k) => k.2.len() > 60_000,
            Eff::Ins(k, e) | Eff::Rem(k, e) => k.1.len() + e.len() > 60_000,
        }
    }
    fn dual(&self) -> bool {
        match self {
            Eff::Put(k, _) | Eff::Del(k) => k.0 == DUAL_W,
            Eff::Ins(k, _) | Eff::Rem(k, _) => k.0 == DUAL_S,
        }
    }
}

enum Act<D: Be> {
    BNew(u64),
    SNew(u64),
    BW(u64, Box<dyn Fn(&mut D::WriteBatch)>, Eff),
    SW(u64, Box<dyn Fn(&mut D::SerializationBuffer)>, Eff),
    Consume(u64, u64),
    Commit(u64),
    Drop(u64),
    Get(Box<dyn Fn(&D) -> Option<Vec<u8>>>, WKey),
    Scan(Box<dyn Fn(&D) -> Vec<Vec<u8>>>, SKey),
    Reopen,
    Raw,
}
struct Op<D: Be> {
    line: String,
    act: Act<D>,
}

struct Gen {
    rng: Rng,
    seed: u64,
    big: bool,
    pools: HashMap<(u8, usize), Box<dyn Any>>,
}
impl Gen {
    fn pick<T: Pool>(&mut self, role: u8, col: usize) -> T {
        if !self.pools.contains_key(&(role, col)) {
            let mut r = Rng::new(self.seed ^ ((role as u64) << 40) ^ ((col as u64 + 1) << 48));
            let p: Vec<T> = T::pool(&mut r, self.big && role == 0);
            self.pools.insert((role, col), Box::new(p));
        }
        let p = self.pools[&(role, col)].downcast_ref::<Vec<T>>().expect("pool type");
        let i = self.rng.below(p.len() as u64) as usize;
        p[i].clone()
    }
    fn all<T: Pool>(&mut self, role: u8, col: usize) -> Vec<T> {
        let _ = self.pick::<T>(role, col);
        self.pools[&(role, col)].downcast_ref::<Vec<T>>().unwrap().clone()
    }
}

fn pl_char(p: DiscriminantEncoding) -> char {
    if p == DiscriminantEncoding::Prefixed { 'P' } else { 'S' }
}

struct WideH<D: Be> {
    wkey: WKey,
    text: String, // "ID P D K"
    encv: Vec<u8>,
    bput: Box<dyn Fn(&mut D::WriteBatch)>,
    bdel: Box<dyn Fn(&mut D::WriteBatch)>,
    sput: Box<dyn Fn(&mut D::SerializationBuffer)>,
    sdel: Box<dyn Fn(&mut D::SerializationBuffer)>,
    get: Box<dyn Fn(&D) -> Option<Vec<u8>>>,
}
fn mk_wide<D: Be, W: WideColumn, V: WideColumnValue<W> + GenVal>(ci: usize, vi: usize, key: W::Key, val: V) -> WideH<D> {
    let ek = enc(&key);
    let ed = enc(&V::discriminant());
    let text = format!("{} {} {} {}", W::STABLE_TYPE_ID.as_u128(), pl_char(W::discriminant_encoding()), hex(&ed), hex(&ek));
    let (k1, k2, k3, k4, k5) = (key.clone(), key.clone(), key.clone(), key.clone(), key);
    let (v1, v2) = (val.clone(), val.clone());
    WideH {
        wkey: (ci, vi, ek),
        text,
        encv: enc(&val),
        bput: Box::new(move |b| b.put::<W, V>(&k1, &v1)),
        bdel: Box::new(move |b| b.delete::<W, V>(&k2)),
        sput: Box::new(move |b| b.put::<W, V>(&k3, &v2)),
        sdel: Box::new(move |b| b.delete::<W, V>(&k4)),
        get: Box::new(move |d| d.get_wide_column::<W, V>(&k5).map(|v| enc(&v))),
    }
}

struct SetH<D: Be> {
    skey: SKey,
    text: String, // "ID K"
    ence: Vec<u8>,
    bins: Box<dyn Fn(&mut D::WriteBatch)>,
    brem: Box<dyn Fn(&mut D::WriteBatch)>,
    sins: Box<dyn Fn(&mut D::SerializationBuffer)>,
    srem: Box<dyn Fn(&mut D::SerializationBuffer)>,
    scan: Box<dyn Fn(&D) -> Vec<Vec<u8>>>,
}
fn mk_set<D: Be, C: KeyOfSetColumn>(ci: usize, key: C::Key, el: C::Element) -> SetH<D> {
    let ek = enc(&key);
    let ee = enc(&el);
    let text = format!("{} {}", C::STABLE_TYPE_ID.as_u128(), hex(&ek));
    let (k1, k2, k3, k4, k5) = (key.clone(), key.clone(), key.clone(), key.clone(), key);
    let (e1, e2, e3, e4) = (el.clone(), el.clone(), el.clone(), el);
    SetH {
        skey: (ci, ek),
        text,
        ence: ee,
        bins: Box::new(move |b| b.insert_member::<C>(&k1, &e1)),
        brem: Box::new(move |b| b.delete_member::<C>(&k2, &e2)),
        sins: Box::new(move |b| b.insert_member::<C>(&k3, &e3)),
        srem: Box::new(move |b| b.delete_member::<C>(&k4, &e4)),
        scan: Box::new(move |d| d.scan_members::<C>(&k5).map(|e| enc(&e)).collect()),
    }
}

/// value types per wide column
const N_VT: [usize; N_WIDE] = [3, 3, 3, 1, 3, 3, 3, 2];

fn wide_with<D: Be, W: WideColumn>(g: &mut Gen, ci: usize, vi: usize, key: W::Key) -> WideH<D>
where
    VA: WideColumnValue<W>,
{
    // columns with fewer value types are routed by the caller; this is the VA-only fallback
    let v = VA::make(&mut g.rng);
    mk_wide::<D, W, VA>(ci, vi, key, v)
}

macro_rules! wide3 {
    ($D:ty, $W:ty, $g:expr, $ci:expr, $vi:expr, $key:expr) => {
        match $vi {
            0 => { let v = VA::make(&mut $g.rng); mk_wide::<$D, $W, VA>($ci, 0, $key, v) }
            1 => { let v = VB::make(&mut $g.rng); mk_wide::<$D, $W, VB>($ci, 1, $key, v) }
            _ => { let v = VC::make(&mut $g.rng); mk_wide::<$D, $W, VC>($ci, 2, $key, v) }
        }
    };
}

fn wide_handle<D: Be>(g: &mut Gen, ci: usize, vi: usize, ki: Option<usize>) -> WideH<D> {
    macro_rules! key { ($t:ty) => {{ match ki { Some(i) => g.all::<$t>(0, ci)[i].clone(), None => g.pick::<$t>(0, ci) } }}; }
    match ci {
        0 => { let k = key!(Vec<u8>); wide3!(D, W0, g, ci, vi, k) }
        1 => { let k = key!(Vec<u8>); wide3!(D, W1, g, ci, vi, k) }
        2 => { let k = key!(()); wide3!(D, W2, g, ci, vi, k) }
        3 => { let k = key!(()); wide_with::<D, W3>(g, ci, 0, k) }
        4 => { let k = key!((Vec<u8>, String)); wide3!(D, W4, g, ci, vi, k) }
        5 => { let k = key!(Option<Vec<Vec<u8>>>); wide3!(D, W5, g, ci, vi, k) }
        6 => { let k = key!(u64); wide3!(D, W6, g, ci, vi, k) }
        _ => {
            let k = key!([u8; 9]);
            if vi == 0 { let v = RawRest::make(&mut g.rng); mk_wide::<D, Dual, RawRest>(ci, 0, k, v) }
            else { let v = RawVal2::make(&mut g.rng); mk_wide::<D, Dual, RawVal2>(ci, 1, k, v) }
        }
    }
}
fn wide_pool_len(g: &mut Gen, ci: usize) -> usize {
    match ci {
        0 | 1 => g.all::<Vec<u8>>(0, ci).len(),
        2 | 3 => 1,
        4 => g.all::<(Vec<u8>, String)>(0, ci).len(),
        5 => g.all::<Option<Vec<Vec<u8>>>>(0, ci).len(),
        6 => g.all::<u64>(0, ci).len(),
        _ => g.all::<[u8; 9]>(0, ci).len(),
    }
}

fn set_handle<D: Be>(g: &mut Gen, ci: usize, ki: Option<usize>) -> SetH<D> {
    let sc = ci + 100; // pool namespace of set columns
    macro_rules! key { ($t:ty) => {{ match ki { Some(i) => g.all::<$t>(0, sc)[i].clone(), None => g.pick::<$t>(0, sc) } }}; }
    match ci {
        0 => { let k = key!(Vec<u8>); let e = g.pick::<Vec<u8>>(1, sc); mk_set::<D, S0>(ci, k, e) }
        1 => { let k = key!(RawKey); let e = g.pick::<RawRest>(1, sc); mk_set::<D, S1>(ci, k, e) }
        2 => { let k = key!(()); let e = g.pick::<u64>(1, sc); mk_set::<D, S2>(ci, k, e) }
        3 => { let k = key!((Vec<u8>, String)); let e = g.pick::<(u8, Vec<u8>)>(1, sc); mk_set::<D, S3>(ci, k, e) }
        4 => { let k = key!(u64); let e = g.pick::<String>(1, sc); mk_set::<D, S4>(ci, k, e) }
        5 => { let k = key!(RawKey); let e = g.pick::<Vec<u8>>(1, sc); mk_set::<D, S5>(ci, k, e) }
        _ => { let k = key!(RawKey); let e = g.pick::<RawRest>(1, sc); mk_set::<D, Dual>(ci, k, e) }
    }
}
fn set_pool_len(g: &mut Gen, ci: usize) -> usize {
    let sc = ci + 100;
    match ci {
        0 => g.all::<Vec<u8>>(0, sc).len(),
        1 | 5 | 6 => g.all::<RawKey>(0, sc).len(),
        2 => 1,
        3 => g.all::<(Vec<u8>, String)>(0, sc).len(),
        _ => g.all::<u64>(0, sc).len(),
    }
}

/// The operation sequence of one case.  Depends only on (seed, case index, tier): both backends get the same.
fn gen_case<D: Be>(seed: u64, tier: &str) -> (Vec<Op<D>>, bool) {
    let mut g = Gen { rng: Rng::new(seed), seed, big: false, pools: HashMap::new() };
    g.big = g.rng.chance(1, 12);
    let with_dual = g.rng.chance(1, 3);
    // a case concentrates on a few columns so that keys collide and are reused
    let mut wide_cols: Vec<usize> = (0..N_WIDE - 1).collect();
    g.rng.shuffle(&mut wide_cols);
    wide_cols.truncate(g.rng.range(1, 3) as usize);
    let mut set_cols: Vec<usize> = (0..N_SET - 1).collect();
    g.rng.shuffle(&mut set_cols);
    set_cols.truncate(g.rng.range(1, 3) as usize);
    if with_dual {
        wide_cols.push(DUAL_W);
        set_cols.push(DUAL_S);
    }
    let n_ops = if tier == "quick" { g.rng.range(25, 70) } else { g.rng.range(30, 140) };
    let mut ops: Vec<Op<D>> = vec![Op { line: format!("open {}", D::TAG), act: Act::Reopen }];
    let (mut open_b, mut open_s): (Vec<u64>, Vec<u64>) = (vec![], vec![]);
    let mut next_h = 1u64;
    let push_reads = |g: &mut Gen, ops: &mut Vec<Op<D>>, wide_cols: &[usize], set_cols: &[usize]| {
        // which kind is read first varies: after a reopen this decides which kind of a dual-kind type
        // touches its type id first in the new session
        let sets_first = g.rng.chance(1, 2);
        for round in 0..2 {
            if (round == 0) != sets_first {
                for &ci in wide_cols {
                    for ki in 0..wide_pool_len(g, ci) {
                        for vi in 0..N_VT[ci] {
                            let h = wide_handle::<D>(g, ci, vi, Some(ki));
                            ops.push(Op { line: format!("get {}", h.text), act: Act::Get(h.get, h.wkey) });
                        }
                    }
                }
            } else {
                for &ci in set_cols {
                    for ki in 0..set_pool_len(g, ci) {
                        let h = set_handle::<D>(g, ci, Some(ki));
                        ops.push(Op { line: format!("scan {}", h.text), act: Act::Scan(h.scan, h.skey) });
                    }
                }
            }
        }
    };
    for _ in 0..n_ops {
        let r = g.rng.below(100);
        if open_b.is_empty() || (r < 4 && open_b.len() < 3) {
            ops.push(Op { line: format!("bnew {next_h}"), act: Act::BNew(next_h) });
            open_b.push(next_h);
            next_h += 1;
        } else if r < 10 && open_s.len() < 2 {
            ops.push(Op { line: format!("snew {next_h}"), act: Act::SNew(next_h) });
            open_s.push(next_h);
            next_h += 1;
        } else if r < 52 {
            // a write, through a batch or a serialization buffer
            let via_s = !open_s.is_empty() && g.rng.chance(1, 3);
            let h = if via_s { *g.rng.pick(&open_s) } else { *g.rng.pick(&open_b) };
            let m = if via_s { 's' } else { 'b' };
            if g.rng.chance(1, 2) {
                let ci = *g.rng.pick(&wide_cols);
                let vi = g.rng.below(N_VT[ci] as u64) as usize;
                let w = wide_handle::<D>(&mut g, ci, vi, None);
                if g.rng.chance(3, 4) {
                    let line = format!("put {m} {h} {} {}", w.text, hex(&w.encv));
                    let eff = Eff::Put(w.wkey, w.encv);
                    ops.push(Op { line, act: if via_s { Act::SW(h, w.sput, eff) } else { Act::BW(h, w.bput, eff) } });
                } else {
                    let line = format!("del {m} {h} {}", w.text);
                    let eff = Eff::Del(w.wkey);
                    ops.push(Op { line, act: if via_s { Act::SW(h, w.sdel, eff) } else { Act::BW(h, w.bdel, eff) } });
                }
            } else {
                let ci = *g.rng.pick(&set_cols);
                let s = set_handle::<D>(&mut g, ci, None);
                if g.rng.chance(3, 4) {
                    let line = format!("ins {m} {h} {} {}", s.text, hex(&s.ence));
                    let eff = Eff::Ins(s.skey, s.ence);
                    ops.push(Op { line, act: if via_s { Act::SW(h, s.sins, eff) } else { Act::BW(h, s.bins, eff) } });
                } else {
                    let line = format!("rem {m} {h} {} {}", s.text, hex(&s.ence));
                    let eff = Eff::Rem(s.skey, s.ence);
                    ops.push(Op { line, act: if via_s { Act::SW(h, s.srem, eff) } else { Act::BW(h, s.brem, eff) } });
                }
            }
        } else if r < 57 && !open_s.is_empty() {
            let si = g.rng.below(open_s.len() as u64) as usize;
            let s = open_s.remove(si);
            let h = *g.rng.pick(&open_b);
            ops.push(Op { line: format!("consume {h} {s}"), act: Act::Consume(h, s) });
        } else if r < 67 {
            let bi = g.rng.below(open_b.len() as u64) as usize;
            let h = open_b.remove(bi);
            ops.push(Op { line: format!("commit {h}"), act: Act::Commit(h) });
        } else if r < 70 {
            let bi = g.rng.below(open_b.len() as u64) as usize;
            let h = open_b.remove(bi);
            ops.push(Op { line: format!("drop {h}"), act: Act::Drop(h) });
        } else if r < 82 {
            let ci = *g.rng.pick(&wide_cols);
            let vi = g.rng.below(N_VT[ci] as u64) as usize;
            let w = wide_handle::<D>(&mut g, ci, vi, None);
            ops.push(Op { line: format!("get {}", w.text), act: Act::Get(w.get, w.wkey) });
        } else if r < 94 {
            let ci = *g.rng.pick(&set_cols);
            let s = set_handle::<D>(&mut g, ci, None);
            ops.push(Op { line: format!("scan {}", s.text), act: Act::Scan(s.scan, s.skey) });
        } else if r < 97 {
            open_b.clear();
            open_s.clear();
            ops.push(Op { line: "reopen".into(), act: Act::Reopen });
        } else {
            open_b.clear();
            open_s.clear();
            ops.push(Op { line: "reopen".into(), act: Act::Reopen });
            ops.push(Op { line: "raw".into(), act: Act::Raw });
        }
    }
    // wind down: commit or drop what is open, read everything, reopen, raw dump, read everything again
    for h in open_b.drain(..) {
        if g.rng.chance(3, 4) {
            ops.push(Op { line: format!("commit {h}"), act: Act::Commit(h) });
        } else {
            ops.push(Op { line: format!("drop {h}"), act: Act::Drop(h) });
        }
    }
    push_reads(&mut g, &mut ops, &wide_cols, &set_cols);
    ops.push(Op { line: "reopen".into(), act: Act::Reopen });
    ops.push(Op { line: "raw".into(), act: Act::Raw });
    push_reads(&mut g, &mut ops, &wide_cols, &set_cols);
    (ops, with_dual)
}

// ------------------------------------------------------------------------------------------------
// running a case
// ------------------------------------------------------------------------------------------------

#[derive(Default)]
struct Stats {
    evaluations: u64,
    nontrivial: HashSet<u64>,
    dist: BTreeMap<String, u64>,
    failures: Vec<(String, String, String)>, // sig, desc, case
    samples: Vec<String>,
}
impl Stats {
    fn bump(&mut self, k: &str) { *self.dist.entry(k.to_string()).or_insert(0) += 1; }
    fn bump_n(&mut self, k: &str, n: u64) { *self.dist.entry(k.to_string()).or_insert(0) += n; }
}

fn key_class(st: &mut Stats, k: &[u8]) {
    if k.is_empty() { st.bump("key_enc_empty"); }
    if k.last() == Some(&0xFF) { st.bump("key_enc_ends_ff"); }
    if !k.is_empty() && k.iter().all(|b| *b == 0xFF) { st.bump("key_enc_all_ff"); }
    if k.len() >= 1024 && k.len() <= 60_000 { st.bump("key_enc_multi_kb"); }
    if k.len() > 60_000 { st.bump("key_enc_over_64k"); }
}

/// Drop the last handle of a database in a helper thread and wait for it: fjall 3.0.1's
/// `DatabaseInner::drop` occasionally never returns (it keeps sending `Close` messages into a bounded
/// channel nobody reads any more).  `false` = the close did not finish within 20 s (thread leaked).
fn close_db<T: Send + 'static>(db: T) -> bool {
    let (tx, rx) = std::sync::mpsc::channel::<()>();
    std::thread::spawn(move || {
        drop(db);
        let _ = tx.send(());
    });
    rx.recv_timeout(std::time::Duration::from_secs(20)).is_ok()
}

fn run_case<D: Be>(seed: u64, case_ix: u64, tier: &str, out: &mut Out, st: &mut Stats) {
    let case_seed = seed.wrapping_mul(1_000_003).wrapping_add(case_ix);
    let (ops, with_dual) = gen_case::<D>(case_seed, tier);
    let case_txt = format!("kv seed={seed} tier={tier} case={case_ix} backend={}", D::TAG);
    let dir: PathBuf = PathBuf::from(format!("/tmp/c11-{}-{}-{}-{}", std::process::id(), seed, case_ix, D::TAG));
    let _ = std::fs::remove_dir_all(&dir);
    std::fs::create_dir_all(&dir).unwrap();
    st.bump(&format!("cases_{}", D::TAG));
    if with_dual { st.bump("cases_with_dual_kind_column"); }

    let mut db: Option<D> = None;
    let mut batches: HashMap<u64, D::WriteBatch> = HashMap::new();
    let mut sbufs: HashMap<u64, D::SerializationBuffer> = HashMap::new();
    // oracle state
    let mut wide: BTreeMap<WKey, Vec<u8>> = BTreeMap::new();
    let mut sets: BTreeMap<SKey, BTreeSet<Vec<u8>>> = BTreeMap::new();
    let mut pend_b: HashMap<u64, Vec<Eff>> = HashMap::new();
    let mut pend_s: HashMap<u64, Vec<Eff>> = HashMap::new();
    let mut seen_prefix_related = false;
    // dual-kind type: which kind touched its type id first (resolved its family) in each session
    let mut first_touch: Option<char> = None;
    let mut first_touches: Vec<char> = vec![];
    let (mut dual_wide_committed, mut dual_set_committed) = (false, false);

    let fail = |st: &mut Stats, sig: &str, desc: String, i: usize| {
        if st.failures.len() < 20 {
            st.failures.push((format!("{}:{}", D::TAG, sig), desc, format!("{case_txt} op={i}")));
        }
    };
    // failures of reads of the dual-kind type carry their own signatures
    let dk = |dual: bool, sig: &str| -> String { if dual { format!("dual-kind-{sig}") } else { sig.to_string() } };
    let touch = |first_touch: &mut Option<char>, e: &Eff| {
        if e.dual() && first_touch.is_none() {
            *first_touch = Some(if matches!(e, Eff::Put(..) | Eff::Del(..)) { 'w' } else { 's' });
        }
    };

    for (i, op) in ops.iter().enumerate() {
        st.evaluations += 1;
        let word = op.line.split(' ').next().unwrap_or("");
        st.bump(&format!("op_{word}"));
        let res: String = match &op.act {
            Act::Reopen => {
                if word == "reopen" {
                    let lost: usize = pend_b.values().map(|v| v.len()).sum::<usize>() + pend_s.values().map(|v| v.len()).sum::<usize>();
                    st.bump_n("uncommitted_ops_discarded_by_reopen", lost as u64);
                }
                batches.clear();
                sbufs.clear();
                pend_b.clear();
                pend_s.clear();
                if let Some(c) = first_touch.take() { first_touches.push(c); }
                if let Some(d) = db.take() {
                    if !close_db(d) { st.bump(&format!("backend_close_hung_case_abandoned_{}", D::TAG)); return; } // close first
                }
                db = Some(D::open_at(&dir));
                "ok".into()
            }
            Act::Raw => {
                batches.clear();
                sbufs.clear();
                if let Some(c) = first_touch.take() { first_touches.push(c); }
                if let Some(d) = db.take() {
                    if !close_db(d) { st.bump(&format!("backend_close_hung_case_abandoned_{}", D::TAG)); return; }
                }
                let d = catch_unwind(AssertUnwindSafe(|| D::raw_dump(&dir))).unwrap_or_else(|_| "raw-panic".into());
                if d == "raw-close-hung" { st.bump(&format!("backend_close_hung_case_abandoned_{}", D::TAG)); return; }
                db = Some(D::open_at(&dir));
                st.bump_n("raw_entries_compared", d.matches('=').count() as u64);
                d
            }
            Act::BNew(h) => {
                batches.insert(*h, db.as_ref().unwrap().write_batch());
                pend_b.insert(*h, vec![]);
                "ok".into()
            }
            Act::SNew(s) => {
                sbufs.insert(*s, db.as_ref().unwrap().serialization_buffer());
                pend_s.insert(*s, vec![]);
                "ok".into()
            }
            Act::BW(h, f, eff) => {
                let b = batches.get_mut(h).unwrap();
                let ok = catch_unwind(AssertUnwindSafe(|| f(b))).is_ok();
                touch(&mut first_touch, eff);
                match eff {
                    Eff::Put(k, _) | Eff::Del(k) => key_class(st, &k.2),
                    Eff::Ins(k, _) | Eff::Rem(k, _) => key_class(st, &k.1),
                }
                if ok {
                    pend_b.get_mut(h).unwrap().push(eff.clone());
                    "ok".into()
                } else {
                    if !(D::TAG == "f" && eff.oversize()) {
                        fail(st, "write-panic", format!("batch write panicked: {}", &op.line[..op.line.len().min(200)]), i);
                    } else {
                        st.bump("fjall_oversize_key_panics");
                    }
                    "panic".into()
                }
            }
            Act::SW(s, f, eff) => {
                let b = sbufs.get_mut(s).unwrap();
                let ok = catch_unwind(AssertUnwindSafe(|| f(b))).is_ok();
                // Fjall resolves the keyspace when the operation enters the buffer, RocksDB at consume
                if D::TAG == "f" { touch(&mut first_touch, eff); }
                if ok {
                    pend_s.get_mut(s).unwrap().push(eff.clone());
                    "ok".into()
                } else {
                    fail(st, "sbuf-write-panic", format!("serialization buffer write panicked: {}", &op.line[..op.line.len().min(200)]), i);
                    "panic".into()
                }
            }
            Act::Consume(h, s) => {
                let buf = sbufs.remove(s).unwrap();
                let effs = pend_s.remove(s).unwrap();
                let b = batches.get_mut(h).unwrap();
                let ok = catch_unwind(AssertUnwindSafe(|| b.consume_serialization_buffer(buf))).is_ok();
                let cut = effs.iter().position(|e| D::TAG == "f" && e.oversize());
                for e in &effs { touch(&mut first_touch, e); }
                if ok {
                    pend_b.get_mut(h).unwrap().extend(effs);
                    "ok".into()
                } else {
                    match cut {
                        Some(c) => {
                            st.bump("fjall_oversize_key_panics");
                            pend_b.get_mut(h).unwrap().extend(effs[..c].iter().cloned());
                        }
                        None => fail(st, "consume-panic", "consume_serialization_buffer panicked".into(), i),
                    }
                    "panic".into()
                }
            }
            Act::Commit(h) => {
                let b = batches.remove(h).unwrap();
                let effs = pend_b.remove(h).unwrap();
                let ok = catch_unwind(AssertUnwindSafe(|| b.commit())).is_ok();
                if ok {
                    st.bump_n("committed_ops", effs.len() as u64);
                    for e in effs {
                        if e.dual() {
                            if matches!(e, Eff::Put(..) | Eff::Del(..)) { dual_wide_committed = true; } else { dual_set_committed = true; }
                        }
                        match e {
                            Eff::Put(k, v) => { wide.insert(k, v); }
                            Eff::Del(k) => { wide.remove(&k); }
                            Eff::Ins(k, el) => { sets.entry(k).or_default().insert(el); }
                            Eff::Rem(k, el) => { if let Some(s) = sets.get_mut(&k) { s.remove(&el); } }
                        }
                    }
                    "ok".into()
                } else {
                    fail(st, "commit-panic", "commit panicked".into(), i);
                    "panic".into()
                }
            }
            Act::Drop(h) => {
                let n = pend_b.remove(h).map(|v| v.len()).unwrap_or(0);
                st.bump_n("uncommitted_ops_dropped", n as u64);
                batches.remove(h);
                "ok".into()
            }
            Act::Get(f, k) => {
                let d = db.as_ref().unwrap();
                let r = catch_unwind(AssertUnwindSafe(|| f(d)));
                let dual = k.0 == DUAL_W;
                if dual && first_touch.is_none() { first_touch = Some('w'); }
                let pending_same: usize = pend_b.values().chain(pend_s.values()).flatten()
                    .filter(|e| matches!(e, Eff::Put(x, _) | Eff::Del(x) if x == k)).count();
                if pending_same > 0 { st.bump("reads_with_pending_uncommitted_write_to_same_key"); }
                match r {
                    Ok(got) => {
                        let want = wide.get(k).cloned();
                        if dual { st.bump("dual_kind_type_point_reads_judged"); }
                        if got != want {
                            let sig = match (&got, &want) {
                                (None, Some(_)) => "get-lost",
                                (Some(_), None) => "get-phantom",
                                _ => "get-wrong-value",
                            };
                            fail(st, &dk(dual, sig), format!("{} returned {:?}, reference {:?}", &op.line[..op.line.len().min(160)], got.as_deref().map(fmt), want.as_deref().map(fmt)), i);
                        }
                        match got {
                            Some(v) => {
                                st.bump("get_some");
                                st.nontrivial.insert(fnv(format!("{}{}", op.line, fmt(&v)).as_bytes()));
                                // other value types under the same key present?
                                if wide.keys().any(|x| x.0 == k.0 && x.2 == k.2 && x.1 != k.1) { st.bump("get_some_with_other_value_type_under_same_key"); }
                                format!("some {}", fmt(&v))
                            }
                            None => { st.bump("get_none"); "none".into() }
                        }
                    }
                    Err(_) => {
                        if D::TAG == "f" && k.2.len() > 60_000 { st.bump("fjall_oversize_key_panics"); }
                        else { fail(st, &dk(dual, "get-panic"), format!("{} panicked", &op.line[..op.line.len().min(160)]), i); }
                        "panic".into()
                    }
                }
            }
            Act::Scan(f, k) => {
                let d = db.as_ref().unwrap();
                let r = catch_unwind(AssertUnwindSafe(|| f(d)));
                let dual = k.0 == DUAL_S;
                if dual && first_touch.is_none() { first_touch = Some('s'); }
                let want: Vec<Vec<u8>> = sets.get(k).map(|s| s.iter().cloned().collect()).unwrap_or_default();
                // prefix-related sibling keys with members in the same column?
                if sets.iter().any(|(x, m)| x.0 == k.0 && x.1 != k.1 && !m.is_empty() && (x.1.starts_with(&k.1) || k.1.starts_with(&x.1))) {
                    st.bump("scan_with_nonempty_prefix_related_sibling");
                    seen_prefix_related = true;
                }
                match r {
                    Ok(got) => {
                        let mut sorted = got.clone();
                        sorted.sort();
                        if dual { st.bump("dual_kind_type_member_scans_judged"); }
                        if sorted != want {
                            let gs: BTreeSet<_> = got.iter().cloned().collect();
                            let ws: BTreeSet<_> = want.iter().cloned().collect();
                            let sig = if gs.len() != got.len() { "scan-duplicate" }
                                else if gs.is_subset(&ws) { "scan-missing-member" }
                                else if ws.is_subset(&gs) { "scan-foreign-member" }
                                else { "scan-wrong-members" };
                            fail(st, &dk(dual, sig), format!("{} returned [{}], reference [{}]", &op.line[..op.line.len().min(160)],
                                got.iter().map(|e| fmt(e)).collect::<Vec<_>>().join(" "), want.iter().map(|e| fmt(e)).collect::<Vec<_>>().join(" ")), i);
                        }
                        if !got.is_empty() {
                            st.bump("scan_nonempty");
                            st.nontrivial.insert(fnv(format!("{}{}", op.line, got.iter().map(|e| fmt(e)).collect::<Vec<_>>().join(" ")).as_bytes()));
                        } else { st.bump("scan_empty"); }
                        key_class(st, &k.1);
                        let mut s = format!("n={}", got.len());
                        for e in &got { s.push(' '); s.push_str(&fmt(e)); }
                        s
                    }
                    Err(_) => {
                        if D::TAG == "f" && k.1.len() > 60_000 { st.bump("fjall_oversize_key_panics"); }
                        else { fail(st, &dk(dual, "scan-panic"), format!("{} panicked", &op.line[..op.line.len().min(160)]), i); }
                        "panic".into()
                    }
                }
            }
        };
        if st.samples.len() < 6 && (word == "get" || word == "scan") && res.len() > 6 && res.len() < 120 && op.line.len() < 160 {
            st.samples.push(format!("{} => {}", op.line, res));
        }
        out.line(&op.line, &res);
    }
    if seen_prefix_related { st.bump("cases_with_prefix_related_set_keys"); }
    if let Some(c) = first_touch.take() { first_touches.push(c); }
    if with_dual {
        if dual_wide_committed && dual_set_committed { st.bump("cases_dual_kind_type_committed_under_both_kinds"); }
        if first_touches.contains(&'w') && first_touches.contains(&'s') { st.bump("cases_dual_kind_type_first_touched_by_different_kinds_across_sessions"); }
        for c in &first_touches { st.bump(if *c == 'w' { "dual_kind_sessions_first_touched_as_wide" } else { "dual_kind_sessions_first_touched_as_set" }); }
    }
    drop(batches);
    drop(sbufs);
    if let Some(d) = db.take() {
        if !close_db(d) { st.bump(&format!("backend_close_hung_case_abandoned_{}", D::TAG)); return; }
    }
    let _ = std::fs::remove_dir_all(&dir);
}

// ------------------------------------------------------------------------------------------------
// atomicity probe (oracle only; the model takes the atomic store write as its primitive)
// ------------------------------------------------------------------------------------------------

/// One writer commits batches `i = 1..n`, each { insert member i, delete member i-1 } of one set and
/// { put k1 := i, put k2 := i } of two wide-column keys; a concurrent reader must always see exactly
/// one member, and reading k1 then k2 (or k2 then k1) must never show the later-read key older.
fn atomic_probe<D: Be>(seed: u64, want_reads: u64, st: &mut Stats) {
    let dir: PathBuf = PathBuf::from(format!("/tmp/c11-{}-{}-atomic-{}", std::process::id(), seed, D::TAG));
    let _ = std::fs::remove_dir_all(&dir);
    std::fs::create_dir_all(&dir).unwrap();
    let db = D::open_at(&dir);
    let mut b = db.write_batch();
    b.insert_member::<S2>(&(), &0u64);
    b.put::<W6, VC>(&1u64, &VC(0));
    b.put::<W6, VC>(&2u64, &VC(0));
    b.commit();
    let stop = std::sync::Arc::new(std::sync::atomic::AtomicBool::new(false));
    let done = std::sync::Arc::new(std::sync::atomic::AtomicU64::new(0));
    let (db2, stop2, done2) = (db.clone(), stop.clone(), done.clone());
    let reader = std::thread::spawn(move || {
        let (mut reads, mut bad): (u64, Vec<String>) = (0, vec![]);
        while !stop2.load(std::sync::atomic::Ordering::Relaxed) {
            let m: Vec<u64> = db2.scan_members::<S2>(&()).collect();
            if m.len() != 1 && bad.len() < 3 { bad.push(format!("scan saw {:?}", m)); }
            let a = db2.get_wide_column::<W6, VC>(&1u64).map(|v| v.0);
            let c = db2.get_wide_column::<W6, VC>(&2u64).map(|v| v.0);
            if c < a && bad.len() < 3 { bad.push(format!("k1={:?} then k2={:?}", a, c)); }
            let c = db2.get_wide_column::<W6, VC>(&2u64).map(|v| v.0);
            let a = db2.get_wide_column::<W6, VC>(&1u64).map(|v| v.0);
            if a < c && bad.len() < 3 { bad.push(format!("k2={:?} then k1={:?}", c, a)); }
            reads += 1;
            done2.store(reads, std::sync::atomic::Ordering::Relaxed);
        }
        (reads, bad)
    });
    let mut n = 0u64;
    let t0 = std::time::Instant::now();
    for i in 1..=2_000_000u64 {
        let r = done.load(std::sync::atomic::Ordering::Relaxed);
        if r >= want_reads || t0.elapsed().as_secs() > 60 { break; }
        // stay at most a few batches ahead of the reader (keeps the version chains it must skip short)
        while i > 4 * done.load(std::sync::atomic::Ordering::Relaxed) + 8 && t0.elapsed().as_secs() <= 60 { std::hint::spin_loop(); }
        n = i;
        let mut b = db.write_batch();
        b.insert_member::<S2>(&(), &i);
        b.put::<W6, VC>(&1u64, &VC(i));
        b.delete_member::<S2>(&(), &(i - 1));
        b.put::<W6, VC>(&2u64, &VC(i));
        b.commit();
    }
    stop.store(true, std::sync::atomic::Ordering::Relaxed);
    let (reads, bad) = reader.join().unwrap_or((0, vec!["reader panicked".into()]));
    st.bump_n(&format!("atomic_probe_batches_{}", D::TAG), n);
    st.bump_n(&format!("atomic_probe_concurrent_reads_{}", D::TAG), reads);
    st.evaluations += n + reads;
    for d in bad {
        st.failures.push((format!("{}:batch-not-atomic", D::TAG), d, format!("kv seed={seed} atomic-probe backend={}", D::TAG)));
    }
    if !close_db(db) { st.bump(&format!("backend_close_hung_case_abandoned_{}", D::TAG)); return; }
    let _ = std::fs::remove_dir_all(&dir);
}

fn main() {
    std::panic::set_hook(Box::new(|_| {}));
    let a = args();
    let mut out = Out::new(&a.out);
    let mut st = Stats::default();
    let n = a.n.unwrap_or(if a.tier == "quick" { 12 } else { 60 });
    let (mut only_case, mut only_be): (Option<u64>, Option<String>) = (None, None);
    let mut seed = a.seed;
    let mut tier = a.tier.clone();
    if let Some(p) = &a.replay {
        // the "case" text of a failure: kv seed=S tier=T case=C backend=B [op=I]
        let txt = std::fs::read_to_string(p).unwrap_or_default();
        let grab = |k: &str| -> Option<String> {
            let i = txt.find(&format!("{k}="))? + k.len() + 1;
            Some(txt[i..].chars().take_while(|c| c.is_alphanumeric()).collect())
        };
        if let Some(s) = grab("seed") { seed = s.parse().unwrap_or(seed); }
        if let Some(t) = grab("tier") { tier = t; }
        only_case = grab("case").and_then(|c| c.parse().ok());
        only_be = grab("backend");
    }
    let cases: Vec<u64> = match only_case { Some(c) => vec![c], None => (0..n).collect() };
    for c in cases {
        if only_be.as_deref().map_or(true, |b| b == "r") {
            if catch_unwind(AssertUnwindSafe(|| run_case::<RocksDB>(seed, c, &tier, &mut out, &mut st))).is_err() {
                st.failures.push(("r:harness-panic".into(), "case aborted by a panic outside an API call".into(), format!("kv seed={seed} tier={tier} case={c} backend=r")));
                out.line("case-aborted", "case-aborted");
            }
        }
        if only_be.as_deref().map_or(true, |b| b == "f") {
            if catch_unwind(AssertUnwindSafe(|| run_case::<Fjall>(seed, c, &tier, &mut out, &mut st))).is_err() {
                st.failures.push(("f:harness-panic".into(), "case aborted by a panic outside an API call".into(), format!("kv seed={seed} tier={tier} case={c} backend=f")));
                out.line("case-aborted", "case-aborted");
            }
        }
    }
    if only_case.is_none() && !a.rest.iter().any(|x| x == "--no-probe") {
        let nb = if tier == "quick" { 1500 } else { 20000 };
        if catch_unwind(AssertUnwindSafe(|| atomic_probe::<RocksDB>(seed, nb, &mut st))).is_err() {
            st.failures.push(("r:atomic-probe-panic".into(), "atomicity probe panicked".into(), format!("kv seed={seed} atomic-probe backend=r")));
        }
        if catch_unwind(AssertUnwindSafe(|| atomic_probe::<Fjall>(seed, nb, &mut st))).is_err() {
            st.failures.push(("f:atomic-probe-panic".into(), "atomicity probe panicked".into(), format!("kv seed={seed} atomic-probe backend=f")));
        }
    }
    let dist = st.dist.iter().map(|(k, v)| format!("{}:{}", jstr(k), v)).collect::<Vec<_>>().join(",");
    let fails = st.failures.iter()
        .map(|(s, d, c)| format!("{{\"sig\":{},\"desc\":{},\"case\":{}}}", jstr(s), jstr(d), jstr(c)))
        .collect::<Vec<_>>().join(",");
    let samples = st.samples.iter().map(|s| jstr(s)).collect::<Vec<_>>().join(",");
    let report = format!(
        "{{\"evaluations\":{},\"distinct_nontrivial\":{},\"rule\":{},\"samples\":[{}],\"distribution\":{{{}}},\"oracle_failures\":[{}]}}",
        st.evaluations, st.nontrivial.len(),
        jstr("evaluation = one API call on a real backend; nontrivial = distinct (read, non-empty answer) pairs"),
        samples, dist, fails);
    out.finish(&report);
}
