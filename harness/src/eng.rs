//! Engine harness shared by the engine-level bins (C01–C08): a small program language that both
//! the real engine (through five static query types whose executors interpret the shared program
//! table) and the Lean model interpret, an execution log, and the independent oracles.
use std::{
    collections::{BTreeMap, BTreeSet},
    sync::{Arc, Mutex, RwLock},
};

use qbice::{
    Config, Decode, Encode, Engine, Identifiable, Query, StableHash, TrackedEngine,
    executor::Executor, query::ExecutionStyle,
};

use crate::Rng;

// ------------------------------------------------------------------------------------------
// program language
// ------------------------------------------------------------------------------------------

#[derive(Clone, Copy, Debug, PartialEq, Eq, PartialOrd, Ord, Hash)]
pub enum Kind { Input, Normal, Firewall, Projection, External }
impl Kind {
    pub fn tag(self) -> &'static str {
        match self { Kind::Input => "in", Kind::Normal => "nm", Kind::Firewall => "fw", Kind::Projection => "pj", Kind::External => "ex" }
    }
    pub fn parse(s: &str) -> Kind {
        match s { "in" => Kind::Input, "nm" => Kind::Normal, "fw" => Kind::Firewall, "pj" => Kind::Projection, "ex" => Kind::External, _ => panic!("kind {s}") }
    }
}

/// Expressions. Evaluation order is left to right; a `Read` happens when it is evaluated.
#[derive(Clone, Debug, PartialEq, Eq)]
pub enum Expr {
    Const(i64),
    Read(u32),
    Add(Box<Expr>, Box<Expr>),
    /// if e == n then a else b
    IfEq(Box<Expr>, i64, Box<Expr>, Box<Expr>),
    /// unordered group: all keys are read inside one start/end_unordered_callee_group, result = sum
    SumAll(Vec<u32>),
    /// harness-controlled cell (external nodes only)
    World(u32),
    /// (C05) speculative read: the read of the key is started and polled ONCE before the body is evaluated and dropped after
    /// it; its result is never used (value = value of the body).  If the callee is pending at that poll, the executor
    /// cancels one of its own reads and carries on (`select!` / timeout / first-wins inside an executor).
    Spec(u32, Box<Expr>),
    /// (C05) `a / b`; evaluating it with b = 0 panics ("division by zero"): a read that is only valid under a guard
    Div(Box<Expr>, Box<Expr>),
    /// (C05) awaits `tokio::task::yield_now()` once, then the body: an executor that is pending at its first poll
    Yield(Box<Expr>),
}

impl Expr {
    pub fn render(&self, o: &mut String) {
        match self {
            Expr::Const(n) => { o.push_str(&format!("c {n}")); }
            Expr::Read(k) => { o.push_str(&format!("r {k}")); }
            Expr::Add(a, b) => { o.push_str("+ "); a.render(o); o.push(' '); b.render(o); }
            Expr::IfEq(e, n, a, b) => { o.push_str("? "); e.render(o); o.push_str(&format!(" {n} ")); a.render(o); o.push(' '); b.render(o); }
            Expr::SumAll(ks) => { o.push_str(&format!("S {}", ks.len())); for k in ks { o.push_str(&format!(" {k}")); } }
            Expr::World(k) => { o.push_str(&format!("w {k}")); }
            Expr::Spec(k, e) => { o.push_str(&format!("X {k} ")); e.render(o); }
            Expr::Div(a, b) => { o.push_str("/ "); a.render(o); o.push(' '); b.render(o); }
            Expr::Yield(e) => { o.push_str("Y "); e.render(o); }
        }
    }
    pub fn parse(t: &mut std::slice::Iter<'_, &str>) -> Expr {
        match *t.next().expect("expr") {
            "c" => Expr::Const(t.next().unwrap().parse().unwrap()),
            "r" => Expr::Read(t.next().unwrap().parse().unwrap()),
            "w" => Expr::World(t.next().unwrap().parse().unwrap()),
            "+" => { let a = Expr::parse(t); let b = Expr::parse(t); Expr::Add(Box::new(a), Box::new(b)) }
            "?" => { let e = Expr::parse(t); let n = t.next().unwrap().parse().unwrap(); let a = Expr::parse(t); let b = Expr::parse(t); Expr::IfEq(Box::new(e), n, Box::new(a), Box::new(b)) }
            "S" => { let n: usize = t.next().unwrap().parse().unwrap(); Expr::SumAll((0..n).map(|_| t.next().unwrap().parse().unwrap()).collect()) }
            "X" => { let k = t.next().unwrap().parse().unwrap(); let e = Expr::parse(t); Expr::Spec(k, Box::new(e)) }
            "/" => { let a = Expr::parse(t); let b = Expr::parse(t); Expr::Div(Box::new(a), Box::new(b)) }
            "Y" => { let e = Expr::parse(t); Expr::Yield(Box::new(e)) }
            x => panic!("expr token {x}"),
        }
    }
    pub fn reads(&self, out: &mut Vec<u32>) {
        match self {
            Expr::Read(k) => out.push(*k),
            Expr::Add(a, b) => { a.reads(out); b.reads(out); }
            Expr::IfEq(e, _, a, b) => { e.reads(out); a.reads(out); b.reads(out); }
            Expr::SumAll(ks) => out.extend(ks.iter().copied()),
            Expr::Spec(k, e) => { out.push(*k); e.reads(out); }
            Expr::Div(a, b) => { a.reads(out); b.reads(out); }
            Expr::Yield(e) => e.reads(out),
            _ => {}
        }
    }
    /// keys that are read speculatively somewhere in the expression
    pub fn spec_targets(&self, out: &mut Vec<u32>) {
        match self {
            Expr::Spec(k, e) => { out.push(*k); e.spec_targets(out); }
            Expr::Add(a, b) | Expr::Div(a, b) => { a.spec_targets(out); b.spec_targets(out); }
            Expr::IfEq(e, _, a, b) => { e.spec_targets(out); a.spec_targets(out); b.spec_targets(out); }
            Expr::Yield(e) => e.spec_targets(out),
            _ => {}
        }
    }
    pub fn has_unordered(&self) -> bool {
        match self {
            Expr::SumAll(_) => true,
            Expr::Add(a, b) => a.has_unordered() || b.has_unordered(),
            Expr::IfEq(e, _, a, b) => e.has_unordered() || a.has_unordered() || b.has_unordered(),
            Expr::Spec(_, e) | Expr::Yield(e) => e.has_unordered(),
            Expr::Div(a, b) => a.has_unordered() || b.has_unordered(),
            _ => false,
        }
    }
}

#[derive(Clone, Debug, PartialEq, Eq)]
pub struct NodeDef { pub kind: Kind, pub default: i64, pub expr: Expr }

#[derive(Clone, Debug, Default, PartialEq, Eq)]
pub struct Program { pub nodes: Vec<NodeDef> }
impl Program {
    pub fn kind(&self, k: u32) -> Kind { self.nodes[k as usize].kind }
    pub fn has_unordered(&self) -> bool { self.nodes.iter().any(|n| n.expr.has_unordered()) }
    /// (C05) some executor starts a read and drops it
    pub fn spec_targets(&self) -> Vec<u32> { let mut v = vec![]; for n in &self.nodes { n.expr.spec_targets(&mut v); } v.sort(); v.dedup(); v }
    /// `node <k> <kind> <default> <expr…>` lines
    pub fn render_lines(&self) -> Vec<String> {
        self.nodes.iter().enumerate().map(|(k, n)| { let mut s = format!("node {k} {} {} ", n.kind.tag(), n.default); n.expr.render(&mut s); s }).collect()
    }
    pub fn parse_node_line(&mut self, line: &str) {
        let toks: Vec<&str> = line.split_whitespace().collect();
        assert_eq!(toks[0], "node");
        let k: usize = toks[1].parse().unwrap();
        assert_eq!(k, self.nodes.len());
        let kind = Kind::parse(toks[2]);
        let default = toks[3].parse().unwrap();
        let rest: Vec<&str> = toks[4..].to_vec();
        let mut it = rest.iter();
        let expr = Expr::parse(&mut it);
        self.nodes.push(NodeDef { kind, default, expr });
    }
}

// ------------------------------------------------------------------------------------------
// history operations
// ------------------------------------------------------------------------------------------

#[derive(Clone, Debug, PartialEq, Eq)]
pub enum Write { Set(u32, i64), Refresh, World(u32, i64) }

#[derive(Clone, Debug, PartialEq, Eq)]
pub enum Op {
    /// one input session: writes in order (world writes take effect before the session's refreshes), then commit
    Session(Vec<Write>),
    /// one tracked engine, keys queried sequentially in order
    Round(Vec<u32>),
}
impl Op {
    pub fn render(&self) -> String {
        match self {
            Op::Session(ws) => {
                let mut s = String::from("session");
                for w in ws { match w { Write::Set(k, v) => s.push_str(&format!(" set {k} {v}")), Write::Refresh => s.push_str(" refresh"), Write::World(k, v) => s.push_str(&format!(" world {k} {v}")) } }
                s
            }
            Op::Round(ks) => { let mut s = String::from("round"); for k in ks { s.push_str(&format!(" {k}")); } s }
        }
    }
    pub fn parse(line: &str) -> Op {
        let t: Vec<&str> = line.split_whitespace().collect();
        match t[0] {
            "session" => {
                let mut ws = vec![]; let mut i = 1;
                while i < t.len() {
                    match t[i] {
                        "set" => { ws.push(Write::Set(t[i + 1].parse().unwrap(), t[i + 2].parse().unwrap())); i += 3; }
                        "world" => { ws.push(Write::World(t[i + 1].parse().unwrap(), t[i + 2].parse().unwrap())); i += 3; }
                        "refresh" => { ws.push(Write::Refresh); i += 1; }
                        x => panic!("write {x}"),
                    }
                }
                Op::Session(ws)
            }
            "round" => Op::Round(t[1..].iter().map(|x| x.parse().unwrap()).collect()),
            x => panic!("op {x}"),
        }
    }
}

#[derive(Clone, Debug, Default, PartialEq, Eq)]
pub struct Case { pub program: Program, pub ops: Vec<Op> }
impl Case {
    pub fn render(&self) -> String {
        let mut s = format!("case {}{}\n", self.program.nodes.len(), if self.program.has_unordered() { " unordered" } else { "" });
        for l in self.program.render_lines() { s.push_str(&l); s.push('\n'); }
        for o in &self.ops { s.push_str(&o.render()); s.push('\n'); }
        s
    }
    pub fn parse(text: &str) -> Case {
        let mut c = Case::default();
        for line in text.lines() {
            let line = line.trim();
            if line.is_empty() || line.starts_with("case") { continue; }
            if line.starts_with("node") { c.program.parse_node_line(line); } else { c.ops.push(Op::parse(line)); }
        }
        c
    }
}

// ------------------------------------------------------------------------------------------
// the five query types and their executors
// ------------------------------------------------------------------------------------------

macro_rules! qtype {
    ($name:ident) => {
        #[derive(Debug, Clone, Copy, PartialEq, Eq, PartialOrd, Ord, Hash, StableHash, Encode, Decode, Identifiable)]
        pub struct $name(pub u32);
        impl Query for $name { type Value = i64; }
    };
}
qtype!(In); qtype!(Nm); qtype!(Fw); qtype!(Pj); qtype!(Ex);

#[derive(Clone, Debug, PartialEq, Eq, PartialOrd, Ord)]
pub struct ExecRecord { pub key: u32, pub reads: Vec<(u32, i64)>, pub result: Option<i64> }

#[derive(Default)]
pub struct Shared {
    pub program: RwLock<Program>,
    pub world: Mutex<BTreeMap<u32, i64>>,
    /// completed executor invocations (a cyclic abort records result None)
    pub log: Mutex<Vec<ExecRecord>>,
    /// keys whose executor is currently running (overlap detector for C02)
    pub running: Mutex<BTreeMap<u32, u32>>,
    pub overlap: Mutex<Vec<u32>>,
    /// optional panic injection: executor of this key panics (C05)
    pub panic_key: Mutex<Option<u32>>,
}

pub async fn query_key<C: Config>(sh: &Shared, te: &TrackedEngine<C>, k: u32) -> i64 {
    let kind = sh.program.read().unwrap().kind(k);
    match kind {
        Kind::Input => te.query(&In(k)).await,
        Kind::Normal => te.query(&Nm(k)).await,
        Kind::Firewall => te.query(&Fw(k)).await,
        Kind::Projection => te.query(&Pj(k)).await,
        Kind::External => te.query(&Ex(k)).await,
    }
}

fn eval_expr<'a, C: Config>(sh: &'a Shared, te: &'a TrackedEngine<C>, e: &'a Expr, reads: &'a Mutex<Vec<(u32, i64)>>)
    -> std::pin::Pin<Box<dyn Future<Output = i64> + Send + 'a>> {
    Box::pin(async move {
        match e {
            Expr::Const(n) => *n,
            Expr::Read(k) => { let v = query_key(sh, te, *k).await; reads.lock().unwrap().push((*k, v)); v }
            Expr::Add(a, b) => { let x = eval_expr(sh, te, a, reads).await; let y = eval_expr(sh, te, b, reads).await; x.wrapping_add(y) }
            Expr::IfEq(c, n, a, b) => { let x = eval_expr(sh, te, c, reads).await; if x == *n { eval_expr(sh, te, a, reads).await } else { eval_expr(sh, te, b, reads).await } }
            Expr::SumAll(ks) => {
                unsafe { te.start_unordered_callee_group(); }
                let futs = ks.iter().map(|k| async move { (*k, query_key(sh, te, *k).await) });
                let vs = futures::future::join_all(futs).await;
                unsafe { te.end_unordered_callee_group(); }
                let mut s = 0i64;
                for (k, v) in vs { reads.lock().unwrap().push((k, v)); s = s.wrapping_add(v); }
                s
            }
            Expr::World(k) => *sh.world.lock().unwrap().get(k).unwrap_or(&0),
            Expr::Spec(k, body) => {
                let mut spec = Box::pin(query_key(sh, te, *k));
                let first = futures::poll!(spec.as_mut());
                if let std::task::Poll::Ready(x) = first { reads.lock().unwrap().push((*k, x)); }
                let v = eval_expr(sh, te, body, reads).await;
                drop(spec);
                v
            }
            Expr::Div(a, b) => {
                let x = eval_expr(sh, te, a, reads).await;
                let y = eval_expr(sh, te, b, reads).await;
                if y == 0 { panic!("division by zero (a read that is only valid under its guard was evaluated)"); }
                x.wrapping_div(y)
            }
            Expr::Yield(body) => { tokio::task::yield_now().await; eval_expr(sh, te, body, reads).await }
        }
    })
}

struct RunGuard<'a> { sh: &'a Shared, key: u32, reads: &'a Mutex<Vec<(u32, i64)>>, done: Option<i64> }
impl Drop for RunGuard<'_> {
    fn drop(&mut self) {
        let mut r = self.sh.running.lock().unwrap();
        let c = r.entry(self.key).or_insert(0); *c -= 1; if *c == 0 { r.remove(&self.key); }
        drop(r);
        self.sh.log.lock().unwrap().push(ExecRecord { key: self.key, reads: self.reads.lock().unwrap().clone(), result: self.done });
    }
}

async fn run_node<C: Config>(sh: &Shared, te: &TrackedEngine<C>, key: u32) -> i64 {
    {
        let mut r = sh.running.lock().unwrap();
        let c = r.entry(key).or_insert(0); *c += 1;
        if *c > 1 { sh.overlap.lock().unwrap().push(key); }
    }
    let reads = Mutex::new(Vec::new());
    let mut g = RunGuard { sh, key, reads: &reads, done: None };
    if *sh.panic_key.lock().unwrap() == Some(key) { panic!("injected executor panic key={key}"); }
    let expr = sh.program.read().unwrap().nodes[key as usize].expr.clone();
    let v = eval_expr(sh, te, &expr, &reads).await;
    g.done = Some(v);
    v
}

pub const DEFAULT_NM: i64 = -1;
pub const DEFAULT_FW: i64 = -2;
pub const DEFAULT_PJ: i64 = -3;
pub fn kind_default(k: Kind) -> i64 { match k { Kind::Normal => DEFAULT_NM, Kind::Firewall => DEFAULT_FW, Kind::Projection => DEFAULT_PJ, _ => 0 } }

pub struct NmEx(pub Arc<Shared>);
impl<C: Config> Executor<Nm, C> for NmEx {
    async fn execute(&self, q: &Nm, te: &TrackedEngine<C>) -> i64 { run_node(&self.0, te, q.0).await }
    fn execution_style() -> ExecutionStyle { ExecutionStyle::Normal }
    fn scc_value() -> i64 { DEFAULT_NM }
}
pub struct FwEx(pub Arc<Shared>);
impl<C: Config> Executor<Fw, C> for FwEx {
    async fn execute(&self, q: &Fw, te: &TrackedEngine<C>) -> i64 { run_node(&self.0, te, q.0).await }
    fn execution_style() -> ExecutionStyle { ExecutionStyle::Firewall }
    fn scc_value() -> i64 { DEFAULT_FW }
}
pub struct PjEx(pub Arc<Shared>);
impl<C: Config> Executor<Pj, C> for PjEx {
    async fn execute(&self, q: &Pj, te: &TrackedEngine<C>) -> i64 { run_node(&self.0, te, q.0).await }
    fn execution_style() -> ExecutionStyle { ExecutionStyle::Projection }
    fn scc_value() -> i64 { DEFAULT_PJ }
}
pub struct ExEx(pub Arc<Shared>);
impl<C: Config> Executor<Ex, C> for ExEx {
    async fn execute(&self, q: &Ex, te: &TrackedEngine<C>) -> i64 { run_node(&self.0, te, q.0).await }
    fn execution_style() -> ExecutionStyle { ExecutionStyle::ExternalInput }
}

pub fn register_all<C: Config>(engine: &mut Engine<C>, sh: &Arc<Shared>) {
    engine.register_executor::<Nm, _>(Arc::new(NmEx(sh.clone())));
    engine.register_executor::<Fw, _>(Arc::new(FwEx(sh.clone())));
    engine.register_executor::<Pj, _>(Arc::new(PjEx(sh.clone())));
    engine.register_executor::<Ex, _>(Arc::new(ExEx(sh.clone())));
}

// ------------------------------------------------------------------------------------------
// running ops on a real engine
// ------------------------------------------------------------------------------------------

/// Result of one op on the implementation, canonicalised.
#[derive(Clone, Debug, PartialEq, Eq)]
pub struct OpOut { pub vals: Vec<String>, pub execs: Vec<ExecRecord> }

pub async fn run_op<C: Config>(engine: &Arc<Engine<C>>, sh: &Arc<Shared>, op: &Op) -> OpOut {
    sh.log.lock().unwrap().clear();
    let mut vals = vec![];
    match op {
        Op::Session(ws) => {
            // world writes first (an external executor run by `refresh` sees the new world)
            for w in ws { if let Write::World(k, v) = w { sh.world.lock().unwrap().insert(*k, *v); } }
            let mut s = engine.input_session().await;
            for w in ws {
                match w {
                    Write::Set(k, v) => {
                        let r = s.set_input(In(*k), *v).await;
                        vals.push(format!("{r:?}"));
                    }
                    Write::Refresh => { s.refresh::<Ex>().await; vals.push("refreshed".into()); }
                    Write::World(..) => vals.push("world".into()),
                }
            }
            s.commit().await;
        }
        Op::Round(ks) => {
            let te = engine.clone().tracked().await;
            for k in ks { vals.push(query_key(sh, &te, *k).await.to_string()); }
            drop(te);
        }
    }
    let mut execs = sh.log.lock().unwrap().clone();
    if std::env::var("VERIF_TRACE").is_ok() { eprintln!("TRACE {} -> {:?}", op.render(), execs); }
    execs.sort();
    OpOut { vals, execs }
}

pub fn render_out(o: &OpOut, with_execs: bool) -> String {
    let mut s = o.vals.join(" ");
    s.push_str(" |");
    if with_execs {
        let mut ks: Vec<u32> = o.execs.iter().map(|e| e.key).collect(); ks.sort();
        for k in ks { s.push_str(&format!(" {k}")); }
    } else { s.push_str(" X"); }
    s
}

// ------------------------------------------------------------------------------------------
// oracle: from-scratch evaluation (acyclic: plain recursion; cyclic: the depth-first semantics of
// DESIGN §5.6) — independent of the Lean model
// ------------------------------------------------------------------------------------------

#[derive(Clone, Debug, Default)]
pub struct Truth { pub inputs: BTreeMap<u32, i64>, pub ext: BTreeMap<u32, i64> }

pub struct Scratch<'a> { pub p: &'a Program, pub t: &'a Truth, pub memo: BTreeMap<u32, i64>, pub stack: Vec<u32>, pub members: BTreeSet<u32>, pub reads: BTreeMap<u32, Vec<(u32, i64)>> }

impl<'a> Scratch<'a> {
    pub fn new(p: &'a Program, t: &'a Truth) -> Self { Scratch { p, t, memo: BTreeMap::new(), stack: vec![], members: BTreeSet::new(), reads: BTreeMap::new() } }

    /// Err(()) = the *reader* must abort (its read closed a cycle, or it was marked meanwhile)
    pub fn value(&mut self, k: u32) -> Result<i64, ()> {
        let n = &self.p.nodes[k as usize];
        match n.kind {
            Kind::Input => return Ok(*self.t.inputs.get(&k).expect("input not set")),
            Kind::External => return Ok(*self.t.ext.get(&k).unwrap_or(&0)),
            _ => {}
        }
        if let Some(v) = self.memo.get(&k) { return Ok(*v); }
        if let Some(pos) = self.stack.iter().position(|x| *x == k) {
            for m in &self.stack[pos..] { self.members.insert(*m); }
            return Err(());
        }
        self.stack.push(k);
        let mut reads = vec![];
        let r = self.eval(k, &n.expr.clone(), &mut reads);
        self.stack.pop();
        self.reads.insert(k, reads);
        let v = if self.members.contains(&k) { kind_default(n.kind) } else { match r { Ok(v) => v, Err(()) => unreachable!("abort without membership") } };
        self.memo.insert(k, v);
        Ok(v)
    }

    fn eval(&mut self, owner: u32, e: &Expr, reads: &mut Vec<(u32, i64)>) -> Result<i64, ()> {
        match e {
            Expr::Const(n) => Ok(*n),
            Expr::Read(k) => {
                let v = self.value(*k)?;
                reads.push((*k, v));
                if self.members.contains(&owner) { return Err(()); }
                Ok(v)
            }
            Expr::Add(a, b) => { let x = self.eval(owner, a, reads)?; let y = self.eval(owner, b, reads)?; Ok(x.wrapping_add(y)) }
            Expr::IfEq(c, n, a, b) => { let x = self.eval(owner, c, reads)?; if x == *n { self.eval(owner, a, reads) } else { self.eval(owner, b, reads) } }
            Expr::SumAll(ks) => { let mut s = 0i64; for k in ks { let v = self.value(*k)?; reads.push((*k, v)); if self.members.contains(&owner) { return Err(()); } s = s.wrapping_add(v); } Ok(s) }
            Expr::World(k) => Ok(*self.t.ext.get(k).unwrap_or(&0)),
            // the speculative read never contributes to the value
            Expr::Spec(_, body) => self.eval(owner, body, reads),
            Expr::Div(a, b) => { let x = self.eval(owner, a, reads)?; let y = self.eval(owner, b, reads)?; if y == 0 { panic!("ill-formed case: the from-scratch evaluation divides by zero"); } Ok(x.wrapping_div(y)) }
            Expr::Yield(body) => self.eval(owner, body, reads),
        }
    }
}

pub fn from_scratch(p: &Program, t: &Truth, k: u32) -> i64 { Scratch::new(p, t).value(k).expect("root cannot abort") }

// ------------------------------------------------------------------------------------------
// generators
// ------------------------------------------------------------------------------------------

pub struct GenCfg { pub max_keys: u32, pub max_ops: u32, pub firewalls: bool, pub externals: bool, pub unordered: bool, pub cycles: bool }

fn gen_expr(r: &mut Rng, pool: &[u32], depth: u32, unordered: bool) -> Expr {
    if pool.is_empty() { return Expr::Const(r.below(4) as i64); }
    let c = r.below(if depth == 0 { 3 } else { 10 });
    match c {
        0 => Expr::Const(r.below(5) as i64),
        1 | 2 => Expr::Read(*r.pick(pool)),
        3 | 4 | 5 => Expr::Add(Box::new(gen_expr(r, pool, depth - 1, unordered)), Box::new(gen_expr(r, pool, depth - 1, unordered))),
        6 | 7 | 8 => Expr::IfEq(Box::new(Expr::Read(*r.pick(pool))), r.below(4) as i64, Box::new(gen_expr(r, pool, depth - 1, unordered)), Box::new(gen_expr(r, pool, depth - 1, unordered))),
        _ => if unordered && pool.len() >= 2 { let n = r.range(2, 4.min(pool.len() as u64)); let mut ks: Vec<u32> = pool.to_vec(); r.shuffle(&mut ks); ks.truncate(n as usize); Expr::SumAll(ks) } else { Expr::Read(*r.pick(pool)) },
    }
}

pub fn gen_program(r: &mut Rng, cfg: &GenCfg) -> Program {
    let n = r.range(3, cfg.max_keys as u64) as u32;
    let n_in = r.range(1, 3.min(n as u64 - 1)) as u32;
    let mut nodes: Vec<NodeDef> = vec![];
    for k in 0..n {
        let kind = if k < n_in { if cfg.externals && k > 0 && r.chance(1, 5) { Kind::External } else { Kind::Input } } else {
            let fwpj_below: Vec<u32> = (0..k).filter(|j| matches!(nodes[*j as usize].kind, Kind::Firewall | Kind::Projection)).collect();
            let c = r.below(10);
            if cfg.firewalls && c < 2 { Kind::Firewall } else if cfg.firewalls && c < 4 && !fwpj_below.is_empty() { Kind::Projection } else { Kind::Normal }
        };
        let expr = match kind {
            Kind::Input => Expr::Const(0),
            Kind::External => Expr::World(k),
            Kind::Projection => {
                let mut pool: Vec<u32> = (0..k).filter(|j| matches!(nodes[*j as usize].kind, Kind::Firewall | Kind::Projection)).collect();
                if cfg.cycles && r.chance(1, 4) { pool.extend((k..n).filter(|_| false)); }
                gen_expr(r, &pool, 2, false)
            }
            _ => {
                let mut pool: Vec<u32> = (0..k).collect();
                if cfg.cycles { for j in k..n { if r.chance(1, 4) { pool.push(j); } } }
                { let d = 1 + r.below(3) as u32; let u = cfg.unordered && r.chance(1, 3); gen_expr(r, &pool, d, u) }
            }
        };
        nodes.push(NodeDef { kind, default: kind_default(kind), expr });
    }
    // with cycles allowed a forward reference may point at an input/external/projection: fine for
    // inputs/externals (leaves); a projection target is allowed for normal/firewall readers.
    // Projection nodes must only read firewall/projection nodes: forward refs were not added to them.
    Program { nodes }
}

pub fn gen_history(r: &mut Rng, p: &Program, cfg: &GenCfg) -> Vec<Op> {
    let inputs: Vec<u32> = (0..p.nodes.len() as u32).filter(|k| p.kind(*k) == Kind::Input).collect();
    let exts: Vec<u32> = (0..p.nodes.len() as u32).filter(|k| p.kind(*k) == Kind::External).collect();
    let n = p.nodes.len() as u32;
    let mut ops = vec![];
    // initial session sets every input (Fresh) and every world cell
    let mut ws: Vec<Write> = inputs.iter().map(|k| Write::Set(*k, r.below(4) as i64)).collect();
    for e in &exts { ws.push(Write::World(*e, r.below(4) as i64)); }
    ops.push(Op::Session(ws));
    let n_ops = r.range(2, cfg.max_ops as u64);
    let mut hist_vals: BTreeMap<u32, Vec<i64>> = BTreeMap::new();
    for _ in 0..n_ops {
        if r.chance(2, 5) {
            let mut ws = vec![];
            let m = r.below(4);
            for _ in 0..m {
                let c = r.below(10);
                if c < 7 || exts.is_empty() {
                    let k = *r.pick(&inputs);
                    let hv = hist_vals.entry(k).or_default();
                    let v = if !hv.is_empty() && r.chance(1, 3) { *r.pick(hv) } else { r.below(4) as i64 };
                    hv.push(v);
                    ws.push(Write::Set(k, v));
                } else if c < 9 { ws.push(Write::World(*r.pick(&exts), r.below(4) as i64)); } else { ws.push(Write::Refresh); }
            }
            if !exts.is_empty() && r.chance(1, 2) { ws.push(Write::Refresh); }
            ops.push(Op::Session(ws));
        } else {
            let m = r.range(1, 3);
            let ks: Vec<u32> = (0..m).map(|_| if r.chance(2, 3) { n - 1 - r.below(n.min(3) as u64) as u32 } else { r.below(n as u64) as u32 }).collect();
            ops.push(Op::Round(ks));
        }
    }
    ops.push(Op::Round(vec![n - 1]));
    ops
}


// ------------------------------------------------------------------------------------------
// targeted family: layered firewall programs with value-dependent switches between firewalls,
// driven by "well-behaved" histories (the same roots queried every epoch).  Exercises the
// transitive-firewall-callee bookkeeping: a dependency switching between two equal-valued
// firewalls under a chain of nodes that are only re-verified, projections over two firewalls of
// which one changes, a firewall above a firewall that does not change.
// ------------------------------------------------------------------------------------------

// ------------------------------------------------------------------------------------------
// targeted family (finding F1c): a projection that reads a SECOND firewall only for some values of
// a first one, with small value ranges so that the projection's value often does not change when
// its read set does; normal nodes above it that are only re-verified; the same root every epoch.
// ------------------------------------------------------------------------------------------

pub fn gen_pjswitch(r: &mut Rng) -> Case {
    let mut nodes: Vec<NodeDef> = vec![];
    let n_in = 2 + r.below(2) as u32;
    for _ in 0..n_in { nodes.push(NodeDef { kind: Kind::Input, default: 0, expr: Expr::Const(0) }); }
    let inputs: Vec<u32> = (0..n_in).collect();
    let mut fws = vec![];
    for i in 0..n_in.min(3) {
        fws.push(nodes.len() as u32);
        let e = if r.chance(1, 3) { Expr::IfEq(Box::new(Expr::Read(i)), r.below(3) as i64, Box::new(Expr::Const(1)), Box::new(Expr::Read(i))) } else { Expr::Read(i) };
        nodes.push(NodeDef { kind: Kind::Firewall, default: kind_default(Kind::Firewall), expr: e });
    }
    // the switching projection: if F_a == c then F_b else constant / F_a
    let a = fws[0]; let b = fws[1];
    let other = if r.chance(1, 2) { Expr::Const(r.below(3) as i64) } else { Expr::Read(a) };
    let pj = nodes.len() as u32;
    nodes.push(NodeDef { kind: Kind::Projection, default: kind_default(Kind::Projection), expr: Expr::IfEq(Box::new(Expr::Read(a)), r.below(3) as i64, Box::new(Expr::Read(b)), Box::new(other)) });
    let mut prev = pj;
    if r.chance(1, 3) {
        let k = nodes.len() as u32;
        nodes.push(NodeDef { kind: Kind::Projection, default: kind_default(Kind::Projection), expr: Expr::Read(prev) });
        prev = k;
    }
    let mut chain = vec![];
    for _ in 0..r.range(1, 3) {
        let k = nodes.len() as u32;
        nodes.push(NodeDef { kind: Kind::Normal, default: kind_default(Kind::Normal), expr: Expr::Read(prev) });
        chain.push(k); prev = k;
    }
    let top = prev;
    let p = Program { nodes };
    let mut ops = vec![Op::Session(inputs.iter().map(|k| Write::Set(*k, r.below(3) as i64)).collect())];
    ops.push(Op::Round(vec![top]));
    for _ in 0..r.range(3, 8) {
        let mut ws = vec![];
        for _ in 0..r.range(1, 2) { ws.push(Write::Set(*r.pick(&inputs), r.below(3) as i64)); }
        ops.push(Op::Session(ws));
        if r.chance(1, 5) { ops.push(Op::Round(vec![*r.pick(&chain)])); }
        ops.push(Op::Round(vec![top]));
    }
    Case { program: p, ops }
}

// ------------------------------------------------------------------------------------------
// stress family (mode `pjchain`): chains of projections over projections with value-dependent
// reads at every level, firewalls with tiny value ranges (A->B->A and coinciding values are
// common), several normal roots reading different levels; every round queries a random subset of
// the roots, so that projections are re-executed by query callers (pending flags that outlive
// epochs, dependencies dropped while pending) as well as by backward projection.
// ------------------------------------------------------------------------------------------

pub fn gen_pjchain(r: &mut Rng) -> Case {
    let mut nodes: Vec<NodeDef> = vec![];
    let n_in = 3 + r.below(2) as u32;
    for _ in 0..n_in { nodes.push(NodeDef { kind: Kind::Input, default: 0, expr: Expr::Const(0) }); }
    let inputs: Vec<u32> = (0..n_in).collect();
    let mut fws = vec![];
    for i in 0..n_in {
        fws.push(nodes.len() as u32);
        let e = match r.below(3) {
            0 => Expr::Read(i),
            1 => Expr::IfEq(Box::new(Expr::Read(i)), r.below(3) as i64, Box::new(Expr::Const(r.below(2) as i64)), Box::new(Expr::Read(i))),
            _ => Expr::IfEq(Box::new(Expr::Read(i)), r.below(3) as i64, Box::new(Expr::Const(1)), Box::new(Expr::Const(0))),
        };
        nodes.push(NodeDef { kind: Kind::Firewall, default: kind_default(Kind::Firewall), expr: e });
    }
    let mut pool: Vec<u32> = fws.clone();      // firewalls and projections so far
    let mut pjs: Vec<u32> = vec![];
    let n_pj = r.range(2, 5);
    for _ in 0..n_pj {
        let a = *r.pick(&pool); let b = *r.pick(&pool); let c = *r.pick(&pool);
        let other = match r.below(3) { 0 => Expr::Const(r.below(3) as i64), 1 => Expr::Read(c), _ => Expr::Read(a) };
        let e = match r.below(4) {
            0 => Expr::Read(*r.pick(&pool)),
            1 => Expr::Add(Box::new(Expr::Read(a)), Box::new(Expr::Read(b))),
            _ => Expr::IfEq(Box::new(Expr::Read(a)), r.below(3) as i64, Box::new(Expr::Read(b)), Box::new(other)),
        };
        let k = nodes.len() as u32;
        nodes.push(NodeDef { kind: Kind::Projection, default: kind_default(Kind::Projection), expr: e });
        pjs.push(k);
        // later projections prefer projections
        pool.push(k); pool.push(k);
    }
    let mut roots: Vec<u32> = vec![];
    let n_roots = r.range(2, 4);
    for _ in 0..n_roots {
        let a = *r.pick(&pjs);
        let e = match r.below(3) {
            0 => Expr::Read(a),
            1 => Expr::Add(Box::new(Expr::Read(a)), Box::new(Expr::Read(*r.pick(&pool)))),
            _ => { let below: Vec<u32> = roots.clone(); if below.is_empty() { Expr::Read(a) } else { Expr::Add(Box::new(Expr::Read(*r.pick(&below))), Box::new(Expr::Read(a))) } }
        };
        let k = nodes.len() as u32;
        nodes.push(NodeDef { kind: Kind::Normal, default: kind_default(Kind::Normal), expr: e });
        roots.push(k);
    }
    let p = Program { nodes };
    let mut ops = vec![Op::Session(inputs.iter().map(|k| Write::Set(*k, r.below(3) as i64)).collect())];
    // the first round computes only some of the roots: the others are fresh roots later
    ops.push(Op::Round(vec![*r.pick(&roots)]));
    for _ in 0..r.range(4, 10) {
        if r.chance(4, 5) {
            let mut ws = vec![];
            for _ in 0..r.range(1, 2) { ws.push(Write::Set(*r.pick(&inputs), r.below(3) as i64)); }
            ops.push(Op::Session(ws));
        }
        let mut ks = vec![];
        for _ in 0..r.range(1, 2) { ks.push(if r.chance(1, 6) { *r.pick(&pjs) } else { *r.pick(&roots) }); }
        ops.push(Op::Round(ks));
    }
    ops.push(Op::Round(roots.clone()));
    Case { program: p, ops }
}

pub fn gen_layered(r: &mut Rng) -> Case {
    let mut nodes: Vec<NodeDef> = vec![];
    let n_in = r.range(2, 4) as u32;
    for _ in 0..n_in { nodes.push(NodeDef { kind: Kind::Input, default: 0, expr: Expr::Const(0) }); }
    let inputs: Vec<u32> = (0..n_in).collect();
    // layer 1: firewalls over one input each, with a small range so that equal values are common
    let n_fw = r.range(2, 3) as u32;
    let mut fws = vec![];
    for _ in 0..n_fw {
        let i = *r.pick(&inputs[1..]);
        let e = match r.below(3) {
            0 => Expr::Read(i),
            1 => Expr::IfEq(Box::new(Expr::Read(i)), r.below(3) as i64, Box::new(Expr::Const(r.below(2) as i64)), Box::new(Expr::Const(r.below(2) as i64 + 1))),
            _ => Expr::Add(Box::new(Expr::Read(i)), Box::new(Expr::Const(r.below(2) as i64))),
        };
        fws.push(nodes.len() as u32);
        nodes.push(NodeDef { kind: Kind::Firewall, default: kind_default(Kind::Firewall), expr: e });
    }
    // optional projections over firewalls, optional firewall over a firewall
    let mut mids = fws.clone();
    if r.chance(1, 2) {
        let a = *r.pick(&fws); let b = *r.pick(&fws);
        mids.push(nodes.len() as u32);
        nodes.push(NodeDef { kind: Kind::Projection, default: kind_default(Kind::Projection), expr: Expr::Add(Box::new(Expr::Read(a)), Box::new(Expr::Read(b))) });
    }
    if r.chance(1, 3) {
        let a = *r.pick(&fws);
        mids.push(nodes.len() as u32);
        nodes.push(NodeDef { kind: Kind::Firewall, default: kind_default(Kind::Firewall), expr: Expr::IfEq(Box::new(Expr::Read(a)), r.below(3) as i64, Box::new(Expr::Const(0)), Box::new(Expr::Const(1))) });
    }
    // selector node: reads input 0 and then ONE of two middle nodes
    let a = *r.pick(&mids); let mut b = *r.pick(&mids); if b == a { b = mids[(mids.iter().position(|x| *x == a).unwrap() + 1) % mids.len()]; }
    let pick = nodes.len() as u32;
    nodes.push(NodeDef { kind: Kind::Normal, default: kind_default(Kind::Normal), expr: Expr::IfEq(Box::new(Expr::Read(0)), 0, Box::new(Expr::Read(a)), Box::new(Expr::Read(b))) });
    // chain of nodes that only pass the value on (they are re-verified, not re-executed, when it does not change)
    let mut prev = pick;
    let mut chain = vec![pick];
    for _ in 0..r.range(1, 3) {
        let k = nodes.len() as u32;
        let e = if r.chance(1, 3) { Expr::Add(Box::new(Expr::Read(prev)), Box::new(Expr::Const(r.below(2) as i64))) } else { Expr::Read(prev) };
        nodes.push(NodeDef { kind: Kind::Normal, default: kind_default(Kind::Normal), expr: e });
        chain.push(k); prev = k;
    }
    // sometimes an aggregator on top: an UNORDERED group over the chain's head and one or two siblings
    // that read an input directly but (almost) never change value — so the aggregator is verified, not
    // re-executed, while one member of the group reports a changed firewall set and another does not
    if r.chance(1, 2) {
        let mut ks = vec![prev];
        for _ in 0..r.range(1, 2) {
            let i = *r.pick(&inputs);
            let k = nodes.len() as u32;
            nodes.push(NodeDef { kind: Kind::Normal, default: kind_default(Kind::Normal),
                expr: Expr::IfEq(Box::new(Expr::Read(i)), 7, Box::new(Expr::Const(1)), Box::new(Expr::Const(0))) });
            ks.push(k);
        }
        r.shuffle(&mut ks);
        let agg = nodes.len() as u32;
        nodes.push(NodeDef { kind: Kind::Normal, default: kind_default(Kind::Normal), expr: Expr::SumAll(ks) });
        chain.push(agg);
        let k = nodes.len() as u32;
        nodes.push(NodeDef { kind: Kind::Normal, default: kind_default(Kind::Normal), expr: Expr::Read(agg) });
        chain.push(k); prev = k;
    }
    let top = prev;
    let p = Program { nodes };
    // history: the same root every epoch (sometimes also an inner node)
    let mut ops = vec![Op::Session(inputs.iter().map(|k| Write::Set(*k, r.below(3) as i64)).collect())];
    ops.push(Op::Round(vec![top]));
    for _ in 0..r.range(3, 8) {
        let mut ws = vec![];
        for _ in 0..r.range(1, 2) { ws.push(Write::Set(*r.pick(&inputs), r.below(3) as i64)); }
        ops.push(Op::Session(ws));
        if r.chance(1, 5) { ops.push(Op::Round(vec![*r.pick(&chain)])); }
        ops.push(Op::Round(vec![top]));
    }
    Case { program: p, ops }
}

// ------------------------------------------------------------------------------------------
// state digest (state-level tie of C01/C03): the engine's persistent bookkeeping of every key of the
// program, read through the read-only `qbice::verif::dump_node` hook and mapped back to integer keys.
// The Lean driver prints the same digest from the model state (`digest` in Driver/Engine.lean).
// ------------------------------------------------------------------------------------------

/// number of duplicate elements dropped from set-valued fields (backward edges, firewall sets) by `state_digest`
pub static STATE_DIGEST_DUPLICATES: std::sync::atomic::AtomicU64 = std::sync::atomic::AtomicU64::new(0);

#[cfg(qbice_verif)]
pub fn key_query_id(p: &Program, k: u32) -> qbice::query::QueryID {
    use qbice::{query::QueryID, stable_hash::{BuildStableHasher, SeededStableHasherBuilder, Sip128Hasher, StableHasher}};
    fn h<Q: StableHash>(q: &Q) -> qbice::stable_hash::Compact128 {
        let mut h = SeededStableHasherBuilder::<Sip128Hasher>::new(0).build_stable_hasher();
        q.stable_hash(&mut h);
        h.finish().into()
    }
    match p.kind(k) {
        Kind::Input => QueryID::new::<In>(h(&In(k))),
        Kind::Normal => QueryID::new::<Nm>(h(&Nm(k))),
        Kind::Firewall => QueryID::new::<Fw>(h(&Fw(k))),
        Kind::Projection => QueryID::new::<Pj>(h(&Pj(k))),
        Kind::External => QueryID::new::<Ex>(h(&Ex(k))),
    }
}

/// One line: for every key (ascending) that has a node,
/// `k:kind:v<0|1>:val=<stored value>:deps=[a,{b,c},d]:obs=[a,b!,c^]:dirty=[..]:tfc=[..]:pend=<0|1>:back=[..]`, joined by ` ; `.
/// `v1` = last_verified equals the current timestamp; `deps` in recorded order, `{..}` = unordered group (members in
/// recorded order); `obs` = callees with a recorded observation (sorted), `!` = the observed value fingerprint differs from
/// the callee's current one, `^` = the observed firewall-set fingerprint differs from the callee's current one;
/// `dirty` = every key c such that the edge (k,c) is in the dirty set (recorded forward edge or not); `back` = callers.
/// A QueryID that is not a key of the program prints as `?`.
#[cfg(qbice_verif)]
pub async fn state_digest<C: Config>(engine: &Arc<Engine<C>>, p: &Program) -> String { state_digest_opts(engine, p, true, 1).await }

/// `all_pairs_dirty = false` (programs with hundreds of keys): `dirty` lists the dirty RECORDED forward edges only;
/// `stride > 1`: only the keys 0..4 and every `stride`-th key are dumped (their set-valued fields are complete)
#[cfg(qbice_verif)]
pub async fn state_digest_opts<C: Config>(engine: &Arc<Engine<C>>, p: &Program, all_pairs_dirty: bool, stride: u32) -> String {
    use qbice::verif::{DumpDependency, dump_node, current_timestamp, is_edge_dirty, stored_value};
    let n = p.nodes.len() as u32;
    let ids: Vec<qbice::query::QueryID> = (0..n).map(|k| key_query_id(p, k)).collect();
    let rev: std::collections::HashMap<qbice::query::QueryID, u32> = ids.iter().enumerate().map(|(k, id)| (*id, k as u32)).collect();
    let name = |id: &qbice::query::QueryID| rev.get(id).map(|k| k.to_string()).unwrap_or_else(|| "?".into());
    // sets are printed sorted and WITHOUT multiplicity (the iterator of a backward-edge set that is streamed from the store
    // can yield an element more than once: store scan + staged re-insert; counted in STATE_DIGEST_DUPLICATES)
    let sorted = |v: &[qbice::query::QueryID]| { let mut ks: Vec<(u32, String)> = v.iter().map(|id| (rev.get(id).copied().unwrap_or(u32::MAX), name(id))).collect(); ks.sort(); let n0 = ks.len(); ks.dedup();
        STATE_DIGEST_DUPLICATES.fetch_add((n0 - ks.len()) as u64, std::sync::atomic::Ordering::Relaxed);
        ks.into_iter().map(|x| x.1).collect::<Vec<_>>().join(",") };
    let now = current_timestamp(engine);
    let mut dumps = vec![];
    for k in 0..n { dumps.push(if stride <= 1 || k < 4 || k % stride == 0 { dump_node(engine, &ids[k as usize]).await } else { None }); }
    let mut parts = vec![];
    for k in 0..n {
        let Some(d) = &dumps[k as usize] else { continue };
        let kind = match d.kind { None => "?", Some(None) => "in", Some(Some(ExecutionStyle::Normal)) => "nm", Some(Some(ExecutionStyle::Firewall)) => "fw",
            Some(Some(ExecutionStyle::Projection)) => "pj", Some(Some(ExecutionStyle::ExternalInput)) => "ex" };
        let id = &ids[k as usize];
        let val = match p.kind(k) {
            Kind::Input => stored_value::<C, In>(engine, id).await, Kind::Normal => stored_value::<C, Nm>(engine, id).await,
            Kind::Firewall => stored_value::<C, Fw>(engine, id).await, Kind::Projection => stored_value::<C, Pj>(engine, id).await,
            Kind::External => stored_value::<C, Ex>(engine, id).await };
        let deps = d.forward_edges.as_ref().map(|f| f.iter().map(|dep| match dep {
            DumpDependency::Single(x) => name(x),
            DumpDependency::Unordered(xs) => format!("{{{}}}", xs.iter().map(|x| name(x)).collect::<Vec<_>>().join(",")),
        }).collect::<Vec<_>>().join(",")).unwrap_or_else(|| "-".into());
        let obs = match &d.observations {
            None => "-".to_string(),
            Some(os) => {
                let mut v: Vec<(u32, String)> = vec![];
                for o in os {
                    let ck = rev.get(&o.callee).copied();
                    let fetched = match ck { Some(c) if stride > 1 && dumps[c as usize].is_none() => dump_node(engine, &o.callee).await, _ => None };
                    let cd = fetched.as_ref().or_else(|| ck.and_then(|c| dumps[c as usize].as_ref()));
                    let mut s = name(&o.callee);
                    if cd.and_then(|c| c.value_fingerprint) != Some(o.seen_value_fingerprint) { s.push('!'); }
                    if cd.and_then(|c| c.transitive_firewall_callees_fingerprint) != Some(o.seen_transitive_firewall_callees_fingerprint) { s.push('^'); }
                    v.push((ck.unwrap_or(u32::MAX), s));
                }
                v.sort();
                v.into_iter().map(|x| x.1).collect::<Vec<_>>().join(",")
            }
        };
        let mut dirty = vec![];
        if all_pairs_dirty { for c in 0..n { if is_edge_dirty(engine, id, &ids[c as usize]).await { dirty.push(c.to_string()); } } }
        else { let mut ks: Vec<u32> = d.dirty_forward_edges.iter().filter_map(|x| rev.get(x).copied()).collect(); ks.sort(); ks.dedup(); dirty = ks.into_iter().map(|c| c.to_string()).collect(); }
        parts.push(format!("{k}:{kind}:v{}:val={}:deps=[{deps}]:obs=[{obs}]:dirty=[{}]:tfc=[{}]:pend={}:back=[{}]",
            if d.last_verified == Some(now) { 1 } else { 0 },
            val.map(|v| v.to_string()).unwrap_or_else(|| "-".into()),
            dirty.join(","),
            d.transitive_firewall_callees.as_ref().map(|t| sorted(t)).unwrap_or_else(|| "-".into()),
            if d.pending_backward_projection.is_some() { 1 } else { 0 },
            sorted(&d.backward_edges)));
    }
    parts.join(" ; ")
}

// ------------------------------------------------------------------------------------------
// state-invariant oracle on a digest (model-free consequences of the proved engine invariant), for runs that have no
// model run (fault injection C05, crash prefixes / restarts C08 / C07, concurrent rounds C02); acyclic programs.
//   value: every node verified in the current epoch (`v1`) stores the from-scratch value for the committed inputs
//   back:  the backward-edge sets are exactly the inverse of the recorded dependencies
//   tfc:   for every `v1` node, tfc = union over its recorded deps d of ({d} if d is a firewall else tfc(d)); [] for inputs / externals
// The same digests are written, as `#D <digest>` lines after the op lines of a case, for the Lean checker `drv_engine inv`.
// ------------------------------------------------------------------------------------------

#[derive(Clone, Debug, Default)]
pub struct DigestNode { pub kind: String, pub verified: bool, pub val: Option<i64>, pub deps: Vec<u32>, pub dirty: Vec<u32>, pub tfc: Vec<u32>, pub pend: bool, pub back: Vec<u32> }

pub fn parse_digest(d: &str) -> BTreeMap<u32, DigestNode> {
    let list = |s: &str| -> Vec<u32> { s.trim_start_matches(|c| c != '[').trim_start_matches('[').trim_end_matches(']').split(',').map(|x| x.trim_matches(|c| c == '{' || c == '}')).filter(|x| !x.is_empty() && *x != "-" && *x != "?").filter_map(|x| x.parse().ok()).collect() };
    let mut out = BTreeMap::new();
    for part in d.split(" ; ") {
        let f: Vec<&str> = part.trim().split(':').collect();
        if f.len() < 10 { continue; }
        let Ok(k) = f[0].parse::<u32>() else { continue };
        out.insert(k, DigestNode { kind: f[1].to_string(), verified: f[2] == "v1", val: f[3].strip_prefix("val=").and_then(|x| x.parse().ok()), deps: list(f[4]), dirty: list(f[6]), tfc: list(f[7]), pend: f[8] == "pend=1", back: list(f[9]) });
    }
    out
}

/// every read of every executor goes to a lower key
pub fn is_acyclic(p: &Program) -> bool {
    p.nodes.iter().enumerate().all(|(k, n)| { let mut r = vec![]; n.expr.reads(&mut r); r.iter().all(|x| (*x as usize) < k) })
}

/// `value_of(k)`: the from-scratch value of key k for the committed inputs, None = not defined / not known (not judged).
/// Returns (which, description) for every violated consequence (at most one per kind and node).
pub fn state_invariant_check(p: &Program, digest: &str, value_of: &dyn Fn(u32) -> Option<i64>) -> Vec<(&'static str, String)> {
    let nodes = parse_digest(digest);
    let mut out = vec![];
    let acyclic = is_acyclic(p);
    for (k, n) in &nodes {
        if n.verified { if let (Some(v), Some(e)) = (n.val, value_of(*k)) { if v != e { out.push(("value", format!("node {k} is verified in the current epoch but stores {v}; the from-scratch value for the committed inputs is {e}"))); } } }
        for c in &n.deps {
            match nodes.get(c) { None => out.push(("back", format!("node {k} records the dependency {c}, which has no node"))),
                Some(cn) => if !cn.back.contains(k) { out.push(("back", format!("node {k} records the dependency {c}, but {k} is not in the backward-edge set of {c} ({:?})", cn.back))); } }
        }
        for c in &n.back {
            match nodes.get(c) { None => out.push(("back", format!("the backward-edge set of {k} contains {c}, which has no node"))),
                Some(cn) => if !cn.deps.contains(k) { out.push(("back", format!("the backward-edge set of {k} contains {c}, but {c} records the dependencies {:?}", cn.deps))); } }
        }
        if acyclic && n.verified {
            let mut exp: BTreeSet<u32> = BTreeSet::new();
            let mut known = true;
            for d in &n.deps { match nodes.get(d) { Some(dn) => { if dn.kind == "fw" { exp.insert(*d); } else { exp.extend(dn.tfc.iter().copied()); } } None => known = false } }
            let got: BTreeSet<u32> = n.tfc.iter().copied().collect();
            if known && got != exp { out.push(("tfc", format!("node {k} (verified) has the transitive firewall set {:?}; its recorded dependencies {:?} give {:?}", got, n.deps, exp))); }
        }
    }
    out
}

/// the inputs / external values a digest shows (stored value of every `in` / `ex` node)
pub fn digest_leaf_values(digest: &str) -> BTreeMap<u32, i64> {
    parse_digest(digest).into_iter().filter(|(_, n)| n.kind == "in" || n.kind == "ex").filter_map(|(k, n)| n.val.map(|v| (k, v))).collect()
}
