/-
Line-protocol driver over the TypeId model (C14).  One output line per input line.

  U <i> <type expr>        → `<id hex> <render of universe[i]>`      | out-of-range
  T <type expr>            → `<id hex>` of the parsed expression      | err:parse | err:type
  N <hex bytes | ->        → `<id hex>` = from_unique_type_name(bytes)
  C <ahi> <alo> <bhi> <blo>→ `<id hex>` = StableTypeID(ahi,alo).combine(StableTypeID(bhi,blo))
  Q <khi> <klo> <type expr>→ `<sti.low> <sti.high> <hash.low> <hash.high> <stable_type_id() hex>` of
                              QueryID::new::<T>(Compact128(klo, khi))
  anything else            → bad-op

type expr (tokens separated by one blank):  key | #n | ( key expr … )
-/
import QbiceVerif.Model.TypeId
import QbiceVerif.Gen.TypeIdTable

open QbiceVerif.TypeId QbiceVerif.TypeId.Gen

def hexVal (c : Char) : Option Nat :=
  if '0' ≤ c ∧ c ≤ '9' then some (c.toNat - '0'.toNat)
  else if 'a' ≤ c ∧ c ≤ 'f' then some (c.toNat - 'a'.toNat + 10)
  else none

def parseHex (s : String) : Option Nat :=
  if s.isEmpty then none else
  s.toList.foldl (fun acc c => match acc, hexVal c with
    | some a, some d => some (a * 16 + d)
    | _, _ => none) (some 0)

def parseHexBytes (s : String) : Option (List Nat) :=
  if s == "-" then some [] else
  let rec go : List Char → Option (List Nat)
    | [] => some []
    | [_] => none
    | a :: b :: r => match hexVal a, hexVal b, go r with
      | some x, some y, some t => some ((x * 16 + y) :: t)
      | _, _, _ => none
  go s.toList

def keyIndex (tbl : List Ctor) (k : String) : Option Nat :=
  let rec go : List Ctor → Nat → Option Nat
    | [], _ => none
    | c :: r, n => if c.key == k then some n else go r (n + 1)
  go tbl 0

mutual
def parseTy (tbl : List Ctor) : Nat → List String → Option (Ty × List String)
  | 0, _ => none
  | _ + 1, [] => none
  | f + 1, tok :: rest =>
    if tok == "(" then
      match rest with
      | k :: rest' =>
        match keyIndex tbl k, parseArgs tbl f rest' with
        | some c, some (args, rest'') =>
          match args with
          | .nil => none              -- `( key )` is not canonical
          | _ => some (.con c args, rest'')
        | _, _ => none
      | [] => none
    else if tok == ")" then none
    else
      match tok.toList with
      | '#' :: ds => match (String.ofList ds).toNat? with
        | some n => some (.lit n, rest)
        | none => none
      | _ => match keyIndex tbl tok with
        | some c => some (.con c .nil, rest)
        | none => none
def parseArgs (tbl : List Ctor) : Nat → List String → Option (TyList × List String)
  | 0, _ => none
  | _ + 1, [] => none
  | f + 1, tok :: rest =>
    if tok == ")" then some (.nil, rest)
    else match parseTy tbl f (tok :: rest) with
      | some (t, r) => match parseArgs tbl f r with
        | some (ts, r') => some (.cons t ts, r')
        | none => none
      | none => none
end

def parseWhole (toks : List String) : Option Ty :=
  match parseTy ctorTable (toks.length + 1) toks with
  | some (t, []) => some t
  | _ => none

def hex16 (n : Nat) : String := hexFixed 16 n

def answer (uni : Array Ty) (line : String) : String :=
  match line.splitOn " " with
  | "U" :: i :: _ =>
    match i.toNat? with
    | some n =>
      match uni[n]? with
      | some t =>
        match typeId? ctorTable t with
        | some id => Id.hex id ++ " " ++ t.render ctorTable
        | none => "err:type " ++ t.render ctorTable
      | none => "out-of-range"
    | none => "bad-op"
  | "T" :: toks =>
    match parseWhole toks with
    | some t => match typeId? ctorTable t with
      | some id => Id.hex id
      | none => "err:type"
    | none => "err:parse"
  | ["N", h] =>
    match parseHexBytes h with
    | some bs => Id.hex (fromName bs)
    | none => "bad-op"
  | ["C", a, b, c, d] =>
    match parseHex a, parseHex b, parseHex c, parseHex d with
    | some a, some b, some c, some d =>
      if a < M ∧ b < M ∧ c < M ∧ d < M then Id.hex (combine (a, b) (c, d)) else "bad-op"
    | _, _, _, _ => "bad-op"
  | "Q" :: khi :: klo :: toks =>
    match parseHex khi, parseHex klo, parseWhole toks with
    | some khi, some klo, some t =>
      if khi < M ∧ klo < M then
        match typeId? ctorTable t with
        | some id =>
          let q := QueryId.new id (klo, khi)
          hex16 q.stableTypeId.1 ++ " " ++ hex16 q.stableTypeId.2 ++ " " ++ hex16 q.hash128.1 ++ " " ++
            hex16 q.hash128.2 ++ " " ++ Id.hex q.typeId
        | none => "err:type"
      else "bad-op"
    | _, _, none => "err:parse"
    | _, _, _ => "bad-op"
  | _ => "bad-op"

partial def loop (uni : Array Ty) (stdin stdout : IO.FS.Stream) : IO Unit := do
  let line ← stdin.getLine
  if line.isEmpty then return
  let l := if line.endsWith "\n" then (line.dropEnd 1).toString else line
  stdout.putStrLn (answer uni l)
  loop uni stdin stdout

def main : IO Unit := do
  let stdin ← IO.getStdin
  let stdout ← IO.getStdout
  loop typeUniverse.toArray stdin stdout
  stdout.flush
