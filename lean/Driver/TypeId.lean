-- line-protocol driver stub (TypeId); replaced when the model exists
def main : IO Unit := IO.println "stub"
