import QbiceVerif.Model.PhaseLts

/-!
Line-protocol driver for C04 (trace validation against `Model/PhaseLts`).

A case is a block of lines
```
case <idx> <ct|mt> <asis|fixed> e0 <epoch> [strict]
in <k> <v>                     initial value of input key k
dv <k> <expr>                  derived key k  (c n | r k | + a b | ? e n a b | S n k…)
task <t> (R n (isIn k)* | S n (k v)* (c|d))*
ev <lo> <hi> <t> <name> <a> <b>
end
```
Every line is answered with one line: `ok` (or `bad-op`), and `end` with the verdict: `accepted` if the
events — each placed somewhere inside its window `(lo, hi]` (a `req` event: anywhere after `lo` and before
the task's next event, see `delayable`), events of one task in order, an event whose window closed before
another's opened first — can be fired one after the other through `step`; otherwise
`rejected …`.  `ct`: FIFO lock, grants are applied eagerly after every event (what tokio does inside
release/acquire).  `mt`: the queue order is not observable (the emission of `req` is not atomic with the
enqueue), so the lock is the unfair one and a grant is fired just before the `acq` it enables.
-/

open QbiceVerif.Phase

namespace PhaseDriver

structure TEv where
  lo : Nat
  hi : Nat
  task : Nat
  ev : Ev
  txt : String

structure Case where
  idx : String := ""
  fair : Bool := true
  lockFirst : Bool := false
  e0 : Nat := 0
  inputs : List (Nat × Int) := []
  exprs : List (Nat × Expr) := []
  scripts : List (Nat × List Op) := []
  evs : Array TEv := #[]
  bad : Bool := false
  /-- `req` hooks are atomic with the enqueue (current-thread runtime, no seeded yields, no gates) -/
  strict : Bool := false

def parseInt? (s : String) : Option Int :=
  if s.startsWith "-" then (s.drop 1).toString.toNat?.map (fun n => - (Int.ofNat n)) else s.toNat?.map Int.ofNat

/-- parses one expression from the token list; returns the rest -/
partial def parseExpr : List String → Option (Expr × List String)
  | "c" :: n :: rest => (parseInt? n).map (fun n => (.const n, rest))
  | "r" :: k :: rest => k.toNat?.map (fun k => (.read k, rest))
  | "+" :: rest => do
    let (a, r1) ← parseExpr rest
    let (b, r2) ← parseExpr r1
    pure (.add a b, r2)
  | "?" :: rest => do
    let (c, r1) ← parseExpr rest
    match r1 with
    | n :: r2 =>
      let n ← parseInt? n
      let (a, r3) ← parseExpr r2
      let (b, r4) ← parseExpr r3
      pure (.ifEq c n a b, r4)
    | [] => none
  | "S" :: n :: rest => do
    let n ← n.toNat?
    if rest.length < n then none else
    let ks ← (rest.take n).mapM String.toNat?
    pure (.sumAll ks, rest.drop n)
  | _ => none

partial def parseScript : List String → Option (List Op)
  | [] => some []
  | "R" :: n :: rest => do
    let n ← n.toNat?
    if rest.length < 2 * n then none else
    let rec keys : Nat → List String → Option (List (Bool × Nat))
      | 0, _ => some []
      | m + 1, i :: k :: r => do
        let k ← k.toNat?
        let tl ← keys m r
        if i == "1" then pure ((true, k) :: tl) else if i == "0" then pure ((false, k) :: tl) else none
      | _, _ => none
    let ks ← keys n rest
    let tl ← parseScript (rest.drop (2 * n))
    pure (.round ks :: tl)
  | "S" :: n :: rest => do
    let n ← n.toNat?
    if rest.length < 2 * n + 1 then none else
    let rec sets : Nat → List String → Option (List (Nat × Int))
      | 0, _ => some []
      | m + 1, k :: v :: r => do
        let k ← k.toNat?
        let v ← parseInt? v
        let tl ← sets m r
        pure ((k, v) :: tl)
      | _, _ => none
    let ws ← sets n rest
    let kind ← match (rest.drop (2 * n)).head? with
      | some "c" => some CommitKind.commit
      | some "d" => some CommitKind.drop
      | _ => none
    let tl ← parseScript (rest.drop (2 * n + 1))
    pure (.session ws kind :: tl)
  | _ => none

def parseEv (t : Nat) (name : String) (a b : Int) : Option Ev :=
  match name with
  | "rReq" => some (.rReq t)
  | "rAcq" => some (.rAcq t)
  | "rSample" => some (.rSample t a.toNat)
  | "rQuery" => some (.rQuery t a.toNat b)
  | "rRel" => some (.rRel t)
  | "wBatch" => some (.wStep t .batch 0)
  | "wBump" => some (.wStep t .bump a.toNat)
  | "wStage" => some (.wStep t .stage a.toNat)
  | "wReq" => some (.wStep t .req 0)
  | "wAcq" => some (.wStep t .acq 0)
  | "wSet" => some (.wSet t a.toNat b)
  | "wCommit" => some (.wCommit t)
  | "wDrop" => some (.wDrop t)
  | "cProp" => some (.cPropagate t)
  | "cSub" => some (.cSubmit t)
  | "cRel" => some (.cRel t)
  | "wDone" => some (.wDone t)
  | _ => none

/-- grants applied eagerly, FIFO: what tokio's semaphore does inside `release` / `acquire` -/
def drain (s : State) : Nat → State
  | 0 => s
  | fuel + 1 =>
    match s.lock.queue with
    | [] => s
    | p :: _ => if s.lock.grantable true p.1 then drain { s with lock := s.lock.grant p.1 } fuel else s

def fire (c : Cfg) (s : State) (e : Ev) : Option State :=
  if c.fair then (step c s e).map (fun s' => drain s' (s'.lock.queue.length + 1))
  else
    let jit (t : Nat) : State := if s.lock.grantable false t then { s with lock := s.lock.grant t } else s
    match e with
    | .rAcq t => step c (jit t) e
    | .wStep t .acq _ => step c (jit t) e
    | _ => step c s e

structure SS where
  budget : Nat
  best : Nat
  stuck : String

/-- `req` events (`phase:r:req`, `phase:w:req`) are emitted *before* the poll of `read_owned()` /
`write_owned()` that enqueues the task, so the enqueue happens at some point after the emission and before
the task's next event (its `acq`); any await between the hook and the poll (another hook's pause, a
pre-emption) lets other tasks get in first.  Such an event is therefore *delayable*: it does not force
later-emitted events of other tasks to wait for it.  (Every other event is emitted after its step.)
`strict` (case header token; the harness sets it for the starvation family on the current-thread runtime, where no
yield is seeded at any pause and no gate is placed): nothing awaits between the hook and the poll and nothing runs
in parallel, so the `req` takes effect where it is emitted — the FIFO queue order is then observable, and a reader
admitted in front of a writer that asked first is rejected. -/
def delayable (strict : Bool) : Ev → Bool
  | .rReq _ => !strict
  | .wStep _ .req _ => !strict
  | _ => false

/-- candidates to be fired next, in emission order: every pending event that is the first of its task and
whose window opened before the first non-delayable pending event closed (that event itself included) -/
def candidates (strict : Bool) (pending : List TEv) : List TEv :=
  let barrier : Option Nat := (pending.find? (fun x => !delayable strict x.ev)).map (·.hi)
  let rec go (seen : List Nat) : List TEv → List TEv
    | [] => []
    | x :: xs =>
      if seen.contains x.task then go seen xs
      else
        let ok := match barrier with
          | none => true
          | some b => x.hi == b || x.lo < b
        if ok then x :: go (x.task :: seen) xs else go (x.task :: seen) xs
  go [] pending

partial def lin (c : Cfg) (strict : Bool) (s : State) (pending : List TEv) (depth : Nat) : StateM SS Bool := do
  match pending with
  | [] => return true
  | first :: _ =>
    let st ← get
    if st.budget = 0 then return false
    set { st with budget := st.budget - 1 }
    for x in candidates strict pending do
      match fire c s x.ev with
      | some s' =>
        let ok ← lin c strict s' (pending.filter (fun y => y.hi != x.hi)) (depth + 1)
        if ok then return true
      | none => pure ()
    modify fun st => if depth ≥ st.best then { st with best := depth, stuck := first.txt } else st
    return false

def lookupD {α : Type} (l : List (Nat × α)) (k : Nat) : Option α := (l.find? (fun p => p.1 == k)).map (·.2)

def verdict (cs : Case) : String :=
  if cs.bad then "rejected bad-case" else
  let prog : Nat → Option Expr := fun k => lookupD cs.exprs k
  let inp : Inputs := fun k => (lookupD cs.inputs k).getD 0
  -- every key of every script must be defined (never a default)
  let okKeys := cs.scripts.all fun (_, ops) => ops.all fun
    | .round ks => ks.all fun (isIn, k) => if isIn then (lookupD cs.inputs k).isSome else (prog k).isSome
    | .session ws _ => ws.all fun (k, _) => (lookupD cs.inputs k).isSome
  if !okKeys then "rejected undefined-key" else
  let n := cs.scripts.foldl (fun m p => max m (p.1 + 1)) 0
  let scripts : List (List Op) := (List.range n).map fun t => (lookupD cs.scripts t).getD []
  let c : Cfg := { lockFirst := cs.lockFirst, fair := cs.fair, exec := progExec prog }
  let s0 := init cs.e0 inp scripts
  let pending := (cs.evs.qsort (fun a b => a.hi < b.hi)).toList
  let (ok, st) := (lin c (cs.strict && cs.fair) s0 pending 0).run { budget := 120000, best := 0, stuck := "" }
  if ok then "accepted"
  else if st.budget = 0 then "lin-budget"
  else s!"rejected after {st.best} of {pending.length} events at: {st.stuck}"

def handle (cs : Case) (line : String) : Case × String :=
  let toks := (line.trimAscii.toString.splitOn " ").filter (· ≠ "")
  match toks with
  | ["case", idx, mode, order, "e0", e0] =>
    match e0.toNat?, (mode == "ct" || mode == "mt"), (order == "asis" || order == "fixed") with
    | some e0, true, true => ({ idx := idx, fair := mode == "ct", lockFirst := order == "fixed", e0 := e0 }, "ok")
    | _, _, _ => ({ bad := true }, "bad-op")
  | ["case", idx, "ct", order, "e0", e0, "strict"] =>
    match e0.toNat?, (order == "asis" || order == "fixed") with
    | some e0, true => ({ idx := idx, fair := true, lockFirst := order == "fixed", e0 := e0, strict := true }, "ok")
    | _, _ => ({ bad := true }, "bad-op")
  | ["in", k, v] =>
    match k.toNat?, parseInt? v with
    | some k, some v => ({ cs with inputs := (k, v) :: cs.inputs }, "ok")
    | _, _ => ({ cs with bad := true }, "bad-op")
  | "dv" :: k :: rest =>
    match k.toNat?, parseExpr rest with
    | some k, some (e, []) => ({ cs with exprs := (k, e) :: cs.exprs }, "ok")
    | _, _ => ({ cs with bad := true }, "bad-op")
  | "task" :: t :: rest =>
    match t.toNat?, parseScript rest with
    | some t, some ops => ({ cs with scripts := (t, ops) :: cs.scripts }, "ok")
    | _, _ => ({ cs with bad := true }, "bad-op")
  | ["ev", lo, hi, t, name, a, b] =>
    match lo.toNat?, hi.toNat?, t.toNat?, parseInt? a, parseInt? b with
    | some lo, some hi, some t, some a, some b =>
      match parseEv t name a b with
      | some e =>
        -- the commit steps of a session are their own actor: after a plain drop they run in a spawned task,
        -- concurrently with the owner's next operations (the model orders them through the session's pc)
        let actor := match e with
          | .cPropagate _ | .cSubmit _ | .cRel _ => t + 1000000
          | _ => t
        ({ cs with evs := cs.evs.push ⟨lo, hi, actor, e, line⟩ }, "ok")
      | none => ({ cs with bad := true }, "bad-op")
    | _, _, _, _, _ => ({ cs with bad := true }, "bad-op")
  | ["end"] => ({}, verdict cs)
  | _ => ({ cs with bad := true }, "bad-op")

partial def loop (h : IO.FS.Stream) (out : IO.FS.Stream) (cs : Case) : IO Unit := do
  let line ← h.getLine
  if line.isEmpty then return
  let (cs', o) := handle cs (line.trimAscii.toString)
  out.putStrLn o
  loop h out cs'

end PhaseDriver

def main : IO Unit := do
  let stdin ← IO.getStdin
  let stdout ← IO.getStdout
  PhaseDriver.loop stdin stdout {}
