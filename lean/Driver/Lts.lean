-- line-protocol driver stub (Lts); replaced when the model exists
def main : IO Unit := IO.println "stub"
