import QbiceVerif.Model.EngineLts
import Std.Data.HashMap

/-!
Line-protocol driver over the C02 models (`Model/EngineLts.lean`).

## `ct …` — computing-table traces (hook events of the real engine, in emission order)

The hooks carry a query id and an instance id but no task identity, so the events are replayed
through `CT.kStep`, the shared state of the `CT` model restricted to one key.  An event that is not
enabled is answered `REJECT …` (a correspondence failure); the state is then left unchanged.

    ct begin               -> ok        fresh engine
    ct epoch               -> ok        an input session was committed while no query was alive
    ct miss|hit|none <k>   -> ok
    ct vacant|reg|done <k> <g>  -> ok
    ct publish|woken <k>   -> ok
    ct end                 -> ok

## `ts …` — the tiered set

    ts new <T> asis|fixed  -> ok
    ts ins|rem <t> <x>     -> true|false      whole operation run to completion
    ts len <t>             -> <n>
    ts iter <t>            -> sorted elements, `-` when empty
    ts ev <t> ins <x>      -> ret true|false | pending
    ts ev <t> publish|upgrade -> ret true|false
    ts ev <t> rem <x>      -> ret true|false

Unknown / malformed line -> `bad-op`.
-/

open QbiceVerif.Lts

structure Drv where
  keys : Std.HashMap Nat CT.KeyState := {}
  ts : Option TS.State := none
  rejects : Nat := 0
  ctEvents : Nat := 0
  tsOps : Nat := 0

def insertSorted (x : Nat) : List Nat → List Nat
  | [] => [x]
  | y :: ys => if x ≤ y then x :: y :: ys else y :: insertSorted x ys

def sortNat (l : List Nat) : List Nat := l.foldl (fun acc x => insertSorted x acc) []

def showRet : TS.Ret → String
  | .bool b => if b then "true" else "false"
  | .nat n => toString n
  | .list l => if l.isEmpty then "-" else " ".intercalate ((sortNat l).map toString)

def showKs (ks : CT.KeyState) : String :=
  s!"verified={ks.verified} entry={ks.entry} unnotified={ks.unnotified} pool={ks.pool}"

def ctKey (d : Drv) (k : Nat) (ev : CT.KEv) (name : String) : Drv × String :=
  let ks := d.keys.getD k {}
  match CT.kStep ks ev with
  | some ks' => ({ d with keys := d.keys.insert k ks', ctEvents := d.ctEvents + 1 }, "ok")
  | none => ({ d with rejects := d.rejects + 1, ctEvents := d.ctEvents + 1 }, s!"REJECT {name} key={k} {showKs ks}")

def ctAll (d : Drv) (ev : CT.KEv) (name : String) : Drv × String :=
  let r := d.keys.fold (init := (({} : Std.HashMap Nat CT.KeyState), (none : Option String))) fun (acc, bad) k ks =>
    match CT.kStep ks ev with
    | some ks' => (acc.insert k ks', bad)
    | none => (acc.insert k ks, match bad with | none => some s!"REJECT {name} key={k} {showKs ks}" | b => b)
  match r.2 with
  | none => ({ d with keys := r.1 }, "ok")
  | some m => ({ d with rejects := d.rejects + 1 }, m)

/-- run a whole operation of thread `t` to completion -/
def tsWhole (s : TS.State) (t : Nat) (ev : TS.Ev) : Option (TS.State × TS.Ret) :=
  match TS.step s ev with
  | none => none
  | some (s', some r) => some (s', r)
  | some (s', none) =>
    match s'.pc t with
    | .publish _ _ _ =>
      match TS.step s' (.publish t) with
      | some (s'', some r) => some (s'', r)
      | _ => none
    | .upgrade _ =>
      match TS.step s' (.upgrade t) with
      | some (s'', some r) => some (s'', r)
      | _ => none
    | _ => none

def tsEv (d : Drv) (s : TS.State) (ev : TS.Ev) : Drv × String :=
  match TS.step s ev with
  | none => ({ d with rejects := d.rejects + 1 }, "REJECT not-enabled")
  | some (s', some r) => ({ d with ts := some s', tsOps := d.tsOps + 1 }, s!"ret {showRet r}")
  | some (s', none) => ({ d with ts := some s', tsOps := d.tsOps + 1 }, "pending")

def handle (d : Drv) (line : String) : Drv × String :=
  let toks := (line.trimAscii.toString.splitOn " ").filter (· ≠ "")
  match toks with
  | ["ct", "begin"] => ({ d with keys := {} }, "ok")
  | ["ct", "epoch"] => ctAll d .epoch "epoch"
  | ["ct", "end"] => ctAll d .end_ "end"
  | ["ct", ev, k] =>
    match k.toNat? with
    | none => (d, "bad-op")
    | some k =>
      match ev with
      | "miss" => ctKey d k .miss ev
      | "hit" => ctKey d k .hit ev
      | "none" => ctKey d k .none_ ev
      | "publish" => ctKey d k .publish ev
      | "woken" => ctKey d k .woken ev
      | _ => (d, "bad-op")
  | ["ct", ev, k, g] =>
    match k.toNat?, g.toNat? with
    | some k, some g =>
      match ev with
      | "vacant" => ctKey d k (.vacant g) ev
      | "reg" => ctKey d k (.reg g) ev
      | "done" => ctKey d k (.done_ g) ev
      | _ => (d, "bad-op")
    | _, _ => (d, "bad-op")
  | ["ts", "new", t, v] =>
    match t.toNat?, v with
    | some t, "asis" => ({ d with ts := some (TS.init t false) }, "ok")
    | some t, "fixed" => ({ d with ts := some (TS.init t true) }, "ok")
    | _, _ => (d, "bad-op")
  | "ts" :: rest =>
    match d.ts with
    | none => (d, "bad-op")
    | some s =>
      let whole (t : Nat) (ev : TS.Ev) : Drv × String :=
        match tsWhole s t ev with
        | some (s', r) => ({ d with ts := some s', tsOps := d.tsOps + 1 }, showRet r)
        | none => ({ d with rejects := d.rejects + 1 }, "REJECT not-enabled")
      match rest with
      | ["ins", t, x] =>
        match t.toNat?, x.toNat? with
        | some t, some x => whole t (.ins t x)
        | _, _ => (d, "bad-op")
      | ["rem", t, x] =>
        match t.toNat?, x.toNat? with
        | some t, some x => whole t (.rem t x)
        | _, _ => (d, "bad-op")
      | ["len", t] =>
        match t.toNat? with
        | some t => whole t (.len t)
        | none => (d, "bad-op")
      | ["iter", t] =>
        match t.toNat? with
        | some t =>
          match TS.step s (.iterBegin t) with
          | some (s1, some r) =>
            match TS.step s1 (.iterEnd t) with
            | some (s2, _) => ({ d with ts := some s2, tsOps := d.tsOps + 1 }, showRet r)
            | none => ({ d with rejects := d.rejects + 1 }, "REJECT not-enabled")
          | _ => ({ d with rejects := d.rejects + 1 }, "REJECT not-enabled")
        | none => (d, "bad-op")
      | ["ev", t, "ins", x] =>
        match t.toNat?, x.toNat? with
        | some t, some x => tsEv d s (.ins t x)
        | _, _ => (d, "bad-op")
      | ["ev", t, "rem", x] =>
        match t.toNat?, x.toNat? with
        | some t, some x => tsEv d s (.rem t x)
        | _, _ => (d, "bad-op")
      | ["ev", t, "publish"] =>
        match t.toNat? with
        | some t => tsEv d s (.publish t)
        | none => (d, "bad-op")
      | ["ev", t, "upgrade"] =>
        match t.toNat? with
        | some t => tsEv d s (.upgrade t)
        | none => (d, "bad-op")
      | _ => (d, "bad-op")
  | _ => (d, "bad-op")

partial def loop (h : IO.FS.Stream) (out : IO.FS.Stream) (d : Drv) : IO Drv := do
  let line ← h.getLine
  if line.isEmpty then return d
  let (d', o) := handle d line
  out.putStrLn o
  loop h out d'

def main : IO Unit := do
  let stdin ← IO.getStdin
  let stdout ← IO.getStdout
  let d ← loop stdin stdout {}
  IO.eprintln s!"ct_events={d.ctEvents} ts_ops={d.tsOps} rejects={d.rejects}"
