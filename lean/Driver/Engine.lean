/-
Line-protocol driver for the engine model (C01, C03, C06, C07, C08).
  case N [unordered]      → "case"        (resets program and state)
  node K KIND DFLT EXPR   → "ok"
  session W…              → "Fresh Updated … |[ execs…| X]"
  round K…                → "v1 v2 … |[ execs…| X]"
Arguments: toggle names (f1 f3 f14 f31 f32 f1p f1q f1r) switch the model from as-is to repaired behaviour;
`nof2` / `nof16` / `nof33` switch it back to the code before the fixes of F2 / F16 / F33 (historical); `desc` / `tape=1,0,2` choose the order of the two hash-set walks (Toggles.desc, .tape);
`msg` appends the model's error message to crash lines;
`state` (full model) appends ` #S <digest>` to every session / round line that completed: the digest of the
model state after the op (`digest` below; the harness prints the same from the real engine with `--state`);
`statemax=N` limits the digests to the first N cases of the stream;
`core` runs the extended core model (QbiceVerif.Model.EngineCore, namespace `Qbice.CoreFw`: the
REPAIRED design) instead, answering "skip" for cases outside its fragment: every acyclic program
(each executor reads lower keys only) of input / normal / external / firewall / projection nodes
(a projection reads firewalls and projections only), ordered reads and unordered groups, `set` /
`refresh` / `world` writes.  Cases with firewall / projection nodes are answered only with the
additional argument `corefull` (today's implementation still has finding F1 there).  `cyc` runs the fresh-evaluation cycle model (QbiceVerif.Model.Cycle, the one
the C06 theorems are about): it answers the first session of a case and every round up to the
second session (single-epoch evaluation from the empty store) and "skip" afterwards.
`inv`: the PROVED INVARIANT of the extended core model as an oracle on dumped states of the implementation:
the input is a case (`case` / `node` lines), operations (`session …` lines: only their `world k v` writes
are used; every other line is ignored) and lines `#D <digest>` (the state digest of the real engine at a
quiescent point, format of `digest` below); one output line per `#D` line: `inv ok`, `inv FAIL <clause> <key>`
(`Qbice.CoreFw.firstFail`; soundness `Qbice.CoreFw.inv_dump_sound`), `inv skip` (program outside the
acyclic fragment) or `inv bad-digest`.  For programs outside `Shape` (a projection reads a projection with a
conditional) the invariant is not proved: the clauses about static projections are switched off and the
answers are `inv ok-nonshape` / `inv FAIL-nonshape <clause> <key>`.  With the additional argument `extra` the
expected but UNPROVED checks (`Qbice.CoreFw.extraClauses`) run after the proved ones: `inv FAIL-extra <check> <key>`.
-/
import QbiceVerif.Model.Engine
import QbiceVerif.Model.EngineCore
import QbiceVerif.Model.Cycle
import QbiceVerif.Lemmas.EngineCoreFwDump
open Qbice.Engine

inductive Expr where
  | const (n : Int)
  | read (k : Nat)
  | add (a b : Expr)
  | ifEq (e : Expr) (n : Int) (a b : Expr)
  | sumAll (ks : List Nat)
  | world (k : Nat)
  deriving Repr, Inhabited

partial def parseExpr : List String → Option (Expr × List String)
  | "c" :: n :: r => n.toInt?.map fun n => (.const n, r)
  | "r" :: k :: r => k.toNat?.map fun k => (.read k, r)
  | "w" :: k :: r => k.toNat?.map fun k => (.world k, r)
  | "+" :: r => do
    let (a, r) ← parseExpr r
    let (b, r) ← parseExpr r
    pure (.add a b, r)
  | "?" :: r => do
    let (e, r) ← parseExpr r
    match r with
    | n :: r =>
      let n ← n.toInt?
      let (a, r) ← parseExpr r
      let (b, r) ← parseExpr r
      pure (.ifEq e n a b, r)
    | [] => none
  | "S" :: n :: r => do
    let n ← n.toNat?
    let ks ← (r.take n).mapM String.toNat?
    if ks.length != n then none else pure (.sumAll ks, r.drop n)
  | _ => none

/-- compile an expression to the executor free monad (left-to-right evaluation) -/
def Expr.toProg : Expr → (Int → Prog) → Prog
  | .const n, k => k n
  | .read x, k => .ask x k
  | .world x, k => .world x k
  | .add a b, k => a.toProg fun x => b.toProg fun y => k (x + y)
  | .ifEq e n a b, k => e.toProg fun x => if x = n then a.toProg k else b.toProg k
  | .sumAll ks, k => .askAll ks fun vs => k (vs.foldl (· + ·) 0)

/-- inside the fragment of the cycle model: no unordered groups, no world cells -/
def Expr.cycFragment : Expr → Bool
  | .const _ => true
  | .read _ => true
  | .world _ => false
  | .sumAll _ => false
  | .add a b => a.cycFragment && b.cycFragment
  | .ifEq e _ a b => e.cycFragment && a.cycFragment && b.cycFragment

/-- compile to the executor type of the cycle model (left-to-right evaluation) -/
def Expr.toCyc : Expr → (Int → Qbice.Cycle.Prog) → Qbice.Cycle.Prog
  | .const n, k => k n
  | .read x, k => .ask x k
  | .world _, k => k 0          -- outside the fragment (never run)
  | .sumAll _, k => k 0         -- outside the fragment (never run)
  | .add a b, k => a.toCyc fun x => b.toCyc fun y => k (x + y)
  | .ifEq e n a b, k => e.toCyc fun x => if x = n then a.toCyc k else b.toCyc k

def Expr.hasUnordered : Expr → Bool
  | .sumAll _ => true
  | .add a b => a.hasUnordered || b.hasUnordered
  | .ifEq e _ a b => e.hasUnordered || a.hasUnordered || b.hasUnordered
  | _ => false

/-- reads a query (single or in an unordered group) -/
def Expr.hasRead : Expr → Bool
  | .read _ => true
  | .sumAll _ => true
  | .add a b => a.hasRead || b.hasRead
  | .ifEq e _ a b => e.hasRead || a.hasRead || b.hasRead
  | _ => false

/-- reads a world cell -/
def Expr.hasWorld : Expr → Bool
  | .world _ => true
  | .add a b => a.hasWorld || b.hasWorld
  | .ifEq e _ a b => e.hasWorld || a.hasWorld || b.hasWorld
  | _ => false

/-- the keys an expression can read -/
def Expr.reads : Expr → List Nat
  | .read k => [k]
  | .sumAll ks => ks
  | .add a b => a.reads ++ b.reads
  | .ifEq e _ a b => e.reads ++ a.reads ++ b.reads
  | _ => []

/-- the fragment of the core model: inputs; external executors that read world cells only; normal,
    firewall and projection executors that read lower keys only (acyclic), a projection only
    firewalls and projections.  `full = false`: no firewalls and projections. -/
def coreFragment (full : Bool) (kinds : List Kind) (k : Nat) (kind : Kind) (e : Expr) : Bool :=
  match kind with
  | .input => true
  | .external => !e.hasRead
  | .normal => !e.hasWorld && e.reads.all (· < k)
  | .firewall => full && !e.hasWorld && e.reads.all (· < k)
  | .projection => full && !e.hasWorld && e.reads.all fun x =>
      x < k && (kinds[x]? == some Kind.firewall || kinds[x]? == some Kind.projection)

def parseKind : String → Option Kind
  | "in" => some .input | "nm" => some .normal | "fw" => some .firewall
  | "pj" => some .projection | "ex" => some .external | _ => none

partial def parseWrites : List String → Option (List Write)
  | [] => some []
  | "set" :: k :: v :: r => do
    let k ← k.toNat?; let v ← v.toInt?; let rest ← parseWrites r
    pure (.set k v :: rest)
  | "world" :: k :: v :: r => do
    let k ← k.toNat?; let v ← v.toInt?; let rest ← parseWrites r
    pure (.world k v :: rest)
  | "refresh" :: r => do pure (.refresh :: (← parseWrites r))
  | _ => none

/-- the driver prints error classes; with the argument `msg` it appends the model's message (used by
    the C06 plugin to tell the different hangs apart; never compared with the implementation) -/
def showErr (msg : Bool) : Err → String
  | .outOfFuel => "crash outOfFuel"
  | .panic m => "crash panic" ++ (if msg then " [" ++ m ++ "]" else "")
  | .deadlock m => "crash hang" ++ (if msg then " [" ++ m ++ "]" else "")
  | .badOp m => s!"bad-op {m}"

def showSetRes : SetRes → String
  | .fresh => "Fresh" | .updated => "Updated" | .unchanged => "Unchanged"
  | .refreshed => "refreshed" | .world => "world"

def sortNat (l : List Nat) : List Nat := l.foldl (fun acc k =>
  let rec ins : List Nat → List Nat
    | [] => [k]
    | x :: r => if k ≤ x then k :: x :: r else x :: ins r
  ins acc) []

structure DS where
  prog : Program := []
  exprs : List Expr := []
  st : St := {}
  unordered : Bool := false
  -- core model
  coreOk : Bool := true
  cst : Qbice.CoreFw.St := {}
  -- cycle model
  cycOk : Bool := true
  kinds : List Kind := []
  sessions : Nat := 0
  inputs : List (Nat × Int) := []
  cyst : Qbice.Cycle.St := {}

def execsStr (unordered : Bool) (log : List Nat) : String :=
  if unordered then " X" else String.join ((sortNat log).map fun k => s!" {k}")

def kindTag : Kind → String
  | .input => "in" | .normal => "nm" | .firewall => "fw" | .projection => "pj" | .external => "ex"

def commaNat (l : List Nat) : String := ",".intercalate (l.map toString)

/-- State digest (state-level tie of C01/C03; argument `state`): the persistent bookkeeping of every
    node in ascending key order, in the format of `eng::state_digest` of the harness:
    `k:kind:v<0|1>:val=V:deps=[a,{b,c},d]:obs=[a,b!,c^]:dirty=[..]:tfc=[..]:pend=<0|1>:back=[..]` joined by ` ; `.
    `v1` = verified in the current epoch; `obs`: `!` = the observed value differs from the callee's
    stored one, `^` = the observed firewall set differs from the callee's stored one. -/
def digest (st : St) : String :=
  let keys := sortNat (st.nodes.map (·.1))
  let part (k : Nat) : String :=
    match lookup k st.nodes with
    | none => ""
    | some n =>
      let deps := ",".intercalate (n.fwd.map fun
        | .single c => toString c
        | .unordered cs => "{" ++ commaNat cs ++ "}")
      let obs := ",".intercalate ((sortNat (n.obs.map (·.1))).map fun c =>
        match lookup c n.obs with
        | none => toString c
        | some o =>
          let cn := lookup c st.nodes
          toString c ++ (if cn.map (·.value) != some o.val then "!" else "")
                     ++ (if cn.map (·.tfc) != some o.tfc then "^" else ""))
      let dirty := sortNat ((st.dirty.filter (·.1 == k)).map (·.2))
      let back := sortNat ((st.back.filter (·.1 == k)).map (·.2))
      s!"{k}:{kindTag n.kind}:v{if n.lastVerified == st.epoch then 1 else 0}:val={n.value}:deps=[{deps}]:obs=[{obs}]:dirty=[{commaNat dirty}]:tfc=[{commaNat n.tfc}]:pend={if n.pendingBP.isSome then 1 else 0}:back=[{commaNat back}]"
  " ; ".intercalate (keys.map part)

def stepFull (t : Toggles) (msg : Bool) (d : DS) (toks : List String) : DS × String :=
  match toks with
  | "case" :: _ => ({ unordered := toks.contains "unordered" }, "case")
  | "node" :: k :: kind :: dflt :: rest =>
    match k.toNat?, parseKind kind, dflt.toInt?, parseExpr rest with
    | some k, some kind, some dflt, some (e, []) =>
      if k != d.prog.length then (d, "bad-op") else
      ({ d with prog := d.prog ++ [{ kind := kind, dflt := dflt, prog := e.toProg .ret }], exprs := d.exprs ++ [e] }, "ok")
    | _, _, _, _ => (d, "bad-op")
  | "session" :: rest =>
    match parseWrites rest with
    | none => (d, "bad-op")
    | some ws =>
      match runM (session d.prog ws) { d.st with log := [] } with
      | .ok (rs, st) => ({ d with st := st }, " ".intercalate (rs.map showSetRes) ++ " |" ++ execsStr d.unordered st.log)
      | .error e => (d, showErr msg e)
  | "round" :: rest =>
    match rest.mapM String.toNat? with
    | none => (d, "bad-op")
    | some ks =>
      match runM' (round t d.prog ks) { d.st with log := [] } with
      | (.ok vs, st) => ({ d with st := st }, " ".intercalate (vs.map toString) ++ " |" ++ execsStr d.unordered st.log
          ++ (if st.choicePoints > 0 then " ~" else ""))
      | (.error e, st) => (d, showErr msg e ++ (if st.choicePoints > 0 then " ~" else ""))
  | _ => (d, "bad-op")

def coreWrite : Write → Qbice.Core.Write
  | .set k v => .set k v
  | .refresh => .refresh
  | .world k v => .world k v

def showCoreSetRes : Qbice.Core.SetRes → String
  | .fresh => "Fresh" | .updated => "Updated" | .unchanged => "Unchanged"
  | .refreshed => "refreshed" | .world => "world"

/-- the core model answers for acyclic programs (`coreFragment`); the
    executor invocations of cases with unordered groups are printed as `X` (as the harness does) -/
def stepCore (full : Bool) (d : DS) (toks : List String) : DS × String :=
  match toks with
  | "case" :: _ => ({ unordered := toks.contains "unordered" }, "case")
  | "node" :: k :: kind :: dflt :: rest =>
    match k.toNat?, parseKind kind, dflt.toInt?, parseExpr rest with
    | some k, some kind, some dflt, some (e, []) =>
      if k != d.prog.length then (d, "bad-op") else
      ({ d with prog := d.prog ++ [{ kind := kind, dflt := dflt, prog := e.toProg .ret }], exprs := d.exprs ++ [e],
                kinds := d.kinds ++ [kind],
                coreOk := d.coreOk && coreFragment full d.kinds k kind e }, "ok")
    | _, _, _, _ => (d, "bad-op")
  | "session" :: rest =>
    if !d.coreOk then (d, "skip") else
    match parseWrites rest with
    | none => (d, "bad-op")
    | some ws =>
      let cp := Qbice.CoreFw.ofProgram d.prog
      match Qbice.CoreFw.session cp (ws.map coreWrite) { d.cst with log := [] } with
      | .ok (rs, st) => ({ d with cst := st }, " ".intercalate (rs.map showCoreSetRes) ++ " |" ++ execsStr d.unordered st.log)
      | .error e => (d, "error " ++ toString (repr e))
  | "round" :: rest =>
    if !d.coreOk then (d, "skip") else
    match rest.mapM String.toNat? with
    | none => (d, "bad-op")
    | some ks =>
      let cp := Qbice.CoreFw.ofProgram d.prog
      match Qbice.CoreFw.round cp (Qbice.CoreFw.fuelFor cp) ks { d.cst with log := [] } with
      | .ok (vs, st) => ({ d with cst := st }, " ".intercalate (vs.map toString) ++ " |" ++ execsStr d.unordered st.log)
      | .error e => (d, "error " ++ toString (repr e))
  | _ => (d, "bad-op")

/-- the program of the cycle model: inputs are constant nodes; `none` outside its fragment -/
def cycProgram (d : DS) : Option Qbice.Cycle.Program :=
  (d.exprs.zip d.kinds).zipIdx.mapM fun ((e, kind), k) =>
    match kind with
    | .input => (lookup k d.inputs).map fun v => { dflt := 0, prog := .ret v }
    | .external => none
    | _ => if e.cycFragment then some { dflt := (d.prog[k]?.map (·.dflt)).getD 0, prog := e.toCyc .ret } else none

/-- fresh evaluation only: the first session and the rounds before the second session -/
def stepCyc (d : DS) (toks : List String) : DS × String :=
  match toks with
  | "case" :: _ => ({ unordered := toks.contains "unordered" }, "case")
  | "node" :: k :: kind :: dflt :: rest =>
    match k.toNat?, parseKind kind, dflt.toInt?, parseExpr rest with
    | some k, some kind, some dflt, some (e, []) =>
      if k != d.prog.length then (d, "bad-op") else
      ({ d with prog := d.prog ++ [{ kind := kind, dflt := dflt, prog := e.toProg .ret }], exprs := d.exprs ++ [e],
                kinds := d.kinds ++ [kind] }, "ok")
    | _, _, _, _ => (d, "bad-op")
  | "session" :: rest =>
    if !d.cycOk || d.sessions > 0 then ({ d with cycOk := false }, "skip") else
    match parseWrites rest with
    | none => (d, "bad-op")
    | some ws =>
      let sets := ws.filterMap fun | .set k v => some (k, v) | _ => none
      if sets.length != ws.length then ({ d with cycOk := false }, "skip") else
      let (inputs, out) := sets.foldl (fun (acc : List (Nat × Int) × List String) (kv : Nat × Int) =>
        let r := match lookup kv.1 acc.1 with
          | none => "Fresh"
          | some o => if o = kv.2 then "Unchanged" else "Updated"
        (upsert kv.1 kv.2 acc.1, acc.2 ++ [r])) (d.inputs, [])
      ({ d with inputs := inputs, sessions := 1 }, " ".intercalate out ++ " |")
  | "round" :: rest =>
    if !d.cycOk then (d, "skip") else
    match rest.mapM String.toNat?, cycProgram d with
    | none, _ => (d, "bad-op")
    | _, none => ({ d with cycOk := false }, "skip")
    | some ks, some cp =>
      match Qbice.Cycle.evalRoots cp (Qbice.Cycle.fuelFor cp) ks d.cyst with
      | .ok (vs, st) =>
        let fresh := (st.memo.take (st.memo.length - d.cyst.memo.length)).map (·.key)
        let execs := fresh.filter fun k => d.kinds[k]? != some Kind.input
        ({ d with cyst := st }, " ".intercalate (vs.map toString) ++ " |" ++ execsStr false execs)
      | .error .outOfFuel => ({ d with cycOk := false }, "crash outOfFuel")
      | .error .deadlock => ({ d with cycOk := false }, "crash hang")
      | .error _ => ({ d with cycOk := false }, "crash panic")
  | _ => (d, "bad-op")

/-- the read sequence of an expression without conditionals (`Qbice.CoreFw.ProgStatic`) -/
def Expr.staticKs : Expr → Option (List Nat)
  | .const _ => some []
  | .read k => some [k]
  | .world _ => some []
  | .sumAll ks => some ks
  | .add a b => do pure ((← a.staticKs) ++ (← b.staticKs))
  | .ifEq _ _ _ _ => none

def between (s : String) (a b : String) : String :=
  match s.splitOn a with
  | _ :: r :: _ => (r.splitOn b).headD ""
  | _ => ""

def natList (s : String) : Option (List Nat) :=
  ((s.splitOn ",").filter (· ≠ "")).mapM String.toNat?

/-- one node of a digest line -/
def parseDNode (part : String) : Option (Nat × Qbice.CoreFw.DNode) :=
  match part.splitOn ":" with
  | [k, kind, v, val, deps, obs, dirty, tfc, pend, back] => do
    let k ← k.toNat?
    let kind ← parseKind kind
    let value ← ((val.splitOn "=").getD 1 "").toInt?
    let deps ← natList (((between deps "[" "]").replace "{" "").replace "}" "")
    let obs ← ((between obs "[" "]").splitOn ",").filter (· ≠ "") |>.mapM fun o =>
      (String.ofList (o.toList.takeWhile Char.isDigit)).toNat?.map fun c => (c, o.contains '!', o.contains '^')
    let dirty ← natList (between dirty "[" "]")
    let tfc ← natList (between tfc "[" "]")
    let back ← natList (between back "[" "]")
    -- every recorded dependency has an observation and vice versa
    if sortNat deps != obs.map (·.1) then none else
    let ddeps ← deps.mapM fun d => (lookup d obs).map fun (f : Bool × Bool) =>
      ({ key := d, valDiff := f.1, tfcDiff := f.2 } : Qbice.CoreFw.DDep)
    pure (k, { kind := Qbice.CoreFw.ofKind kind, ver := v == "v1", value := value, deps := ddeps, dirty := dirty,
               tfc := tfc, pend := pend == "pend=1", back := back })
  | _ => none

def parseDigest (n : Nat) (world : Nat → Int) (line : String) : Option Qbice.CoreFw.DSt := do
  let parts := ((line.splitOn " ; ").map fun s => s.trimAscii.toString).filter (· ≠ "")
  let nodes ← parts.mapM parseDNode
  let len := nodes.foldl (fun m e => max m (e.1 + 1)) n
  pure { nodes := (List.range len).map fun k => lookup k nodes, world := world }

structure IS where
  prog : Program := []
  exprs : List Expr := []
  kinds : List Kind := []
  ok : Bool := true
  /-- `Qbice.CoreFw.Shape`, syntactically: a projection reads firewalls and conditional-free projections only -/
  shape : Bool := true
  world : Nat → Int := fun _ => 0

partial def loopInv (h : IO.FS.Stream) (out : IO.FS.Stream) (extra : Bool) (d : IS) : IO Unit := do
  let line ← h.getLine
  if line.isEmpty then return ()
  let toks := (line.trimAscii.toString.splitOn " ").filter (· ≠ "")
  match toks with
  | "case" :: _ => loopInv h out extra {}
  | "node" :: k :: kind :: dflt :: rest =>
    match k.toNat?, parseKind kind, dflt.toInt?, parseExpr rest with
    | some k, some kind, some dflt, some (e, []) =>
      let d' : IS := { d with
        prog := d.prog ++ [{ kind := kind, dflt := dflt, prog := e.toProg .ret }]
        exprs := d.exprs ++ [e]
        kinds := d.kinds ++ [kind]
        ok := d.ok && k == d.prog.length && coreFragment true d.kinds k kind e
        shape := d.shape && (kind != Kind.projection || e.reads.all fun x =>
          d.kinds[x]? == some Kind.firewall ||
            (d.kinds[x]? == some Kind.projection && ((d.exprs[x]?).bind Expr.staticKs).isSome)) }
      loopInv h out extra d'
    | _, _, _, _ => loopInv h out extra { d with ok := false }
  | "session" :: rest =>
    match parseWrites rest with
    | some ws => loopInv h out extra { d with world := Qbice.Core.applyWorld (ws.map coreWrite) d.world }
    | none => loopInv h out extra d
  | "#D" :: _ =>
    if !d.ok then out.putStrLn "inv skip" else
    let cp := Qbice.CoreFw.ofProgram d.prog
    let stat : Nat → Option (List Nat) := fun k =>
      if !d.shape then none else
      match d.exprs[k]?, d.kinds[k]? with
      | some e, some .projection => e.staticKs
      | _, _ => none
    match parseDigest cp.length d.world ((line.trimAscii.toString.drop 2).toString) with
    | none => out.putStrLn "inv bad-digest"
    | some D =>
      match Qbice.CoreFw.firstFail cp stat D with
      | none =>
        -- `extra`: expected but unproved checks (`Qbice.CoreFw.extraClauses`)
        match (if extra then Qbice.CoreFw.firstFailExtra D else none) with
        | some (c, k) => out.putStrLn s!"inv FAIL-extra {c} {k}"
        | none => out.putStrLn (if d.shape then "inv ok" else "inv ok-nonshape")
      | some (c, k) => out.putStrLn (if d.shape then s!"inv FAIL {c} {k}" else s!"inv FAIL-nonshape {c} {k}")
    loopInv h out extra d
  | _ => loopInv h out extra d


partial def loop (h : IO.FS.Stream) (out : IO.FS.Stream) (core : Bool) (corefull : Bool) (cyc : Bool) (msg : Bool) (state : Bool) (stateMax : Nat) (caseNo : Nat) (t : Toggles) (d : DS) : IO Unit := do
  let line ← h.getLine
  if line.isEmpty then return ()
  let toks := (line.trimAscii.toString.splitOn " ").filter (· ≠ "")
  let caseNo := if toks.head? == some "case" then caseNo + 1 else caseNo
  -- `statemax=N`: digests for the first N cases of the stream only (bounds the size of thorough runs)
  let state := state && caseNo ≤ stateMax
  let (d', o) := if core then stepCore corefull d toks else if cyc then stepCyc d toks else stepFull t msg d toks
  -- `state` (full model only): the digest of the state after a session / round that completed
  let isOp := toks.head? == some "session" || toks.head? == some "round"
  let o := if state && !core && !cyc && isOp && !(o.startsWith "crash") && !(o.startsWith "bad-op")
    then o ++ " #S " ++ digest d'.st else o
  out.putStrLn o
  loop h out core corefull cyc msg state stateMax caseNo t d'

def main (args : List String) : IO Unit := do
  -- `tape=1,0,2`: the order tape for hash-set walks
  let tape : List Nat := match args.find? (·.startsWith "tape=") with
    | some a => ((a.drop 5).toString.splitOn ",").filterMap String.toNat?
    | none => []
  let stateMax : Nat := match args.find? (·.startsWith "statemax=") with
    | some a => ((a.drop 9).toString.toNat?).getD 0
    | none => 1000000000
  let t : Toggles := { tape := tape, f1 := args.contains "f1", f2 := !args.contains "nof2", f3 := args.contains "f3", f14 := !args.contains "nof14", f1p := !args.contains "nof1p", f1q := !args.contains "nof1q", f1r := !args.contains "nof1r", f13 := !args.contains "nof13", f16 := !args.contains "nof16", f33 := !args.contains "nof33", f31 := args.contains "f31", f32 := args.contains "f32", f34 := !args.contains "nof34", f35 := !args.contains "nof35", f36 := !args.contains "nof36", desc := args.contains "desc" }
  if args.contains "inv" then loopInv (← IO.getStdin) (← IO.getStdout) (args.contains "extra") {} else
  loop (← IO.getStdin) (← IO.getStdout) (args.contains "core" || args.contains "corefull") (args.contains "corefull") (args.contains "cyc") (args.contains "msg") (args.contains "state") stateMax 0 t {}
