-- line-protocol driver stub (Engine); replaced when the model exists
def main : IO Unit := IO.println "stub"
