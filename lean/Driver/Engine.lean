/-
Line-protocol driver for the engine model (C01, C03, C06, C07, C08).
  case N [unordered]      → "case"        (resets program and state)
  node K KIND DFLT EXPR   → "ok"
  session W…              → "Fresh Updated … |[ execs…| X]"
  round K…                → "v1 v2 … |[ execs…| X]"
Arguments: toggle names (f1 f2 f3) switch the model from as-is to repaired behaviour;
`core` runs the core model (QbiceVerif.Model.EngineCore) instead, answering "skip" for cases
outside its fragment.
-/
import QbiceVerif.Model.Engine
import QbiceVerif.Model.EngineCore
open Qbice.Engine

inductive Expr where
  | const (n : Int)
  | read (k : Nat)
  | add (a b : Expr)
  | ifEq (e : Expr) (n : Int) (a b : Expr)
  | sumAll (ks : List Nat)
  | world (k : Nat)
  deriving Repr, Inhabited

partial def parseExpr : List String → Option (Expr × List String)
  | "c" :: n :: r => n.toInt?.map fun n => (.const n, r)
  | "r" :: k :: r => k.toNat?.map fun k => (.read k, r)
  | "w" :: k :: r => k.toNat?.map fun k => (.world k, r)
  | "+" :: r => do
    let (a, r) ← parseExpr r
    let (b, r) ← parseExpr r
    pure (.add a b, r)
  | "?" :: r => do
    let (e, r) ← parseExpr r
    match r with
    | n :: r =>
      let n ← n.toInt?
      let (a, r) ← parseExpr r
      let (b, r) ← parseExpr r
      pure (.ifEq e n a b, r)
    | [] => none
  | "S" :: n :: r => do
    let n ← n.toNat?
    let ks ← (r.take n).mapM String.toNat?
    if ks.length != n then none else pure (.sumAll ks, r.drop n)
  | _ => none

/-- compile an expression to the executor free monad (left-to-right evaluation) -/
def Expr.toProg : Expr → (Int → Prog) → Prog
  | .const n, k => k n
  | .read x, k => .ask x k
  | .world x, k => .world x k
  | .add a b, k => a.toProg fun x => b.toProg fun y => k (x + y)
  | .ifEq e n a b, k => e.toProg fun x => if x = n then a.toProg k else b.toProg k
  | .sumAll ks, k => .askAll ks fun vs => k (vs.foldl (· + ·) 0)

def Expr.hasUnordered : Expr → Bool
  | .sumAll _ => true
  | .add a b => a.hasUnordered || b.hasUnordered
  | .ifEq e _ a b => e.hasUnordered || a.hasUnordered || b.hasUnordered
  | _ => false

def parseKind : String → Option Kind
  | "in" => some .input | "nm" => some .normal | "fw" => some .firewall
  | "pj" => some .projection | "ex" => some .external | _ => none

partial def parseWrites : List String → Option (List Write)
  | [] => some []
  | "set" :: k :: v :: r => do
    let k ← k.toNat?; let v ← v.toInt?; let rest ← parseWrites r
    pure (.set k v :: rest)
  | "world" :: k :: v :: r => do
    let k ← k.toNat?; let v ← v.toInt?; let rest ← parseWrites r
    pure (.world k v :: rest)
  | "refresh" :: r => do pure (.refresh :: (← parseWrites r))
  | _ => none

def showErr : Err → String
  | .outOfFuel => "crash outOfFuel"
  | .panic _ => "crash panic"
  | .deadlock _ => "crash hang"
  | .badOp m => s!"bad-op {m}"

def showSetRes : SetRes → String
  | .fresh => "Fresh" | .updated => "Updated" | .unchanged => "Unchanged"
  | .refreshed => "refreshed" | .world => "world"

def sortNat (l : List Nat) : List Nat := l.foldl (fun acc k =>
  let rec ins : List Nat → List Nat
    | [] => [k]
    | x :: r => if k ≤ x then k :: x :: r else x :: ins r
  ins acc) []

structure DS where
  prog : Program := []
  exprs : List Expr := []
  st : St := {}
  unordered : Bool := false
  -- core model
  coreOk : Bool := true
  cst : Qbice.Core.St := {}

def execsStr (unordered : Bool) (log : List Nat) : String :=
  if unordered then " X" else String.join ((sortNat log).map fun k => s!" {k}")

def stepFull (t : Toggles) (d : DS) (toks : List String) : DS × String :=
  match toks with
  | "case" :: _ => ({ unordered := toks.contains "unordered" }, "case")
  | "node" :: k :: kind :: dflt :: rest =>
    match k.toNat?, parseKind kind, dflt.toInt?, parseExpr rest with
    | some k, some kind, some dflt, some (e, []) =>
      if k != d.prog.length then (d, "bad-op") else
      ({ d with prog := d.prog ++ [{ kind := kind, dflt := dflt, prog := e.toProg .ret }], exprs := d.exprs ++ [e] }, "ok")
    | _, _, _, _ => (d, "bad-op")
  | "session" :: rest =>
    match parseWrites rest with
    | none => (d, "bad-op")
    | some ws =>
      match (session d.prog ws).run { d.st with log := [] } with
      | .ok (rs, st) => ({ d with st := st }, " ".intercalate (rs.map showSetRes) ++ " |" ++ execsStr d.unordered st.log)
      | .error e => (d, showErr e)
  | "round" :: rest =>
    match rest.mapM String.toNat? with
    | none => (d, "bad-op")
    | some ks =>
      match (round t d.prog ks).run { d.st with log := [] } with
      | .ok (vs, st) => ({ d with st := st }, " ".intercalate (vs.map toString) ++ " |" ++ execsStr d.unordered st.log
          ++ (if st.choicePoints > 0 then " ~" else ""))
      | .error e => (d, showErr e)
  | _ => (d, "bad-op")

/-- the core model answers only for programs of input/normal nodes without unordered groups -/
def stepCore (d : DS) (toks : List String) : DS × String :=
  match toks with
  | "case" :: _ => ({ unordered := toks.contains "unordered" }, "case")
  | "node" :: k :: kind :: dflt :: rest =>
    match k.toNat?, parseKind kind, dflt.toInt?, parseExpr rest with
    | some k, some kind, some dflt, some (e, []) =>
      if k != d.prog.length then (d, "bad-op") else
      let inFrag := (kind == .input || kind == .normal) && !e.hasUnordered
      ({ d with prog := d.prog ++ [{ kind := kind, dflt := dflt, prog := e.toProg .ret }], exprs := d.exprs ++ [e],
                coreOk := d.coreOk && inFrag }, "ok")
    | _, _, _, _ => (d, "bad-op")
  | "session" :: rest =>
    if !d.coreOk then (d, "skip") else
    match parseWrites rest with
    | none => (d, "bad-op")
    | some ws =>
      let sets := ws.filterMap fun | .set k v => some (k, v) | _ => none
      if sets.length != ws.length then ({ d with coreOk := false }, "skip") else
      let cp := Qbice.Core.ofProgram d.prog
      match Qbice.Core.session cp sets { d.cst with log := [] } with
      | .ok (rs, st) => ({ d with cst := st }, " ".intercalate (rs.map fun
          | .fresh => "Fresh" | .updated => "Updated" | .unchanged => "Unchanged") ++ " |" ++ execsStr false st.log)
      | .error e => (d, "error " ++ toString (repr e))
  | "round" :: rest =>
    if !d.coreOk then (d, "skip") else
    match rest.mapM String.toNat? with
    | none => (d, "bad-op")
    | some ks =>
      let cp := Qbice.Core.ofProgram d.prog
      match Qbice.Core.round cp (Qbice.Core.fuelFor cp) ks { d.cst with log := [] } with
      | .ok (vs, st) => ({ d with cst := st }, " ".intercalate (vs.map toString) ++ " |" ++ execsStr false st.log)
      | .error e => (d, "error " ++ toString (repr e))
  | _ => (d, "bad-op")

partial def loop (h : IO.FS.Stream) (out : IO.FS.Stream) (core : Bool) (t : Toggles) (d : DS) : IO Unit := do
  let line ← h.getLine
  if line.isEmpty then return ()
  let toks := (line.trimAscii.toString.splitOn " ").filter (· ≠ "")
  let (d', o) := if core then stepCore d toks else stepFull t d toks
  out.putStrLn o
  loop h out core t d'

def main (args : List String) : IO Unit := do
  let t : Toggles := { f1 := args.contains "f1", f2 := args.contains "f2", f3 := args.contains "f3", f14 := args.contains "f14", f16 := args.contains "f16", desc := args.contains "desc" }
  loop (← IO.getStdin) (← IO.getStdout) (args.contains "core") t {}
