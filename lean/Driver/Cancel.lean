import QbiceVerif.Model.CancelLts

/-!
Line-protocol driver over `Model/CancelLts.lean` (property C05): trace validation.

The harness (`harness/src/bin/cancel.rs`) prints, for every run (one history on a fresh engine with one
fault), the hook events of the real engine in emission order, each prefixed with the number of the tokio
task that emitted it (0 = the caller's own future).  The driver maps every event to model events
(`CancelLts.Ev`), checks that they are enabled (`step … = some _`), and for a cancellation or an unwinding
panic compares the drop glue the code performed, item by item and in order, with `cancelGlue` /
`frameGlue` of the model.  At the `settled` / `end` markers it prints the model's shared state; the harness
prints what it observed.

    run <f11 f12 f40 bits> <free text>     -> ok           new engine, model `init cfg`
    <tid> lock|unlock|bplock|bpunlock|unreg|defuse|droplock|dropbp <k>
    <tid> reg <caller> <callee>
    <tid> bnew <0|1> | bsub | genter | gexit | gdetach | bump | acq
    <tid> cut <label> | panic <k>          -> ok | REJECT <why>
    <tid> companion                        -> ok           another caller in flight (started while the target is suspended)
    <tid> wait <k> | woken <k>             -> ok | REJECT  a companion parks on / is woken from the computing entry of k
    0 dropped                              -> ok | REJECT <why>
    0 settled | 0 end                      -> comp=[…] bp=[…] batches=<submitted>/<created>
                                              | REJECT lost wake-up …   (a companion the model woke was never woken by the code)

The model has no separate "notify": a parked task can be woken as soon as the entry is gone (`wake` is enabled iff
`comp k = none`).  The driver therefore fires `wake` for every parked companion at the moment the model removes the
entry (completion, drop glue of a cancel, unwinding), remembers it, and requires the code's `woken` for each of them
before the next `settled` / `end` marker (by then the harness has let every runnable task run).

Unknown / malformed line -> `bad-op`.
-/

open QbiceVerif.CancelLts

structure D where
  s : State := init Cfg.asIs
  /-- trace task → live model task -/
  cur : List (Nat × Tid) := []
  next : Tid := 0
  /-- glue still expected from a trace task after its `cancel` / `resume` was fired -/
  glue : List (Nat × List Glue) := []
  /-- detached continuations that no trace task has picked up yet -/
  unbound : List Tid := []
  /-- a session call (`set_input`, `refresh`, `commit`) is inside its guarded block -/
  inCall : Bool := false
  cutPending : Bool := false
  keys : List Nat := []
  rejects : Nat := 0
  /-- trace tasks that are other callers in flight (only their waits are traced) -/
  companions : List Nat := []
  /-- (trace task, key): woken in the model because the entry was removed, not yet confirmed by the code -/
  pendingWake : List (Nat × Key) := []

def lookup {α} (l : List (Nat × α)) (k : Nat) : Option α := (l.find? (·.1 == k)).map (·.2)
def remove {α} (l : List (Nat × α)) (k : Nat) : List (Nat × α) := l.filter (·.1 != k)
def insertA {α} (l : List (Nat × α)) (k : Nat) (v : α) : List (Nat × α) := (k, v) :: remove l k

def insSorted (x : Nat) : List Nat → List Nat
  | [] => [x]
  | y :: ys => if x < y then x :: y :: ys else if x = y then y :: ys else y :: insSorted x ys

def D.task (d : D) (tau : Nat) : Option (Tid × Task) :=
  match lookup d.cur tau with
  | some t => (d.s.tasks t).map (fun T => (t, T))
  | none => none

def D.fire (d : D) (e : Ev) : Option D := (step d.s e).map (fun s' => { d with s := s' })

def isIdleRoot (T : Task) : Bool :=
  match T.frames with
  | [f] => T.pc == .start && !f.lock && !f.bp && !T.detached
  | _ => false

/-- finished root frames return to the user without a hook event: retire them -/
def D.retire (d : D) : D :=
  d.cur.foldl (fun d (p : Nat × Tid) =>
    match d.s.tasks p.2 with
    | some T => if isIdleRoot T then
        (match d.fire (.hit p.2) with | some d' => { d' with cur := remove d'.cur p.1 } | none => d)
      else d
    | none => { d with cur := remove d.cur p.1 }) d

def D.spawn (d : D) (tau : Nat) (k : Key) (undo : Option Key) : Option (D × Tid) :=
  let t := d.next
  let d := { d with next := d.next + 1 }
  match d.fire (.spawn t k false undo) with
  | some d' => some ({ d' with cur := insertA d'.cur tau t }, t)
  | none => match d.fire (.spawn t k true undo) with
    | some d' => some ({ d' with cur := insertA d'.cur tau t }, t)
    | none => none

/-- `notify_waiters()` as the model has it: every parked companion whose entry is gone is woken -/
def D.wakeAll (d : D) : D :=
  d.cur.foldl (fun d (p : Nat × Tid) =>
    match d.s.tasks p.2 with
    | some T =>
      (match T.frames with
       | top :: _ =>
         if T.pc == .waitC && (d.s.comp top.key).isNone then
           (match d.fire (.wake p.2) with
            | some d' => { d' with pendingWake := (p.1, top.key) :: d'.pendingWake }
            | none => d)
         else d
       | [] => d)
    | none => d) d

def D.lostWake (d : D) : Option String :=
  match d.pendingWake with
  | [] => none
  | l => some s!"REJECT lost wake-up: the entry of key(s) {",".intercalate ((l.map (·.2)).eraseDups.map toString)} was removed (the owner completed, was dropped or unwound) while task(s) {",".intercalate ((l.map (·.1)).eraseDups.map toString)} were parked on it; the model wakes the waiter (`wake` is enabled, theorem cancel_wakes_waiters), the code never did"

def showGlue : Glue → String
  | .unlock k => s!"unlock {k}" | .bpunlock k => s!"bpunlock {k}" | .unreg k => s!"unreg {k}"
  | .detach => "detach" | .batchDrop => "batchDrop"

def observable (g : List Glue) : List Glue := g.filter (fun x => x != .batchDrop)

/-- a trace task that nobody knows: a detached continuation picks it up -/
def D.bind (d : D) (tau : Nat) : D :=
  match lookup d.cur tau with
  | some _ => d
  | none => match d.unbound with
    | t :: r => { d with cur := insertA d.cur tau t, unbound := r }
    | [] => d

/-- the first glue item of a dropped / unwinding future fires the model's `cancel` / `resume` -/
def D.beginGlue (d : D) (tau : Nat) : Except String D :=
  match lookup d.glue tau with
  | some (_ :: _) => .ok d
  | _ =>
    match d.task tau with
    | none => .error "glue from a task the model does not know"
    | some (t, T) =>
      if T.pc == .caught then
        match T.frames with
        | top :: _ =>
          (match d.fire (.resume t) with
           | some d' => .ok { d' with glue := insertA d'.glue tau (frameGlue top) }
           | none => .error "resume not enabled")
        | [] => .error "resume without a frame"
      else if T.pc == .sOpen && d.inCall then
        -- a session *call* is dropped inside its guarded block: the call goes on detached, the session stays
        .ok { d with glue := insertA d.glue tau [Glue.detach], inCall := false }
      else
        match d.fire (.cancel t) with
        | some d' =>
          let g := observable (cancelGlue T)
          let det := g.contains .detach
          .ok { d' with glue := insertA d'.glue tau g, cutPending := false,
                        cur := if det then remove d'.cur tau else d'.cur,
                        unbound := if det then d'.unbound ++ [t] else d'.unbound }
        | none => .error "cancel not enabled"

def D.expect (d : D) (tau : Nat) (g : Glue) : Except String D :=
  match d.beginGlue tau with
  | .error e => .error e
  | .ok d =>
    match lookup d.glue tau with
    | some (h :: r) => if h = g then .ok { d with glue := insertA d.glue tau r } else .error s!"drop glue: code did `{showGlue g}`, model expects `{showGlue h}`"
    | _ => .error s!"drop glue: code did `{showGlue g}`, model expects nothing more"

def D.summary (d : D) : String :=
  let comp := d.keys.filter (fun k => (d.s.comp k).isSome)
  let bp := d.keys.filter (fun k => (d.s.bpl k).isSome)
  let sub := (List.range d.s.nextBid).filter (fun b => d.s.bst b == .submitted)
  s!"comp=[{",".intercalate (comp.map toString)}] bp=[{",".intercalate (bp.map toString)}] batches={sub.length}/{d.s.nextBid}"

def orReject (d : D) (r : Except String D) : D × String :=
  match r with
  | .ok d' => (d', "ok")
  | .error e => ({ d with rejects := d.rejects + 1 }, s!"REJECT {e}")

def need {α} (o : Option α) (msg : String) : Except String α := match o with | some a => .ok a | none => .error msg

def handle (d : D) (tau : Nat) (op : String) (args : List Nat) : Except String D := do
  match op, args with
  | "lock", [k] =>
    let d := { d with keys := insSorted k d.keys }
    let (d, t) ← (match d.task tau with
      | some (t, T) =>
        (match T.frames with
         | top :: _ =>
           if top.key = k ∧ T.pc = .start then pure (d, t)
           else if isIdleRoot T then do
             let d ← need (d.fire (.hit t)) "hit (root return) not enabled"
             need (d.spawn tau k none) "spawn not enabled"
           else throw s!"lock {k}: the task is busy with key {top.key}"
         | [] => throw "lock from a session task")
      | none => need (d.spawn tau k none) "spawn not enabled")
    need (d.fire (.lock t)) s!"lock {k} not enabled (entry present or frame not at the loop head)"
  | "bplock", [k] =>
    let d := { d with keys := insSorted k d.keys }
    let (d, t) ← (match d.task tau with
      | some (t, T) =>
        (match T.frames with
         | top :: _ =>
           if top.key = k ∧ T.pc = .start then pure (d, t)
           else if isIdleRoot T then do
             let d ← need (d.fire (.hit t)) "hit (root return) not enabled"
             need (d.spawn tau k none) "spawn not enabled"
           else throw s!"bplock {k}: the task is busy with key {top.key}"
         | [] => throw "bplock from a session task")
      | none => need (d.spawn tau k none) "spawn not enabled")
    need (d.fire (.bpLock t)) s!"bplock {k} not enabled"
  | "reg", [c, k] =>
    let d := { d with keys := insSorted k (insSorted c d.keys) }
    (match d.task tau with
     | some (t, T) =>
       (match T.frames with
        | top :: _ =>
          if top.key = c then
            -- the static-rank assumption of `no_stall` (`ReachableR`): a callee's key is below its caller's
            if k < c then need (d.fire (.call t k)) s!"call {c}->{k} not enabled"
            else throw s!"reg {c} {k}: the callee is not below the caller (rank assumption of no_stall)"
          else throw s!"reg {c} {k}: the innermost frame is {top.key}"
        | [] => throw "reg from a session task")
     | none => do
       let (d, _) ← need (d.spawn tau k (some c)) "spawn (child of an unordered group) not enabled"
       pure d)
  | "defuse", [k] =>
    (match d.task tau with
     | some (t, T) =>
       (match T.frames with
        | top :: rest =>
          if top.key = k then do
            let d ← need (d.fire (.hit t)) s!"hit {k} not enabled"
            pure (if rest.isEmpty then { d with cur := remove d.cur tau } else d)
          else throw s!"defuse {k}: the innermost frame is {top.key}"
        | [] => throw "defuse from a session task")
     | none => throw "defuse from an unknown task")
  | "genter", [] =>
    (match d.task tau with
     | some (t, T) =>
       if T.pc = .locked ∨ T.pc = .bpUp then need (d.fire (.gEnter t)) "gEnter not enabled"
       else if T.pc = .bpRun then do
         let d ← need (d.fire (.bpUp t)) "bpUp not enabled"
         need (d.fire (.gEnter t)) "gEnter not enabled"
       else if T.pc = .sOpen then pure { d with inCall := true }
       else if T.pc = .sG0 then pure d
       else throw "guarded block entered from an unexpected place"
     | none => pure d)   -- the guarded part of `input_session()` (repaired order) before the session task exists
  | "gexit", [] => pure { d with inCall := (match d.task tau with | some (_, T) => if T.pc = .sOpen then false else d.inCall | none => d.inCall) }
  | "bump", [] => pure d
  | "acq", [] =>
    let d := d.retire
    (match d.task tau with
     | some (t, T) =>
       if T.pc = .sBumped then need (d.fire (.sAcquire t)) "sAcquire not enabled (a reader is alive, or the code took the lock in the other order)"
       else throw "phase lock acquired by a task that is not a waiting session"
     | none => do
       let t := d.next
       let d := { d with next := d.next + 1 }
       let d ← need (d.fire (.sStart t)) "sStart not enabled"
       let d ← need (d.fire (.sAcquire t)) "sAcquire not enabled (a reader is alive, or the code took the lock in the other order)"
       pure { d with cur := insertA d.cur tau t })
  | "bnew", [1] =>
    let d := d.retire
    (match d.task tau with
     | some (t, T) =>
       if T.pc = .sG0 then need (d.fire (.sBump t)) "sBump not enabled"
       else throw "session batch created by a task that is busy"
     | none => do
       let t := d.next
       let d := { d with next := d.next + 1 }
       let d ← need (d.fire (.sStart t)) "sStart not enabled"
       let d ← need (d.fire (.sBump t)) "sBump not enabled (the code created the batch before taking the lock)"
       pure { d with cur := insertA d.cur tau t })
  | "bnew", [0] =>
    let d := d.bind tau
    (match d.task tau with
     | some (t, T) =>
       if T.pc = .g0 then need (d.fire (.batchNew t)) "batchNew not enabled"
       else if T.pc = .bpRun then do
         let d ← need (d.fire (.bpUp t)) "bpUp not enabled"
         (match d.s.tasks t with
          | some T' => if T'.batch.isSome then pure d else throw "the code created the backward-projection batch outside the guarded block"
          | none => throw "task vanished")
       else throw "batch created at an unexpected place"
     | none => throw "batch created by an unknown task")
  | "bsub", [] =>
    let d := d.bind tau
    (match d.task tau with
     | some (t, T) =>
       if T.pc = .g1 then need (d.fire (.submit t)) "submit not enabled"
       else if T.pc = .sOpen then do
         let d ← need (d.fire (.sCommit t)) "sCommit not enabled"
         let d ← need (d.fire (.sFinish t)) "sFinish not enabled"
         pure { d with cur := remove d.cur tau, inCall := false }
       else if T.pc = .sG1 then do
         let d ← need (d.fire (.sFinish t)) "sFinish not enabled"
         pure { d with cur := remove d.cur tau, inCall := false }
       else throw "batch submitted at an unexpected place"
     | none =>
       -- the commit spawned by `InputSession::drop`: the session object was dropped
       (match d.cur.find? (fun p => match d.s.tasks p.2 with | some T => T.pc == .sOpen | none => false) with
        | some (tau', t) => do
          let d ← need (d.fire (.cancel t)) "cancel (drop of the session object) not enabled"
          let d ← need (d.fire (.sFinish t)) "sFinish not enabled"
          pure { d with cur := remove d.cur tau', inCall := false }
        | none => throw "batch submitted by an unknown task"))
  | "unlock", [k] =>
    (match lookup d.glue tau with
     | some (_ :: _) => d.expect tau (.unlock k)
     | _ =>
       let d := d.bind tau
       (match d.task tau with
        | some (t, T) =>
          (match T.frames with
           | top :: _ =>
             if T.pc = .g2 ∧ top.key = k ∧ top.lock then do
               let det := T.detached
               let d ← need (d.fire (.finish t)) "finish not enabled"
               pure (if det then { d with cur := remove d.cur tau } else d)
             else throw s!"unlock {k} outside the end of a guarded block"
           | [] => throw "unlock from a session task")
        | none => throw "unlock from an unknown task"))
  | "bpunlock", [k] =>
    (match lookup d.glue tau with
     | some (_ :: _) => d.expect tau (.bpunlock k)
     | _ =>
       let d := d.bind tau
       (match d.task tau with
        | some (t, T) =>
          (match T.frames with
           | top :: _ =>
             if T.pc = .g2 ∧ top.key = k ∧ top.bp then do
               let det := T.detached
               let d ← need (d.fire (.finish t)) "finish not enabled"
               pure (if det then { d with cur := remove d.cur tau } else d)
             else throw s!"bpunlock {k} outside the end of a guarded block"
           | [] => throw "bpunlock from a session task")
        | none => throw "bpunlock from an unknown task"))
  | "droplock", [_] => d.beginGlue tau
  | "dropbp", [_] => d.beginGlue tau
  | "unreg", [k] => d.expect tau (.unreg k)
  | "gdetach", [] => d.expect tau .detach
  | "companion", [] => pure { d with companions := tau :: d.companions }
  | "wait", [k] =>
    let d := { d with keys := insSorted k d.keys }
    let (d, t) ← (match d.task tau with
      | some (t, T) =>
        (match T.frames with
         | top :: _ =>
           if top.key = k ∧ T.pc = .start then pure (d, t)
           else if isIdleRoot T then do
             let d ← need (d.fire (.hit t)) "hit (root return) not enabled"
             need (d.spawn tau k none) "spawn not enabled"
           else throw s!"wait {k}: the task is busy with key {top.key}"
         | [] => throw "wait from a session task")
      | none => need (d.spawn tau k none) "spawn not enabled")
    need (d.fire (.waitC t)) s!"waitC {k} not enabled (there is no computing entry of {k} to wait for)"
  | "woken", [k] =>
    if d.pendingWake.contains (tau, k) then pure { d with pendingWake := d.pendingWake.erase (tau, k) }
    else throw s!"woken {k}: the model's entry of {k} has not been removed"
  | "panic", [k] =>
    (match d.task tau with
     | some (t, T) =>
       (match T.frames with
        | top :: _ => if top.key = k then need (d.fire (.panic t)) "panic not enabled (the executor does not run under a computing lock)" else throw s!"panic {k}: the innermost frame is {top.key}"
        | [] => throw "panic in a session task")
     | none => throw "panic in an unknown task")
  | _, _ => throw "bad-op"

def finishDrop (d : D) : Except String D := do
  -- the caller's future has been dropped completely
  let d ← (if d.cutPending then
      (match d.task 0 with
       | some (t, T) =>
         if T.pc = .sOpen then pure { d with cutPending := false, inCall := false }   -- a session call without a guarded part was dropped
         else do
           let g := observable (cancelGlue T)
           if g.isEmpty then
             let d ← need (d.fire (.cancel t)) "cancel not enabled"
             pure { d with cutPending := false, cur := remove d.cur 0 }
           else throw s!"the model's cancel has drop glue `{" ".intercalate (g.map showGlue)}` that the code did not perform"
       | none => pure { d with cutPending := false })
    else pure d)
  match lookup d.glue 0 with
  | some (h :: _) => throw s!"drop glue: model expects `{showGlue h}`, the code did nothing more"
  | _ => pure { d with cur := (if (d.task 0).isNone then remove d.cur 0 else d.cur) }

def parseNat? (s : String) : Option Nat := s.toNat?

def process (d : D) (line : String) : D × String :=
  let toks := (line.trimAscii.toString.splitOn " ").filter (· ≠ "")
  match toks with
  | "run" :: bits :: _ =>
    let cs := bits.toList
    (match cs with
     | [a, b, c] =>
       if cs.all (fun x => x = '0' ∨ x = '1') then
         ({ s := init ⟨a = '1', b = '1', c = '1'⟩ }, "ok")
       else (d, "bad-op")
     | _ => (d, "bad-op"))
  | [tauS, "cut", _] =>
    (match parseNat? tauS with
     | some _ => ({ d with cutPending := true }, "ok")
     | none => (d, "bad-op"))
  | ["0", "dropped"] => let (d, r) := orReject d (finishDrop d); (d.wakeAll, r)
  | ["0", "settled"] => let d := d.retire; (match d.lostWake with | some e => ({ d with rejects := d.rejects + 1, pendingWake := [] }, e) | none => (d, d.summary))
  | ["0", "end"] => let d := d.retire; (match d.lostWake with | some e => ({ d with rejects := d.rejects + 1, pendingWake := [] }, e) | none => (d, d.summary))
  | tauS :: op :: rest =>
    (match parseNat? tauS, rest.mapM parseNat? with
     | some tau, some args =>
       (match handle d tau op args with
        | .ok d' => (d'.wakeAll, "ok")
        | .error "bad-op" => (d, "bad-op")
        | .error e => ({ d with rejects := d.rejects + 1 }, s!"REJECT {e}"))
     | _, _ => (d, "bad-op"))
  | _ => (d, "bad-op")

partial def loop (h : IO.FS.Stream) (out : IO.FS.Stream) (d : D) : IO Unit := do
  let line ← h.getLine
  if line.isEmpty then return
  let (d', r) := process d line
  out.putStrLn r
  loop h out d'

def main : IO Unit := do
  let stdin ← IO.getStdin
  let stdout ← IO.getStdout
  loop stdin stdout {}
