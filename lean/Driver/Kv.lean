-- line-protocol driver stub (Kv); replaced when the model exists
def main : IO Unit := IO.println "stub"
