/-
Line-protocol driver over the key-value store model (C11).  One output line per input line.

  open r|f                       fresh database, RocksDB / Fjall flavour          -> ok
  open r|f old                   … with the HISTORICAL family cache keyed by the type id alone (F19;
                                 never emitted by the harness, for replaying by hand)  -> ok
  bnew H | snew S                new write batch / serialization buffer           -> ok
  put  b|s H ID P|S D K V        wide-column put through batch / buffer           -> ok | panic
  del  b|s H ID P|S D K          wide-column delete                               -> ok | panic
  ins  b|s H ID K E              insert member                                    -> ok | panic
  rem  b|s H ID K E              delete member                                    -> ok | panic
  consume H S                    consume_serialization_buffer                     -> ok | panic
  commit H | drop H                                                               -> ok
  get ID P|S D K                 get_wide_column                                  -> none | some <bytes>
  scan ID K                      scan_members, drained, in iteration order        -> n=<k> <bytes>… | panic
  reopen                                                                          -> ok
  raw                            every column family, sorted: name{key=value,…};… -> dump
  ub P                           prefix_upper_bound                               -> <bytes>

Bytes are lower-case hex, `-` for the empty string; printed byte strings longer than 40 bytes are
abbreviated to `L<len>:<fnv1a-64>`.
-/
import QbiceVerif.Model.KvStore
open QbiceVerif.Kv

def hexVal (c : Char) : Option Nat :=
  if '0' ≤ c ∧ c ≤ '9' then some (c.toNat - 48)
  else if 'a' ≤ c ∧ c ≤ 'f' then some (c.toNat - 87)
  else none

def unhexAux : List Char → List UInt8 → Option (List UInt8)
  | [], acc => some acc.reverse
  | [_], _ => none
  | a :: b :: rest, acc =>
    match hexVal a, hexVal b with
    | some x, some y => unhexAux rest (UInt8.ofNat (16 * x + y) :: acc)
    | _, _ => none

def unhex (s : String) : Option Bytes :=
  if s == "-" then some [] else if s.isEmpty then none else unhexAux s.toList []

def hexChar (n : Nat) : Char := if n < 10 then Char.ofNat (48 + n) else Char.ofNat (87 + n)

def hexFull (b : Bytes) : String :=
  if b.isEmpty then "-" else
  String.ofList (b.foldr (fun x acc => hexChar (x.toNat / 16) :: hexChar (x.toNat % 16) :: acc) [])

def fnv (b : Bytes) : UInt64 :=
  b.foldl (fun h x => (h ^^^ x.toUInt64) * 0x100000001b3) 0xcbf29ce484222325

def hex16 (v : UInt64) : String :=
  String.ofList ((List.range 16).map (fun i => hexChar ((v.toNat >>> (4 * (15 - i))) % 16)))

def fmt (b : Bytes) : String :=
  if b.length ≤ 40 then hexFull b else s!"L{b.length}:{hex16 (fnv b)}"

def parsePl : String → Option Placement
  | "P" => some .prefixed
  | "S" => some .suffixed
  | _ => none

def showRes : Res → String
  | .ok => "ok"
  | .panic => "panic"
  | .badHandle => "bad-op"

def insStr (k : String) : List String → List String
  | [] => [k]
  | x :: xs => if x < k then x :: insStr k xs else k :: x :: xs

def sortStr : List String → List String
  | [] => []
  | k :: ks => insStr k (sortStr ks)

def dumpCol (c : Col) : String :=
  let keys := sortKeys (c.map (·.1))
  ",".intercalate (keys.map (fun k => s!"{fmt k}={fmt ((aget c k).getD [])}"))

def dumpDisk (d : Disk) : String :=
  ";".intercalate (sortStr (d.map (fun e => s!"{e.1}\{{dumpCol e.2}}")))

structure St where
  be : Backend := rocks
  db : Db := {}

def write (st : St) (mode : String) (h id : Nat) (kind : Kind) (key : Bytes) (val : Option Bytes) :
    Option (String × St) :=
  match mode with
  | "b" => let (r, db) := batchWrite st.be st.db h id kind key val; some (showRes r, { st with db })
  | "s" => let (r, db) := sbufWrite st.be st.db h id kind key val; some (showRes r, { st with db })
  | _ => none

def step (st : St) (w : List String) : Option (String × St) :=
  match w with
  | ["open", "r"] => some ("ok", { be := rocks, db := {} })
  | ["open", "f"] => some ("ok", { be := fjall, db := {} })
  | ["open", "r", "old"] => some ("ok", { be := rocksF19, db := {} })
  | ["open", "f", "old"] => some ("ok", { be := fjallF19, db := {} })
  | ["bnew", h] => do
    let h ← h.toNat?
    some ("ok", { st with db := batchNew st.db h })
  | ["snew", s] => do
    let s ← s.toNat?
    some ("ok", { st with db := sbufNew st.db s })
  | ["put", mode, h, id, pl, d, k, v] => do
    let h ← h.toNat?; let id ← id.toNat?; let pl ← parsePl pl
    let d ← unhex d; let k ← unhex k; let v ← unhex v
    write st mode h id .wide (wideKey st.be.padKey pl d k) (some v)
  | ["del", mode, h, id, pl, d, k] => do
    let h ← h.toNat?; let id ← id.toNat?; let pl ← parsePl pl
    let d ← unhex d; let k ← unhex k
    write st mode h id .wide (wideKey st.be.padKey pl d k) none
  | ["ins", mode, h, id, k, e] => do
    let h ← h.toNat?; let id ← id.toNat?
    let k ← unhex k; let e ← unhex e
    write st mode h id .set (setKey k e) (some [])
  | ["rem", mode, h, id, k, e] => do
    let h ← h.toNat?; let id ← id.toNat?
    let k ← unhex k; let e ← unhex e
    write st mode h id .set (setKey k e) none
  | ["consume", h, s] => do
    let h ← h.toNat?; let s ← s.toNat?
    let (r, db) := consume st.be st.db h s
    some (showRes r, { st with db })
  | ["commit", h] => do
    let h ← h.toNat?
    let (r, db) := commit st.db h
    some (showRes r, { st with db })
  | ["drop", h] => do
    let h ← h.toNat?
    let (r, db) := dropBatch st.db h
    some (showRes r, { st with db })
  | ["get", id, pl, d, k] => do
    let id ← id.toNat?; let pl ← parsePl pl
    let d ← unhex d; let k ← unhex k
    let (r, db) := get st.be st.db id pl d k
    some (match r with
      | none => "panic"
      | some none => "none"
      | some (some v) => s!"some {fmt v}", { st with db })
  | ["scan", id, k] => do
    let id ← id.toNat?
    let k ← unhex k
    let (r, db) := scan st.be st.db id k
    let out :=
      match r with
      | none => "panic"
      | some r =>
        if r.any Option.isNone then "panic"
        else " ".intercalate (s!"n={r.length}" :: r.map (fun e => fmt (e.getD [])))
    some (out, { st with db })
  | ["reopen"] => some ("ok", { st with db := reopen st.db })
  | ["raw"] => some (dumpDisk st.db.disk, st)
  | ["ub", p] => do
    let p ← unhex p
    some (fmt (prefixUpperBound p), st)
  | _ => none

partial def loop (stdin stdout : IO.FS.Stream) (st : St) : IO Unit := do
  let line ← stdin.getLine
  if line.isEmpty then return
  let w := (line.trimAscii.toString.splitOn " ").filter (· ≠ "")
  match step st w with
  | some (out, st') =>
    stdout.putStrLn out
    loop stdin stdout st'
  | none =>
    stdout.putStrLn "bad-op"
    loop stdin stdout st

def main : IO Unit := do
  let stdin ← IO.getStdin
  let stdout ← IO.getStdout
  loop stdin stdout {}
  stdout.flush
