/-
Line-protocol driver for the persistence view of the engine model (C07, C08).
The engine protocol of Driver/Engine.lean (parsers copied from there), extended with
  cfg …                   → "cfg"         (implementation-side configuration, ignored by the model)
  restart                 → "restarted N" (clean shutdown + a new engine on the same store; N = number of
                                           logical write batches that have reached the store so far)
  shutdown                → "shutdown N"  (the same at the end of a history)
  crash L                 → "crashed T"   (the process died when exactly L logical write batches of the
                                           history run so far had reached the store; a new engine is
                                           opened on that store; T = the timestamp it finds, `none` on
                                           an empty store).  The history is the one run up to the FIRST
                                           `crash` line of the case: later `crash` lines cut the same log.
Arguments: as for drv_engine — the model's defaults are the code as it is; `X` switches toggle X on, `noX` off;
`desc`, `tape=…` choose the walk order of unordered sets; `state` appends ` #S <digest>` (the state digest of
Driver/Engine.lean) to every session / round line that completed.
-/
import QbiceVerif.Model.EnginePersist
open Qbice.Engine Qbice.Persist

inductive Expr where
  | const (n : Int)
  | read (k : Nat)
  | add (a b : Expr)
  | ifEq (e : Expr) (n : Int) (a b : Expr)
  | sumAll (ks : List Nat)
  | world (k : Nat)
  deriving Repr, Inhabited

partial def parseExpr : List String → Option (Expr × List String)
  | "c" :: n :: r => n.toInt?.map fun n => (.const n, r)
  | "r" :: k :: r => k.toNat?.map fun k => (.read k, r)
  | "w" :: k :: r => k.toNat?.map fun k => (.world k, r)
  | "+" :: r => do
    let (a, r) ← parseExpr r
    let (b, r) ← parseExpr r
    pure (.add a b, r)
  | "?" :: r => do
    let (e, r) ← parseExpr r
    match r with
    | n :: r =>
      let n ← n.toInt?
      let (a, r) ← parseExpr r
      let (b, r) ← parseExpr r
      pure (.ifEq e n a b, r)
    | [] => none
  | "S" :: n :: r => do
    let n ← n.toNat?
    let ks ← (r.take n).mapM String.toNat?
    if ks.length != n then none else pure (.sumAll ks, r.drop n)
  | _ => none

/-- compile an expression to the executor free monad (left-to-right evaluation) -/
def Expr.toProg : Expr → (Int → Prog) → Prog
  | .const n, k => k n
  | .read x, k => .ask x k
  | .world x, k => .world x k
  | .add a b, k => a.toProg fun x => b.toProg fun y => k (x + y)
  | .ifEq e n a b, k => e.toProg fun x => if x = n then a.toProg k else b.toProg k
  | .sumAll ks, k => .askAll ks fun vs => k (vs.foldl (· + ·) 0)

def Expr.hasUnordered : Expr → Bool
  | .sumAll _ => true
  | .add a b => a.hasUnordered || b.hasUnordered
  | .ifEq e _ a b => e.hasUnordered || a.hasUnordered || b.hasUnordered
  | _ => false

def parseKind : String → Option Kind
  | "in" => some .input | "nm" => some .normal | "fw" => some .firewall
  | "pj" => some .projection | "ex" => some .external | _ => none

partial def parseWrites : List String → Option (List Write)
  | [] => some []
  | "set" :: k :: v :: r => do
    let k ← k.toNat?; let v ← v.toInt?; let rest ← parseWrites r
    pure (.set k v :: rest)
  | "world" :: k :: v :: r => do
    let k ← k.toNat?; let v ← v.toInt?; let rest ← parseWrites r
    pure (.world k v :: rest)
  | "refresh" :: r => do pure (.refresh :: (← parseWrites r))
  | _ => none

def showErr : Err → String
  | .outOfFuel => "crash outOfFuel"
  | .panic _ => "crash panic"
  | .deadlock _ => "crash hang"
  | .badOp m => s!"bad-op {m}"

def showSetRes : SetRes → String
  | .fresh => "Fresh" | .updated => "Updated" | .unchanged => "Unchanged"
  | .refreshed => "refreshed" | .world => "world"

def sortNat (l : List Nat) : List Nat := l.foldl (fun acc k =>
  let rec ins : List Nat → List Nat
    | [] => [k]
    | x :: r => if k ≤ x then k :: x :: r else x :: ins r
  ins acc) []

structure DS where
  prog : Program := []
  ps : PS := PS.init
  unordered : Bool := false
  /-- the commit log (images) and environment of the history, frozen at the first `crash` -/
  frozen : Option (List PSt × List (Key × Val)) := none

def execsStr (unordered : Bool) (log : List Nat) : String :=
  if unordered then " X" else String.join ((sortNat log).map fun k => s!" {k}")

def kindTag : Kind → String
  | .input => "in" | .normal => "nm" | .firewall => "fw" | .projection => "pj" | .external => "ex"

def commaNat (l : List Nat) : String := ",".intercalate (l.map toString)

/-- State digest (argument `state`; a copy of `digest` of Driver/Engine.lean, same format as `eng::state_digest`
    of the harness): the persistent bookkeeping of every node in ascending key order. -/
def digest (st : St) : String :=
  let keys := sortNat (st.nodes.map (·.1))
  let part (k : Nat) : String :=
    match lookup k st.nodes with
    | none => ""
    | some n =>
      let deps := ",".intercalate (n.fwd.map fun
        | .single c => toString c
        | .unordered cs => "{" ++ commaNat cs ++ "}")
      let obs := ",".intercalate ((sortNat (n.obs.map (·.1))).map fun c =>
        match lookup c n.obs with
        | none => toString c
        | some o =>
          let cn := lookup c st.nodes
          toString c ++ (if cn.map (·.value) != some o.val then "!" else "")
                     ++ (if cn.map (·.tfc) != some o.tfc then "^" else ""))
      let dirty := sortNat ((st.dirty.filter (·.1 == k)).map (·.2))
      let back := sortNat ((st.back.filter (·.1 == k)).map (·.2))
      s!"{k}:{kindTag n.kind}:v{if n.lastVerified == st.epoch then 1 else 0}:val={n.value}:deps=[{deps}]:obs=[{obs}]:dirty=[{commaNat dirty}]:tfc=[{commaNat n.tfc}]:pend={if n.pendingBP.isSome then 1 else 0}:back=[{commaNat back}]"
  " ; ".intercalate (keys.map part)

/-- run-time validation of the two hypotheses of the C07 theorems that are not proved for the full
    model: between operations nothing is in flight and the store is the image of the state -/
def flags (ps : PS) : String :=
  (if quiescentB ps.st then "" else " !busy") ++ (if syncedB ps then "" else " !unsynced")

def step (t : Toggles) (d : DS) (toks : List String) : DS × String :=
  match toks with
  | "case" :: _ => ({ unordered := toks.contains "unordered" }, "case")
  | "cfg" :: _ => (d, "cfg")
  | "node" :: k :: kind :: dflt :: rest =>
    match k.toNat?, parseKind kind, dflt.toInt?, parseExpr rest with
    | some k, some kind, some dflt, some (e, []) =>
      if k != d.prog.length then (d, "bad-op") else
      ({ d with prog := d.prog ++ [{ kind := kind, dflt := dflt, prog := e.toProg .ret }] }, "ok")
    | _, _, _, _ => (d, "bad-op")
  | "session" :: rest =>
    match parseWrites rest with
    | none => (d, "bad-op")
    | some ws =>
      match runP (sessionP d.prog ws) { d.ps with st := { d.ps.st with log := [] } } with
      | .ok (rs, ps) => ({ d with ps := ps }, " ".intercalate (rs.map showSetRes) ++ " |" ++ execsStr d.unordered ps.st.log ++ flags ps)
      | .error e => (d, showErr e)
  | "round" :: rest =>
    match rest.mapM String.toNat? with
    | none => (d, "bad-op")
    | some ks =>
      match runP' (roundP t d.prog ks) { d.ps with st := { d.ps.st with log := [], choicePoints := 0 } } with
      | (.ok vs, ps) => ({ d with ps := ps }, " ".intercalate (vs.map toString) ++ " |" ++ execsStr d.unordered ps.st.log
          ++ flags ps ++ (if ps.st.choicePoints > 0 then " ~" else ""))
      | (.error e, ps) => (d, showErr e ++ (if ps.st.choicePoints > 0 then " ~" else ""))
  | ["restart"] => ({ d with ps := restartP d.ps }, s!"restarted {d.ps.trace.length}")
  | ["shutdown"] => ({ d with ps := restartP d.ps }, s!"shutdown {d.ps.trace.length}")
  | ["crash", l] =>
    match l.toNat? with
    | none => (d, "bad-op")
    | some l =>
      let (trace, w) := d.frozen.getD (d.ps.trace, d.ps.st.world)
      match crashAt w trace l with
      | none => (d, s!"crash-out-of-range {trace.length}")
      | some ps => ({ d with ps := ps, frozen := some (trace, w) },
          if l = 0 then "crashed none" else s!"crashed {ps.st.epoch}")
  | _ => (d, "bad-op")

partial def loop (h : IO.FS.Stream) (out : IO.FS.Stream) (state : Bool) (t : Toggles) (d : DS) : IO Unit := do
  let line ← h.getLine
  if line.isEmpty then return ()
  let toks := (line.trimAscii.toString.splitOn " ").filter (· ≠ "")
  let (d', o) := step t d toks
  -- `state`: ` #S <digest of the model state>` after every session / round that completed (programs of at most 64 keys)
  let isOp := toks.head? == some "session" || toks.head? == some "round"
  let o := if state && isOp && d'.prog.length ≤ 64 && !(o.startsWith "crash") && !(o.startsWith "bad-op")
    then o ++ " #S " ++ digest d'.ps.st else o
  out.putStrLn o
  loop h out state t d'

/-- the model's defaults are the code as it is; `X` switches toggle X on, `noX` off -/
def setToggle (t : Toggles) (a : String) : Toggles :=
  match a with
  | "f1" => { t with f1 := true } | "nof1" => { t with f1 := false }
  | "f2" => { t with f2 := true } | "nof2" => { t with f2 := false }
  | "f3" => { t with f3 := true } | "nof3" => { t with f3 := false }
  | "f14" => { t with f14 := true } | "nof14" => { t with f14 := false }
  | "f16" => { t with f16 := true } | "nof16" => { t with f16 := false }
  | "f33" => { t with f33 := true } | "nof33" => { t with f33 := false }
  | "f31" => { t with f31 := true } | "nof31" => { t with f31 := false }
  | "f32" => { t with f32 := true } | "nof32" => { t with f32 := false }
  | "f1p" => { t with f1p := true } | "nof1p" => { t with f1p := false }
  | "f1q" => { t with f1q := true } | "nof1q" => { t with f1q := false }
  | "f1r" => { t with f1r := true } | "nof1r" => { t with f1r := false }
  | "f13" => { t with f13 := true } | "nof13" => { t with f13 := false }
  | "desc" => { t with desc := true }
  | _ =>
    if a.startsWith "tape=" then { t with tape := ((a.drop 5).toString.splitOn ",").filterMap String.toNat? } else t

def main (args : List String) : IO Unit := do
  loop (← IO.getStdin) (← IO.getStdout) (args.contains "state") (args.foldl setToggle {}) {}
