-- line-protocol driver stub (Wb); replaced when the model exists
def main : IO Unit := IO.println "stub"
