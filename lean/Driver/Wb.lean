import QbiceVerif.Model.WriteBehind

/-!
Line-protocol driver over the write-behind model (C10): trace validation.

The harness emits the events it can observe on the real `WriteBehind` (plus the `take` events it
infers from FIFO order); the driver replays them through `step` — an event that is not enabled is
answered `not-enabled` — and fires the *unobservable* events (channel send/receive, loop exits,
worker exits, after-commit steps) eagerly between observed ones, each through the same checked
`step`.  Every state the driver goes through is therefore a state of a genuine model run.

  new S                 start a case with S serializer workers            -> ok
  create                WriteBehind::new_write_batch                      -> epoch N
  submit E OPS          submit_write_batch of the batch created as E      -> ok
  take W E              serializer W received batch E                     -> ok
  ser W E OPS           serializer W filled its buffer with OPS (in order)-> ok
  pop E                 commit worker consumed the buffer of batch E      -> pop N
  more B                should_write_more() answered B (0/1)              -> ok
  commit                WriteBatch::commit of the physical batch          -> commit EPOCHS OPS
  dropbegin             drop(WriteBehind) starts                          -> ok
  dropend               drop(WriteBehind) returned                        -> returned
  end                   dump                                              -> store … applied=N chunks=…
  crashed               did the process abort?                            -> crashed 0|1

OPS: `-` or comma separated `space:col:key:sub=VAL` with VAL a number or `-` (delete).
-/

open QbiceVerif.WB

def parseKey (s : String) : Option SKey :=
  match s.splitOn ":" with
  | [a, b, c, d] => do
    let a ← a.toNat?
    let b ← b.toNat?
    let c ← c.toNat?
    let d ← d.toNat?
    some ⟨a, b, c, d⟩
  | _ => none

def parseOp (s : String) : Option WOp :=
  match s.splitOn "=" with
  | [k, v] => do
    let k ← parseKey k
    let v ← if v == "-" then some none else v.toNat?.map some
    some ⟨k, v⟩
  | _ => none

def parseOps (s : String) : Option (List WOp) :=
  if s == "-" then some [] else (s.splitOn ",").mapM parseOp

def showKey (k : SKey) : String := s!"{k.space}:{k.col}:{k.key}:{k.sub}"

def showOp (o : WOp) : String :=
  showKey o.key ++ "=" ++ (match o.val with | some v => toString v | none => "-")

def showOps (l : List WOp) : String := if l.isEmpty then "-" else ",".intercalate (l.map showOp)

def showNats (l : List Nat) : String := if l.isEmpty then "-" else ";".intercalate (l.map toString)

def keyLt (a b : SKey) : Bool :=
  a.space < b.space || (a.space == b.space && (a.col < b.col || (a.col == b.col &&
    (a.key < b.key || (a.key == b.key && a.sub < b.sub)))))

def insertKey (k : SKey) : List SKey → List SKey
  | [] => [k]
  | x :: xs => if k == x then x :: xs else if keyLt k x then k :: x :: xs else x :: insertKey k xs

/-- The unobservable events, tried in this order. -/
def silentCandidates (s : State) : List Event :=
  (List.range s.sers.length).map Event.serSend ++ [.cRecv, .cBreak, .cRecvClosed] ++
    (List.range s.sers.length).map Event.serExit ++ [.cNotify, .cAssert, .aRecv, .aExit]

/-- Fire unobservable events until none is enabled; `none` = out of fuel. -/
def closure : Nat → State → Option State
  | 0, _ => none
  | fuel + 1, s =>
    match (silentCandidates s).findSome? (fun ev => step s ev) with
    | some s' => closure fuel s'
    | none => some s

structure Drv where
  st : Option State := none
  keys : List SKey := []
  cases : Nat := 0
  maxHeap : Nat := 0
  heldCases : Nat := 0      -- cases in which the model's hold-back heap held >= 2 batches at once
  curMax : Nat := 0

def fuelFor (s : State) : Nat :=
  200 + 40 * (s.submitted.length + s.sers.length)

/-- Fire one observed event, then the silent closure. -/
def fireObs (s : State) (ev : Event) : Except String State :=
  match step s ev with
  | none => .error "not-enabled"
  | some s' =>
    match closure (fuelFor s') s' with
    | none => .error "out-of-fuel"
    | some s'' => .ok s''

def heldEpoch (s : State) (w : Nat) : Option (Nat × Bool) :=
  match s.sers[w]? with
  | some (.raw t) => some (t.epoch, false)
  | some (.done t) => some (t.epoch, true)
  | _ => none

def handle (d : Drv) (line : String) : Drv × String :=
  let toks := (line.trimAscii.toString.splitOn " ").filter (· ≠ "")
  match toks with
  | ["new", n] =>
    match n.toNat? with
    | some n =>
      match closure 100 (init n) with
      | some s => ({ d with st := some s, keys := [], cases := d.cases + 1, curMax := 0 }, "ok")
      | none => (d, "out-of-fuel")
    | none => (d, "bad-op")
  | cmd :: args =>
    match d.st with
    | none => (d, "bad-op")
    | some s =>
      let run (ev : Event) (out : State → String) : Drv × String :=
        match fireObs s ev with
        | .ok s' => ({ d with st := some s' }, out s')
        | .error e => (d, e)
      match cmd, args with
      | "create", [] => run .create (fun _ => s!"epoch {s.counter}")
      | "submit", [e, ops] =>
        match e.toNat?, parseOps ops with
        | some e, some ops =>
          let d' := { d with keys := ops.foldl (fun ks (o : WOp) => insertKey o.key ks) d.keys }
          match fireObs s (.submit e ops) with
          | .ok s' => ({ d' with st := some s' }, "ok")
          | .error er => (d, er)
        | _, _ => (d, "bad-op")
      | "take", [w, e] =>
        match w.toNat?, e.toNat? with
        | some w, some e =>
          match step s (.serTake w) with
          | none => (d, "not-enabled")
          | some s' =>
            match heldEpoch s' w with
            | some (e', _) =>
              if e' == e then
                match closure (fuelFor s') s' with
                | some s'' => ({ d with st := some s'' }, "ok")
                | none => (d, "out-of-fuel")
              else (d, s!"mismatch took {e'}")
            | none => (d, "mismatch")
        | _, _ => (d, "bad-op")
      | "ser", [w, e, ops] =>
        match w.toNat?, e.toNat?, parseOps ops with
        | some w, some e, some ops =>
          match heldEpoch s w with
          | some (e', false) =>
            if e' == e then run (.serSerialise w ops) (fun _ => "ok") else (d, s!"mismatch holds {e'}")
          | _ => (d, "not-enabled")
        | _, _, _ => (d, "bad-op")
      | "pop", [_e] =>
        run .cPop (fun _ => s!"pop {s.expected}")
      | "more", [b] =>
        if b == "1" then run (.cDecide true) (fun _ => "ok")
        else if b == "0" then run (.cDecide false) (fun _ => "ok")
        else (d, "bad-op")
      | "commit", [] =>
        run .cCommit (fun _ =>
          s!"commit {showNats (s.cur.map Task.epoch)} {showOps (s.cur.flatMap Task.buf)}")
      | "dropbegin", [] =>
        match step s .dSetFlag with
        | none => (d, "not-enabled")
        | some s1 => match fireObs s1 .dClose with
          | .ok s2 => ({ d with st := some s2 }, "ok")
          | .error e => (d, e)
      | "dropend", [] =>
        match fireObs s .dJoinSers with
        | .error e => (d, s!"stuck joinSers {e}")
        | .ok s1 => match fireObs s1 .dJoinCommit with
          | .error e => ({ d with st := some s1 }, s!"stuck joinCommit {e}" ++ (if s1.crashed then " crashed" else ""))
          | .ok s2 => match fireObs s2 .dJoinAfter with
            | .error e => ({ d with st := some s2 }, s!"stuck joinAfter {e}")
            | .ok s3 => ({ d with st := some s3 }, if s3.dpc == .returned then "returned" else "stuck")
      | "crashed", [] => (d, s!"crashed {if s.crashed then 1 else 0}")
      | "end", [] =>
        let kv := d.keys.filterMap (fun k => match s.store k with
          | some v => some (showKey k ++ "=" ++ toString v)
          | none => none)
        let storeS := if kv.isEmpty then "-" else ",".intercalate kv
        let chunks := if s.log.isEmpty then "-" else "+".intercalate (s.log.map (fun c => toString c.length))
        (d, s!"store {storeS} applied={s.applied.length} chunks={chunks} crashed={if s.crashed then 1 else 0}")
      | _, _ => (d, "bad-op")
  | [] => (d, "bad-op")

def track (d : Drv) : Drv :=
  match d.st with
  | none => d
  | some s =>
    let h := s.heap.length
    let d := if h ≥ 2 && d.curMax < 2 then { d with heldCases := d.heldCases + 1 } else d
    { d with curMax := max d.curMax h, maxHeap := max d.maxHeap h }

partial def loop (h : IO.FS.Stream) (out : IO.FS.Stream) (d : Drv) : IO Drv := do
  let line ← h.getLine
  if line.isEmpty then return d
  let (d', o) := handle d line
  out.putStrLn o
  loop h out (track d')

def main : IO Unit := do
  let stdin ← IO.getStdin
  let stdout ← IO.getStdout
  let d ← loop stdin stdout {}
  IO.eprintln s!"cases={d.cases} max_model_heap={d.maxHeap} cases_with_model_heap_ge2={d.heldCases}"
