/-
Line-protocol driver over the interner model (C15).  One output line per input line.

Sequential cases (the LTS run one call at a time, cross-checked with the atomic spec `aStep`):
  S begin SHARDS NTASKS            -> ok
  S intern T TY D                  -> ret A new|hit data=D'
  S get T TY KEY                   -> ret A data=D' | ret none
  S clone T I | S drop T I         -> ok
  S vacuum                         -> ok          (every lock, every slot of the small domain)
  S check                          -> held 0:[a,b] 1:[…]
  S end                            -> ok
Thread traces (linearisability of the call/return log against `aStep`, slot by slot):
  T begin …                        -> ok
  T ev SEQ THREAD call intern TY D | call get TY KEY | call clone TY A | call drop TY A   -> ok
  T ev SEQ THREAD ret new A D' | ret hit A D' | ret some A D' | ret none | ret ok         -> ok
  T end                            -> lin-ok | lin-fail … | lin-budget
Encode / decode:
  X enc TERM…                      -> hex bytes
  X dec live|fresh|dropped HEX TERM…  -> dec-ok TERM… share=c0,c1,…   | dec-fail …
TERM = (TY LABEL HASH128HEX TERM…).   The content hash of data D is D % 4 (the harness's test types hash
only `key = D % 4`); shard index = hash % SHARDS.
-/
import QbiceVerif.Model.Interner
import Std.Data.HashSet
open QbiceVerif.Interner

def cfgOf (shards : Nat) : Cfg := ⟨fun d => d % 4, fun h => h % (if shards = 0 then 1 else shards)⟩

def listStr (xs : List Nat) : String := "[" ++ ",".intercalate (xs.map toString) ++ "]"

/-! ### sequential mode -/
structure SeqSt where
  c : Cfg
  shards : Nat
  ntasks : Nat
  s : State
  a : AState

def spawnN (c : Cfg) : Nat → State × AState → Option (State × AState)
  | 0, p => some p
  | n + 1, (s, a) =>
    match step c s .spawn, aStep c a .spawn with
    | some s', some (a', _) => spawnN c n (s', a')
    | _, _ => none

def absAgree (s : State) (a : AState) : Bool :=
  s.abs.held == a.held && s.abs.allocs == a.allocs

def seqCall (st : SeqSt) (t : Nat) (call : Act) (aop : AOp) : Option SeqSt × String :=
  let before := st.s.allocs.length
  match runCall st.c st.s t call, aStep st.c st.a aop with
  | .ok s', some (a', r) =>
    let lr := match s'.tasks[t]? with | some tk => tk.ret | none => none
    if lr != r || !(absAgree s' a') then (some { st with s := s', a := a' }, "model-internal-mismatch")
    else
      let txt := match r with
        | none => "ret none"
        | some x =>
          let d := match s'.allocs[x]? with | some v => toString v.data | none => "?"
          match call with
          | .callIntern _ => s!"ret {x} {if x == before then "new" else "hit"} data={d}"
          | _ => s!"ret {x} data={d}"
      (some { st with s := s', a := a' }, txt)
  | .error e, _ => (none, s!"model-error {repr e}")
  | _, none => (none, "model-error spec-not-enabled")

def seqLocal (st : SeqSt) (t : Nat) (act : Act) (aop : AOp) : Option SeqSt × String :=
  match step st.c st.s (.act t act), aStep st.c st.a aop with
  | some s', some (a', _) =>
    if absAgree s' a' then (some { st with s := s', a := a' }, "ok") else (some { st with s := s', a := a' }, "model-internal-mismatch")
  | _, _ => (none, "model-error not-enabled")

def seqVacuum (st : SeqSt) : Option SeqSt × String :=
  let vt := st.ntasks   -- the extra task spawned for vacuum
  let locks := (List.range 3).flatMap (fun ty => (List.range st.shards).map (fun i => (⟨ty, i⟩ : LockId)))
  let r := locks.foldl (fun (acc : Except RunErr State) l =>
    match acc with
    | .error e => .error e
    | .ok s =>
      let slots := (List.range 4).filterMap (fun h => if st.c.lockOf ⟨l.ty, h⟩ = l then some (⟨l.ty, h⟩ : Slot) else none)
      runVacuum st.c s vt l slots) (.ok st.s)
  match r with
  | .ok s' => if absAgree s' st.a then (some { st with s := s' }, "ok") else (some { st with s := s' }, "model-internal-mismatch")
  | .error e => (none, s!"model-error {repr e}")

/-! ### thread traces -/
inductive TKind
  | internNew (a d : Nat) | internHit (a d : Nat) | getSome (a d : Nat) | getNone | clone (a : Nat) | drop (a : Nat)
deriving Repr, Inhabited

structure TOp where
  call : Nat
  ret : Nat
  thread : Nat
  ty : Nat
  arg : Nat          -- requested data (intern) / key (get) / allocation (clone, drop)
  kind : TKind
deriving Repr, Inhabited

structure Pending where
  seq : Nat
  op : String
  ty : Nat
  arg : Nat

structure TrSt where
  nthreads : Nat
  pending : List (Nat × Pending)
  ops : Array TOp
  bad : Option String

structure LinSt where
  a : AState
  ren : List (Nat × Nat)     -- implementation allocation -> model allocation

def renGet (ren : List (Nat × Nat)) (x : Nat) : Option Nat := (ren.find? (fun p => p.1 == x)).map (·.2)

/-- apply one logged call atomically to the spec; `none` = the spec cannot answer what the implementation answered -/
def applyOp (c : Cfg) (st : LinSt) (o : TOp) : Option LinSt :=
  match o.kind with
  | .internNew a d =>
    match aStep c st.a (.intern o.thread ⟨o.ty, o.arg⟩) with
    | some (a', some m) => if m == st.a.allocs.length && d == o.arg && (renGet st.ren a).isNone then some ⟨a', (a, m) :: st.ren⟩ else none
    | _ => none
  | .internHit a d =>
    match aStep c st.a (.intern o.thread ⟨o.ty, o.arg⟩) with
    | some (a', some m) =>
      if m < st.a.allocs.length && renGet st.ren a == some m && (a'.allocs[m]?).map (·.data) == some d then some ⟨a', st.ren⟩ else none
    | _ => none
  | .getSome a d =>
    match aStep c st.a (.get o.thread ⟨o.ty, o.arg⟩) with
    | some (a', some m) => if renGet st.ren a == some m && (a'.allocs[m]?).map (·.data) == some d then some ⟨a', st.ren⟩ else none
    | _ => none
  | .getNone =>
    match aStep c st.a (.get o.thread ⟨o.ty, o.arg⟩) with
    | some (a', none) => some ⟨a', st.ren⟩
    | _ => none
  | .clone a =>
    match renGet st.ren a with
    | some m =>
      match (st.a.held.getD o.thread []).findIdx? (· == m) with
      | some i => (aStep c st.a (.clone o.thread i)).map (fun r => ⟨r.1, st.ren⟩)
      | none => none
    | none => none
  | .drop a =>
    match renGet st.ren a with
    | some m =>
      match (st.a.held.getD o.thread []).findIdx? (· == m) with
      | some i => (aStep c st.a (.drop o.thread i)).map (fun r => ⟨r.1, st.ren⟩)
      | none => none
    | none => none

structure Search where
  visited : Std.HashSet Nat
  budget : Nat

/-- Wing–Gong search with memoisation on the set of linearised calls (the spec state is a function of that
    set up to the renaming of allocations). -/
partial def linSearch (c : Cfg) (ops : Array TOp) (done : Nat) (ndone : Nat) (st : LinSt) (sr : Search) : Bool × Search :=
  if ndone == ops.size then (true, sr)
  else if sr.budget == 0 then (false, sr)
  else if sr.visited.contains done then (false, sr)
  else
    let idxs := (List.range ops.size).filter (fun i => !(done.testBit i))
    let minRet := idxs.foldl (fun m i => Nat.min m ops[i]!.ret) (ops[idxs.head!]!.ret)
    let cands := idxs.filter (fun i => ops[i]!.call < minRet)
    let rec go (cs : List Nat) (sr : Search) : Bool × Search :=
      match cs with
      | [] => (false, { sr with visited := sr.visited.insert done })
      | i :: rest =>
        match applyOp c st ops[i]! with
        | none => go rest sr
        | some st' =>
          let (ok, sr') := linSearch c ops (done ||| (1 <<< i)) (ndone + 1) st' { sr with budget := sr.budget - 1 }
          if ok then (true, sr') else go rest sr'
    go cands sr

def slotOfOp (allocSlot : List (Nat × (Nat × Nat))) (o : TOp) : Option (Nat × Nat) :=
  match o.kind with
  | .internNew _ _ | .internHit _ _ => some (o.ty, o.arg % 4)
  | .getSome _ _ | .getNone => some (o.ty, o.arg)
  | .clone a | .drop a => (allocSlot.find? (fun p => p.1 == a)).map (·.2)

def linCheck (tr : TrSt) : String :=
  match tr.bad with
  | some b => s!"lin-fail malformed {b}"
  | none =>
    if !tr.pending.isEmpty then "lin-fail call-without-return" else
    let c := cfgOf 4
    let ops := tr.ops.qsort (fun x y => x.call < y.call)
    let allocSlot : List (Nat × (Nat × Nat)) := ops.toList.filterMap (fun o =>
      match o.kind with
      | .internNew a d | .internHit a d | .getSome a d => some (a, (o.ty, d % 4))
      | _ => none)
    match ops.toList.find? (fun o => (slotOfOp allocSlot o).isNone) with
    | some o => s!"lin-fail handle-of-unknown-allocation thread={o.thread} call={o.call}"
    | none =>
      let slots := (ops.toList.filterMap (slotOfOp allocSlot)).eraseDups
      let init : Option (State × AState) := spawnN c tr.nthreads (State.init, AState.init)
      match init with
      | none => "lin-fail spawn"
      | some (_, a0) =>
        let res := slots.foldl (fun (acc : Option String) k =>
          match acc with
          | some e => some e
          | none =>
            let sub := ops.filter (fun o => slotOfOp allocSlot o == some k)
            let (ok, sr) := linSearch c sub 0 0 ⟨a0, []⟩ ⟨{}, 300000⟩
            if ok then none
            else if sr.budget == 0 then some "lin-budget"
            else some s!"lin-fail slot={k.1}:{k.2} calls={sub.size}") none
        match res with
        | none => "lin-ok"
        | some e => e

/-! ### encode / decode -/
def hexVal (c : Char) : Option Nat :=
  if '0' ≤ c ∧ c ≤ '9' then some (c.toNat - 48)
  else if 'a' ≤ c ∧ c ≤ 'f' then some (c.toNat - 87)
  else none

def parseHexNat (s : String) : Option Nat :=
  s.toList.foldl (fun acc ch => match acc, hexVal ch with | some n, some d => some (16 * n + d) | _, _ => none) (some 0)

def unhex (s : String) : Option (List Nat) :=
  let rec go : List Char → List Nat → Option (List Nat)
    | [], acc => some acc.reverse
    | [_], _ => none
    | a :: b :: rest, acc => match hexVal a, hexVal b with
      | some x, some y => go rest ((16 * x + y) :: acc)
      | _, _ => none
  if s == "-" then some [] else go s.toList []

def hexChar (n : Nat) : Char := if n < 10 then Char.ofNat (48 + n) else Char.ofNat (87 + n)
def hexOf (b : List Nat) : String :=
  if b.isEmpty then "-" else String.ofList (b.foldr (fun x acc => hexChar (x / 16) :: hexChar (x % 16) :: acc) [])
def hex128 (v : Nat) : String := String.ofList ((List.range 32).map (fun i => hexChar ((v >>> (4 * (31 - i))) % 16)))

/-- parse `(TY LABEL HASH kids…)…` from a token list; returns terms with the hash table of all subterms -/
partial def parseTerms (toks : List String) (tbl : List (Tm × Nat)) : Option (List Tm × List String × List (Tm × Nat)) :=
  match toks with
  | "(" :: ty :: label :: h :: rest =>
    match ty.toNat?, label.toNat?, parseHexNat h with
    | some ty, some label, some h =>
      match parseTerms rest tbl with
      | some (kids, ")" :: rest', tbl') =>
        let t := Tm.node ty label kids
        match parseTerms rest' ((t, h) :: tbl') with
        | some (more, rest'', tbl'') => some (t :: more, rest'', tbl'')
        | none => none
      | _ => none
    | _, _, _ => none
  | _ => some ([], toks, tbl)

def lexTerms (s : String) : List String :=
  ((s.replace "(" " ( ").replace ")" " ) ").splitOn " " |>.filter (· ≠ "")

def mkH (tbl : List (Tm × Nat)) : Tm → Nat := fun t =>
  match tbl.find? (fun p => Tm.beq p.1 t) with
  | some p => p.2
  | none => 2 ^ 128     -- not a hash any value of the case has

partial def showTm (H : Tm → Nat) : Tm → String
  | .node ty label kids => s!"({ty} {label} {hex128 (H (.node ty label kids))}" ++ String.join (kids.map (fun k => " " ++ showTm H k)) ++ ")"

def readVarint : Nat → List Nat → Option (Nat × List Nat)
  | 0, _ => none
  | _, [] => none
  | fuel + 1, b :: rest =>
    if b < 128 then some (b, rest)
    else match readVarint fuel rest with
      | some (v, rest') => some (b - 128 + 128 * v, rest')
      | none => none

/-- bytes → tokens (inverse of `Tok.bytes` for the harness's value types) -/
partial def lexBytes (bs : List Nat) (acc : List Tok) : Option (List Tok) :=
  match bs with
  | [] => some acc.reverse
  | ty :: 0 :: rest =>
    if ty < 2 then
      match rest with
      | label :: rest' => match readVarint 10 rest' with
        | some (n, rest'') => lexBytes rest'' (.src ty label n :: acc)
        | none => none
      | [] => none
    else if ty == 2 then
      match rest with
      | 1 :: label :: rest' => lexBytes rest' (.src ty label 0 :: acc)
      | _ => none
    else if ty == 3 then
      match rest with
      | 1 :: ch :: rest' => match hexVal (Char.ofNat ch) with
        | some label => lexBytes rest' (.src ty label 0 :: acc)
        | none => none
      | _ => none
    else none
  | ty :: 1 :: rest =>
    match readVarint 10 rest with
    | some (lo, rest') => match readVarint 10 rest' with
      | some (hi, rest'') => lexBytes rest'' (.ref ty (lo + 2 ^ 64 * hi) :: acc)
      | none => none
    | none => none
  | _ => none

/-- all handle occurrences in production (post-) order -/
partial def postOrder : Tm → List Tm
  | .node ty label kids => kids.flatMap postOrder ++ [.node ty label kids]

def classesOf (xs : List Nat) : String :=
  let (_, out) := xs.foldl (fun (acc : List (Nat × Nat) × List Nat) a =>
    match acc.1.find? (fun p => p.1 == a) with
    | some p => (acc.1, acc.2 ++ [p.2])
    | none => ((a, acc.1.length) :: acc.1, acc.2 ++ [acc.1.length])) ([], [])
  ",".intercalate (out.map toString)

def doEnc (rest : String) : String :=
  match parseTerms (lexTerms rest) [] with
  | some (ts, [], tbl) => hexOf (encodeBytes (mkH tbl) ts)
  | _ => "bad-op"

def doDec (mode hexs rest : String) : String :=
  match parseTerms (lexTerms rest) [], unhex hexs with
  | some (ts, [], tbl), some bytes =>
    let H := mkH tbl
    match readVarint 10 bytes with
    | none => "dec-fail bad-length"
    | some (n, body) =>
      match lexBytes body [] with
      | none => "dec-fail bad-bytes"
      | some toks =>
        -- `live`: the originals are alive in the interner the decoder uses
        let d0 : DState :=
          if mode == "live" then
            let d1 : DState := (ts.flatMap postOrder).foldl (fun (d : DState) t => (d.intern H t).2) (⟨[], 0, []⟩ : DState)
            { d1 with log := [] }
          else ⟨[], 0, []⟩
        match decList H (2 * (toks.length + n) + 4) n d0 toks with
        | .ok (out, d, []) =>
          s!"dec-ok {" ".intercalate (out.map (showTm H))} share={classesOf (d.log.map (·.1))}"
        | .ok (_, _, _ :: _) => "dec-fail trailing-bytes"
        | .error e => s!"dec-fail {repr e}"
  | _, _ => "bad-op"

/-! ### main loop -/
structure DrvSt where
  seq : Option SeqSt := none
  tr : Option TrSt := none

def trEvent (tr : TrSt) (w : List String) : TrSt × String :=
  match w with
  | [seq, th, "call", op, ty, arg] =>
    match seq.toNat?, th.toNat?, ty.toNat?, arg.toNat? with
    | some seq, some th, some ty, some arg =>
      if (tr.pending.find? (fun p => p.1 == th)).isSome then ({ tr with bad := some "nested-call" }, "ok")
      else if op == "intern" || op == "get" || op == "clone" || op == "drop" then
        ({ tr with pending := (th, ⟨seq, op, ty, arg⟩) :: tr.pending }, "ok")
      else (tr, "bad-op")
    | _, _, _, _ => (tr, "bad-op")
  | seq :: th :: "ret" :: res =>
    match seq.toNat?, th.toNat? with
    | some seq, some th =>
      match tr.pending.find? (fun p => p.1 == th) with
      | none => ({ tr with bad := some "return-without-call" }, "ok")
      | some (_, p) =>
        let pend := tr.pending.filter (fun q => q.1 != th)
        let kind : Option TKind :=
          match p.op, res with
          | "intern", ["new", a, d] => match a.toNat?, d.toNat? with | some a, some d => some (.internNew a d) | _, _ => none
          | "intern", ["hit", a, d] => match a.toNat?, d.toNat? with | some a, some d => some (.internHit a d) | _, _ => none
          | "get", ["some", a, d] => match a.toNat?, d.toNat? with | some a, some d => some (.getSome a d) | _, _ => none
          | "get", ["none"] => some .getNone
          | "clone", ["ok"] => some (.clone p.arg)
          | "drop", ["ok"] => some (.drop p.arg)
          | _, _ => none
        match kind with
        | some k => ({ tr with pending := pend, ops := tr.ops.push ⟨p.seq, seq, th, p.ty, p.arg, k⟩ }, "ok")
        | none => (tr, "bad-op")
    | _, _ => (tr, "bad-op")
  | _ => (tr, "bad-op")

def handle (st : DrvSt) (line : String) : DrvSt × String :=
  let w := line.trimAscii.toString.splitOn " "
  match w with
  | ["S", "begin", sh, nt] =>
    match sh.toNat?, nt.toNat? with
    | some sh, some nt =>
      let c := cfgOf sh
      match spawnN c (nt + 1) (State.init, AState.init) with
      | some (s, a) => ({ st with seq := some ⟨c, sh, nt, s, a⟩ }, "ok")
      | none => (st, "model-error spawn")
    | _, _ => (st, "bad-op")
  | "S" :: rest =>
    match st.seq with
    | none => (st, "bad-op")
    | some q =>
      let upd (r : Option SeqSt × String) : DrvSt × String :=
        match r.1 with | some q' => ({ st with seq := some q' }, r.2) | none => (st, r.2)
      match rest.map (·.toNat?) , rest with
      | [_, some t, some ty, some d], ["intern", _, _, _] =>
        if t < q.ntasks then upd (seqCall q t (.callIntern ⟨ty, d⟩) (.intern t ⟨ty, d⟩)) else (st, "bad-op")
      | [_, some t, some ty, some k], ["get", _, _, _] =>
        if t < q.ntasks then upd (seqCall q t (.callGet ⟨ty, k⟩) (.get t ⟨ty, k⟩)) else (st, "bad-op")
      | [_, some t, some i], ["clone", _, _] => if t < q.ntasks then upd (seqLocal q t (.clone i) (.clone t i)) else (st, "bad-op")
      | [_, some t, some i], ["drop", _, _] => if t < q.ntasks then upd (seqLocal q t (.drop i) (.drop t i)) else (st, "bad-op")
      | _, ["vacuum"] => upd (seqVacuum q)
      | _, ["check"] =>
        let parts := (List.range q.ntasks).map (fun t =>
          s!" {t}:{listStr (match q.s.tasks[t]? with | some tk => tk.held | none => [])}")
        (st, "held" ++ String.join parts)
      | _, ["end"] => ({ st with seq := none }, "ok")
      | _, _ => (st, "bad-op")
  | "T" :: "begin" :: _ :: th :: _ =>
    match (th.splitOn "=") with
    | ["threads", n] => match n.toNat? with
      | some n => ({ st with tr := some ⟨n, [], #[], none⟩ }, "ok")
      | none => (st, "bad-op")
    | _ => (st, "bad-op")
  | "T" :: "ev" :: rest =>
    match st.tr with
    | none => (st, "bad-op")
    | some tr => let (tr', o) := trEvent tr rest; ({ st with tr := some tr' }, o)
  | ["T", "end"] =>
    match st.tr with
    | none => (st, "bad-op")
    | some tr => ({ st with tr := none }, linCheck tr)
  | "X" :: "enc" :: rest => (st, doEnc (" ".intercalate rest))
  | "X" :: "dec" :: mode :: hexs :: rest =>
    if mode == "live" || mode == "fresh" || mode == "dropped" then (st, doDec mode hexs (" ".intercalate rest)) else (st, "bad-op")
  | _ => (st, "bad-op")

partial def loop (h : IO.FS.Stream) (out : IO.FS.Stream) (st : DrvSt) : IO Unit := do
  let line ← h.getLine
  if line.isEmpty then return ()
  let (st', o) := handle st line
  out.putStrLn o
  loop h out st'

def main : IO Unit := do
  let stdin ← IO.getStdin
  let stdout ← IO.getStdout
  loop stdin stdout {}
