-- line-protocol driver stub (Intern); replaced when the model exists
def main : IO Unit := IO.println "stub"
