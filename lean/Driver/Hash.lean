-- line-protocol driver stub (Hash); replaced when the model exists
def main : IO Unit := IO.println "stub"
