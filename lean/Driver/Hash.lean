/-
Line-protocol driver over `QbiceVerif.Model.Hash` (property C13).

  H <seed> <type tokens> | <value tokens>   →  <hex write stream> <hash128 as 32 hex digits>
  SIP <hex bytes>                            →  <sip128 as 32 hex digits>
  anything else / malformed / ill-typed      →  bad-op | ill-typed

Type tokens (prefix notation):
  u8 u16 u32 u64 u128 usize i8 i16 i32 i64 i128 isize bool char f32 f64 unit str
  opt T | res T E | seq T | arr n T | tup k T1..Tk | wrap T | uset T | umap K V
  enum <discriminant bytes> <nvariants> (<disc> <k> T1..Tk)*
Value tokens:
  i<int> b0 b1 c<code point> f<f32 bits> d<f64 bits> u s<hex> N (S v) (O v) (E v)
  L n v1..vn | T n v1..vn | W v | V idx n v1..vn
-/
import QbiceVerif.Model.Hash

open QbiceVerif.Hash

def hexDigit (n : Nat) : Char :=
  if n < 10 then Char.ofNat (48 + n) else Char.ofNat (87 + n)

def hexOfBytes (bs : Bytes) : String :=
  if bs.isEmpty then "-" else
  String.ofList (bs.foldr (fun b acc => hexDigit (b.toNat / 16) :: hexDigit (b.toNat % 16) :: acc) [])

def hex128 (n : Nat) : String :=
  String.ofList ((List.range 32).map (fun i => hexDigit ((n >>> (4 * (31 - i))) % 16)))

def hexVal (c : Char) : Option Nat :=
  if '0' ≤ c ∧ c ≤ '9' then some (c.toNat - 48)
  else if 'a' ≤ c ∧ c ≤ 'f' then some (c.toNat - 87)
  else none

def parseHex (s : String) : Option Bytes :=
  if s == "-" then some [] else
  let rec go : List Char → Bytes → Option Bytes
    | [], acc => some acc.reverse
    | a :: b :: rest, acc =>
        match hexVal a, hexVal b with
        | some x, some y => go rest (UInt8.ofNat (16 * x + y) :: acc)
        | _, _ => none
    | _, _ => none
  go s.toList []

def intTy (s : String) : Option Ty :=
  match s with
  | "u8" => some (.int false .w8) | "u16" => some (.int false .w16) | "u32" => some (.int false .w32)
  | "u64" => some (.int false .w64) | "u128" => some (.int false .w128) | "usize" => some (.int false .w64)
  | "i8" => some (.int true .w8) | "i16" => some (.int true .w16) | "i32" => some (.int true .w32)
  | "i64" => some (.int true .w64) | "i128" => some (.int true .w128) | "isize" => some (.int true .w64)
  | _ => none

def widthOfBytes (s : String) : Option IntW :=
  match s with
  | "1" => some .w8 | "2" => some .w16 | "4" => some .w32 | "8" => some .w64 | "16" => some .w128
  | _ => none

mutual
partial def parseTy : List String → Option (Ty × List String)
  | [] => none
  | tok :: rest =>
    match intTy tok with
    | some t => some (t, rest)
    | none =>
      match tok with
      | "bool" => some (.bool, rest) | "char" => some (.char, rest)
      | "f32" => some (.f32, rest) | "f64" => some (.f64, rest)
      | "unit" => some (.unit, rest) | "str" => some (.str, rest)
      | "opt" => do let (t, r) ← parseTy rest; pure (.option t, r)
      | "res" => do
          let (t, r) ← parseTy rest
          let (e, r) ← parseTy r
          pure (.result t e, r)
      | "seq" => do let (t, r) ← parseTy rest; pure (.seq t, r)
      | "wrap" => do let (t, r) ← parseTy rest; pure (.wrapper t, r)
      | "uset" => do let (t, r) ← parseTy rest; pure (.uset t, r)
      | "umap" => do
          let (k, r) ← parseTy rest
          let (v, r) ← parseTy r
          pure (.umap k v, r)
      | "arr" =>
          match rest with
          | n :: r => do
              let n ← n.toNat?
              let (t, r) ← parseTy r
              pure (.array n t, r)
          | _ => none
      | "tup" =>
          match rest with
          | k :: r => do
              let k ← k.toNat?
              let (ts, r) ← parseTys k r
              pure (.tuple ts, r)
          | _ => none
      | "enum" =>
          match rest with
          | dw :: nv :: r => do
              let dw ← widthOfBytes dw
              let nv ← nv.toNat?
              let (vs, r) ← parseVars nv r
              pure (.enum dw vs, r)
          | _ => none
      | _ => none
partial def parseTys : Nat → List String → Option (TyList × List String)
  | 0, r => some (.nil, r)
  | k + 1, r => do
      let (t, r) ← parseTy r
      let (ts, r) ← parseTys k r
      pure (.cons t ts, r)
partial def parseVars : Nat → List String → Option (VarList × List String)
  | 0, r => some (.nil, r)
  | n + 1, d :: k :: r => do
      let d ← d.toNat?
      let k ← k.toNat?
      let (fs, r) ← parseTys k r
      let (vs, r) ← parseVars n r
      pure (.cons d fs vs, r)
  | _, _ => none
end

mutual
partial def parseVal : List String → Option (Val × List String)
  | [] => none
  | tok :: rest =>
    match tok with
    | "u" => some (.unit, rest)
    | "N" => some (.none, rest)
    | "b0" => some (.bool false, rest)
    | "b1" => some (.bool true, rest)
    | "S" => do let (v, r) ← parseVal rest; pure (.some v, r)
    | "O" => do let (v, r) ← parseVal rest; pure (.ok v, r)
    | "E" => do let (v, r) ← parseVal rest; pure (.err v, r)
    | "W" => do let (v, r) ← parseVal rest; pure (.wrap v, r)
    | "L" =>
        match rest with
        | n :: r => do
            let n ← n.toNat?
            let (vs, r) ← parseVals n r
            pure (.list vs, r)
        | _ => none
    | "T" =>
        match rest with
        | n :: r => do
            let n ← n.toNat?
            let (vs, r) ← parseVals n r
            pure (.tuple vs, r)
        | _ => none
    | "V" =>
        match rest with
        | i :: n :: r => do
            let i ← i.toNat?
            let n ← n.toNat?
            let (vs, r) ← parseVals n r
            pure (.variant i vs, r)
        | _ => none
    | _ =>
      match tok.toList with
      | 'i' :: ds => do let i ← (String.ofList ds).toInt?; pure (.int i, rest)
      | 'c' :: ds => do let n ← (String.ofList ds).toNat?; pure (.char n, rest)
      | 'f' :: ds => do let n ← (String.ofList ds).toNat?; pure (.f32 n, rest)
      | 'd' :: ds => do let n ← (String.ofList ds).toNat?; pure (.f64 n, rest)
      | 's' :: ds => do let bs ← parseHex (String.ofList ds); pure (.str bs, rest)
      | _ => none
partial def parseVals (n : Nat) (r : List String) : Option (ValList × List String) :=
  let rec go : Nat → List String → List Val → Option (List Val × List String)
    | 0, r, acc => some (acc, r)
    | n + 1, r, acc =>
        match parseVal r with
        | some (v, r) => go n r (v :: acc)
        | none => none
  match go n r [] with
  | some (acc, r) => some (acc.foldl (fun l v => ValList.cons v l) ValList.nil, r)
  | none => none
end

def answer (line : String) : String :=
  let toks := (line.trimAscii.toString.splitOn " ").filter (· ≠ "")
  match toks with
  | ["SIP", h] =>
      match parseHex h with
      | some bs => hex128 (sip128 bs)
      | none => "bad-op"
  | "H" :: seed :: rest =>
      match seed.toNat? with
      | none => "bad-op"
      | some seed =>
        if seed ≥ M64 then "bad-op" else
        match parseTy rest with
        | some (t, "|" :: vtoks) =>
            match parseVal vtoks with
            | some (v, []) =>
                if !t.wf then "bad-op"
                else if !hasType t v then "ill-typed"
                else hexOfBytes (topStream seed t v) ++ " " ++ hex128 (hash128 seed t v)
            | _ => "bad-op"
        | _ => "bad-op"
  | _ => "bad-op"

partial def loop (hin hout : IO.FS.Stream) : IO Unit := do
  let line ← hin.getLine
  if line.isEmpty then return
  hout.putStrLn (answer line)
  loop hin hout

def main : IO Unit := do
  let hin ← IO.getStdin
  let hout ← IO.getStdout
  loop hin hout
  hout.flush
