/-
Line-protocol driver for C09: replays the harness's operation lines (with what the harness
observed about store reads) through the per-key LTS models `WideCacheR` (the wide cache as the code is, generation check on) and `SetCache`.

Foreground operations fire the model's foreground steps; `commit` / `notify` fire the background
steps of every key the batch mentions; evictions are fired lazily: a read that went to the store
is admissible only if the model can evict the entry at that point (it is not pinned), a read that
did not go to the store only if the model still has the entry.  Anything else prints
`inadmissible-…` and shows up as a disagreement.

The set-cache model runs in the configuration of the code as it is (F10 and F17 repaired);
`unfix=snap` / `unfix=spill` switch back to the behaviour before /repo commits d9a4d81 / b91d22f.

usage: drv_cache [unfix=snap] [unfix=spill] [assert-safe]
       drv_cache conc [unfix=gen]      -- replays gated multi-thread schedules of the set cache (`ccase` / `cev` / `cend`
                                          lines) step by step through `SetCacheConc.fire`; every observed step must be
                                          enabled in the model (and every `stage` ordered), every `gread` prints the set
                                          the model returns; evictions are inferred lazily from `obs=miss` / `obs=noapply`
-/
import QbiceVerif.Model.WideCache
import QbiceVerif.Model.SetCache
import QbiceVerif.Model.SetCacheConc

open QbiceVerif

structure KeyRef where
  kind : Nat      -- 0 single map, 1 dynamic map, 2 key-of-set map
  key : Nat
deriving BEq, Repr

structure Drv where
  cfg : SetCache.Cfg
  assertSafe : Bool
  thr : Nat := 1024
  initW : List (Nat × Nat) := []
  initD : List (Nat × Nat) := []
  initS : List (Nat × List Nat) := []
  hist : List Nat := []                 -- 0 begin, 1 submit, 2 commit (oldest first, reversed storage)
  w : List (Nat × WideCacheR.State) := []
  d : List (Nat × WideCacheR.State) := []
  s : List (Nat × SetCache.State) := []
  openKeys : List KeyRef := []
  submittedKeys : List (List KeyRef) := []
  committedKeys : List (List KeyRef) := []

def lookup {α} (l : List (Nat × α)) (k : Nat) : Option α := (l.find? (·.1 == k)).map (·.2)
def store {α} (l : List (Nat × α)) (k : Nat) (v : α) : List (Nat × α) :=
  if l.any (·.1 == k) then l.map (fun p => if p.1 == k then (k, v) else p) else l ++ [(k, v)]

def wideFires (s : WideCacheR.State) (evs : List WideCacheR.Ev) : Option WideCacheR.State :=
  evs.foldlM (fun st e => (WideCacheR.fire st e).map (·.1)) s

def setFires (s : SetCache.State) (evs : List SetCache.Ev) : Option SetCache.State :=
  evs.foldlM (fun st e => (SetCache.fire st e).map (·.1)) s

def histWide (h : List Nat) : List WideCacheR.Ev :=
  h.reverse.map fun c => if c == 0 then .begin 0 else if c == 1 then .submit 0 else .commit
def histSet (h : List Nat) : List SetCache.Ev :=
  h.reverse.map fun c => if c == 0 then .begin else if c == 1 then .submit else .commit

/-- state of a wide key, created on first mention by replaying the batch structure so far -/
def getW (dr : Drv) (dyn : Bool) (k : Nat) : Option WideCacheR.State :=
  match lookup (if dyn then dr.d else dr.w) k with
  | some st => some st
  | none => wideFires (WideCacheR.init true (lookup (if dyn then dr.initD else dr.initW) k) 1) (histWide dr.hist)

def putW (dr : Drv) (dyn : Bool) (k : Nat) (st : WideCacheR.State) : Drv :=
  if dyn then { dr with d := store dr.d k st } else { dr with w := store dr.w k st }

def getS (dr : Drv) (k : Nat) : Option SetCache.State :=
  match lookup dr.s k with
  | some st => some st
  | none => setFires (SetCache.init dr.cfg dr.thr ((lookup dr.initS k).getD [])) (histSet dr.hist)

def mention (dr : Drv) (r : KeyRef) : Drv :=
  if dr.openKeys.contains r then dr else { dr with openKeys := dr.openKeys ++ [r] }

def fmtOpt : Option Nat → String
  | some v => s!"some {v}"
  | none => "none"

/-- insertion sort + dedup (sets are small or nearly sorted) -/
def canon (l : List Nat) : List Nat := (l.toArray.qsort (· < ·)).toList.eraseDups

def fmtSet (l : List Nat) : String :=
  let v := canon l
  if v.isEmpty then "-" else
  let rec go (rest : List Nat) (lo hi : Nat) (acc : List String) : List String :=
    match rest with
    | [] => ((if hi > lo then s!"{lo}-{hi}" else s!"{lo}") :: acc).reverse
    | x :: xs => if x == hi + 1 then go xs lo x acc
                 else go xs x x ((if hi > lo then s!"{lo}-{hi}" else s!"{lo}") :: acc)
  match v with
  | [] => "-"
  | x :: xs => ",".intercalate (go xs x x [])

def parseObs (toks : List String) : List Nat :=
  match toks.find? (·.startsWith "obs=") with
  | some t => ((t.drop 4).toString.splitOn ",").map (·.toNat!)
  | none => []

/-- a `get` of a wide key that was observed to read the store `n` times -/
def wideGet (st : WideCacheR.State) (n : Nat) : Except String (WideCacheR.State × Option Nat) := do
  let mut cur := st
  for _ in [0:n] do
    match cur.entry with
    | some e =>
        if e.pin ≤ 0 then
          match WideCacheR.fire cur .evict with
          | some (s', _) => cur := s'
          | none => throw "not-enabled evict"
        else throw s!"inadmissible-miss pinned={e.pin}"
    | none => pure ()
    match wideFires cur [.readGen 0, .probe 0, .sfEnter 0, .readDb 0, .fill 0, .sfLeave 0] with
    | some s' => cur := s'
    | none => throw "not-enabled fill-path"
  match cur.entry with
  | none => throw "inadmissible-hit"
  | some _ =>
      match WideCacheR.fire cur (.readGen 0) with
      | some (s1, _) =>
          match WideCacheR.fire s1 (.probe 0) with
          | some (s', some r) => return (s', r)
          | _ => throw "not-enabled probe"
      | none => throw "not-enabled readGen"

def nat? (s : String) : Option Nat := s.toNat?

def step (dr : Drv) (line : String) : Drv × String :=
  let toks := (line.trimAscii.toString.splitOn " ").filter (· ≠ "")
  let bad := (dr, "bad-op")
  let ne := (dr, "not-enabled")
  match toks with
  | "case" :: rest =>
      let thr := match rest.find? (·.startsWith "thr=") with
        | some t => (t.drop 4).toString.toNat?.getD 1024
        | none => 1024
      ({ cfg := dr.cfg, assertSafe := dr.assertSafe, thr := thr }, "ok")
  | ["end"] => (dr, "ok")
  | ["press", n] => if (nat? n).isSome then (dr, "ok") else bad
  | ["init-w", k, v] =>
      match nat? k, nat? v with
      | some k, some v => ({ dr with initW := store dr.initW k v }, "ok")
      | _, _ => bad
  | ["init-d", k, t, v] =>
      match nat? k, nat? t, nat? v with
      | some k, some t, some v => ({ dr with initD := store dr.initD (2 * k + t) v }, "ok")
      | _, _, _ => bad
  | ["init-s", k, lo, hi] =>
      match nat? k, nat? lo, nat? hi with
      | some k, some lo, some hi => ({ dr with initS := store dr.initS k ((List.range (hi + 1 - lo)).map (· + lo)) }, "ok")
      | _, _, _ => bad
  | ["begin"] | ["submit"] | ["commit"] =>
      let code := if toks == ["begin"] then 0 else if toks == ["submit"] then 1 else 2
      let wev : WideCacheR.Ev := if code == 0 then .begin 0 else if code == 1 then .submit 0 else .commit
      let sev : SetCache.Ev := if code == 0 then .begin else if code == 1 then .submit else .commit
      let w' := dr.w.mapM fun (k, st) => (WideCacheR.fire st wev).map fun r => (k, r.1)
      let d' := dr.d.mapM fun (k, st) => (WideCacheR.fire st wev).map fun r => (k, r.1)
      let s' := dr.s.mapM fun (k, st) => (SetCache.fire st sev).map fun r => (k, r.1)
      -- the structure itself must be well formed even when no key exists yet
      let okStruct :=
        if code == 0 then dr.hist.foldr (fun c (o : Int) => if c == 0 then o + 1 else if c == 1 then o - 1 else o) 0 == 0
        else if code == 1 then dr.hist.foldr (fun c (o : Int) => if c == 0 then o + 1 else if c == 1 then o - 1 else o) 0 == 1
        else dr.submittedKeys.length > 0
      match w', d', s', okStruct with
      | some w', some d', some s', true =>
          let dr := { dr with w := w', d := d', s := s', hist := code :: dr.hist }
          let dr :=
            if code == 0 then { dr with openKeys := [] }
            else if code == 1 then { dr with submittedKeys := dr.submittedKeys ++ [dr.openKeys], openKeys := [] }
            else match dr.submittedKeys with
              | ks :: rest => { dr with submittedKeys := rest, committedKeys := dr.committedKeys ++ [ks] }
              | [] => dr
          (dr, "ok")
      | _, _, _, _ => ne
  | ["notify"] =>
      match dr.committedKeys with
      | [] => ne
      | ks :: rest =>
          let r := ks.foldlM (fun (dr : Drv) (r : KeyRef) =>
            if r.kind == 2 then
              match lookup dr.s r.key with
              | some st => (SetCache.fire st .notify).map fun x => { dr with s := store dr.s r.key x.1 }
              | none => none
            else
              match lookup (if r.kind == 1 then dr.d else dr.w) r.key with
              | some st => (WideCacheR.fire st .notify).map fun x => putW dr (r.kind == 1) r.key x.1
              | none => none) { dr with committedKeys := rest }
          match r with
          | some dr => (dr, "ok")
          | none => ne
  | op :: args =>
      let nums := (args.filter (fun a => !a.startsWith "obs=")).map nat?
      if nums.any (·.isNone) then bad else
      let nums := nums.map (·.getD 0)
      let obs := parseObs args
      let wideWrite (dyn : Bool) (k : Nat) (v : Option Nat) : Drv × String :=
        match getW dr dyn k with
        | none => ne
        | some st =>
            match wideFires st [.put 0 v, .cacheWrite 0] with
            | some st' => (mention (putW dr dyn k st') ⟨if dyn then 1 else 0, k⟩, "ok")
            | none => ne
      let wideRead (dyn : Bool) (k : Nat) : Drv × String :=
        match getW dr dyn k, obs with
        | some st, [n] =>
            match wideGet st n with
            | .ok (st', r) => (putW dr dyn k st', fmtOpt r)
            | .error e => (dr, e)
        | none, _ => ne
        | _, _ => bad
      let setWrite (k lo hi : Nat) (ins : Bool) : Drv × String :=
        match getS dr k with
        | none => ne
        | some st =>
            let r := (List.range (hi + 1 - lo)).foldlM (fun st i => SetCache.write st (lo + i) ins) st
            match r with
            | some st' => (mention { dr with s := store dr.s k st' } ⟨2, k⟩, "ok")
            | none => ne
      match op, nums with
      | "w-ins", [k, v] => wideWrite false k (some v)
      | "w-rem", [k] => wideWrite false k none
      | "w-get", [k] => wideRead false k
      | "d-ins", [k, t, v] => if t < 2 then wideWrite true (2 * k + t) (some v) else bad
      | "d-rem", [k, t] => if t < 2 then wideWrite true (2 * k + t) none else bad
      | "d-get", [k, t] => if t < 2 then wideRead true (2 * k + t) else bad
      | "s-ins", [k, x] => setWrite k x x true
      | "s-rem", [k, x] => setWrite k x x false
      | "s-fill", [k, lo, hi] => setWrite k lo hi true
      | "s-clear", [k, lo, hi] => setWrite k lo hi false
      | "s-get", [k] =>
          match getS dr k, obs with
          | some st, [f, sc] =>
              let st? : Except String SetCache.State :=
                if f == 0 && sc == 0 then
                  match st.entry with | some (.inMem _) => .ok st | _ => .error "inadmissible-in-memory-hit"
                else if f == 0 && sc == 1 then
                  match st.entry with | some .tooLarge => .ok st | _ => .error "inadmissible-streaming-hit"
                else if f == 1 && sc == 1 then .ok { st with entry := none }   -- evictEntry is always enabled
                else .error "inadmissible-obs"
              match st? with
              | .error e => (dr, e)
              | .ok st1 =>
                  if dr.assertSafe && !SetCache.getSafe st1 then (dr, "unsafe-get")
                  else
                    let (st2, out) := SetCache.get st1
                    ({ dr with s := store dr.s k st2 }, fmtSet out)
          | none, _ => ne
          | _, _ => bad
      | _, _ => bad
  | [] => bad


/-! ### concurrent set-cache schedules -/

def parseSet (t : String) : Option (List Nat) :=
  if t == "-" then some [] else
  (t.splitOn ",").foldlM (fun acc part =>
    match part.splitOn "-" with
    | [a] => a.toNat?.map fun a => acc ++ [a]
    | [a, b] => match a.toNat?, b.toNat? with
                | some a, some b => some (acc ++ (List.range (b + 1 - a)).map (· + a))
                | _, _ => none
    | _ => none) []

def kv (toks : List String) (k : String) : Option String :=
  (toks.find? (·.startsWith (k ++ "="))).map fun t => (t.drop (k.length + 1)).toString

def concFire (st : SetCacheConc.State) (e : SetCacheConc.Ev) : Except String (SetCacheConc.State × Option SetCacheConc.Out) :=
  if SetCacheConc.guardOk st e = false then .error "unordered-stage"
  else match SetCacheConc.fire st e with
    | some r => .ok r
    | none => .error "not-enabled"

structure ConcDrv where
  st : SetCacheConc.State
  pend : List Bool := []          -- committed, not yet notified batches (oldest first): does the batch mention the key?

def concStep (fix : Bool) (dr? : Option ConcDrv) (line : String) : Option ConcDrv × String :=
  let toks := (line.trimAscii.toString.splitOn " ").filter (· ≠ "")
  match toks with
  | "ccase" :: rest =>
      match (kv rest "thr").bind (·.toNat?), (kv rest "tasks").bind (·.toNat?), (kv rest "db").bind parseSet with
      | some thr, some n, some db => (some { st := SetCacheConc.init fix thr db n }, "ok")
      | _, _, _ => (dr?, "bad-op")
  | ["cend"] => (none, "ok")
  | "cev" :: name :: args =>
      match dr? with
      | none => (dr?, "no-case")
      | some dr =>
          let st := dr.st
          let fireAll (evs : List SetCacheConc.Ev) : Option ConcDrv × String :=
            match evs.foldlM (fun s e => (concFire s e).map (·.1)) st with
            | .ok s' => (some { dr with st := s' }, "ok")
            | .error e => (some dr, e)
          let nums := (args.filter (fun a => !a.startsWith "obs=")).map (·.toNat?)
          if nums.any (·.isNone) then (dr?, "bad-op") else
          let nums := nums.map (·.getD 0)
          let obs := kv args "obs"
          match name, nums with
          | "begin", [t] => fireAll [.begin t]
          | "submit", [t] => fireAll [.submit t]
          | "stage", [t, x, i] => if i < 2 then fireAll [.stage t x (i == 1)] else (dr?, "bad-op")
          | "bump", [t] => fireAll [.bump t]
          | "wlookup", [t] =>
              match obs, st.cur with
              | some "apply", some i =>
                  match st.entries[i]? with
                  | some (.inMem _) => fireAll [.wLookup t]
                  | _ => (dr?, "inadmissible-apply")
              | some "apply", none => (dr?, "inadmissible-apply")
              | some "noapply", some i =>
                  match st.entries[i]? with
                  | some .tooLarge => fireAll [.wLookup t, .wApply t]
                  | _ => fireAll [.evict, .wLookup t]
              | some "noapply", none => fireAll [.wLookup t]
              | _, _ => (dr?, "bad-op")
          | "wapply", [t] => fireAll [.wApply t]
          | "wdowngrade", [t] => fireAll [.wDowngrade t]
          | "gstart", [t] => fireAll [.gStart t]
          | "gload", [t] => fireAll [.gLoad t]
          | "gsnap", [t] => fireAll [.gSnap t]
          | "glookup", [t] =>
              match obs, st.cur with
              | some "hit", some _ => fireAll [.gLookup t]
              | some "hit", none => (dr?, "inadmissible-hit")
              | some "miss", some _ => fireAll [.evict, .gLookup t]
              | some "miss", none => fireAll [.gLookup t]
              | _, _ => (dr?, "bad-op")
          | "gretry", [t] => fireAll [.gRetry t]
          | "gscan", [t] => fireAll [.gScan t]
          | "ginstall", [t] =>
              -- obs=inst: the harness saw the closure of `cache.entry` fill the vacant slot; obs=noinst: it did not
              let j := st.entries.length
              match obs with
              | some "inst" =>
                  let pre : List SetCacheConc.Ev := if st.cur.isSome then [.evict] else []
                  match (pre ++ [SetCacheConc.Ev.gInstall t]).foldlM (fun (s : SetCacheConc.State) e => (concFire s e).map (·.1)) st with
                  | .ok s' => if s'.cur == some j then (some { dr with st := s' }, "ok") else (some { dr with st := s' }, "inadmissible-install")
                  | .error e => (some dr, e)
              | some "noinst" =>
                  match concFire st (.gInstall t) with
                  | .ok (s', _) => if s'.cur == some j then (some { dr with st := s' }, "inadmissible-noinstall") else (some { dr with st := s' }, "ok")
                  | .error e => (some dr, e)
              | none => fireAll [.gInstall t]
              | _ => (dr?, "bad-op")
          | "gread", [t] =>
              match concFire st (.gRead t) with
              | .ok (s', some o) =>
                  if o.must.all (· ∈ o.out) && o.out.all (· ∈ o.may) then (some { dr with st := s' }, fmtSet o.out)
                  else (some { dr with st := s' }, "outside-bounds " ++ fmtSet o.out)
              | .ok (s', none) => (some { dr with st := s' }, "no-output")
              | .error e => (dr?, e)
          | "commit", [] =>
              match st.bat.find? (fun B => B.submitted && B.epoch == st.expected) with
              | some B =>
                  match concFire st .commit with
                  | .ok (s', _) => (some { st := s', pend := dr.pend ++ [!B.ops.isEmpty] }, "ok")
                  | .error e => (dr?, e)
              | none => (dr?, "not-enabled")
          | "notify", [] =>
              -- the harness notifies every committed batch; the model only queues batches that mention the key
              match dr.pend with
              | true :: rest =>
                  match concFire st .notify with
                  | .ok (s', _) => (some { st := s', pend := rest }, "ok")
                  | .error e => (dr?, e)
              | false :: rest => (some { dr with pend := rest }, "ok")
              | [] => (dr?, "not-enabled")
          | "press", [_] => (some dr, "ok")
          | _, _ => (dr?, "bad-op")
  | _ => (dr?, "bad-op")

partial def concLoop (h : IO.FS.Stream) (out : IO.FS.Stream) (fix : Bool) (dr? : Option ConcDrv) : IO Unit := do
  let line ← h.getLine
  if line.isEmpty then return
  let (dr', ans) := concStep fix dr? line
  out.putStrLn ans
  concLoop h out fix dr'

partial def loop (h : IO.FS.Stream) (out : IO.FS.Stream) (dr : Drv) : IO Unit := do
  let line ← h.getLine
  if line.isEmpty then return
  let (dr', ans) := step dr line
  out.putStrLn ans
  loop h out dr'

def main (args : List String) : IO Unit := do
  let cfg : SetCache.Cfg := ⟨!args.contains "unfix=snap", !args.contains "unfix=spill"⟩
  let stdin ← IO.getStdin
  let stdout ← IO.getStdout
  if args.contains "conc" then
    concLoop stdin stdout (!args.contains "unfix=gen") none
    return
  loop stdin stdout { cfg := cfg, assertSafe := args.contains "assert-safe" }
