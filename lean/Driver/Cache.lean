-- line-protocol driver stub (Cache); replaced when the model exists
def main : IO Unit := IO.println "stub"
