-- line-protocol driver stub (Lfu); replaced when the model exists
def main : IO Unit := IO.println "stub"
