/-
Line-protocol driver over `QbiceVerif.Model.TinyLfu` (property C16).  One output line per input line.

  new <capacity> <P|N> <K|V>     fresh cache; Poll/Notify; pin token = key (K) or value (V)
  get k | put k v | ins k v | upd k v | rem k | peek k | pin t | unpin t | unpinn k | notify k
  acq q | rel h                  lock-table glue (`get_lock_instance`, dropping the h-th handle)
  len | res                      resident count / sorted resident `key:value` list
  hash k | caps c                `FxBuildHasher::hash_one`, `Policy::new` capacities

Answers: the call's result, followed by ` ev k:b k:b …` = the questions the removal closure asked
the listener during the call (b = 1 pinned / kept, 0 = evicted).  A panicking call answers `panic`
(the reason goes to stderr as `panic-reason <line> <site>`); every later line up to the next `new`
answers `dead`.  Malformed lines answer `bad-op`.  `--fix` runs the model with the repaired `Policy::unpin` (F4, = the code as it is now).  The Poll trim is the
repaired one (F15: the whole pinned region is visited, = the code as it is now) by default; `--no-fix-trim` (or
`nofixtrim`) runs the code before that fix (`--fix-trim` is accepted and changes nothing).
-/
import QbiceVerif.Model.TinyLfu
open QbiceVerif.TinyLfu

structure DState where
  cfg : Cfg Sketch
  cache : Cache Sketch
  dead : Bool := false
  handles : Array (Option (Nat × Nat)) := #[]   -- (key, lock id) held by the h-th `acq`
  nextId : Nat := 0

def fmtLog (log : List (Nat × Bool)) : String :=
  if log.isEmpty then "" else
    " ev" ++ String.join (log.map fun (k, b) => s!" {k}:{if b then 1 else 0}")

def fmtRet : Ret → String
  | .none => "none"
  | .some v => s!"some {v}"
  | .inserted => "inserted"
  | .updated => "updated"
  | .occupied v => s!"occupied {v}"
  | .absent => "absent"
  | .removed v => s!"removed {v}"
  | .unit => "ok"

/-- insertion sort on keys (resident dumps are small) -/
def insertSorted (x : Nat × Nat) : List (Nat × Nat) → List (Nat × Nat)
  | [] => [x]
  | y :: ys => if x.1 ≤ y.1 then x :: y :: ys else y :: insertSorted x ys

def sortKV (l : List (Nat × Nat)) : List (Nat × Nat) := l.foldl (fun acc x => insertSorted x acc) []

def parseNats (ws : List String) : Option (List Nat) := ws.mapM String.toNat?

def apply (s : DState) (op : Op) : DState × String × Option Panic :=
  match step s.cfg s.cache op with
  | .ok (c, r, log) => ({ s with cache := c }, fmtRet r ++ fmtLog log, none)
  | .error e => ({ s with dead := true }, "panic", some e)

/-- `acq q`: the model's `acquire`; the eviction log of its calls is not part of `acquire`'s result, so
it is recomputed here by running the same `step`s on a log-collecting copy. -/
def acquireLog (s : DState) (q : Nat) : List (Nat × Bool) :=
  match sGet s.cache.core.st q with
  | some id =>
    match step s.cfg { s.cache with pins := id :: s.cache.pins } (.get q) with
    | .ok (_, _, log) => log
    | .error _ => []
  | none =>
    match step s.cfg s.cache (.get q) with
    | .error _ => []
    | .ok (c, _, log1) =>
      match step s.cfg { c with pins := s.nextId :: c.pins } (.ins q s.nextId) with
      | .ok (_, _, log2) => log1 ++ log2
      | .error _ => log1

def acquireD (s : DState) (q : Nat) : DState × String × Option Panic :=
  let t : LockTable Sketch := { cache := s.cache, handles := [], next := s.nextId }
  match acquire s.cfg t q with
  | .error e => ({ s with dead := true }, "panic", some e)
  | .ok (t', id) =>
    ({ s with cache := t'.cache, nextId := t'.next, handles := s.handles.push (some (q, id)) },
      s!"lock {id}" ++ fmtLog (acquireLog s q), none)

def releaseD (s : DState) (h : Nat) : DState × String :=
  match s.handles[h]? with
  | some (some (q, id)) =>
    let t : LockTable Sketch := release { cache := s.cache, handles := [(q, id)], next := s.nextId } q id
    ({ s with cache := t.cache, handles := s.handles.set! h none }, "ok")
  | _ => (s, "bad-op")

def handle (fix fixTrim : Bool) (st : Option DState) (line : String) : Option DState × String × Option Panic :=
  let ws := (line.trimAscii.toString.splitOn " ").filter (· ≠ "")
  match ws with
  | ["new", cap, strat, tk] =>
    match cap.toNat?, strat, tk with
    | some c, s, t =>
      if c = 0 ∨ (s ≠ "P" ∧ s ≠ "N") ∨ (t ≠ "K" ∧ t ≠ "V") then (st, "bad-op", none) else
      let tok : Nat → Nat → Nat := if t = "K" then fun k _ => k else fun _ v => v
      (some { cfg := { Cfg.real c (s = "P") fix tok with fixTrim := fixTrim }, cache := Cache.real c }, "ok", none)
    | _, _, _ => (st, "bad-op", none)
  | ["hash", k] => match k.toNat? with
    | some k => (st, s!"hash {fxHash k}", none)
    | none => (st, "bad-op", none)
  | ["caps", c] => match c.toNat? with
    | some c => let (w, p, m) := capsOf c; (st, s!"caps {w} {p} {m}", none)
    | none => (st, "bad-op", none)
  | cmd :: args =>
    match st with
    | none => (st, "bad-op", none)
    | some s =>
      if s.dead then (st, if ["get","put","ins","upd","rem","peek","pin","unpin","unpinn","notify","acq","rel","len","res"].contains cmd then "dead" else "bad-op", none) else
      match cmd, parseNats args with
      | "len", some [] => (st, s!"len {s.cache.core.st.length}", none)
      | "res", some [] =>
        (st, "res" ++ String.join ((sortKV s.cache.core.st).map fun (k, v) => s!" {k}:{v}"), none)
      | "acq", some [q] => let (s, o, p) := acquireD s q; (some s, o, p)
      | "rel", some [h] => let (s, o) := releaseD s h; (some s, o, none)
      | _, some ns =>
        let op : Option Op := match cmd, ns with
          | "get", [k] => some (.get k)
          | "put", [k, v] => some (.put k v)
          | "ins", [k, v] => some (.ins k v)
          | "upd", [k, v] => some (.upd k v)
          | "rem", [k] => some (.rem k)
          | "peek", [k] => some (.peek k)
          | "pin", [t] => some (.pin t)
          | "unpin", [t] => some (.unpin t)
          | "unpinn", [k] => some (.unpinNotify k)
          | "notify", [k] => some (.notify k)
          | _, _ => none
        match op with
        | some op => let (s, o, p) := apply s op; (some s, o, p)
        | none => (st, "bad-op", none)
      | _, none => (st, "bad-op", none)
  | [] => (st, "bad-op", none)

partial def loop (fix fixTrim : Bool) (hin hout herr : IO.FS.Stream) (st : Option DState) (n : Nat) : IO Unit := do
  let line ← hin.getLine
  if line.isEmpty then return
  let (st, out, p) := handle fix fixTrim st line
  hout.putStrLn out
  match p with
  | some e => herr.putStrLn s!"panic-reason {n} {e.name}"
  | none => pure ()
  loop fix fixTrim hin hout herr st (n + 1)

def main (args : List String) : IO Unit := do
  let hin ← IO.getStdin
  let hout ← IO.getStdout
  let herr ← IO.getStderr
  loop (args.contains "--fix") (!(args.contains "--no-fix-trim" || args.contains "nofixtrim")) hin hout herr none 1
  hout.flush
