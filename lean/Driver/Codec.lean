-- line-protocol driver stub (Codec); replaced when the model exists
def main : IO Unit := IO.println "stub"
