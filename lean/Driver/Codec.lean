/-
Line-protocol driver over `Model/Codec` (property C12).  One output line per input line; see
`harness/src/bin/codec.rs` for the protocol.  The default is the code as it is (`decode true`, BitVec
decoding mirrors its encoding since /repo commit e089897); `drv_codec --asis-f7` runs the historical
decoder that had finding F7 (`decode false`) — only useful against a tree with that commit reverted.
-/
import QbiceVerif.Model.Codec
import QbiceVerif.Model.CodecNested

open QbiceVerif.Codec

namespace CodecDriver

/-- Descriptor as the harness prints it: the model type plus what the rendering needs to know
(which sequences are unordered collections). -/
inductive D where
  | leaf (t : Ty)
  | opt (d : D) | res (a b : D) | seq (d : D) | set (d : D) | map (k v : D) | arr (n : Nat) (d : D)
  | tup (ds : List D) | enm (ds : List D) | bound (d : D)
  deriving Inhabited

instance : Inhabited Ty := ⟨.unit⟩
instance : Inhabited Val := ⟨.unit⟩

partial def D.toTy : D → Ty
  | .leaf t => t
  | .opt d => .option d.toTy
  | .res a b => .result a.toTy b.toTy
  | .seq d => .seq d.toTy
  | .set d => .seq d.toTy
  | .map k v => .seq (.tuple (.cons k.toTy (.cons v.toTy .nil)))
  | .arr n d => .array n d.toTy
  | .tup ds => .tuple (TyList.ofList (ds.map D.toTy))
  | .enm ds => .enum (TyList.ofList (ds.map D.toTy))
  | .bound d => .bound d.toTy

partial def D.unordered : D → Bool
  | .leaf _ => false
  | .opt d | .seq d | .arr _ d | .bound d => d.unordered
  | .res a b => a.unordered || b.unordered
  | .set _ | .map _ _ => true
  | .tup ds | .enm ds => ds.any D.unordered

abbrev Parser (α : Type) := List Char → Option (α × List Char)

def takeWhile (p : Char → Bool) : List Char → List Char × List Char
  | [] => ([], [])
  | c :: cs => if p c then let (a, b) := takeWhile p cs; (c :: a, b) else ([], c :: cs)

def parseNat : Parser Nat := fun cs =>
  let (ds, rest) := takeWhile Char.isDigit cs
  if ds.isEmpty then none else some (ds.foldl (fun n c => 10 * n + (c.toNat - 48)) 0, rest)

def expect (c : Char) : Parser Unit
  | d :: cs => if c = d then some ((), cs) else none
  | [] => none

def hexVal (c : Char) : Option Nat :=
  if '0' ≤ c ∧ c ≤ '9' then some (c.toNat - 48)
  else if 'a' ≤ c ∧ c ≤ 'f' then some (c.toNat - 87)
  else none

def parseHexPairs : List Char → Option (List UInt8 × List Char)
  | a :: b :: cs =>
    match hexVal a, hexVal b with
    | some x, some y =>
      match parseHexPairs cs with
      | some (bs, rest) => some (UInt8.ofNat (16 * x + y) :: bs, rest)
      | none => none
    | _, _ => some ([], a :: b :: cs)
  | cs => some ([], cs)

def unhex (s : String) : Option (List UInt8) :=
  if s = "-" then some [] else
  match parseHexPairs s.toList with
  | some (bs, []) => some bs
  | _ => none

def hexDigit (n : Nat) : Char := if n < 10 then Char.ofNat (48 + n) else Char.ofNat (87 + n)

def hex (bs : List UInt8) : String :=
  if bs.isEmpty then "-" else
  String.ofList (bs.foldr (fun b acc => hexDigit (b.toNat / 16) :: hexDigit (b.toNat % 16) :: acc) [])

def intWidth (s : String) : Option IntW :=
  match s with
  | "8" => some .w8 | "16" => some .w16 | "32" => some .w32 | "64" => some .w64 | "128" => some .w128
  | "size" => some .wsize | _ => none

def leafOfName (s : String) : Option Ty :=
  match s with
  | "bool" => some .bool | "char" => some .char | "f32" => some .f32 | "f64" => some .f64
  | "unit" => some .unit | "str" => some .str | "dur" => some .duration
  | _ =>
    if s.startsWith "nzu" then (intWidth (s.drop 3).toString).map Ty.nzu
    else if s.startsWith "nzi" then (intWidth (s.drop 3).toString).map Ty.nzs
    else if s.startsWith "u" then (intWidth (s.drop 1).toString).map Ty.uint
    else if s.startsWith "i" then (intWidth (s.drop 1).toString).map Ty.sint
    else none

/-- a value whose type is not known (default of a skipped field): digits, `-`digits, `s`hex, T/F/U -/
def parseAny : Parser Val
  | 's' :: cs => (parseHexPairs cs).map (fun (bs, r) => (.bytes bs, r))
  | 'T' :: cs => some (.bool true, cs)
  | 'F' :: cs => some (.bool false, cs)
  | 'U' :: cs => some (.unit, cs)
  | '-' :: cs => (parseNat cs).map (fun (n, r) => (.int (-(n : Int)), r))
  | cs => (parseNat cs).map (fun (n, r) => (.nat n, r))

mutual
  partial def parseD : Parser D := fun cs =>
    let (id, rest) := takeWhile Char.isAlphanum cs
    let name := String.ofList id
    match name with
    | "opt" => do let (a, r) ← parseArgs rest; match a with | [d] => some (.opt d, r) | _ => none
    | "seq" => do let (a, r) ← parseArgs rest; match a with | [d] => some (.seq d, r) | _ => none
    | "set" => do let (a, r) ← parseArgs rest; match a with | [d] => some (.set d, r) | _ => none
    | "bound" => do let (a, r) ← parseArgs rest; match a with | [d] => some (.bound d, r) | _ => none
    | "res" => do let (a, r) ← parseArgs rest; match a with | [x, y] => some (.res x y, r) | _ => none
    | "map" => do let (a, r) ← parseArgs rest; match a with | [x, y] => some (.map x y, r) | _ => none
    | "tup" => do let (a, r) ← parseArgs rest; some (.tup a, r)
    | "enum" => do let (a, r) ← parseArgs rest; some (.enm a, r)
    | "arr" => do
      let (_, r) ← expect '(' rest
      let (n, r) ← parseNat r
      let (_, r) ← expect ',' r
      let (d, r) ← parseD r
      let (_, r) ← expect ')' r
      some (.arr n d, r)
    | "skip" => do
      let (_, r) ← expect '(' rest
      let (v, r) ← parseAny r
      let (_, r) ← expect ')' r
      some (.leaf (.skip v), r)
    | "bv" => do
      let (_, r) ← expect '(' rest
      let (w, r) := takeWhile Char.isAlphanum r
      let w ← intWidth (String.ofList w)
      let (_, r) ← expect ',' r
      match r with
      | 'L' :: ')' :: r => some (.leaf (.bitvec w false), r)
      | 'M' :: ')' :: r => some (.leaf (.bitvec w true), r)
      | _ => none
    | _ => (leafOfName name).map (fun t => (.leaf t, rest))
  partial def parseArgs : Parser (List D) := fun cs => do
    let (_, r) ← expect '(' cs
    match r with
    | ')' :: r => some ([], r)
    | _ => parseArgList r
  partial def parseArgList : Parser (List D) := fun cs => do
    let (d, r) ← parseD cs
    match r with
    | ',' :: r => do let (ds, r) ← parseArgList r; some (d :: ds, r)
    | ')' :: r => some ([d], r)
    | _ => none
end

def parseDesc (s : String) : Option D :=
  match parseD s.toList with
  | some (d, []) => some d
  | _ => none

partial def parseWords : Parser (List Nat) := fun cs =>
  match parseNat cs with
  | none => some ([], cs)
  | some (n, '.' :: r) => (parseWords r).map (fun (ws, r) => (n :: ws, r))
  | some (n, r) => some ([n], r)

mutual
  /-- parse a value along its descriptor -/
  partial def parseV (d : D) : Parser Val := fun cs =>
    match d with
    | .leaf t =>
      match t with
      | .sint _ | .nzs _ =>
        (match cs with
         | '-' :: r => (parseNat r).map (fun (n, r) => (.int (-(n : Int)), r))
         | _ => (parseNat cs).map (fun (n, r) => (.int (n : Int), r)))
      | .bool => (match cs with | 'T' :: r => some (.bool true, r) | 'F' :: r => some (.bool false, r) | _ => none)
      | .unit => (match cs with | 'U' :: r => some (.unit, r) | _ => none)
      | .str => (match cs with | 's' :: r => (parseHexPairs r).map (fun (bs, r) => (.bytes bs, r)) | _ => none)
      | .duration => do
        let (_, r) ← expect '[' cs
        let (s, r) ← parseNat r
        let (_, r) ← expect ',' r
        let (n, r) ← parseNat r
        let (_, r) ← expect ']' r
        some (.list (.cons (.nat s) (.cons (.nat n) .nil)), r)
      | .skip _ => parseAny cs
      | .bitvec _ _ => do
        let (_, r) ← expect 'b' cs
        let (len, r) ← parseNat r
        let (_, r) ← expect ':' r
        let (ws, r) ← parseWords r
        some (.bits len ws, r)
      | _ => (parseNat cs).map (fun (n, r) => (.nat n, r))
    | .opt d => do
      let (tag, p, r) ← parseTagged cs (fun tag => if tag = 0 then .leaf .unit else d)
      some (.tagged tag p, r)
    | .bound d => do
      let (tag, p, r) ← parseTagged cs (fun tag => if tag = 0 then .leaf .unit else d)
      some (.tagged tag p, r)
    | .res a b => do
      let (tag, p, r) ← parseTagged cs (fun tag => if tag = 0 then b else a)
      some (.tagged tag p, r)
    | .enm ds => do
      let (tag, p, r) ← parseTagged cs (fun tag => (ds[tag]?).getD (.leaf (.skip .unit)))
      if tag < ds.length then some (.tagged tag p, r) else none
    | .seq d | .set d | .arr _ d => do
      let (vs, r) ← parseItems cs (fun _ => d)
      some (.list (ValList.ofList vs), r)
    | .map k v => do
      let (vs, r) ← parseItems cs (fun _ => .tup [k, v])
      some (.list (ValList.ofList vs), r)
    | .tup ds => do
      let (vs, r) ← parseItems cs (fun i => (ds[i]?).getD (.leaf (.skip .unit)))
      if vs.length = ds.length then some (.list (ValList.ofList vs), r) else none
  partial def parseTagged (cs : List Char) (f : Nat → D) : Option (Nat × Val × List Char) := do
    let (_, r) ← expect '#' cs
    let (tag, r) ← parseNat r
    let (_, r) ← expect '(' r
    let (p, r) ← parseV (f tag) r
    let (_, r) ← expect ')' r
    some (tag, p, r)
  partial def parseItems (cs : List Char) (f : Nat → D) : Option (List Val × List Char) := do
    let (_, r) ← expect '[' cs
    match r with
    | ']' :: r => some ([], r)
    | _ => parseItemList r f 0
  partial def parseItemList (cs : List Char) (f : Nat → D) (i : Nat) : Option (List Val × List Char) := do
    let (v, r) ← parseV (f i) cs
    match r with
    | ',' :: r => do let (vs, r) ← parseItemList r f (i + 1); some (v :: vs, r)
    | ']' :: r => some ([v], r)
    | _ => none
end

def parseValue (d : D) (s : String) : Option Val :=
  match parseV d s.toList with
  | some (v, []) => some v
  | _ => none

def renderAny : Val → String
  | .nat n => toString n
  | .int i => toString i
  | .bool b => if b then "T" else "F"
  | .unit => "U"
  | .bytes bs => "s" ++ (if bs.isEmpty then "" else hex bs)
  | _ => "?"

def listStr (xs : List String) : String := "[" ++ ",".intercalate xs ++ "]"

def sortStrs (xs : List String) : List String := (xs.toArray.qsort (fun a b => a < b)).toList

/-- canonical rendering of a (decoded) value along its descriptor; unordered collections sorted -/
partial def render (d : D) (v : Val) : String :=
  match d, v with
  | .leaf (.bitvec _ _), .bits len ws => "b" ++ toString len ++ ":" ++ ".".intercalate (ws.map toString)
  | .leaf .duration, .list (.cons (.nat s) (.cons (.nat n) .nil)) => "[" ++ toString s ++ "," ++ toString n ++ "]"
  | .leaf _, v => renderAny v
  | .opt _, .tagged 0 p => "#0(" ++ renderAny p ++ ")"
  | .opt d, .tagged t p => "#" ++ toString t ++ "(" ++ render d p ++ ")"
  | .bound _, .tagged 0 p => "#0(" ++ renderAny p ++ ")"
  | .bound d, .tagged t p => "#" ++ toString t ++ "(" ++ render d p ++ ")"
  | .res _ b, .tagged 0 p => "#0(" ++ render b p ++ ")"
  | .res a _, .tagged t p => "#" ++ toString t ++ "(" ++ render a p ++ ")"
  | .enm ds, .tagged t p => "#" ++ toString t ++ "(" ++ (match ds[t]? with | some d => render d p | none => "?") ++ ")"
  | .seq d, .list vs => listStr (vs.toList.map (render d))
  | .arr _ d, .list vs => listStr (vs.toList.map (render d))
  | .set d, .list vs => listStr (sortStrs (vs.toList.map (render d)))
  | .map k v, .list vs => listStr (sortStrs (vs.toList.map (render (.tup [k, v]))))
  | .tup ds, .list vs => listStr ((ds.zip vs.toList).map (fun (d, v) => render d v))
  | _, _ => "?"

def showErr : Err → String
  | .eof => "eof" | .invalid => "invalid" | .panic => "panic"

def outcome (d : D) (star : Bool) (total : Nat) : Except Err (Val × Bytes) → String
  | .ok (v, rest) => "ok|" ++ (if star then "*" else render d v) ++ "|" ++ toString (total - rest.length)
  | .error e => showErr e

def splitOn1 (s : String) (c : Char) : List String := s.splitOn (String.singleton c)

def doV (fix : Bool) (fields : List String) : String :=
  match fields with
  | [ds, vs, js] =>
    match parseDesc ds, unhex js with
    | some d, some junk =>
      match parseValue d vs with
      | none => "bad-op"
      | some v =>
        let t := d.toTy
        if !wt t v then "ill-typed" else
        let bytes := encode t v
        let stream := bytes ++ junk
        hex bytes ++ "|" ++ outcome d false stream.length (decode fix t stream)
    | _, _ => "bad-op"
  | _ => "bad-op"

def doM (fix : Bool) (fields : List String) : String :=
  match fields with
  | [ds, hs] =>
    match parseDesc ds, unhex hs with
    | some d, some stream => outcome d d.unordered stream.length (decode fix d.toTy stream)
    | _, _ => "bad-op"
  | _ => "bad-op"

partial def pairsOf : List String → Option (List (String × String) × String)
  | [j] => some ([], j)
  | d :: v :: rest => (pairsOf rest).map (fun (ps, j) => ((d, v) :: ps, j))
  | _ => none

def doP (fix : Bool) (fields : List String) : String :=
  match fields with
  | _n :: rest =>
    match pairsOf rest with
    | none => "bad-op"
    | some (ps, js) =>
      match unhex js with
      | none => "bad-op"
      | some junk =>
        let parsed := ps.map (fun (ds, vs) =>
          match parseDesc ds with
          | none => none
          | some d => (parseValue d vs).map (fun v => (d, v)))
        if parsed.any Option.isNone then "bad-op" else
        let dvs := parsed.filterMap id
        if dvs.any (fun (d, v) => !wt d.toTy v) then "ill-typed" else
        let bytes := encodeAll (dvs.map (fun (d, v) => (d.toTy, v)))
        let stream := bytes ++ junk
        let rec go (ds : List D) (bs : Bytes) (stopped : Bool) : List String :=
          match ds with
          | [] => []
          | d :: ds =>
            if stopped then "-" :: go ds bs true else
            match decode fix d.toTy bs with
            | .ok (v, rest) => ("ok|" ++ render d v ++ "|" ++ toString (bs.length - rest.length)) :: go ds rest false
            | .error e => showErr e :: go ds bs true
        "|".intercalate (hex bytes :: go (dvs.map (·.1)) stream false)
  | _ => "bad-op"

/-! interned streams -/

structure HItem where
  handle : Bool
  tid : Nat
  d : D
  hash : Nat
  v : Val

def joinColon (xs : List String) : String := ":".intercalate xs

def parseItem (s : String) : Option HItem :=
  match splitOn1 s ':' with
  | "p" :: ds :: rest => do
    let d ← parseDesc ds
    let v ← parseValue d (joinColon rest)
    some ⟨false, 0, d, 0, v⟩
  | "h" :: tid :: ds :: h :: rest => do
    let d ← parseDesc ds
    let v ← parseValue d (joinColon rest)
    some ⟨true, tid.toNat!, d, h.toNat!, v⟩
  | _ => none

def parseItemTy (s : String) : Option HItem :=
  match splitOn1 s ':' with
  | ["p", ds] => (parseDesc ds).map (fun d => ⟨false, 0, d, 0, .unit⟩)
  | ["h", tid, ds] => (parseDesc ds).map (fun d => ⟨true, tid.toNat!, d, 0, .unit⟩)
  | _ => none

def parseKnown (s : String) : Option HItem :=
  match splitOn1 s ':' with
  | tid :: ds :: h :: rest => do
    let d ← parseDesc ds
    let v ← parseValue d (joinColon rest)
    some ⟨true, tid.toNat!, d, h.toNat!, v⟩
  | _ => none

def splitSemi (s : String) : List String := if s = "" then [] else splitOn1 s ';'

def mkHash (tbl : List HItem) : Nat → Val → Nat := fun tid v =>
  match tbl.find? (fun h => h.handle && h.tid == tid && h.v == v) with
  | some h => h.hash
  | none => 2 ^ 128   -- a value the harness never told us about: cannot collide with a real hash

def warmInterner (tbl : List HItem) : Interner :=
  tbl.foldl (fun I h =>
    if h.handle then (match Interner.find I (h.tid, h.hash) with | some _ => I | none => ((h.tid, h.hash), h.v) :: I) else I) []

def showDecoded (ds : List D) (out : List Decoded) : String :=
  let idx := (List.range out.length).zip (out.zip ds)
  ";".intercalate (idx.map (fun (i, (o, d)) =>
    match o with
    | .plain v => "p:" ++ render d v
    | .handle slot v =>
      let cls := (idx.find? (fun (_, (o', _)) => match o' with | .handle s' _ => s' == slot | _ => false)).map (·.1) |>.getD i
      "h:" ++ toString cls ++ ":" ++ render d v))

def iOutcome (ds : List D) (total : Nat) : Except Err (List Decoded × Bytes × Interner) → String
  | .ok (out, rest, _) => "ok|" ++ showDecoded ds out ++ "|" ++ toString (total - rest.length)
  | .error e => showErr e

def doI (fix : Bool) (fields : List String) : String :=
  match fields with
  | [mode, itemsS, js] =>
    let items := (splitSemi itemsS).map parseItem
    match unhex js with
    | none => "bad-op"
    | some junk =>
      if items.any Option.isNone then "bad-op" else
      let items := items.filterMap id
      if items.any (fun h => !wt h.d.toTy h.v) then "ill-typed" else
      let hash := mkHash items
      let mitems : List Item := items.map (fun h => if h.handle then .handle h.tid h.d.toTy h.v else .plain h.d.toTy h.v)
      let bytes := encodeItems hash mitems []
      let stream := bytes ++ junk
      let I0 : Interner := if mode = "warm" then warmInterner items else []
      hex bytes ++ "|" ++ iOutcome (items.map (·.d)) stream.length (decodeItems fix hash (mitems.map Item.ty) stream I0)
  | _ => "bad-op"

def doJ (fix : Bool) (fields : List String) : String :=
  match fields with
  | [mode, tysS, knownS, hs] =>
    let tys := (splitSemi tysS).map parseItemTy
    let known := (splitSemi knownS).map parseKnown
    match unhex hs with
    | none => "bad-op"
    | some stream =>
      if tys.any Option.isNone || known.any Option.isNone then "bad-op" else
      let tys := tys.filterMap id
      let known := known.filterMap id
      let hash := mkHash known
      let mtys : List ItemTy := tys.map (fun h => if h.handle then .handle h.tid h.d.toTy else .plain h.d.toTy)
      let I0 : Interner := if mode = "warm" then warmInterner known else []
      iOutcome (tys.map (·.d)) stream.length (decodeItems fix hash mtys stream I0)
  | _ => "bad-op"


/-! nested interned handles (`Model/CodecNested`): ops `N` (valid encoding + junk) and `O` (mutated stream) -/

section nested
open QbiceVerif.Codec.Nested

/-- nested descriptor: `P<desc>` plain, `H<tid>` handle, `S(d)` sequence, `O(d)` option, `T(d,..)` tuple/struct,
    `E(d,..)` enum (each variant a `T(..)`) -/
inductive ND where
  | plain (d : D) | handle (tid : Nat) | seq (d : ND) | opt (d : ND) | tup (ds : List ND) | enm (ds : List ND)
  deriving Inhabited

partial def ND.toNTy : ND → NTy
  | .plain d => .plain d.toTy
  | .handle tid => .handle tid
  | .seq d => .seq d.toNTy
  | .opt d => .opt d.toNTy
  | .tup ds => .tuple (ds.map ND.toNTy)
  | .enm ds => .enum (ds.map ND.toNTy)

mutual
  partial def parseND : Parser ND
    | 'P' :: cs => (parseD cs).map (fun (d, r) => (.plain d, r))
    | 'H' :: cs => (parseNat cs).map (fun (n, r) => (.handle n, r))
    | 'S' :: '(' :: cs => do let (d, r) ← parseND cs; let (_, r) ← expect ')' r; some (.seq d, r)
    | 'O' :: '(' :: cs => do let (d, r) ← parseND cs; let (_, r) ← expect ')' r; some (.opt d, r)
    | 'T' :: '(' :: cs => do let (ds, r) ← parseNDs cs; some (.tup ds, r)
    | 'E' :: '(' :: cs => do let (ds, r) ← parseNDs cs; some (.enm ds, r)
    | _ => none
  partial def parseNDs : Parser (List ND)
    | ')' :: r => some ([], r)
    | cs => do
      let (d, r) ← parseND cs
      match r with
      | ',' :: r => do let (ds, r) ← parseNDs r; some (d :: ds, r)
      | ')' :: r => some ([d], r)
      | _ => none
end

def parseEnv (s : String) : Option (List (Nat × ND)) :=
  (splitSemi s).mapM (fun e =>
    match splitOn1 e '=' with
    | [tid, ds] => (match parseND ds.toList with | some (d, []) => some (tid.toNat!, d) | _ => none)
    | _ => none)

def envND (tbl : List (Nat × ND)) (tid : Nat) : ND :=
  match tbl.find? (fun e => e.1 == tid) with
  | some e => e.2
  | none => .tup []

/-- a value as the harness prints it: every handle comes with its hash -/
inductive HV where
  | plain (v : Val) | handle (tid hash : Nat) (dup : Option Nat) (p : HV) | list (vs : List HV) | tagged (i : Nat) (p : HV)
  deriving Inhabited

partial def HV.toNVal : HV → NVal
  | .plain v => .plain v
  | .handle tid _ _ p => .handle tid p.toNVal
  | .list vs => .list (vs.map HV.toNVal)
  | .tagged i p => .tagged i p.toNVal

partial def HV.table : HV → List (Nat × NVal × Nat)
  | .plain _ => []
  | .handle tid h _ p => (tid, p.toNVal, h) :: p.table
  | .list vs => (vs.map HV.table).flatten
  | .tagged _ p => p.table

mutual
  partial def parseHV (env : Nat → ND) (d : ND) : Parser HV := fun cs =>
    match d with
    | .plain pd => (parseV pd cs).map (fun (v, r) => (.plain v, r))
    | .handle tid => do
      -- `h` = a handle obtained by interning, `d` = a private copy (`Interned::new_duplicating`) the interner does not know
      -- (`d<id>_<hash>`: equal ids = one private allocation, e.g. held by a value and by a private copy of that value)
      let (dup, r) ← (match cs with
        | 'h' :: r => some (none, r)
        | 'd' :: r => (match parseNat r with | some (id, '_' :: r) => some (some id, r) | _ => none)
        | _ => none)
      let (h, r) ← parseNat r
      let (_, r) ← expect '{' r
      let (p, r) ← parseHV env (env tid) r
      let (_, r) ← expect '}' r
      some (.handle tid h dup p, r)
    | .seq ed => do let (vs, r) ← parseHVs env cs (fun _ => some ed); some (.list vs, r)
    | .tup ds => do
      let (vs, r) ← parseHVs env cs (fun i => ds[i]?)
      if vs.length = ds.length then some (.list vs, r) else none
    | .opt ed => do
      let (_, r) ← expect '#' cs
      let (tag, r) ← parseNat r
      let (_, r) ← expect '(' r
      if tag = 0 then do
        let (_, r) ← expect '[' r; let (_, r) ← expect ']' r; let (_, r) ← expect ')' r
        some (.tagged 0 (.list []), r)
      else do
        let (p, r) ← parseHV env ed r
        let (_, r) ← expect ')' r
        some (.tagged tag p, r)
    | .enm ds => do
      let (_, r) ← expect '#' cs
      let (tag, r) ← parseNat r
      let (_, r) ← expect '(' r
      let vd ← ds[tag]?
      let (p, r) ← parseHV env vd r
      let (_, r) ← expect ')' r
      some (.tagged tag p, r)
  partial def parseHVs (env : Nat → ND) (cs : List Char) (f : Nat → Option ND) : Option (List HV × List Char) := do
    let (_, r) ← expect '[' cs
    match r with
    | ']' :: r => some ([], r)
    | _ => parseHVList env r f 0
  partial def parseHVList (env : Nat → ND) (cs : List Char) (f : Nat → Option ND) (i : Nat) : Option (List HV × List Char) := do
    let d ← f i
    let (v, r) ← parseHV env d cs
    match r with
    | ',' :: r => do let (vs, r) ← parseHVList env r f (i + 1); some (v :: vs, r)
    | ']' :: r => some ([v], r)
    | _ => none
end

partial def HV.hasDup : HV → Bool
  | .plain _ => false
  | .handle _ _ dup p => dup.isSome || p.hasDup
  | .list vs => vs.any HV.hasDup
  | .tagged _ p => p.hasDup

/-- the decoder-side interner in which a value is alive (an INPUT state, not a decoder step): its parts were interned
    bottom-up — the allocation already alive under the key wins —, except the private copies (`d`), which get an
    allocation number of their own (10^6 + id) that the interner does not know.  For a value without private copies this
    is what decoding it once leaves behind. -/
partial def warmWalk : HV → NInterner → DVal × NInterner
  | .plain v, I => (.plain v, I)
  | .handle tid h dup p, I =>
    let (dp, I) := warmWalk p I
    match dup with
    | some id => (.handle tid (1000000 + id) dp, I)
    | none =>
      match I.find (tid, h) with
      | some (s, p') => (.handle tid s p', I)
      | none => (.handle tid I.length dp, ((tid, h), dp) :: I)
  | .list vs, I =>
    let (ds, I) := vs.foldl (fun (acc, I) v => let (d, I) := warmWalk v I; (acc ++ [d], I)) ([], I)
    (.list ds, I)
  | .tagged i p, I => let (dp, I) := warmWalk p I; (.tagged i dp, I)

partial def nbeq : NVal → NVal → Bool
  | .plain a, .plain b => a == b
  | .handle t p, .handle u q => t == u && nbeq p q
  | .list as, .list bs => as.length == bs.length && (as.zip bs).all (fun (a, b) => nbeq a b)
  | .tagged i p, .tagged j q => i == j && nbeq p q
  | _, _ => false

def mkNHash (tbl : List (Nat × NVal × Nat)) : Nat → NVal → Nat := fun tid p =>
  match tbl.find? (fun e => e.1 == tid && nbeq e.2.1 p) with
  | some e => e.2.2
  | none => 2 ^ 128   -- a payload the harness never told us about: cannot collide with a real hash

/-- render a decoded value; a handle prints the class of its allocation: the pre-order index of the first handle
    occurrence with the same (type id, slot) -/
partial def renderDV (env : Nat → ND) (all : List (Nat × Nat)) : ND → DVal → Nat → String × Nat
  | .plain pd, .plain v, n => (render pd v, n)
  | .handle _, .handle tid slot p, n =>
    let cls := (all.findIdx? (fun e => e.1 == tid && e.2 == slot)).getD n
    let (s, n') := renderDV env all (env tid) p (n + 1)
    ("h" ++ toString cls ++ "{" ++ s ++ "}", n')
  | .seq ed, .list vs, n =>
    let (ss, n') := vs.foldl (fun (acc, n) v => let (s, n') := renderDV env all ed v n; (acc ++ [s], n')) ([], n)
    ("[" ++ ",".intercalate ss ++ "]", n')
  | .tup ds, .list vs, n =>
    let (ss, n') := (ds.zip vs).foldl (fun (acc, n) (d, v) => let (s, n') := renderDV env all d v n; (acc ++ [s], n')) ([], n)
    ("[" ++ ",".intercalate ss ++ "]", n')
  | .opt _, .tagged 0 _, n => ("#0([])", n)
  | .opt ed, .tagged i p, n => let (s, n') := renderDV env all ed p n; ("#" ++ toString i ++ "(" ++ s ++ ")", n')
  | .enm ds, .tagged i p, n =>
    let (s, n') := renderDV env all ((ds[i]?).getD (.tup [])) p n
    ("#" ++ toString i ++ "(" ++ s ++ ")", n')
  | _, _, n => ("?", n)

def showNErr : NErr → String
  | .eof => "eof" | .invalid => "invalid" | .panic => "panic" | .outOfFuel => "out-of-fuel"

def nFuel : Nat := 1000000

def nOutcome (env : Nat → ND) (d : ND) (total : Nat) : DR DVal → String
  | .ok (dv, rest, _) =>
    "ok|" ++ (renderDV env (dv.handles.map (fun x => (x.1, x.2.1))) d dv 0).1 ++ "|" ++ toString (total - rest.length)
  | .error e => showNErr e

/-- fields: mode, env, type, value, stream-or-junk, [extra value whose hashes are added to the table] -/
def doN (mutated : Bool) (fields : List String) : String :=
  match fields with
  | mode :: envS :: tyS :: valS :: hexS :: extra =>
    match parseEnv envS, parseND tyS.toList, unhex hexS with
    | some envT, some (d, []), some bs =>
      let envD := envND envT
      match parseHV envD d valS.toList with
      | some (hv, []) =>
        let extraTbl : Option (List (Nat × NVal × Nat)) :=
          match extra with
          | [] | ["-"] => some []
          | [xs] => (match parseHV envD d xs.toList with | some (x, []) => some x.table | _ => none)
          | _ => none
        match extraTbl with
        | none => "bad-op"
        | some xt =>
          let env : Nat → NTy := fun tid => (envD tid).toNTy
          let t := d.toNTy
          let v := hv.toNVal
          if !wtN env t v then "ill-typed" else
          let hash := mkNHash (hv.table ++ xt)
          let bytes := encodeTop env hash t v
          -- warm: the decoder's interner is the encoder's, every original alive = what decoding once leaves behind
          let I0 : Option NInterner :=
            if mode = "warm" then some (warmWalk hv []).2 else some []
          match I0 with
          | none => "warm-failed"
          | some I0 =>
            if mutated then nOutcome envD d bs.length (dec true env hash nFuel t bs I0)
            else
              let stream := bytes ++ bs
              hex bytes ++ "|" ++ nOutcome envD d stream.length (dec true env hash nFuel t stream I0)
      | _ => "bad-op"
    | _, _, _ => "bad-op"
  | _ => "bad-op"

/-- encoder only (colliding hashes) -/
def doQ (fields : List String) : String :=
  match fields with
  | [envS, tyS, valS] =>
    match parseEnv envS, parseND tyS.toList with
    | some envT, some (d, []) =>
      let envD := envND envT
      match parseHV envD d valS.toList with
      | some (hv, []) =>
        let env : Nat → NTy := fun tid => (envD tid).toNTy
        if !wtN env d.toNTy hv.toNVal then "ill-typed" else
        hex (encodeTop env (mkNHash hv.table) d.toNTy hv.toNVal)
      | _ => "bad-op"
    | _, _ => "bad-op"
  | _ => "bad-op"

/-- one decode step of a history on a long-lived interner.  The model's interner holds live entries only (a dead weak
    entry is an absent one): it is what decoding the values alive at this moment, one after the other, leaves behind.
    fields: env, type, value, junk, alive values `ty~val^ty~val…` -/
def doK (fields : List String) : String :=
  match fields with
  | [envS, tyS, valS, hexS, aliveS] =>
    match parseEnv envS, parseND tyS.toList, unhex hexS with
    | some envT, some (d, []), some junk =>
      let envD := envND envT
      let alive : Option (List (ND × HV)) :=
        (if aliveS = "" then [] else splitOn1 aliveS '^').mapM (fun e =>
          match splitOn1 e '~' with
          | [ts, vs] =>
            (match parseND ts.toList with
             | some (ad, []) => (match parseHV envD ad vs.toList with | some (hv, []) => some (ad, hv) | _ => none)
             | _ => none)
          | _ => none)
      match parseHV envD d valS.toList, alive with
      | some (hv, []), some alive =>
        let env : Nat → NTy := fun tid => (envD tid).toNTy
        let t := d.toNTy
        let v := hv.toNVal
        if !wtN env t v || alive.any (fun (ad, av) => !wtN env ad.toNTy av.toNVal) then "ill-typed" else
        let hash := mkNHash (hv.table ++ (alive.map (fun (_, av) => av.table)).flatten)
        -- `aliveInterner` (the function of `interned_roundtrip_history`) when every alive value is canonical; with private
        -- copies among them the interner is only `IOkW` (`interned_roundtrip_nested_weak`) and is given as an input state
        let I0 : Option NInterner :=
          if alive.any (fun (_, av) => av.hasDup) then
            some (alive.foldl (fun I (_, av) => (warmWalk av I).2) ([] : NInterner))
          else aliveInterner env hash nFuel (alive.map (fun (ad, av) => (ad.toNTy, av.toNVal))) []
        match I0 with
        | none => "alive-failed"
        | some I0 =>
          let bytes := encodeTop env hash t v
          let stream := bytes ++ junk
          hex bytes ++ "|" ++ nOutcome envD d stream.length (dec true env hash nFuel t stream I0)
      | _, _ => "bad-op"
    | _, _, _ => "bad-op"
  | _ => "bad-op"

end nested

def handle (fix : Bool) (line : String) : String :=
  match splitOn1 line '|' with
  | "V" :: rest => doV fix rest
  | "M" :: rest => doM fix rest
  | "P" :: rest => doP fix rest
  | "I" :: rest => doI fix rest
  | "J" :: rest => doJ fix rest
  | "N" :: rest => doN false rest
  | "O" :: rest => doN true rest
  | "Q" :: rest => doQ rest
  | "K" :: rest => doK rest
  | _ => "bad-op"

end CodecDriver

partial def loop (fix : Bool) (h : IO.FS.Stream) (out : IO.FS.Stream) : IO Unit := do
  let line ← h.getLine
  if line.isEmpty then return ()
  let line := if line.endsWith "\n" then (line.dropEnd 1).toString else line
  out.putStrLn (CodecDriver.handle fix line)
  loop fix h out

def main (args : List String) : IO Unit := do
  let fix := !(args.contains "--asis-f7")
  let stdin ← IO.getStdin
  let stdout ← IO.getStdout
  loop fix stdin stdout
