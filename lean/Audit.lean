/-
Axiom / obligation audit.  Usage:  lake env lean --run Audit.lean QbiceVerif.Props.C12
Prints one line per theorem declared in the given module:
   THEOREM <name> AXIOMS <a,b,c>
then, for the project-local lemmas (modules starting with `QbiceVerif`) these theorems
depend on, transitively:
   LEMMA <name>
and a final `SUMMARY theorems=<n> lemmas=<m> bad=<k>` where bad counts theorems whose axiom
set is not within {propext, Classical.choice, Quot.sound}.
-/
import Lean
open Lean

instance : MonadEnv (StateM Environment) where
  getEnv := get
  modifyEnv f := modify f

def axiomsOf (env : Environment) (n : Name) : Array Name :=
  ((collectAxioms n : StateM Environment (Array Name)).run env).1

def allowed : List Name := [``propext, ``Classical.choice, ``Quot.sound]

partial def collectDeps (env : Environment) (isLocal : Name → Bool)
    (todo : List Name) (seen : NameSet) : NameSet :=
  match todo with
  | [] => seen
  | n :: rest =>
    if seen.contains n then collectDeps env isLocal rest seen else
    match env.find? n with
    | none => collectDeps env isLocal rest seen
    | some ci =>
      let seen := seen.insert n
      let used : Array Name :=
        (ci.type.getUsedConstants) ++ (match ci.value? (allowOpaque := true) with
          | some v => v.getUsedConstants | none => #[])
      let next := used.toList.filter (fun c => isLocal c && !seen.contains c)
      collectDeps env isLocal (next ++ rest) seen

def main (args : List String) : IO UInt32 := do
  let modStr := args.head!
  let mod := modStr.toName
  initSearchPath (← findSysroot)
  let env ← importModules #[{module := mod}] {}
  let some idx := env.getModuleIdx? mod | throw (IO.userError s!"module {mod} not found")
  let names := env.header.moduleData[idx.toNat]!.constNames
  let isLocal (c : Name) : Bool :=
    match env.getModuleIdxFor? c with
    | some i => (env.header.moduleNames[i.toNat]!).getRoot == `QbiceVerif
    | none => false
  let mut bad := 0
  let mut nthm := 0
  let mut roots : List Name := []
  for n in names do
    if n.isInternal then continue
    match env.find? n with
    | some (.thmInfo _) =>
      nthm := nthm + 1
      roots := n :: roots
      let axs := (axiomsOf env n).toList
      let ok := axs.all (fun a => allowed.contains a)
      if !ok then bad := bad + 1
      IO.println s!"THEOREM {n} AXIOMS {",".intercalate (axs.map toString)}"
    | _ => pure ()
  let deps := collectDeps env isLocal roots {}
  let mut nlem := 0
  for d in deps.toList do
    if roots.contains d then continue
    match env.find? d with
    | some (.thmInfo _) =>
      if !d.isInternal then
        nlem := nlem + 1
        IO.println s!"LEMMA {d}"
    | _ => pure ()
  IO.println s!"SUMMARY theorems={nthm} lemmas={nlem} bad={bad}"
  return (if bad == 0 then 0 else 1)
