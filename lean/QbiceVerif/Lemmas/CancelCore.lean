import QbiceVerif.Lemmas.CancelBasic

/-!
# C05 — the core invariant (ownership of the two lock tables, no half-published node)

`InvCore` holds in every reachable state of `Model/CancelLts.lean` **for every configuration**
(code as it is, or repaired): the cancellation / panic glue of the computing table and of the
backward-projection table is complete, whatever is cancelled where.
-/

namespace QbiceVerif.CancelLts

@[simp] theorem lockKeys_nil : lockKeys [] = [] := rfl
@[simp] theorem bpKeys_nil : bpKeys [] = [] := rfl
theorem lockKeys_cons (f : Frame) (fs : List Frame) :
    lockKeys (f :: fs) = if f.lock = true then f.key :: lockKeys fs else lockKeys fs := by
  simp only [lockKeys, List.filter_cons]; split <;> simp
theorem bpKeys_cons (f : Frame) (fs : List Frame) :
    bpKeys (f :: fs) = if f.bp = true then f.key :: bpKeys fs else bpKeys fs := by
  simp only [bpKeys, List.filter_cons]; split <;> simp

/-- the places where a detached continuation can be: inside a guarded block, or holding the session object
    whose `Drop` commits -/
def Pc.detachable : Pc → Bool
  | .g0 | .g1 | .g2 | .sG0 | .sOpen | .sG1 => true
  | _ => false

structure InvCore (s : State) : Prop where
  /-- every computing entry has a live owner that holds its lock guard -/
  compOwner : ∀ k o, owner s.comp k = some o → ∃ T, s.tasks o = some T ∧ k ∈ lockKeys T.frames
  /-- every lock guard held by a live task is backed by its entry -/
  lockEntry : ∀ t T, s.tasks t = some T → ∀ k ∈ lockKeys T.frames, owner s.comp k = some t
  bpOwner : ∀ k o, s.bpl k = some o → ∃ T, s.tasks o = some T ∧ k ∈ bpKeys T.frames
  bpEntry : ∀ t T, s.tasks t = some T → ∀ k ∈ bpKeys T.frames, s.bpl k = some t
  nodup : ∀ t T, s.tasks t = some T → (lockKeys T.frames).Nodup ∧ (bpKeys T.frames).Nodup
  /-- a node with writes of an unfinished publication has a live publisher inside its guarded block -/
  partialOwner : ∀ k, s.partialW k ≠ 0 →
    ∃ t T top rest, s.tasks t = some T ∧ T.frames = top :: rest ∧ top.key = k ∧ T.pc = .g1
  shape : ∀ t T, s.tasks t = some T → (T.pc.isSession = true ↔ T.frames = [])
  detachedOne : ∀ t T, s.tasks t = some T → T.detached = true → T.frames.length ≤ 1
  detachedPc : ∀ t T, s.tasks t = some T → T.detached = true → T.pc.detachable = true

theorem invCore_init (cfg : Cfg) : InvCore (init cfg) := by
  refine ⟨?_, ?_, ?_, ?_, ?_, ?_, ?_, ?_, ?_⟩ <;> simp [init, owner]

/-- What a task must satisfy locally after an event that touched it. -/
structure LocalOk (s' : State) (t : Tid) (T' : Task) : Prop where
  live : s'.tasks t = some T'
  locks : ∀ k, owner s'.comp k = some t ↔ k ∈ lockKeys T'.frames
  bps : ∀ k, s'.bpl k = some t ↔ k ∈ bpKeys T'.frames
  nodupL : (lockKeys T'.frames).Nodup
  nodupB : (bpKeys T'.frames).Nodup
  shape : T'.pc.isSession = true ↔ T'.frames = []
  detachedOne : T'.detached = true → T'.frames.length ≤ 1
  detachedPc : T'.detached = true → T'.pc.detachable = true

/-- The task is gone and holds nothing. -/
structure GoneOk (s' : State) (t : Tid) : Prop where
  dead : s'.tasks t = none
  locks : ∀ k, owner s'.comp k ≠ some t
  bps : ∀ k, s'.bpl k ≠ some t

/-- Frame rule: an event that touches one task `t`, and the two tables only at keys that `t` owns or
    that are free, preserves the invariant provided `t` is locally consistent afterwards. -/
theorem core_frame {s s' : State} {t : Tid} (h : InvCore s)
    (hT : ∀ t', t' ≠ t → s'.tasks t' = s.tasks t')
    (hC : ∀ k, owner s'.comp k ≠ owner s.comp k →
      (owner s.comp k = some t ∨ owner s.comp k = none) ∧ (owner s'.comp k = some t ∨ owner s'.comp k = none))
    (hB : ∀ k, s'.bpl k ≠ s.bpl k →
      (s.bpl k = some t ∨ s.bpl k = none) ∧ (s'.bpl k = some t ∨ s'.bpl k = none))
    (hL : (∃ T', LocalOk s' t T') ∨ GoneOk s' t)
    (hP : ∀ k, s'.partialW k ≠ 0 →
      ∃ t T top rest, s'.tasks t = some T ∧ T.frames = top :: rest ∧ top.key = k ∧ T.pc = .g1) :
    InvCore s' := by
  have other_comp : ∀ k o, o ≠ t → (owner s'.comp k = some o ↔ owner s.comp k = some o) := by
    intro k o ho
    by_cases hk : owner s'.comp k = owner s.comp k
    · rw [hk]
    · obtain ⟨h1, h2⟩ := hC k hk
      constructor
      · intro h'; rcases h2 with h2 | h2 <;> rw [h2] at h' <;> simp at h'; exact absurd h'.symm ho
      · intro h'; rcases h1 with h1 | h1 <;> rw [h1] at h' <;> simp at h'; exact absurd h'.symm ho
  have other_bp : ∀ k o, o ≠ t → (s'.bpl k = some o ↔ s.bpl k = some o) := by
    intro k o ho
    by_cases hk : s'.bpl k = s.bpl k
    · rw [hk]
    · obtain ⟨h1, h2⟩ := hB k hk
      constructor
      · intro h'; rcases h2 with h2 | h2 <;> rw [h2] at h' <;> simp at h'; exact absurd h'.symm ho
      · intro h'; rcases h1 with h1 | h1 <;> rw [h1] at h' <;> simp at h'; exact absurd h'.symm ho
  refine ⟨?_, ?_, ?_, ?_, ?_, hP, ?_, ?_, ?_⟩
  · intro k o ho
    by_cases hot : o = t
    · subst hot
      rcases hL with ⟨T', hl⟩ | hg
      · exact ⟨T', hl.live, (hl.locks k).mp ho⟩
      · exact absurd ho (hg.locks k)
    · obtain ⟨T, h1, h2⟩ := h.compOwner k o ((other_comp k o hot).mp ho)
      exact ⟨T, by rw [hT o hot]; exact h1, h2⟩
  · intro t' T hT' k hk
    by_cases htt : t' = t
    · subst htt
      rcases hL with ⟨T', hl⟩ | hg
      · have : T = T' := by have := hl.live; rw [hT'] at this; exact Option.some.inj this
        subst this; exact (hl.locks k).mpr hk
      · rw [hg.dead] at hT'; cases hT'
    · rw [hT t' htt] at hT'
      exact (other_comp k t' htt).mpr (h.lockEntry t' T hT' k hk)
  · intro k o ho
    by_cases hot : o = t
    · subst hot
      rcases hL with ⟨T', hl⟩ | hg
      · exact ⟨T', hl.live, (hl.bps k).mp ho⟩
      · exact absurd ho (hg.bps k)
    · obtain ⟨T, h1, h2⟩ := h.bpOwner k o ((other_bp k o hot).mp ho)
      exact ⟨T, by rw [hT o hot]; exact h1, h2⟩
  · intro t' T hT' k hk
    by_cases htt : t' = t
    · subst htt
      rcases hL with ⟨T', hl⟩ | hg
      · have : T = T' := by have := hl.live; rw [hT'] at this; exact Option.some.inj this
        subst this; exact (hl.bps k).mpr hk
      · rw [hg.dead] at hT'; cases hT'
    · rw [hT t' htt] at hT'
      exact (other_bp k t' htt).mpr (h.bpEntry t' T hT' k hk)
  · intro t' T hT'
    by_cases htt : t' = t
    · subst htt
      rcases hL with ⟨T', hl⟩ | hg
      · have : T = T' := by have := hl.live; rw [hT'] at this; exact Option.some.inj this
        subst this; exact ⟨hl.nodupL, hl.nodupB⟩
      · rw [hg.dead] at hT'; cases hT'
    · rw [hT t' htt] at hT'; exact h.nodup t' T hT'
  · intro t' T hT'
    by_cases htt : t' = t
    · subst htt
      rcases hL with ⟨T', hl⟩ | hg
      · have : T = T' := by have := hl.live; rw [hT'] at this; exact Option.some.inj this
        subst this; exact hl.shape
      · rw [hg.dead] at hT'; cases hT'
    · rw [hT t' htt] at hT'; exact h.shape t' T hT'
  · intro t' T hT'
    by_cases htt : t' = t
    · subst htt
      rcases hL with ⟨T', hl⟩ | hg
      · have : T = T' := by have := hl.live; rw [hT'] at this; exact Option.some.inj this
        subst this; exact hl.detachedOne
      · rw [hg.dead] at hT'; cases hT'
    · rw [hT t' htt] at hT'; exact h.detachedOne t' T hT'
  · intro t' T hT'
    by_cases htt : t' = t
    · subst htt
      rcases hL with ⟨T', hl⟩ | hg
      · have : T = T' := by have := hl.live; rw [hT'] at this; exact Option.some.inj this
        subst this; exact hl.detachedPc
      · rw [hg.dead] at hT'; cases hT'
    · rw [hT t' htt] at hT'; exact h.detachedPc t' T hT'

/-- what the invariant says about one live task -/
theorem InvCore.locks_iff {s : State} (h : InvCore s) {t : Tid} {T : Task} (hT : s.tasks t = some T) (k : Key) :
    owner s.comp k = some t ↔ k ∈ lockKeys T.frames := by
  constructor
  · intro ho
    obtain ⟨T', h1, h2⟩ := h.compOwner k t ho
    rw [hT] at h1; cases h1; exact h2
  · exact h.lockEntry t T hT k

theorem InvCore.bps_iff {s : State} (h : InvCore s) {t : Tid} {T : Task} (hT : s.tasks t = some T) (k : Key) :
    s.bpl k = some t ↔ k ∈ bpKeys T.frames := by
  constructor
  · intro ho
    obtain ⟨T', h1, h2⟩ := h.bpOwner k t ho
    rw [hT] at h1; cases h1; exact h2
  · exact h.bpEntry t T hT k

theorem InvCore.fresh_owner {s : State} (h : InvCore s) {t : Tid} (hT : s.tasks t = none) (k : Key) :
    owner s.comp k ≠ some t := by
  intro ho; obtain ⟨T', h1, _⟩ := h.compOwner k t ho; rw [hT] at h1; cases h1

theorem InvCore.fresh_bp {s : State} (h : InvCore s) {t : Tid} (hT : s.tasks t = none) (k : Key) :
    s.bpl k ≠ some t := by
  intro ho; obtain ⟨T', h1, _⟩ := h.bpOwner k t ho; rw [hT] at h1; cases h1

/-- the publisher witness survives an event that leaves `partialW` alone and does not move a `g1` task -/
theorem partial_keep {s s' : State} {t : Tid} (h : InvCore s)
    (hT : ∀ t', t' ≠ t → s'.tasks t' = s.tasks t')
    (hp : s'.partialW = s.partialW)
    (ht : ∀ T top rest, s.tasks t = some T → T.frames = top :: rest → T.pc = .g1 →
      ∃ T' top' rest', s'.tasks t = some T' ∧ T'.frames = top' :: rest' ∧ top'.key = top.key ∧ T'.pc = .g1) :
    ∀ k, s'.partialW k ≠ 0 →
      ∃ t T top rest, s'.tasks t = some T ∧ T.frames = top :: rest ∧ top.key = k ∧ T.pc = .g1 := by
  intro k hk
  rw [hp] at hk
  obtain ⟨t0, T, top, rest, h1, h2, h3, h4⟩ := h.partialOwner k hk
  by_cases h0 : t0 = t
  · subst h0
    obtain ⟨T', top', rest', a, b, c, d⟩ := ht T top rest h1 h2 h4
    exact ⟨t0, T', top', rest', a, b, c.trans h3, d⟩
  · exact ⟨t0, T, top, rest, by rw [hT t0 h0]; exact h1, h2, h3, h4⟩

end QbiceVerif.CancelLts
