import QbiceVerif.Lemmas.PhaseInvStep

/-!
# C04 — the structural invariant of the phase lock (both opening orders)

`InvBase`: the exclusive holder excludes shared holders; a task past `read_owned().await` is a shared
holder; the exclusive lock is held exactly by the open session's owner, or by a writer inside
`input_session()` past the lock; a queued request belongs to a task that waits for it.
-/

namespace QbiceVerif.Phase

def Pc.isRWait : Pc → Bool
  | .rWait _ => true
  | _ => false

def Pc.openIdx : Pc → Option Nat
  | .wOpen i _ _ _ => some i
  | _ => none

structure InvBase (c : Cfg) (s : State) : Prop where
  excl : s.lock.writer.isSome = true → s.lock.readers = []
  heldA : ∀ t e ks, (s.tasks t).pc = .rActive e ks → t ∈ s.lock.readers
  heldL : ∀ t ks, (s.tasks t).pc = .rLocked ks → t ∈ s.lock.readers
  sessW : ∀ σ, s.sess = some σ → s.lock.writer = some σ.owner
  openLt : ∀ t i e sets kind, (s.tasks t).pc = .wOpen i e sets kind → i < 5
  openHold : ∀ t i e sets kind, (s.tasks t).pc = .wOpen i e sets kind → acqIdx c.lockFirst < i →
    s.lock.writer = some t ∧ s.sess = none
  openWait : ∀ t e sets kind, (s.tasks t).pc = .wOpen (acqIdx c.lockFirst) e sets kind →
    s.lock.want t = some true ∨ (s.lock.want t = none ∧ s.lock.writer = some t ∧ s.sess = none)
  wantT : ∀ t, s.lock.want t = some true → (s.tasks t).pc.openIdx = some (acqIdx c.lockFirst)
  wantF : ∀ t, s.lock.want t = some false → (s.tasks t).pc.isRWait = true

theorem InvBase.want_none {c : Cfg} {s : State} (inv : InvBase c s) (t : Tid)
    (h1 : (s.tasks t).pc.isRWait = false)
    (h2 : (s.tasks t).pc.openIdx ≠ some (acqIdx c.lockFirst)) :
    s.lock.want t = none := by
  cases hw : s.lock.want t with
  | none => rfl
  | some b =>
    cases b with
    | true => exact absurd (inv.wantT t hw) h2
    | false => have := inv.wantF t hw; simp [h1] at this

theorem InvBase.sess_none {c : Cfg} {s : State} (inv : InvBase c s) (h : s.lock.writer = none) :
    s.sess = none := by
  cases hs : s.sess with
  | none => rfl
  | some σ => have := inv.sessW σ hs; simp [h] at this

theorem invBase_rReq {c : Cfg} {s : State} (inv : InvBase c s) (t : Tid) (ks : List (Bool × Key)) (rest : List Op)
      (hpc : (s.tasks t).pc = .idle) :
      InvBase c 
        ⟨s.epoch, ⟨s.lock.readers, s.lock.writer, s.lock.queue ++ [(t, false)]⟩,
          upd s.tasks t ⟨.rWait ks, rest⟩, s.inputs, s.nodes, s.sess, s.done, s.base⟩ := by
  have hw : s.lock.want t = none := inv.want_none t (by simp [hpc, Pc.isRWait]) (by simp [hpc, Pc.openIdx])
  constructor <;> grind [upd_apply, InvBase, want_enqueue, Pc.isRWait, Pc.openIdx]

theorem invBase_grantR {c : Cfg} {s : State} (inv : InvBase c s) (t : Tid) (hw : s.lock.want t = some false) (hwr : s.lock.writer = none) :
      InvBase c
        ⟨s.epoch, ⟨t :: s.lock.readers, s.lock.writer, dequeue s.lock.queue t⟩,
          s.tasks, s.inputs, s.nodes, s.sess, s.done, s.base⟩ := by
  constructor <;> grind [InvBase, want_dequeue, Pc.isRWait, Pc.openIdx]

theorem invBase_grantW {c : Cfg} {s : State} (inv : InvBase c s) (t : Tid) (_hw : s.lock.want t = some true) (hrd : s.lock.readers = [])
      (hwr : s.lock.writer = none) :
      InvBase c 
        ⟨s.epoch, ⟨s.lock.readers, some t, dequeue s.lock.queue t⟩,
          s.tasks, s.inputs, s.nodes, s.sess, s.done, s.base⟩ := by
  have hsn := inv.sess_none hwr
  constructor <;> grind [InvBase, want_dequeue, Pc.isRWait, Pc.openIdx]


theorem invBase_rAcq {c : Cfg} {s : State} (inv : InvBase c s) (t : Tid) (ks : List (Bool × Key)) (_hpc : (s.tasks t).pc = .rWait ks)
      (hmem : t ∈ s.lock.readers) (hw : s.lock.want t = none) :
      InvBase c 
        ⟨s.epoch, s.lock, upd s.tasks t ⟨.rLocked ks, (s.tasks t).script⟩, s.inputs, s.nodes, s.sess,
          s.done, s.base⟩ := by
  constructor <;> grind [upd_apply, InvBase, Pc.isRWait, Pc.openIdx]

/-- a step of a task that is neither waiting for the lock nor changes anything but its own pc
(to a pc that is not a waiting/opening one) -/
theorem invBase_setPc {c : Cfg} {s : State} (inv : InvBase c s) (t : Tid) (x : Task)
    (h1 : (s.tasks t).pc.isRWait = false) (h2 : (s.tasks t).pc.openIdx = none)
    (_h3 : x.pc.isRWait = false) (h4 : x.pc.openIdx = none)
    (h5 : ∀ e ks, x.pc = .rActive e ks → t ∈ s.lock.readers)
    (h6 : ∀ ks, x.pc = .rLocked ks → t ∈ s.lock.readers) (inp : Inputs) (nodes : Key → Option Node) :
    InvBase c ⟨s.epoch, s.lock, upd s.tasks t x, inp, nodes, s.sess, s.done, s.base⟩ := by
  have hw : s.lock.want t = none := inv.want_none t h1 (by simp [h2])
  constructor <;> grind [upd_apply, InvBase, Pc.isRWait, Pc.openIdx]


theorem invBase_rRel {c : Cfg} {s : State} (inv : InvBase c s) (t : Tid) (e : Nat) (hpc : (s.tasks t).pc = .rActive e []) :
      InvBase c 
        ⟨s.epoch, ⟨s.lock.readers.erase t, s.lock.writer, s.lock.queue⟩,
          upd s.tasks t ⟨.idle, (s.tasks t).script⟩, s.inputs, s.nodes, s.sess, s.done, s.base⟩ := by
  have hw : s.lock.want t = none := inv.want_none t (by simp [hpc, Pc.isRWait]) (by simp [hpc, Pc.openIdx])
  have hw' : ∀ t', (Lock.mk (s.lock.readers.erase t) s.lock.writer s.lock.queue).want t' = s.lock.want t' :=
    fun _ => rfl
  constructor <;> grind [upd_apply, InvBase, Pc.isRWait, Pc.openIdx]

/-- a step of the session owner / the commit task: the session changes but keeps its owner -/
theorem invBase_sess {c : Cfg} {s : State} (inv : InvBase c s) (t : Tid) (x : Task) (σ σ' : Sess)
    (hs : s.sess = some σ) (ho : σ'.owner = σ.owner)
    (h1 : (s.tasks t).pc.isRWait = false) (h2 : (s.tasks t).pc.openIdx = none)
    (_h3 : x.pc.isRWait = false) (h4 : x.pc.openIdx = none)
    (h5 : ∀ e ks, x.pc ≠ .rActive e ks) (h6 : ∀ ks, x.pc ≠ .rLocked ks)
    (inp : Inputs) (nodes : Key → Option Node) :
    InvBase c ⟨s.epoch, s.lock, upd s.tasks t x, inp, nodes, some σ', s.done, s.base⟩ := by
  have hw : s.lock.want t = none := inv.want_none t h1 (by simp [h2])
  constructor <;> grind [upd_apply, InvBase, Pc.isRWait, Pc.openIdx]

theorem invBase_sess' {c : Cfg} {s : State} (inv : InvBase c s) (σ σ' : Sess)
    (hs : s.sess = some σ) (ho : σ'.owner = σ.owner)
    (inp : Inputs) (nodes : Key → Option Node) :
    InvBase c ⟨s.epoch, s.lock, s.tasks, inp, nodes, some σ', s.done, s.base⟩ := by
  constructor <;> grind [InvBase]

theorem invBase_cRel {c : Cfg} {s : State} (inv : InvBase c s) (σ : Sess)
    (hs : s.sess = some σ) (done : List (Nat × List (Key × Val))) :
    InvBase c ⟨s.epoch, ⟨s.lock.readers, none, s.lock.queue⟩, s.tasks, s.inputs, s.nodes, none, done, s.base⟩ := by
  have hw' : ∀ t', (Lock.mk s.lock.readers none s.lock.queue).want t' = s.lock.want t' :=
    fun _ => rfl
  constructor <;> grind [InvBase]


theorem wLock_readers (l : Lock) (t : Tid) (st : OpenStep) : (wLock l t st).readers = l.readers := by
  cases st <;> rfl

theorem wLock_writer (l : Lock) (t : Tid) (st : OpenStep) : (wLock l t st).writer = l.writer := by
  cases st <;> rfl

theorem wLock_want (l : Lock) (t t' : Tid) (st : OpenStep) :
    (wLock l t st).want t' = if st = .req ∧ t' = t ∧ l.want t = none then some true else l.want t' := by
  cases st <;> simp [wLock, want_enqueue]

theorem wSide_acq {s : State} {t : Tid} {e e0 : Nat} {st : OpenStep} (h : wSide s t e e0 st)
    (hst : st = .acq) : s.lock.writer = some t ∧ s.lock.want t = none := by
  subst hst; exact h.2

theorem invBase_wStep {c : Cfg} {s : State} (inv : InvBase c s) (t : Tid) (st : OpenStep) (e i e0 : Nat)
    (sets : List (Key × Val)) (kind : CommitKind)
    (rest : List Op) (hpos : openPos (s.tasks t) = some (i, e0, sets, kind, rest))
    (hord : (openOrder c.lockFirst)[i]? = some st) (hside : wSide s t e e0 st) (ep e' : Nat) :
    InvBase c ⟨ep, wLock s.lock t st, upd s.tasks t (wTask (i + 1) e' sets kind rest), s.inputs, s.nodes,
      wSess s.sess s.inputs t (i + 1) e', s.done, s.base⟩ := by
  obtain ⟨hi, hreq, hacq⟩ := openOrder_spec _ _ _ hord
  have hacq' := wSide_acq hside
  have ha5 : acqIdx c.lockFirst < 5 := by unfold acqIdx; split <;> omega
  have ha0 : 0 < acqIdx c.lockFirst := by unfold acqIdx; split <;> omega
  have hpc : (s.tasks t).pc.isRWait = false ∧
      (((s.tasks t).pc = .idle ∧ i = 0) ∨ (s.tasks t).pc = .wOpen i e0 sets kind) := by
    rcases openPos_eq _ _ _ _ _ _ hpos with h | h
    · simp [h.1, Pc.isRWait, h.2.2.1]
    · simp [h.1, Pc.isRWait]
  have hw : s.lock.want t = none := by
    by_cases hia : i = acqIdx c.lockFirst
    · exact (hacq' (hacq.2 hia)).2
    · apply inv.want_none t hpc.1
      rcases hpc.2 with h | h
      · simp [h.1, Pc.openIdx]
      · simp only [h, Pc.openIdx, ne_eq, Option.some.injEq]; exact hia
  by_cases hj : i + 1 < 5
  · simp only [wTask, wSess, hj, if_true]
    constructor <;>
      grind [upd_apply, InvBase, Pc.isRWait, Pc.openIdx, wLock_readers, wLock_writer, wLock_want]
  · have hi4 : i = 4 := by omega
    subst hi4
    have hfin : s.lock.writer = some t ∧ s.sess = none := by
      grind [InvBase]
    simp only [wTask, wSess, hj, if_false]
    constructor <;>
      grind [upd_apply, InvBase, Pc.isRWait, Pc.openIdx, wLock_readers, wLock_writer, wLock_want]


theorem InvBase.step {c : Cfg} {s s' : State} {ev : Ev} (inv : InvBase c s) (h : StepR c s ev s') :
    InvBase c s' := by
  cases h with
  | rReq t ks rest hpc hsc => exact invBase_rReq inv t ks rest hpc
  | grantR t hw hwr => exact invBase_grantR inv t hw hwr
  | grantW t hw hrd hwr => exact invBase_grantW inv t hw hrd hwr
  | rAcq t ks hpc hmem hw => exact invBase_rAcq inv t ks hpc hmem hw
  | rSample t ks hpc =>
    exact invBase_setPc inv t _ (by simp [hpc, Pc.isRWait]) (by simp [hpc, Pc.openIdx]) rfl rfl
      (fun _ _ _ => inv.heldL t ks hpc) (fun _ h => by cases h) _ _
  | rQueryIn t e k ks hpc =>
    exact invBase_setPc inv t _ (by simp [hpc, Pc.isRWait]) (by simp [hpc, Pc.openIdx]) rfl rfl
      (fun _ _ _ => inv.heldA t _ _ hpc) (fun _ h => by cases h) _ _
  | rQueryD t e k ks hpc =>
    exact invBase_setPc inv t _ (by simp [hpc, Pc.isRWait]) (by simp [hpc, Pc.openIdx]) rfl rfl
      (fun _ _ _ => inv.heldA t _ _ hpc) (fun _ h => by cases h) _ _
  | rRel t e hpc => exact invBase_rRel inv t e hpc
  | wStep t st e i e0 sets kind rest hpos hord hside =>
    exact invBase_wStep inv t st e i e0 sets kind rest hpos hord hside _ _
  | wSet t k v sets kind σ hpc hs ho hp =>
    refine invBase_sess inv t _ σ _ hs ?_ ?_ ?_ ?_ ?_ ?_ ?_ _ _
    · rfl
    · simp [hpc, Pc.isRWait]
    · simp [hpc, Pc.openIdx]
    · rfl
    · rfl
    · intro _ _ h; cases h
    · intro _ h; cases h
  | wCommit t σ hpc hs ho hp =>
    refine invBase_sess inv t _ σ _ hs ?_ ?_ ?_ ?_ ?_ ?_ ?_ _ _
    · rfl
    · simp [hpc, Pc.isRWait]
    · simp [hpc, Pc.openIdx]
    · rfl
    · rfl
    · intro _ _ h; cases h
    · intro _ h; cases h
  | wDrop t σ hpc hs ho hp =>
    refine invBase_sess inv t _ σ _ hs ?_ ?_ ?_ ?_ ?_ ?_ ?_ _ _
    · rfl
    · simp [hpc, Pc.isRWait]
    · simp [hpc, Pc.openIdx]
    · rfl
    · rfl
    · intro _ _ h; cases h
    · intro _ h; cases h
  | cPropagate t σ hs ho hp => refine invBase_sess' inv σ _ hs ?_ _ _; rfl
  | cSubmit t σ hs ho hp => refine invBase_sess' inv σ _ hs ?_ _ _; rfl
  | cRel t σ hs ho hp => exact invBase_cRel inv σ hs _
  | wDone t hpc =>
    exact invBase_setPc inv t _ (by simp [hpc, Pc.isRWait]) (by simp [hpc, Pc.openIdx]) rfl rfl
      (fun _ _ h => by cases h) (fun _ h => by cases h) _ _

theorem InvBase.init (c : Cfg) (e0 : Nat) (inp : Inputs) (scripts : List (List Op)) :
    InvBase c (init e0 inp scripts) := by
  constructor <;> simp [Phase.init, Lock.want]

theorem InvBase.of_reachable {c : Cfg} {s0 s : State} (h0 : InvBase c s0) (h : Reachable c s0 s) :
    InvBase c s := by
  induction h with
  | init => exact h0
  | step e _ hs ih => exact ih.step (stepR_of_step hs)

/-- a shared holder excludes an exclusive holder, hence an open session -/
theorem InvBase.reader_excl {c : Cfg} {s : State} (inv : InvBase c s) (t : Tid) (h : t ∈ s.lock.readers) :
    s.lock.writer = none ∧ s.sess = none := by
  have hw : s.lock.writer = none := by
    cases hw : s.lock.writer with
    | none => rfl
    | some w => have := inv.excl (by simp [hw]); rw [this] at h; cases h
  exact ⟨hw, inv.sess_none hw⟩

/-- under the repaired order a writer past the lock (two or more opening steps done) holds it -/
theorem InvBase.open_holds {c : Cfg} {s : State} (inv : InvBase c s) (hlf : c.lockFirst = true) (t : Tid)
    (i e : Nat) (sets : List (Key × Val)) (kind : CommitKind)
    (h : (s.tasks t).pc = .wOpen i e sets kind) (hi : 2 ≤ i) :
    s.lock.writer = some t ∧ s.sess = none ∧ s.lock.readers = [] := by
  have := inv.openHold t i e sets kind h (by simp [acqIdx, hlf]; omega)
  exact ⟨this.1, this.2, inv.excl (by simp [this.1])⟩

end QbiceVerif.Phase
