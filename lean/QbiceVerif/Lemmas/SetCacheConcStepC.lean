/-
`SetCacheConc`: the steps that change the batches or the store: `notify`, `begin`, `submit`, `commit`.
-/
import QbiceVerif.Lemmas.SetCacheConcStepB

namespace QbiceVerif.SetCacheConc
open QbiceVerif.SetCache

attribute [local simp] setTask

theorem epoch_inj {bat : List CBatch} (h : bat.Pairwise (fun a b => a.epoch ≠ b.epoch)) {B B' : CBatch}
    (hB : B ∈ bat) (hB' : B' ∈ bat) (he : B.epoch = B'.epoch) : B = B' := by
  induction bat with
  | nil => cases hB
  | cons a rest ih =>
      obtain ⟨h1, h2⟩ := List.pairwise_cons.mp h
      rcases List.mem_cons.mp hB with e1 | e1 <;> rcases List.mem_cons.mp hB' with e2 | e2
      · rw [e1, e2]
      · rw [e1] at he; exact absurd he (h1 _ e2)
      · rw [e2] at he; exact absurd he.symm (h1 _ e1)
      · exact ih h2 e1 e2

theorem lastOf_concat (ops : List (Nat × Bool)) (x0 : Nat) (ins0 : Bool) (x : Nat) :
    lastOf (ops ++ [(x0, ins0)]) x = if x = x0 then some ins0 else lastOf ops x := by
  simp only [lastOf_append, lastOf]
  by_cases hx : x = x0
  · simp [hx]
  · have : ¬ x0 = x := fun h => hx h.symm
    simp [hx, this]

theorem refOk_same {s : State} {u : Task} (I : Inv s) {t : Nat} (h : s.tasks[t]? = some u) :
    match u.pc with | .got i _ _ => i < s.entries.length | _ => True := by
  have := I.refOk t u h
  split <;> simp_all

theorem step_notify {s s' : State} {out} (I : Inv s) (h : fire s .notify = some (s', out)) : Inv s' := by
  simp only [fire] at h
  split at h
  · rename_i e rest hn
    cases h
    have St := I.store
    have he : e < s.expected := St.nLt e (by rw [hn]; simp)
    refine ⟨?_, I.openOk, I.oUniq, I.wUniq, I.wT, I.curOk, I.refOk, I.curT, fun t u h1 => ?_⟩
    · simp only
      by_cases hall : (s.log.all fun op => decide (op.epoch ≤ e)) = true
      · have hlog : flushLog s.log e = [] := by simp [flushLog, hall]
        rw [hlog]
        refine ⟨St.eLe, St.eRange, St.eNodup, fun e' he' => St.nLt e' (by rw [hn]; simp [he']), by simp, ?_,
          by simp [onX, MonoL], by simp [pairs, lastOf], St.batT, St.dbT⟩
        intro B hB x hne
        obtain ⟨op, hop, _, hoe⟩ := St.batLog B hB x hne
        have h1 := (St.eRange B hB).1
        have h2 := List.all_eq_true.mp hall op hop
        simp at h2; omega
      · have hlog : flushLog s.log e = s.log := by simp [flushLog, hall]
        rw [hlog]
        exact ⟨St.eLe, St.eRange, St.eNodup, fun e' he' => St.nLt e' (by rw [hn]; simp [he']), St.logSrc, St.batLog,
          St.mono, St.logT, St.batT, St.dbT⟩
    · exact RInv_mono (I.rd t u h1) rfl rfl (fun B hB x v hv => ⟨B, hB, rfl, hv⟩) (Nat.le_refl _) (fun x hx => hx)
        (fun _ x t1 u1 h2 h3 => ⟨t1, u1, h2, h3, rfl⟩) (he_same rfl) (refOk_same I h1)
  · cases h

theorem step_begin {s s' : State} {t : Nat} {out} (I : Inv s) (h : fire s (.begin t) = some (s', out)) : Inv s' := by
  simp only [fire] at h
  split at h
  · rename_i sn mu ma h0
    cases h
    have St := I.store
    have hget : ∀ t', (s.tasks.set t ⟨.idle, some s.nextEpoch, sn, mu, ma⟩)[t']? =
        if t' = t then some ⟨.idle, some s.nextEpoch, sn, mu, ma⟩ else s.tasks[t']? := fun t' => set_get _ h0 t'
    have hopenLt : ∀ (t' : Nat) (u' : Task) (e : Nat), s.tasks[t']? = some u' → u'.openB = some e → e < s.nextEpoch := by
      intro t' u' e h1 h2
      obtain ⟨B, hB, hBe, _⟩ := I.openOk t' u' e h1 h2
      rw [← hBe]; exact (St.eRange B hB).2
    refine ⟨?_, ?_, ?_, ?_, ?_, I.curOk, ?_, ?_, ?_⟩
    · simp only [setTask]
      refine ⟨by have := St.eLe; omega, ?_, ?_, St.nLt, ?_, ?_, St.mono, St.logT, ?_, ?_⟩
      · intro B hB
        rcases List.mem_append.mp hB with hB | hB
        · have := St.eRange B hB; omega
        · simp at hB; subst hB; simp; exact St.eLe
      · rw [List.pairwise_append]
        refine ⟨St.eNodup, by simp, fun a ha b hb => ?_⟩
        simp at hb; subst hb
        have := (St.eRange a ha).2; simp; omega
      · intro op hop
        rcases St.logSrc op hop with h1 | ⟨B, hB, h1, h2⟩
        · exact Or.inl h1
        · exact Or.inr ⟨B, List.mem_append_left _ hB, h1, h2⟩
      · intro B hB x hne
        rcases List.mem_append.mp hB with hB | hB
        · exact St.batLog B hB x hne
        · simp at hB; subst hB; simp [lastOf] at hne
      · intro B hB x v hv hmax
        rcases List.mem_append.mp hB with hB | hB
        · exact St.batT B hB x v hv (fun B' hB' hne => hmax B' (List.mem_append_left _ hB') hne)
        · simp at hB; subst hB; simp [lastOf] at hv
      · intro x hx
        exact St.dbT x (fun B hB => hx B (List.mem_append_left _ hB))
    · intro t' u' e h1 h2
      simp only [setTask] at h1 ⊢
      rw [hget] at h1
      split at h1
      · cases h1; simp at h2; subst h2
        exact ⟨⟨s.nextEpoch, [], false⟩, by simp, rfl, rfl⟩
      · obtain ⟨B, hB, h3⟩ := I.openOk t' u' e h1 h2
        exact ⟨B, List.mem_append_left _ hB, h3⟩
    · intro t1 t2 u1 u2 e h1 h2 w1 w2
      simp only [setTask] at h1 h2
      rw [hget] at h1 h2
      split at h1 <;> split at h2
      · omega
      · cases h1; simp at w1; subst w1
        have := hopenLt t2 u2 _ h2 w2; omega
      · cases h2; simp at w2; subst w2
        have := hopenLt t1 u1 _ h1 w1; omega
      · exact I.oUniq t1 t2 u1 u2 e h1 h2 w1 w2
    · intro t1 t2 u1 u2 x h1 h2 w1 w2
      simp only [setTask] at h1 h2
      rw [hget] at h1 h2
      split at h1 <;> split at h2
      · omega
      · cases h1; simp [Pc.writing] at w1
      · cases h2; simp [Pc.writing] at w2
      · exact I.wUniq t1 t2 u1 u2 x h1 h2 w1 w2
    · intro t' u' h1
      simp only [setTask] at h1 ⊢
      rw [hget] at h1
      split at h1
      · cases h1; trivial
      · exact I.wT t' u' h1
    · intro t' u' h1
      simp only [setTask] at h1 ⊢
      rw [hget] at h1
      split at h1
      · cases h1; trivial
      · exact I.refOk t' u' h1
    · intro i S x hc hS hne
      simp only [setTask] at hc hS hne ⊢
      exact lift_task _ h0 (I.curT i S x hc hS hne) (by simp [Pc.pend])
    · intro t' u' h1
      simp only [setTask] at h1
      rw [hget] at h1
      have hr0 := I.rd t _ h0
      split at h1
      · cases h1
        exact RInv_notReading (by simpa using hr0.1) (by simp [Pc.reading])
      · refine RInv_mono (I.rd t' u' h1) rfl rfl ?_ (Nat.le_refl _) ?_ ?_ (he_same rfl) (refOk_same I h1)
        · intro B' hB' x v hv
          simp only [setTask] at hB'
          rcases List.mem_append.mp hB' with hB' | hB'
          · exact ⟨B', hB', rfl, hv⟩
          · simp at hB'; subst hB'; simp [lastOf] at hv
        · exact fun x hx => inflight_sub h0 (Or.inl rfl) x hx
        · intro _ x t1 u1 h2 h3
          have := lift_task (P := fun u => u.pc.stagedOn x ∧ u.openB = u1.openB) ⟨.idle, some s.nextEpoch, sn, mu, ma⟩ h0
            ⟨t1, u1, h2, h3, rfl⟩ (by simp [Pc.stagedOn])
          exact this
  · cases h

theorem store_map {bat log db truth notifs expected nextEpoch} (f : CBatch → CBatch)
    (hfe : ∀ B, (f B).epoch = B.epoch) (hfo : ∀ B, (f B).ops = B.ops)
    (St : StoreInv bat log db truth notifs expected nextEpoch) :
    StoreInv (bat.map f) log db truth notifs expected nextEpoch := by
  refine ⟨St.eLe, ?_, ?_, St.nLt, ?_, ?_, St.mono, St.logT, ?_, ?_⟩
  · intro B' hB'
    obtain ⟨B, hB, rfl⟩ := List.mem_map.mp hB'
    rw [hfe]; exact St.eRange B hB
  · rw [List.pairwise_map]
    exact St.eNodup.imp (fun h => by rw [hfe, hfe]; exact h)
  · intro op hop
    rcases St.logSrc op hop with h1 | ⟨B, hB, h1, h2⟩
    · exact Or.inl h1
    · exact Or.inr ⟨f B, List.mem_map.mpr ⟨B, hB, rfl⟩, by rw [hfe]; exact h1, by rw [hfo]; exact h2⟩
  · intro B' hB' x hne
    obtain ⟨B, hB, rfl⟩ := List.mem_map.mp hB'
    rw [hfo] at hne; rw [hfe]
    exact St.batLog B hB x hne
  · intro B' hB' x v hv hmax
    obtain ⟨B, hB, rfl⟩ := List.mem_map.mp hB'
    rw [hfo] at hv
    refine St.batT B hB x v hv (fun B2 hB2 hne => ?_)
    have := hmax (f B2) (List.mem_map.mpr ⟨B2, hB2, rfl⟩) (by rw [hfo]; exact hne)
    rw [hfe, hfe] at this; exact this
  · intro x hx
    exact St.dbT x (fun B hB => by have := hx (f B) (List.mem_map.mpr ⟨B, hB, rfl⟩); rw [hfo] at this; exact this)

theorem step_submit {s s' : State} {t : Nat} {out} (I : Inv s) (h : fire s (.submit t) = some (s', out)) : Inv s' := by
  simp only [fire] at h
  split at h
  · rename_i e sn mu ma h0
    cases h
    have St := I.store
    let f : CBatch → CBatch := fun B => if B.epoch = e then { B with submitted := true } else B
    have hfe : ∀ B, (f B).epoch = B.epoch := by intro B; simp only [f]; split <;> rfl
    have hfo : ∀ B, (f B).ops = B.ops := by intro B; simp only [f]; split <;> rfl
    have hget : ∀ t', (s.tasks.set t ⟨.idle, none, sn, mu, ma⟩)[t']? =
        if t' = t then some ⟨.idle, none, sn, mu, ma⟩ else s.tasks[t']? := fun t' => set_get _ h0 t'
    refine ⟨?_, ?_, ?_, ?_, ?_, I.curOk, ?_, ?_, ?_⟩
    · exact store_map f hfe hfo St
    · intro t' u' e' h1 h2
      simp only [setTask] at h1 ⊢
      rw [hget] at h1
      split at h1
      · cases h1; simp at h2
      · rename_i hne
        obtain ⟨B, hB, h3, h4⟩ := I.openOk t' u' e' h1 h2
        have hee : e' ≠ e := by
          intro hee; subst hee
          exact hne (I.oUniq t' t u' _ e' h1 h0 h2 rfl)
        refine ⟨f B, List.mem_map.mpr ⟨B, hB, rfl⟩, by rw [hfe]; exact h3, ?_⟩
        simp only [f]; rw [if_neg (by rw [h3]; exact hee)]; exact h4
    · intro t1 t2 u1 u2 e' h1 h2 w1 w2
      simp only [setTask] at h1 h2
      rw [hget] at h1 h2
      split at h1 <;> split at h2
      · omega
      · cases h1; simp at w1
      · cases h2; simp at w2
      · exact I.oUniq t1 t2 u1 u2 e' h1 h2 w1 w2
    · intro t1 t2 u1 u2 x h1 h2 w1 w2
      simp only [setTask] at h1 h2
      rw [hget] at h1 h2
      split at h1 <;> split at h2
      · omega
      · cases h1; simp [Pc.writing] at w1
      · cases h2; simp [Pc.writing] at w2
      · exact I.wUniq t1 t2 u1 u2 x h1 h2 w1 w2
    · intro t' u' h1
      simp only [setTask] at h1 ⊢
      rw [hget] at h1
      split at h1
      · cases h1; trivial
      · exact I.wT t' u' h1
    · intro t' u' h1
      simp only [setTask] at h1 ⊢
      rw [hget] at h1
      split at h1
      · cases h1; trivial
      · exact I.refOk t' u' h1
    · intro i S x hc hS hne
      simp only [setTask] at hc hS hne ⊢
      exact lift_task _ h0 (I.curT i S x hc hS hne) (by simp [Pc.pend])
    · intro t' u' h1
      simp only [setTask] at h1
      rw [hget] at h1
      have hr0 := I.rd t _ h0
      split at h1
      · cases h1
        exact RInv_notReading (by simpa using hr0.1) (by simp [Pc.reading])
      · refine RInv_mono (I.rd t' u' h1) rfl rfl ?_ (Nat.le_refl _) ?_ ?_ (he_same rfl) (refOk_same I h1)
        · intro B' hB' x v hv
          simp only [setTask] at hB'
          obtain ⟨B, hB, rfl⟩ := List.mem_map.mp hB'
          exact ⟨B, hB, by simp only [f] at hfe; exact (hfe B).symm, by have := hfo B; simp only [f] at this; rw [this] at hv; exact hv⟩
        · exact fun x hx => inflight_sub h0 (Or.inl rfl) x hx
        · intro _ x t1 u1 h2 h3
          have := lift_task (P := fun u => u.pc.stagedOn x ∧ u.openB = u1.openB) ⟨.idle, none, sn, mu, ma⟩ h0
            ⟨t1, u1, h2, h3, rfl⟩ (by simp [Pc.stagedOn])
          exact this
  · cases h

theorem step_commit {s s' : State} {out} (I : Inv s) (h : fire s .commit = some (s', out)) : Inv s' := by
  simp only [fire] at h
  split at h
  · rename_i B0 hfind
    cases h
    have St := I.store
    have hB0 : B0 ∈ s.bat := List.mem_of_find?_eq_some hfind
    have hB0p := List.find?_some hfind
    simp only [Bool.and_eq_true, beq_iff_eq] at hB0p
    obtain ⟨hsub, hep⟩ := hB0p
    have hmem : ∀ B, B ∈ s.bat.filter (fun B' => B'.epoch != s.expected) ↔ B ∈ s.bat ∧ B.epoch ≠ s.expected := by
      intro B; simp [List.mem_filter]
    have hother : ∀ B ∈ s.bat, B.epoch ≠ s.expected → s.expected + 1 ≤ B.epoch := by
      intro B hB hne; have := (St.eRange B hB).1; omega
    have hdb : ∀ x, x ∈ applyOps s.db B0.ops ↔ resolve (lastOf B0.ops x) (x ∈ s.db) := fun x => mem_applyOps _ _ x
    have hopen : ∀ (t : Nat) (u : Task) (e : Nat), s.tasks[t]? = some u → u.openB = some e → e ≠ s.expected := by
      intro t u e h1 h2 hee
      obtain ⟨B, hB, h3, h4⟩ := I.openOk t u e h1 h2
      have : B = B0 := epoch_inj St.eNodup hB hB0 (by rw [h3, hee, hep])
      subst this; rw [hsub] at h4; cases h4
    refine ⟨?_, ?_, I.oUniq, I.wUniq, I.wT, I.curOk, I.refOk, I.curT, ?_⟩
    · simp only
      refine ⟨?_, ?_, ?_, ?_, ?_, ?_, St.mono, St.logT, ?_, ?_⟩
      · have := (St.eRange B0 hB0).2; omega
      · intro B hB
        obtain ⟨hB1, hB2⟩ := (hmem B).mp hB
        exact ⟨hother B hB1 hB2, (St.eRange B hB1).2⟩
      · exact St.eNodup.sublist List.filter_sublist
      · intro e he
        split at he
        · have := St.nLt e he; omega
        · rcases List.mem_append.mp he with he | he
          · have := St.nLt e he; omega
          · simp at he; omega
      · intro op hop
        rcases St.logSrc op hop with h1 | ⟨B, hB, h1, h2⟩
        · exact Or.inl (by omega)
        · by_cases hBe : B.epoch = s.expected
          · exact Or.inl (by omega)
          · exact Or.inr ⟨B, (hmem B).mpr ⟨hB, hBe⟩, h1, h2⟩
      · intro B hB x hne
        exact St.batLog B ((hmem B).mp hB).1 x hne
      · intro B hB x v hv hmax
        obtain ⟨hB1, hB2⟩ := (hmem B).mp hB
        refine St.batT B hB1 x v hv (fun B' hB' hne => ?_)
        by_cases hBe : B'.epoch = s.expected
        · have := hother B hB1 hB2; omega
        · exact hmax B' ((hmem B').mpr ⟨hB', hBe⟩) hne
      · intro x hx
        rw [hdb]
        cases hl : lastOf B0.ops x with
        | none =>
            simp only [resolve]
            refine St.dbT x (fun B hB => ?_)
            by_cases hBe : B.epoch = s.expected
            · have : B = B0 := epoch_inj St.eNodup hB hB0 (by rw [hBe, hep])
              rw [this]; exact hl
            · exact hx B ((hmem B).mpr ⟨hB, hBe⟩)
        | some v =>
            simp only [resolve]
            refine (St.batT B0 hB0 x v hl (fun B' hB' hne => ?_)).symm
            by_cases hBe : B'.epoch = s.expected
            · omega
            · exact absurd (hx B' ((hmem B').mpr ⟨hB', hBe⟩)) hne
    · intro t u e h1 h2
      obtain ⟨B, hB, h3, h4⟩ := I.openOk t u e h1 h2
      exact ⟨B, (hmem B).mpr ⟨hB, by rw [h3]; exact hopen t u e h1 h2⟩, h3, h4⟩
    · intro t u h1
      have hr := I.rd t u h1
      obtain ⟨hseen, hrd0, hpc⟩ := hr
      have hR1 : ∀ sn x, R1 s u sn x →
          R1 ({ s with bat := s.bat.filter (fun B' => B'.epoch != s.expected), db := applyOps s.db B0.ops, notifs := (if B0.ops.isEmpty then s.notifs else s.notifs ++ [B0.epoch]), expected := s.expected + 1 } : State) u sn x := by
        intro sn x ⟨a, b, c⟩
        refine ⟨a, b, fun ha hrm => ?_⟩
        obtain ⟨c1, c2⟩ := c ha hrm
        refine ⟨?_, fun B hB v hv => c2 B ((hmem B).mp hB).1 v hv⟩
        simp only
        rw [allowed_congr (hdb x)]
        cases hl : lastOf B0.ops x with
        | none => exact c1
        | some v => simp only [resolve]; exact c2 B0 hB0 v hl
      have hR3 : ∀ sn x, R3 s u sn s.db x → R3b s u sn x →
          R3 ({ s with bat := s.bat.filter (fun B' => B'.epoch != s.expected), db := applyOps s.db B0.ops, notifs := (if B0.ops.isEmpty then s.notifs else s.notifs ++ [B0.epoch]), expected := s.expected + 1 } : State) u sn (applyOps s.db B0.ops) x := by
        intro sn x h3 h3b hg hne
        simp only at hg hne ⊢
        by_cases ha : x ∈ sn.added
        · exact h3 hg (by simpa [ov, ha] using hne)
        · by_cases hrm : x ∈ sn.removed
          · exact h3 hg (by simpa [ov, ha, hrm] using hne)
          · cases hl : lastOf B0.ops x with
            | none =>
                refine h3 hg ?_
                have : x ∈ applyOps s.db B0.ops ↔ x ∈ s.db := by rw [hdb, hl]; rfl
                simpa [ov, ha, hrm, this] using hne
            | some v =>
                obtain ⟨t2, u2, h4, _, h6⟩ := h3b hg ha hrm B0 hB0 (by rw [hl]; simp)
                exact absurd (hep) (hopen t2 u2 _ h4 h6)
      have hR3b : ∀ sn x, R3b s u sn x →
          R3b ({ s with bat := s.bat.filter (fun B' => B'.epoch != s.expected), db := applyOps s.db B0.ops, notifs := (if B0.ops.isEmpty then s.notifs else s.notifs ++ [B0.epoch]), expected := s.expected + 1 } : State) u sn x := by
        intro sn x h3b hg ha hrm B hB hne
        exact h3b hg ha hrm B ((hmem B).mp hB).1 hne
      refine ⟨hseen, hrd0, ?_⟩
      cases hpcc : u.pc with
      | snapped sn =>
          rw [hpcc] at hpc; simp only at hpc ⊢
          exact ⟨hpc.1, fun x => ⟨hR1 sn x (hpc.2 x).1, hR3 sn x (hpc.2 x).2.1 (hpc.2 x).2.2, hR3b sn x (hpc.2 x).2.2⟩⟩
      | missed sn =>
          rw [hpcc] at hpc; simp only at hpc ⊢
          exact ⟨hpc.1, fun x => ⟨hR1 sn x (hpc.2 x).1, hR3 sn x (hpc.2 x).2.1 (hpc.2 x).2.2, hR3b sn x (hpc.2 x).2.2⟩⟩
      | scanned sn sc =>
          rw [hpcc] at hpc; simp only at hpc ⊢
          exact ⟨hpc.1, fun x => ⟨hR1 sn x (hpc.2 x).1, (hpc.2 x).2.1, (hpc.2 x).2.2⟩⟩
      | got i sn sp =>
          rw [hpcc] at hpc; simp only at hpc ⊢
          exact ⟨hpc.1, fun x => ⟨hR1 sn x (hpc.2 x).1, (hpc.2 x).2⟩⟩
      | _ => trivial
  · cases h

end QbiceVerif.SetCacheConc
