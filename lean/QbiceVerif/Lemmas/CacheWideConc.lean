/-
Invariant of the repaired wide cache `WideCacheR` (fix = true) with ANY number of foreground tasks and
arbitrary interleaving of their atomic steps with commit / notify / evict, under the usage assumption
that writes of the key reach the cache in batch-epoch order (`ordered`).
-/
import QbiceVerif.Model.WideCache

namespace QbiceVerif.WideCacheR
open QbiceVerif.WideCache (Entry Batch cacheWriteEntry notifyEntry)

/-- reachability along schedules whose `cacheWrite`s are ordered -/
inductive ReachOrdered (s0 : State) : State → Prop where
  | init : ReachOrdered s0 s0
  | step {s s' : State} {e : Ev} {out : Option (Option Nat)} :
      ReachOrdered s0 s → (∀ t, e = .cacheWrite t → ordered s t = true) → fire s e = some (s', out) → ReachOrdered s0 s'

def isCw (t : Task) : Bool := (cwOpen t).isSome
def mentions (b : Batch) : Bool := b.write.isSome

/-- `b` is an uncommitted batch that has written the key to the cache -/
def InCW (s : State) (b : Batch) : Prop :=
  (b ∈ s.submitted ∧ b.write.isSome = true) ∨ ∃ (i : Nat) (u : Task), s.tasks[i]? = some u ∧ cwOpen u = some b

/-- the owner of `b` has recorded a further write in it that has not reached the cache yet -/
def Rewriting (s : State) (b : Batch) : Prop :=
  ∃ (i : Nat) (u : Task) (v : Option Nat), s.tasks[i]? = some u ∧ u.openB = some b ∧ u.pc = .writing v false

structure Inv (s : State) : Prop where
  fixT : s.fix = true
  e1 : ∀ b ∈ s.submitted, s.expected ≤ b.epoch ∧ b.epoch < s.nextEpoch
  e2 : ∀ (i : Nat) (u : Task) (b : Batch), s.tasks[i]? = some u → u.openB = some b → s.expected ≤ b.epoch ∧ b.epoch < s.nextEpoch
  e3 : (s.submitted.map (·.epoch)).Nodup
  e4 : ∀ b ∈ s.submitted, ∀ (i : Nat) (u : Task) (b' : Batch), s.tasks[i]? = some u → u.openB = some b' → b.epoch ≠ b'.epoch
  e5 : ∀ (i j : Nat) (u u' : Task) (b b' : Batch), s.tasks[i]? = some u → u.openB = some b → s.tasks[j]? = some u' → u'.openB = some b' →
        b.epoch = b'.epoch → i = j
  wB : ∀ (i : Nat) (u : Task) (v : Option Nat) (up : Bool), s.tasks[i]? = some u → u.pc = .writing v up → ∃ b, u.openB = some b ∧ b.write = some v
  seenLe : ∀ (i : Nat) (u : Task), s.tasks[i]? = some u → u.seen ≤ s.gen
  val : ∀ e, s.entry = some e → e.val = s.latest
  pinSome : ∀ e, s.entry = some e →
      e.pin = ((s.submitted.countP mentions + s.tasks.countP isCw : Nat) : Int) + s.tokens
  pinNone : s.entry = none → s.submitted.countP mentions + s.tasks.countP isCw + s.tokens = 0
  dNone : (∀ b, ¬ InCW s b) → s.db = s.latest
  dMax : ∀ b, InCW s b → (∀ b', InCW s b' → b'.epoch ≤ b.epoch) → ¬ Rewriting s b → b.write = some s.latest
  w0 : ∀ (i : Nat) (u : Task), s.tasks[i]? = some u → (u.pc = .probed ∨ u.pc = .working) → u.seen = s.gen → ∀ b, ¬ InCW s b
  w1 : ∀ (i : Nat) (u : Task) (v : Option Nat), s.tasks[i]? = some u → u.pc = .read v → u.seen = s.gen → v = s.latest
  e0 : s.expected ≤ s.nextEpoch

theorem inv_init (db0 : Option Nat) (n : Nat) : Inv (init true db0 n) := by
  have hrep : ∀ (i : Nat) (u : Task), (List.replicate n ({} : Task))[i]? = some u → u = {} := by
    intro i u h
    have := List.mem_of_getElem? h
    exact (List.mem_replicate.mp this).2
  have hcw : ∀ b, ¬ InCW (init true db0 n) b := by
    intro b h
    rcases h with ⟨h, _⟩ | ⟨i, u, hu, hc⟩
    · simp [init] at h
    · have := hrep i u hu; subst this; simp [cwOpen] at hc
  have hcnt : (List.replicate n ({} : Task)).countP isCw = 0 := by
    rw [List.countP_eq_zero]; intro a ha
    have := (List.mem_replicate.mp ha).2; subst this; simp [isCw, cwOpen]
  constructor
  · rfl
  · intro b hb; simp [init] at hb
  · intro i u b hu hb; have := hrep i u hu; subst this; simp at hb
  · simp [init]
  · intro b hb; simp [init] at hb
  · intro i j u u' b b' hu hb; have := hrep i u hu; subst this; simp at hb
  · intro i u v up hu hp; have := hrep i u hu; subst this; simp at hp
  · intro i u hu; have := hrep i u hu; subst this; simp [init]
  · intro e he; simp [init] at he
  · intro e he; simp [init] at he
  · intro _; simp [init, hcnt]
  · intro _; rfl
  · intro b hb; exact absurd hb (hcw b)
  · intro i u hu _ _; exact hcw
  · intro i u v hu hp; have := hrep i u hu; subst this; simp at hp
  · simp [init]

/-! ### one task replaced -/

theorem getElem?_setTask {s : State} {i : Nat} {u x : Task} (hu : s.tasks[i]? = some u) (j : Nat) :
    (s.tasks.set i x)[j]? = if i = j then some x else s.tasks[j]? := by
  have hi : i < s.tasks.length := by
    rcases Nat.lt_or_ge i s.tasks.length with h | h
    · exact h
    · rw [List.getElem?_eq_none h] at hu; cases hu
  rw [List.getElem?_set]; simp [hi]

theorem countP_setTask {s : State} {i : Nat} {u x : Task} (hu : s.tasks[i]? = some u) (p : Task → Bool) :
    (s.tasks.set i x).countP p + (if p u then 1 else 0) = s.tasks.countP p + (if p x then 1 else 0) := by
  have hi : i < s.tasks.length := by
    rcases Nat.lt_or_ge i s.tasks.length with h | h
    · exact h
    · rw [List.getElem?_eq_none h] at hu; cases hu
  have hget : s.tasks[i] = u := by rw [List.getElem?_eq_getElem hi] at hu; exact Option.some.inj hu
  rw [List.countP_set hi, hget]
  have : p u = true → 1 ≤ s.tasks.countP p := by
    intro h; exact List.countP_pos_iff.mpr ⟨u, by rw [← hget]; exact List.getElem_mem hi, h⟩
  by_cases h1 : p u = true <;> by_cases h2 : p x = true <;> simp [h1, h2] <;> (try have := this h1) <;> omega

theorem cwOpen_congr {t t' : Task} (h1 : t'.openB = t.openB) (h2 : firstPending t' = firstPending t) :
    cwOpen t' = cwOpen t := by
  simp [cwOpen, h1, h2]



theorem firstPending_of_not_writing {t : Task} (h : ∀ v up, t.pc ≠ .writing v up) : firstPending t = false := by
  unfold firstPending
  split
  · rename_i v heq; exact absurd heq (h v true)
  · rfl

/-- a step that only moves one task between non-writing program counters (and may change its `seen`,
the entry and the single-flight holder) -/
theorem inv_pcOnly {s : State} {i : Nat} {u x : Task} {en : Option Entry} {sf' : Option Nat}
    (I : Inv s) (hu : s.tasks[i]? = some u) (hob : x.openB = u.openB)
    (hnw : ∀ v up, u.pc ≠ .writing v up) (hnw' : ∀ v up, x.pc ≠ .writing v up)
    (hseen : x.seen ≤ s.gen)
    (hw0 : (x.pc = .probed ∨ x.pc = .working) → x.seen = s.gen → ∀ b, ¬ InCW s b)
    (hw1 : ∀ v, x.pc = .read v → x.seen = s.gen → v = s.latest)
    (hval : ∀ e, en = some e → e.val = s.latest)
    (hpS : ∀ e, en = some e → e.pin = ((s.submitted.countP mentions + s.tasks.countP isCw : Nat) : Int) + s.tokens)
    (hpN : en = none → s.submitted.countP mentions + s.tasks.countP isCw + s.tokens = 0) :
    Inv { setTask s i x with entry := en, sf := sf' } := by
  have hget := getElem?_setTask (x := x) hu
  have hcw : cwOpen x = cwOpen u :=
    cwOpen_congr hob (by rw [firstPending_of_not_writing hnw, firstPending_of_not_writing hnw'])
  have hcnt : (s.tasks.set i x).countP isCw = s.tasks.countP isCw := by
    have := countP_setTask (x := x) hu isCw
    have e : isCw x = isCw u := by simp [isCw, hcw]
    rw [e] at this
    omega
  have hin : ∀ b, InCW { setTask s i x with entry := en, sf := sf' } b ↔ InCW s b := by
    intro b
    simp only [InCW, setTask]
    constructor
    · rintro (h | ⟨j, u', hj, hc⟩)
      · exact Or.inl h
      · rw [hget] at hj
        by_cases hij : i = j
        · simp [hij] at hj; subst hj; subst hij; exact Or.inr ⟨i, u, hu, by rw [← hcw]; exact hc⟩
        · simp [hij] at hj; exact Or.inr ⟨j, u', hj, hc⟩
    · rintro (h | ⟨j, u', hj, hc⟩)
      · exact Or.inl h
      · by_cases hij : i = j
        · subst hij; rw [hu] at hj; cases hj
          exact Or.inr ⟨i, x, by rw [hget]; simp, by rw [hcw]; exact hc⟩
        · exact Or.inr ⟨j, u', by rw [hget]; simp [hij]; exact hj, hc⟩
  have hrw : ∀ b, Rewriting { setTask s i x with entry := en, sf := sf' } b ↔ Rewriting s b := by
    intro b
    simp only [Rewriting, setTask]
    constructor
    · rintro ⟨j, u', v, hj, ho, hp⟩
      rw [hget] at hj
      by_cases hij : i = j
      · simp [hij] at hj; subst hj; exact absurd hp (hnw' v false)
      · simp [hij] at hj; exact ⟨j, u', v, hj, ho, hp⟩
    · rintro ⟨j, u', v, hj, ho, hp⟩
      by_cases hij : i = j
      · subst hij; rw [hu] at hj; cases hj; exact absurd hp (hnw v false)
      · exact ⟨j, u', v, by rw [hget]; simp [hij]; exact hj, ho, hp⟩
  -- generic transfer of per-task facts
  have task : ∀ j u', (s.tasks.set i x)[j]? = some u' → (j = i ∧ u' = x) ∨ (j ≠ i ∧ s.tasks[j]? = some u') := by
    intro j u' hj
    rw [hget] at hj
    by_cases hij : i = j
    · simp [hij] at hj; exact Or.inl ⟨hij.symm, hj.symm⟩
    · simp [hij] at hj; exact Or.inr ⟨fun h => hij h.symm, hj⟩
  obtain ⟨h0, h1, h2, h3, h4, h5, h6, h7, h8, h9, h10, h11, h12, h13, h14, h15⟩ := I
  constructor
  · exact h0
  · exact h1
  · intro j u' b hj hb
    rcases task j u' hj with ⟨rfl, rfl⟩ | ⟨_, hj'⟩
    · exact h2 j u b hu (by rw [← hob]; exact hb)
    · exact h2 j u' b hj' hb
  · exact h3
  · intro b hb j u' b' hj hb'
    rcases task j u' hj with ⟨rfl, rfl⟩ | ⟨_, hj'⟩
    · exact h4 b hb j u b' hu (by rw [← hob]; exact hb')
    · exact h4 b hb j u' b' hj' hb'
  · intro j k u1 u2 b b' hj hb hk hb' he
    rcases task j u1 hj with ⟨rfl, rfl⟩ | ⟨_, hj'⟩ <;> rcases task k u2 hk with ⟨rfl, rfl⟩ | ⟨_, hk'⟩
    · rfl
    · exact h5 j k u u2 b b' hu (by rw [← hob]; exact hb) hk' hb' he
    · exact h5 j k u1 u b b' hj' hb hu (by rw [← hob]; exact hb') he
    · exact h5 j k u1 u2 b b' hj' hb hk' hb' he
  · intro j u' v up hj hp
    rcases task j u' hj with ⟨rfl, rfl⟩ | ⟨_, hj'⟩
    · exact absurd hp (hnw' v up)
    · exact h6 j u' v up hj' hp
  · intro j u' hj
    rcases task j u' hj with ⟨rfl, rfl⟩ | ⟨_, hj'⟩
    · exact hseen
    · exact h7 j u' hj'
  · exact hval
  · intro e he; show e.pin = ((s.submitted.countP mentions + (s.tasks.set i x).countP isCw : Nat) : Int) + s.tokens
    rw [hcnt]; exact hpS e he
  · intro he; show s.submitted.countP mentions + (s.tasks.set i x).countP isCw + s.tokens = 0
    rw [hcnt]; exact hpN he
  · intro hno; exact h11 (fun b hb => hno b ((hin b).mpr hb))
  · intro b hb hmax hnr
    exact h12 b ((hin b).mp hb) (fun b' hb' => hmax b' ((hin b').mpr hb')) (fun h => hnr ((hrw b).mpr h))
  · intro j u' hj hp hs b hb
    have hb' := (hin b).mp hb
    rcases task j u' hj with ⟨rfl, rfl⟩ | ⟨_, hj'⟩
    · exact hw0 hp hs b hb'
    · exact h13 j u' hj' hp hs b hb'
  · intro j u' v hj hp hs
    rcases task j u' hj with ⟨rfl, rfl⟩ | ⟨_, hj'⟩
    · exact hw1 v hp hs
    · exact h14 j u' v hj' hp hs
  · exact h15




theorem noCW_of_count {s : State} (h : s.submitted.countP mentions + s.tasks.countP isCw = 0) :
    ∀ b, ¬ InCW s b := by
  intro b hb
  have h1 : s.submitted.countP mentions = 0 := by omega
  have h2 : s.tasks.countP isCw = 0 := by omega
  rcases hb with ⟨hm, hw⟩ | ⟨i, u, hu, hc⟩
  · exact (List.countP_eq_zero.mp h1) b hm (by simpa [mentions] using hw)
  · exact (List.countP_eq_zero.mp h2) u (List.mem_of_getElem? hu) (by simp [isCw, hc])

theorem step_readGen {s s' : State} {i out} (I : Inv s) (h : fire s (.readGen i) = some (s', out)) : Inv s' := by
  simp only [fire] at h
  cases hu : s.tasks[i]? with
  | none => simp [hu] at h
  | some u =>
    obtain ⟨pc, ob, sn⟩ := u
    cases pc <;> simp [hu] at h
    all_goals
      obtain ⟨rfl, rfl⟩ := h
      have := inv_pcOnly (x := ⟨.ready, ob, s.gen⟩) (en := s.entry) (sf' := s.sf) I hu rfl
        (by intro v up h; cases h) (by intro v up h; cases h) (Nat.le_refl _)
        (by intro h; rcases h with h | h <;> cases h) (by intro v h; cases h)
        I.val I.pinSome I.pinNone
      exact this

theorem step_probe {s s' : State} {i out} (I : Inv s) (h : fire s (.probe i) = some (s', out)) :
    Inv s' ∧ ∀ r, out = some r → r = s.latest := by
  simp only [fire] at h
  cases hu : s.tasks[i]? with
  | none => simp [hu] at h
  | some u =>
    obtain ⟨pc, ob, sn⟩ := u
    cases pc <;> simp [hu] at h
    cases he : s.entry with
    | some e =>
        simp [he] at h
        obtain ⟨rfl, rfl⟩ := h
        refine ⟨?_, ?_⟩
        · have := inv_pcOnly (x := ⟨.idle, ob, sn⟩) (en := s.entry) (sf' := s.sf) I hu rfl
            (by intro v up h; cases h) (by intro v up h; cases h) (by have := I.seenLe i _ hu; exact this)
            (by intro h; rcases h with h | h <;> cases h) (by intro v h; cases h)
            I.val I.pinSome I.pinNone
          exact this
        · intro r hr; simp at hr; subst hr; exact I.val e he
    | none =>
        simp [he] at h
        obtain ⟨rfl, rfl⟩ := h
        refine ⟨?_, by intro r hr; cases hr⟩
        have hz := I.pinNone he
        have := inv_pcOnly (x := ⟨.probed, ob, sn⟩) (en := s.entry) (sf' := s.sf) I hu rfl
          (by intro v up h; cases h) (by intro v up h; cases h) (by have := I.seenLe i _ hu; exact this)
          (by intro _ _; exact noCW_of_count (by omega)) (by intro v h; cases h)
          I.val I.pinSome I.pinNone
        exact this

theorem step_sfEnter {s s' : State} {i out} (I : Inv s) (h : fire s (.sfEnter i) = some (s', out)) : Inv s' := by
  simp only [fire] at h
  cases hu : s.tasks[i]? with
  | none => simp [hu] at h
  | some u =>
    obtain ⟨pc, ob, sn⟩ := u
    cases pc <;> simp [hu] at h
    have hw := I.w0 i _ hu (Or.inl rfl)
    cases hsf : s.sf with
    | none =>
        simp [hsf] at h
        obtain ⟨rfl, rfl⟩ := h
        have := inv_pcOnly (x := ⟨.working, ob, sn⟩) (en := s.entry) (sf' := some i) I hu rfl
          (by intro v up h; cases h) (by intro v up h; cases h) (by have := I.seenLe i _ hu; exact this)
          (by intro _ hs; exact hw hs) (by intro v h; cases h)
          I.val I.pinSome I.pinNone
        exact this
    | some t =>
        simp [hsf] at h
        obtain ⟨rfl, rfl⟩ := h
        have := inv_pcOnly (x := ⟨.waiting, ob, sn⟩) (en := s.entry) (sf' := s.sf) I hu rfl
          (by intro v up h; cases h) (by intro v up h; cases h) (by have := I.seenLe i _ hu; exact this)
          (by intro h; rcases h with h | h <;> cases h) (by intro v h; cases h)
          I.val I.pinSome I.pinNone
        exact this

theorem step_sfWake {s s' : State} {i out} (I : Inv s) (h : fire s (.sfWake i) = some (s', out)) : Inv s' := by
  simp only [fire] at h
  cases hu : s.tasks[i]? with
  | none => simp [hu] at h
  | some u =>
    obtain ⟨pc, ob, sn⟩ := u
    cases pc <;> simp [hu] at h
    obtain ⟨rfl, rfl⟩ := h
    have := inv_pcOnly (x := ⟨.loop, ob, sn⟩) (en := s.entry) (sf' := s.sf) I hu rfl
      (by intro v up h; cases h) (by intro v up h; cases h) (by have := I.seenLe i _ hu; exact this)
      (by intro h; rcases h with h | h <;> cases h) (by intro v h; cases h)
      I.val I.pinSome I.pinNone
    exact this

theorem step_sfLeave {s s' : State} {i out} (I : Inv s) (h : fire s (.sfLeave i) = some (s', out)) : Inv s' := by
  simp only [fire] at h
  cases hu : s.tasks[i]? with
  | none => simp [hu] at h
  | some u =>
    obtain ⟨pc, ob, sn⟩ := u
    cases pc <;> simp [hu] at h
    obtain ⟨rfl, rfl⟩ := h
    have := inv_pcOnly (x := ⟨.loop, ob, sn⟩) (en := s.entry) (sf' := none) I hu rfl
      (by intro v up h; cases h) (by intro v up h; cases h) (by have := I.seenLe i _ hu; exact this)
      (by intro h; rcases h with h | h <;> cases h) (by intro v h; cases h)
      I.val I.pinSome I.pinNone
    exact this

theorem step_readDb {s s' : State} {i out} (I : Inv s) (h : fire s (.readDb i) = some (s', out)) : Inv s' := by
  simp only [fire] at h
  cases hu : s.tasks[i]? with
  | none => simp [hu] at h
  | some u =>
    obtain ⟨pc, ob, sn⟩ := u
    cases pc <;> simp [hu] at h
    obtain ⟨rfl, rfl⟩ := h
    have hw := I.w0 i _ hu (Or.inr rfl)
    have := inv_pcOnly (x := ⟨.read s.db, ob, sn⟩) (en := s.entry) (sf' := s.sf) I hu rfl
      (by intro v up h; cases h) (by intro v up h; cases h) (by have := I.seenLe i _ hu; exact this)
      (by intro h; rcases h with h | h <;> cases h)
      (by intro v hv hs; cases hv; exact I.dNone (hw hs))
      I.val I.pinSome I.pinNone
    exact this

theorem step_fill {s s' : State} {i out} (I : Inv s) (h : fire s (.fill i) = some (s', out)) : Inv s' := by
  simp only [fire] at h
  cases hu : s.tasks[i]? with
  | none => simp [hu] at h
  | some u =>
    obtain ⟨pc, ob, sn⟩ := u
    cases pc <;> simp [hu] at h
    rename_i v
    obtain ⟨rfl, rfl⟩ := h
    have hw1 := I.w1 i _ v hu rfl
    have base := fun en hval hpS hpN => inv_pcOnly (x := ⟨.filled, ob, sn⟩) (en := en) (sf' := s.sf) I hu rfl
      (by intro v up h; cases h) (by intro v up h; cases h) (by have := I.seenLe i _ hu; exact this)
      (by intro h; rcases h with h | h <;> cases h) (by intro v h; cases h) hval hpS hpN
    cases he : s.entry with
    | some e =>
        have := base (some e) (by rw [← he]; exact I.val) (by rw [← he]; exact I.pinSome) (by intro h; cases h)
        simpa [he, setTask] using this
    | none =>
        by_cases hs : sn = s.gen
        · have hz := I.pinNone he
          have := base (some { val := v, pin := 0 })
            (by intro e h; cases h; exact hw1 hs)
            (by intro e h; cases h; show (0 : Int) = _; omega)
            (by intro h; cases h)
          simpa [he, I.fixT, hs, setTask] using this
        · have := base none (by intro e h; cases h) (by intro e h; cases h) (by intro _; exact I.pinNone he)
          simpa [he, I.fixT, hs, setTask] using this




theorem step_notify {s s' : State} {out} (I : Inv s) (h : fire s .notify = some (s', out)) : Inv s' := by
  simp only [fire] at h
  by_cases ht : s.tokens = 0
  · simp [ht] at h
  · simp [ht] at h
    obtain ⟨rfl, rfl⟩ := h
    obtain ⟨h0, h1, h2, h3, h4, h5, h6, h7, h8, h9, h10, h11, h12, h13, h14, h15⟩ := I
    cases he : s.entry with
    | none => have := h10 he; omega
    | some e =>
        have hp := h9 e he
        refine ⟨h0, h1, h2, h3, h4, h5, h6, h7, ?_, ?_, ?_, h11, h12, h13, h14, h15⟩
        · intro e' he'; simp [notifyEntry] at he'; subst he'; exact h8 e he
        · intro e' he'; simp [notifyEntry] at he'; subst he'
          show e.pin - 1 = ((s.submitted.countP mentions + s.tasks.countP isCw : Nat) : Int) + ((s.tokens - 1 : Nat) : Int)
          omega
        · intro hh; simp [notifyEntry] at hh

theorem step_evict {s s' : State} {out} (I : Inv s) (h : fire s .evict = some (s', out)) : Inv s' := by
  simp only [fire] at h
  cases he : s.entry with
  | none => simp [he] at h
  | some e =>
    simp [he] at h
    obtain ⟨hpin, rfl, rfl⟩ := h
    obtain ⟨h0, h1, h2, h3, h4, h5, h6, h7, h8, h9, h10, h11, h12, h13, h14, h15⟩ := I
    have hp := h9 e he
    refine ⟨h0, h1, h2, h3, h4, h5, h6, h7, ?_, ?_, ?_, h11, h12, h13, h14, h15⟩
    · intro e' he'; simp at he'
    · intro e' he'; simp at he'
    · intro _
      show s.submitted.countP mentions + s.tasks.countP isCw + s.tokens = 0
      omega

theorem nodup_map_epoch_inj {l : List Batch} (h : (l.map (·.epoch)).Nodup) {a b : Batch}
    (ha : a ∈ l) (hb : b ∈ l) (he : a.epoch = b.epoch) : a = b := by
  induction l with
  | nil => cases ha
  | cons x xs ih =>
      simp only [List.map_cons, List.nodup_cons] at h
      rcases List.mem_cons.mp ha with rfl | ha' <;> rcases List.mem_cons.mp hb with rfl | hb'
      · rfl
      · exact absurd (List.mem_map.mpr ⟨b, hb', he.symm⟩) h.1
      · exact absurd (List.mem_map.mpr ⟨a, ha', he⟩) h.1
      · exact ih h.2 ha' hb'

theorem step_commit {s s' : State} {out} (I : Inv s) (h : fire s .commit = some (s', out)) : Inv s' := by
  simp only [fire] at h
  cases hf : s.submitted.find? (fun b => b.epoch = s.expected) with
  | none => simp [hf] at h
  | some b =>
    simp [hf] at h
    obtain ⟨rfl, rfl⟩ := h
    have hbm : b ∈ s.submitted := List.mem_of_find?_eq_some hf
    have hbe : b.epoch = s.expected := by simpa using List.find?_some hf
    obtain ⟨h0, h1, h2, h3, h4, h5, h6, h7, h8, h9, h10, h11, h12, h13, h14, h15⟩ := I
    have hperm := List.perm_cons_erase hbm
    have hne : ∀ x ∈ s.submitted.erase b, x.epoch ≠ b.epoch := by
      intro x hx heq
      have := (hperm.map (·.epoch)).nodup_iff.mp h3
      simp only [List.map_cons, List.nodup_cons] at this
      exact this.1 (List.mem_map.mpr ⟨x, hx, heq⟩)
    have hsub : ∀ x, x ∈ s.submitted.erase b → x ∈ s.submitted := fun x hx => List.mem_of_mem_erase hx
    have hcnt : s.submitted.countP mentions = (s.submitted.erase b).countP mentions + (if b.write.isSome then 1 else 0) := by
      rw [hperm.countP_eq mentions, List.countP_cons]; simp only [mentions]; rfl
    generalize hS' : ({ s with submitted := s.submitted.erase b,
                               db := match b.write with | some w => w | none => s.db,
                               tokens := if b.write.isSome then s.tokens + 1 else s.tokens,
                               expected := s.expected + 1 } : State) = S'
    have htasks : S'.tasks = s.tasks := by subst hS'; rfl
    have hsubm : S'.submitted = s.submitted.erase b := by subst hS'; rfl
    have hin1 : ∀ x, InCW S' x → InCW s x := by
      intro x hx
      rcases hx with ⟨hm, hw⟩ | ⟨i, u, hu, hc⟩
      · rw [hsubm] at hm; exact Or.inl ⟨hsub x hm, hw⟩
      · rw [htasks] at hu; exact Or.inr ⟨i, u, hu, hc⟩
    have hin2 : ∀ x, InCW s x → x = b ∨ InCW S' x := by
      intro x hx
      rcases hx with ⟨hm, hw⟩ | ⟨i, u, hu, hc⟩
      · by_cases hxb : x = b
        · exact Or.inl hxb
        · exact Or.inr (Or.inl ⟨by rw [hsubm]; exact (List.mem_erase_of_ne hxb).mpr hm, hw⟩)
      · exact Or.inr (Or.inr ⟨i, u, by rw [htasks]; exact hu, hc⟩)
    have hge : ∀ x, InCW s x → s.expected ≤ x.epoch := by
      intro x hx
      rcases hx with ⟨hm, _⟩ | ⟨i, u, hu, hc⟩
      · exact (h1 x hm).1
      · have : u.openB = some x := by
          simp only [cwOpen] at hc
          cases ho : u.openB with
          | none => simp [ho] at hc
          | some b0 => simp [ho] at hc; rw [hc.2]
        exact (h2 i u x hu this).1
    have hrw : ∀ x, Rewriting S' x ↔ Rewriting s x := by
      intro x; simp only [Rewriting, htasks]
    have hbnr : ¬ Rewriting s b := by
      rintro ⟨i, u, v, hu, ho, _⟩
      exact h4 b hbm i u b hu ho rfl
    constructor
    · subst hS'; exact h0
    · intro x hx; rw [hsubm] at hx
      have := h1 x (hsub x hx); have := hne x hx
      subst hS'; simp only []; omega
    · intro i u x hu hx; rw [htasks] at hu
      have := h2 i u x hu hx; have := h4 b hbm i u x hu hx
      subst hS'; simp only []; omega
    · rw [hsubm]; exact List.Nodup.sublist ((List.erase_sublist).map _) h3
    · intro x hx i u b' hu hb'; rw [hsubm] at hx; rw [htasks] at hu
      exact h4 x (hsub x hx) i u b' hu hb'
    · intro i j u u' x x' hu hx hu' hx'; rw [htasks] at hu hu'; exact h5 i j u u' x x' hu hx hu' hx'
    · intro i u v up hu; rw [htasks] at hu; exact h6 i u v up hu
    · intro i u hu; rw [htasks] at hu; subst hS'; exact h7 i u hu
    · subst hS'; exact h8
    · intro e he
      have := h9 e (by subst hS'; exact he)
      rw [this, hcnt]; subst hS'; simp only []
      split <;> simp <;> omega
    · intro he
      have := h10 (by subst hS'; exact he)
      rw [hcnt] at this; subst hS'; simp only []
      split <;> simp_all <;> omega
    · intro hno
      by_cases hbw : b.write.isSome = true
      · -- b was the only cache-written batch
        have hbin : InCW s b := Or.inl ⟨hbm, hbw⟩
        have hmax : ∀ x, InCW s x → x.epoch ≤ b.epoch := by
          intro x hx
          rcases hin2 x hx with rfl | hx'
          · exact Nat.le_refl _
          · exact absurd hx' (hno x)
        have := h12 b hbin hmax hbnr
        subst hS'; simp only [this]
      · have : ∀ x, ¬ InCW s x := by
          intro x hx
          rcases hin2 x hx with rfl | hx'
          · rcases hx with ⟨_, hw⟩ | ⟨i, u, hu, hc⟩
            · exact hbw hw
            · have : u.openB = some x := by
                simp only [cwOpen] at hc
                cases ho : u.openB with
                | none => simp [ho] at hc
                | some b0 => simp [ho] at hc; rw [hc.2]
              exact h4 x hbm i u x hu this rfl
          · exact hno x hx'
        have hd := h11 this
        have hbn : b.write = none := by cases hb : b.write <;> simp_all
        subst hS'; simp only [hbn]; exact hd
    · intro x hx hmax hnr
      have hx' := hin1 x hx
      have := h12 x hx' (by
        intro y hy
        rcases hin2 y hy with rfl | hy'
        · have := hge x hx'; omega
        · exact hmax y hy') (fun hr => hnr ((hrw x).mpr hr))
      subst hS'; exact this
    · intro i u hu hp hs x hx
      rw [htasks] at hu
      exact h13 i u hu hp (by subst hS'; exact hs) x (hin1 x hx)
    · intro i u v hu hp hs
      rw [htasks] at hu
      have := h14 i u v hu hp (by subst hS'; exact hs)
      subst hS'; exact this
    · have := (h1 b hbm).2
      subst hS'; simp only []; omega




theorem task_set {s : State} {i : Nat} {u x : Task} (hu : s.tasks[i]? = some u) (j : Nat) (u' : Task) :
    (s.tasks.set i x)[j]? = some u' ↔ (j = i ∧ u' = x) ∨ (j ≠ i ∧ s.tasks[j]? = some u') := by
  rw [getElem?_setTask hu]
  by_cases hij : i = j
  · subst hij; simp; exact eq_comm
  · have : j ≠ i := fun h => hij h.symm
    simp [hij, this]

theorem cwOpen_openB {u : Task} {b : Batch} (h : cwOpen u = some b) : u.openB = some b := by
  simp only [cwOpen] at h
  cases ho : u.openB with
  | none => simp [ho] at h
  | some b0 => simp [ho] at h; rw [h.2]

theorem step_begin {s s' : State} {i out} (I : Inv s) (h : fire s (.begin i) = some (s', out)) : Inv s' := by
  simp only [fire] at h
  cases hu : s.tasks[i]? with
  | none => simp [hu] at h
  | some u =>
    obtain ⟨pc, ob, sn⟩ := u
    cases pc <;> cases ob <;> simp [hu] at h
    obtain ⟨rfl, rfl⟩ := h
    obtain ⟨h0, h1, h2, h3, h4, h5, h6, h7, h8, h9, h10, h11, h12, h13, h14, h15⟩ := I
    let x : Task := ⟨.idle, some ⟨s.nextEpoch, none⟩, sn⟩
    have ts := task_set (x := x) hu
    have hcx : cwOpen x = none := by simp [cwOpen, x]
    have hcu : cwOpen (⟨.idle, none, sn⟩ : Task) = none := by simp [cwOpen]
    have hcnt : (s.tasks.set i x).countP isCw = s.tasks.countP isCw := by
      have := countP_setTask (x := x) hu isCw
      simp [isCw, hcx, hcu] at this; exact this
    have hin : ∀ b, InCW { setTask s i x with nextEpoch := s.nextEpoch + 1 } b ↔ InCW s b := by
      intro b; simp only [InCW, setTask]
      constructor
      · rintro (h | ⟨j, u', hj, hc⟩)
        · exact Or.inl h
        · rcases (ts j u').mp hj with ⟨rfl, rfl⟩ | ⟨_, hj'⟩
          · rw [hcx] at hc; cases hc
          · exact Or.inr ⟨j, u', hj', hc⟩
      · rintro (h | ⟨j, u', hj, hc⟩)
        · exact Or.inl h
        · by_cases hji : j = i
          · subst hji; rw [hu] at hj; cases hj; rw [hcu] at hc; cases hc
          · exact Or.inr ⟨j, u', (ts j u').mpr (Or.inr ⟨hji, hj⟩), hc⟩
    have hrw : ∀ b, Rewriting { setTask s i x with nextEpoch := s.nextEpoch + 1 } b ↔ Rewriting s b := by
      intro b; simp only [Rewriting, setTask]
      constructor
      · rintro ⟨j, u', v, hj, ho, hp⟩
        rcases (ts j u').mp hj with ⟨rfl, rfl⟩ | ⟨_, hj'⟩
        · cases hp
        · exact ⟨j, u', v, hj', ho, hp⟩
      · rintro ⟨j, u', v, hj, ho, hp⟩
        by_cases hji : j = i
        · subst hji; rw [hu] at hj; cases hj; cases hp
        · exact ⟨j, u', v, (ts j u').mpr (Or.inr ⟨hji, hj⟩), ho, hp⟩
    constructor
    · exact h0
    · intro b hb; have := h1 b hb; exact ⟨this.1, by show b.epoch < s.nextEpoch + 1; omega⟩
    · intro j u' b hj hb
      rcases (ts j u').mp hj with ⟨rfl, rfl⟩ | ⟨_, hj'⟩
      · simp [x] at hb; subst hb; exact ⟨h15, by show s.nextEpoch < s.nextEpoch + 1; omega⟩
      · have := h2 j u' b hj' hb; exact ⟨this.1, by show b.epoch < s.nextEpoch + 1; omega⟩
    · exact h3
    · intro b hb j u' b' hj hb'
      rcases (ts j u').mp hj with ⟨rfl, rfl⟩ | ⟨_, hj'⟩
      · simp [x] at hb'; subst hb'; have := (h1 b hb).2; simp; omega
      · exact h4 b hb j u' b' hj' hb'
    · intro j k u1 u2 b b' hj hb hk hb' he
      rcases (ts j u1).mp hj with ⟨rfl, rfl⟩ | ⟨hji, hj'⟩ <;> rcases (ts k u2).mp hk with ⟨rfl, rfl⟩ | ⟨hki, hk'⟩
      · rfl
      · simp [x] at hb; subst hb; have := (h2 k u2 b' hk' hb').2; simp at he; omega
      · simp [x] at hb'; subst hb'; have := (h2 j u1 b hj' hb).2; simp at he; omega
      · exact h5 j k u1 u2 b b' hj' hb hk' hb' he
    · intro j u' v up hj hp
      rcases (ts j u').mp hj with ⟨rfl, rfl⟩ | ⟨_, hj'⟩
      · cases hp
      · exact h6 j u' v up hj' hp
    · intro j u' hj
      rcases (ts j u').mp hj with ⟨rfl, rfl⟩ | ⟨_, hj'⟩
      · have := h7 j _ hu; exact this
      · exact h7 j u' hj'
    · exact h8
    · intro e he; show e.pin = ((s.submitted.countP mentions + (s.tasks.set i x).countP isCw : Nat) : Int) + s.tokens
      rw [hcnt]; exact h9 e he
    · intro he; show s.submitted.countP mentions + (s.tasks.set i x).countP isCw + s.tokens = 0
      rw [hcnt]; exact h10 he
    · intro hno; exact h11 (fun b hb => hno b ((hin b).mpr hb))
    · intro b hb hmax hnr
      exact h12 b ((hin b).mp hb) (fun b' hb' => hmax b' ((hin b').mpr hb')) (fun h => hnr ((hrw b).mpr h))
    · intro j u' hj hp hs b hb
      rcases (ts j u').mp hj with ⟨rfl, rfl⟩ | ⟨_, hj'⟩
      · rcases hp with hp | hp <;> cases hp
      · exact h13 j u' hj' hp hs b ((hin b).mp hb)
    · intro j u' v hj hp hs
      rcases (ts j u').mp hj with ⟨rfl, rfl⟩ | ⟨_, hj'⟩
      · cases hp
      · exact h14 j u' v hj' hp hs
    · show s.expected ≤ s.nextEpoch + 1; omega




theorem step_submit {s s' : State} {i out} (I : Inv s) (h : fire s (.submit i) = some (s', out)) : Inv s' := by
  simp only [fire] at h
  cases hu : s.tasks[i]? with
  | none => simp [hu] at h
  | some u =>
    obtain ⟨pc, ob, sn⟩ := u
    cases pc <;> cases ob <;> simp [hu] at h
    rename_i b
    obtain ⟨rfl, rfl⟩ := h
    obtain ⟨h0, h1, h2, h3, h4, h5, h6, h7, h8, h9, h10, h11, h12, h13, h14, h15⟩ := I
    let x : Task := ⟨.idle, none, sn⟩
    have ts := task_set (x := x) hu
    have hcx : cwOpen x = none := by simp [cwOpen, x]
    have hcu : cwOpen (⟨.idle, some b, sn⟩ : Task) = if b.write.isSome then some b else none := by
      simp [cwOpen, firstPending]
    have hcnt : (s.submitted ++ [b]).countP mentions + (s.tasks.set i x).countP isCw
        = s.submitted.countP mentions + s.tasks.countP isCw := by
      have := countP_setTask (x := x) hu isCw
      simp only [isCw, hcx, hcu] at this
      rw [List.countP_append]
      simp only [List.countP_cons, List.countP_nil, mentions]
      by_cases hb : b.write.isSome = true
      · simp [hb] at this ⊢; omega
      · simp [hb] at this ⊢; omega
    have hin : ∀ y, InCW { setTask s i x with submitted := s.submitted ++ [b] } y ↔ InCW s y := by
      intro y; simp only [InCW, setTask]
      constructor
      · rintro (⟨hm, hw⟩ | ⟨j, u', hj, hc⟩)
        · rcases List.mem_append.mp hm with hm | hm
          · exact Or.inl ⟨hm, hw⟩
          · simp at hm; subst hm
            exact Or.inr ⟨i, _, hu, by rw [hcu]; simp [hw]⟩
        · rcases (ts j u').mp hj with ⟨rfl, rfl⟩ | ⟨_, hj'⟩
          · rw [hcx] at hc; cases hc
          · exact Or.inr ⟨j, u', hj', hc⟩
      · rintro (⟨hm, hw⟩ | ⟨j, u', hj, hc⟩)
        · exact Or.inl ⟨List.mem_append_left _ hm, hw⟩
        · by_cases hji : j = i
          · subst hji; rw [hu] at hj; cases hj; rw [hcu] at hc
            split at hc
            · rename_i hw; cases hc; exact Or.inl ⟨by simp, hw⟩
            · cases hc
          · exact Or.inr ⟨j, u', (ts j u').mpr (Or.inr ⟨hji, hj⟩), hc⟩
    have hrw : ∀ y, Rewriting { setTask s i x with submitted := s.submitted ++ [b] } y ↔ Rewriting s y := by
      intro y; simp only [Rewriting, setTask]
      constructor
      · rintro ⟨j, u', v, hj, ho, hp⟩
        rcases (ts j u').mp hj with ⟨rfl, rfl⟩ | ⟨_, hj'⟩
        · cases hp
        · exact ⟨j, u', v, hj', ho, hp⟩
      · rintro ⟨j, u', v, hj, ho, hp⟩
        by_cases hji : j = i
        · subst hji; rw [hu] at hj; cases hj; cases hp
        · exact ⟨j, u', v, (ts j u').mpr (Or.inr ⟨hji, hj⟩), ho, hp⟩
    have hbb := h2 i _ b hu rfl
    constructor
    · exact h0
    · intro y hy
      rcases List.mem_append.mp hy with hy | hy
      · exact h1 y hy
      · simp at hy; subst hy; exact hbb
    · intro j u' y hj hy
      rcases (ts j u').mp hj with ⟨rfl, rfl⟩ | ⟨_, hj'⟩
      · simp [x] at hy
      · exact h2 j u' y hj' hy
    · show ((s.submitted ++ [b]).map (·.epoch)).Nodup
      rw [List.map_append, List.nodup_append]
      refine ⟨h3, by simp, ?_⟩
      intro a ha c hc
      simp at hc; subst hc
      obtain ⟨y, hy, rfl⟩ := List.mem_map.mp ha
      exact h4 y hy i _ b hu rfl
    · intro y hy j u' b' hj hb'
      rcases (ts j u').mp hj with ⟨rfl, rfl⟩ | ⟨hji, hj'⟩
      · simp [x] at hb'
      · rcases List.mem_append.mp hy with hy | hy
        · exact h4 y hy j u' b' hj' hb'
        · simp at hy; subst hy
          intro he
          exact hji (h5 i j _ u' y b' hu rfl hj' hb' he).symm
    · intro j k u1 u2 y y' hj hy hk hy' he
      rcases (ts j u1).mp hj with ⟨rfl, rfl⟩ | ⟨hji, hj'⟩
      · simp [x] at hy
      · rcases (ts k u2).mp hk with ⟨rfl, rfl⟩ | ⟨hki, hk'⟩
        · simp [x] at hy'
        · exact h5 j k u1 u2 y y' hj' hy hk' hy' he
    · intro j u' v up hj hp
      rcases (ts j u').mp hj with ⟨rfl, rfl⟩ | ⟨_, hj'⟩
      · cases hp
      · exact h6 j u' v up hj' hp
    · intro j u' hj
      rcases (ts j u').mp hj with ⟨rfl, rfl⟩ | ⟨_, hj'⟩
      · have := h7 j _ hu; exact this
      · exact h7 j u' hj'
    · exact h8
    · intro e he
      show e.pin = (((s.submitted ++ [b]).countP mentions + (s.tasks.set i x).countP isCw : Nat) : Int) + s.tokens
      rw [hcnt]; exact h9 e he
    · intro he
      show (s.submitted ++ [b]).countP mentions + (s.tasks.set i x).countP isCw + s.tokens = 0
      rw [hcnt]; exact h10 he
    · intro hno; exact h11 (fun y hy => hno y ((hin y).mpr hy))
    · intro y hy hmax hnr
      exact h12 y ((hin y).mp hy) (fun y' hy' => hmax y' ((hin y').mpr hy')) (fun h => hnr ((hrw y).mpr h))
    · intro j u' hj hp hs y hy
      rcases (ts j u').mp hj with ⟨rfl, rfl⟩ | ⟨_, hj'⟩
      · rcases hp with hp | hp <;> cases hp
      · exact h13 j u' hj' hp hs y ((hin y).mp hy)
    · intro j u' v hj hp hs
      rcases (ts j u').mp hj with ⟨rfl, rfl⟩ | ⟨_, hj'⟩
      · cases hp
      · exact h14 j u' v hj' hp hs
    · exact h15




theorem step_put {s s' : State} {i v out} (I : Inv s) (h : fire s (.put i v) = some (s', out)) : Inv s' := by
  simp only [fire] at h
  cases hu : s.tasks[i]? with
  | none => simp [hu] at h
  | some u =>
    obtain ⟨pc, ob, sn⟩ := u
    cases pc <;> cases ob <;> simp [hu] at h
    rename_i b
    obtain ⟨rfl, rfl⟩ := h
    obtain ⟨h0, h1, h2, h3, h4, h5, h6, h7, h8, h9, h10, h11, h12, h13, h14, h15⟩ := I
    let b' : Batch := { b with write := some v }
    let x : Task := ⟨.writing v b.write.isNone, some b', sn⟩
    have ts := task_set (x := x) hu
    have hcu : cwOpen (⟨.idle, some b, sn⟩ : Task) = if b.write.isSome then some b else none := by
      simp [cwOpen, firstPending]
    have hcx : cwOpen x = if b.write.isSome then some b' else none := by
      cases hb : b.write <;> simp [cwOpen, firstPending, x, b', hb]
    have hcnt : (s.tasks.set i x).countP isCw = s.tasks.countP isCw := by
      have := countP_setTask (x := x) hu isCw
      simp only [isCw, hcx, hcu] at this
      by_cases hb : b.write.isSome = true
      · simp [hb] at this; omega
      · simp [hb] at this; omega
    -- membership in CW before / after
    have hin1 : ∀ y, InCW (setTask s i x) y → (y = b' ∧ b.write.isSome = true) ∨
        ((y ∈ s.submitted ∧ y.write.isSome = true) ∨ ∃ j u', j ≠ i ∧ s.tasks[j]? = some u' ∧ cwOpen u' = some y) := by
      intro y hy; simp only [InCW, setTask] at hy
      rcases hy with h | ⟨j, u', hj, hc⟩
      · exact Or.inr (Or.inl h)
      · rcases (ts j u').mp hj with ⟨rfl, rfl⟩ | ⟨hji, hj'⟩
        · rw [hcx] at hc; split at hc
          · rename_i hw; cases hc; exact Or.inl ⟨rfl, hw⟩
          · cases hc
        · exact Or.inr (Or.inr ⟨j, u', hji, hj', hc⟩)
    have hother : ∀ y, ((y ∈ s.submitted ∧ y.write.isSome = true) ∨ ∃ j u', j ≠ i ∧ s.tasks[j]? = some u' ∧ cwOpen u' = some y) →
        InCW s y ∧ InCW (setTask s i x) y := by
      intro y hy
      rcases hy with h | ⟨j, u', hji, hj, hc⟩
      · exact ⟨Or.inl h, Or.inl h⟩
      · exact ⟨Or.inr ⟨j, u', hj, hc⟩, Or.inr ⟨j, u', (ts j u').mpr (Or.inr ⟨hji, hj⟩), hc⟩⟩
    have hin2 : ∀ y, InCW s y → (y = b ∧ b.write.isSome = true) ∨
        ((y ∈ s.submitted ∧ y.write.isSome = true) ∨ ∃ j u', j ≠ i ∧ s.tasks[j]? = some u' ∧ cwOpen u' = some y) := by
      intro y hy
      rcases hy with h | ⟨j, u', hj, hc⟩
      · exact Or.inr (Or.inl h)
      · by_cases hji : j = i
        · subst hji; rw [hu] at hj; cases hj; rw [hcu] at hc; split at hc
          · rename_i hw; cases hc; exact Or.inl ⟨rfl, hw⟩
          · cases hc
        · exact Or.inr (Or.inr ⟨j, u', hji, hj, hc⟩)
    have hb'in : b.write.isSome = true → InCW (setTask s i x) b' := by
      intro hw; exact Or.inr ⟨i, x, (ts i x).mpr (Or.inl ⟨rfl, rfl⟩), by rw [hcx]; simp [hw]⟩
    have hbin : b.write.isSome = true → InCW s b := by
      intro hw; exact Or.inr ⟨i, _, hu, by rw [hcu]; simp [hw]⟩
    have hrw1 : ∀ y, Rewriting (setTask s i x) y → (y = b' ∧ b.write.isSome = true) ∨ Rewriting s y := by
      intro y ⟨j, u', v', hj, ho, hp⟩
      rcases (ts j u').mp hj with ⟨rfl, rfl⟩ | ⟨hji, hj'⟩
      · simp [x] at ho hp; left
        refine ⟨ho.symm, ?_⟩
        cases hb : b.write <;> simp [hb] at hp ⊢
      · exact Or.inr ⟨j, u', v', hj', ho, hp⟩
    have hrw2 : ∀ y, Rewriting s y → Rewriting (setTask s i x) y := by
      intro y ⟨j, u', v', hj, ho, hp⟩
      by_cases hji : j = i
      · subst hji; rw [hu] at hj; cases hj; cases hp
      · exact ⟨j, u', v', (ts j u').mpr (Or.inr ⟨hji, hj⟩), ho, hp⟩
    have hrwb' : b.write.isSome = true → Rewriting (setTask s i x) b' := by
      intro hw
      refine ⟨i, x, v, (ts i x).mpr (Or.inl ⟨rfl, rfl⟩), rfl, ?_⟩
      cases hb : b.write <;> simp [hb] at hw; simp [x, hb]
    constructor
    · exact h0
    · exact h1
    · intro j u' y hj hy
      rcases (ts j u').mp hj with ⟨rfl, rfl⟩ | ⟨_, hj'⟩
      · simp [x] at hy; subst hy; exact h2 j _ b hu rfl
      · exact h2 j u' y hj' hy
    · exact h3
    · intro y hy j u' y' hj hy'
      rcases (ts j u').mp hj with ⟨rfl, rfl⟩ | ⟨_, hj'⟩
      · simp [x] at hy'; subst hy'; exact h4 y hy j _ b hu rfl
      · exact h4 y hy j u' y' hj' hy'
    · intro j k u1 u2 y y' hj hy hk hy' he
      rcases (ts j u1).mp hj with ⟨rfl, rfl⟩ | ⟨hji, hj'⟩ <;> rcases (ts k u2).mp hk with ⟨rfl, rfl⟩ | ⟨hki, hk'⟩
      · rfl
      · simp [x] at hy; subst hy; exact h5 j k _ u2 b y' hu rfl hk' hy' he
      · simp [x] at hy'; subst hy'; exact h5 j k u1 _ y b hj' hy hu rfl he
      · exact h5 j k u1 u2 y y' hj' hy hk' hy' he
    · intro j u' v' up hj hp
      rcases (ts j u').mp hj with ⟨rfl, rfl⟩ | ⟨_, hj'⟩
      · simp [x] at hp; exact ⟨b', rfl, by simp [b', hp.1]⟩
      · exact h6 j u' v' up hj' hp
    · intro j u' hj
      rcases (ts j u').mp hj with ⟨rfl, rfl⟩ | ⟨_, hj'⟩
      · have := h7 j _ hu; exact this
      · exact h7 j u' hj'
    · exact h8
    · intro e he; show e.pin = ((s.submitted.countP mentions + (s.tasks.set i x).countP isCw : Nat) : Int) + s.tokens
      rw [hcnt]; exact h9 e he
    · intro he; show s.submitted.countP mentions + (s.tasks.set i x).countP isCw + s.tokens = 0
      rw [hcnt]; exact h10 he
    · intro hno
      apply h11
      intro y hy
      rcases hin2 y hy with ⟨_, hw⟩ | ho
      · exact hno b' (hb'in hw)
      · exact hno y (hother y ho).2
    · intro y hy hmax hnr
      rcases hin1 y hy with ⟨rfl, hw⟩ | ho
      · exact absurd (hrwb' hw) hnr
      · have hys := (hother y ho).1
        refine h12 y hys ?_ (fun hr => hnr (hrw2 y hr))
        intro z hz
        rcases hin2 z hz with ⟨rfl, hw⟩ | hzo
        · exact hmax b' (hb'in hw)
        · exact hmax z (hother z hzo).2
    · intro j u' hj hp hs y hy
      rcases (ts j u').mp hj with ⟨rfl, rfl⟩ | ⟨_, hj'⟩
      · rcases hp with hp | hp <;> simp [x] at hp
      · have hnone := h13 j u' hj' hp hs
        rcases hin1 y hy with ⟨_, hw⟩ | ho
        · exact hnone b (hbin hw)
        · exact hnone y (hother y ho).1
    · intro j u' v' hj hp hs
      rcases (ts j u').mp hj with ⟨rfl, rfl⟩ | ⟨_, hj'⟩
      · simp [x] at hp
      · exact h14 j u' v' hj' hp hs
    · exact h15




theorem ordered_spec {s : State} {i : Nat} {u : Task} {b : Batch} (hu : s.tasks[i]? = some u) (hb : u.openB = some b)
    (ho : ordered s i = true) :
    (∀ y ∈ s.submitted, y.write.isSome = true → y.epoch < b.epoch) ∧
    (∀ (j : Nat) (u' : Task) (y : Batch), j ≠ i → s.tasks[j]? = some u' → cwOpen u' = some y → y.epoch < b.epoch) := by
  simp only [ordered, hu, hb, Bool.and_eq_true, List.all_eq_true] at ho
  obtain ⟨h1, h2⟩ := ho
  constructor
  · intro y hy hw
    have := h1 y hy
    simpa [hw] using this
  · intro j u' y hji hj hc
    have hjl : j < s.tasks.length := by
      rcases Nat.lt_or_ge j s.tasks.length with h | h
      · exact h
      · rw [List.getElem?_eq_none h] at hj; cases hj
    have := h2 j (List.mem_range.mpr hjl)
    simpa [hji, hj, hc] using this

theorem step_cacheWrite {s s' : State} {i out} (I : Inv s) (ho : ordered s i = true)
    (h : fire s (.cacheWrite i) = some (s', out)) : Inv s' := by
  simp only [fire] at h
  cases hu : s.tasks[i]? with
  | none => simp [hu] at h
  | some u =>
    obtain ⟨pc, ob, sn⟩ := u
    cases pc <;> simp [hu] at h
    rename_i v up
    obtain ⟨rfl, rfl⟩ := h
    obtain ⟨b, hob, hbw⟩ := I.wB i _ v up hu rfl
    simp only at hob; subst hob
    obtain ⟨g1, g2⟩ := ordered_spec hu rfl ho
    obtain ⟨h0, h1, h2, h3, h4, h5, h6, h7, h8, h9, h10, h11, h12, h13, h14, h15⟩ := I
    let x : Task := ⟨.idle, some b, sn⟩
    have ts := task_set (x := x) hu
    have hcx : cwOpen x = some b := by simp [cwOpen, firstPending, x, hbw]
    have hcu : cwOpen (⟨.writing v up, some b, sn⟩ : Task) = if up then none else some b := by
      cases up <;> simp [cwOpen, firstPending, hbw]
    have hcnt : (s.tasks.set i x).countP isCw = s.tasks.countP isCw + (if up then 1 else 0) := by
      have := countP_setTask (x := x) hu isCw
      simp only [isCw, hcx, hcu] at this
      cases up <;> simp at this ⊢ <;> omega
    generalize hS' : ({ setTask s i x with entry := cacheWriteEntry s.entry v up, latest := v, gen := s.gen + 1 } : State) = S'
    have htasks : S'.tasks = s.tasks.set i x := by subst hS'; rfl
    have hsubm : S'.submitted = s.submitted := by subst hS'; rfl
    have hbin : InCW S' b := Or.inr ⟨i, x, by rw [htasks]; exact (ts i x).mpr (Or.inl ⟨rfl, rfl⟩), hcx⟩
    have hin1 : ∀ y, InCW S' y → y = b ∨ y.epoch < b.epoch := by
      intro y hy
      rcases hy with ⟨hm, hw⟩ | ⟨j, u', hj, hc⟩
      · rw [hsubm] at hm; exact Or.inr (g1 y hm hw)
      · rw [htasks] at hj
        rcases (ts j u').mp hj with ⟨rfl, rfl⟩ | ⟨hji, hj'⟩
        · rw [hcx] at hc; cases hc; exact Or.inl rfl
        · exact Or.inr (g2 j u' y hji hj' hc)
    have hgen : S'.gen = s.gen + 1 := by subst hS'; rfl
    have hlat : S'.latest = v := by subst hS'; rfl
    have hseen : ∀ (j : Nat) (u' : Task), S'.tasks[j]? = some u' → u'.seen ≤ s.gen := by
      intro j u' hj; rw [htasks] at hj
      rcases (ts j u').mp hj with ⟨rfl, rfl⟩ | ⟨_, hj'⟩
      · have := h7 j _ hu; exact this
      · exact h7 j u' hj'
    have hcount0 : up = false → 1 ≤ s.tasks.countP isCw := by
      intro hup
      subst hup
      exact List.countP_pos_iff.mpr ⟨_, List.mem_of_getElem? hu, by rw [isCw, hcu]; simp⟩
    constructor
    · subst hS'; exact h0
    · subst hS'; exact h1
    · intro j u' y hj hy; rw [htasks] at hj
      have : s.expected ≤ y.epoch ∧ y.epoch < s.nextEpoch := by
        rcases (ts j u').mp hj with ⟨rfl, rfl⟩ | ⟨_, hj'⟩
        · simp [x] at hy; subst hy; exact h2 j _ b hu rfl
        · exact h2 j u' y hj' hy
      subst hS'; exact this
    · subst hS'; exact h3
    · intro y hy j u' y' hj hy'; rw [hsubm] at hy; rw [htasks] at hj
      rcases (ts j u').mp hj with ⟨rfl, rfl⟩ | ⟨_, hj'⟩
      · simp [x] at hy'; subst hy'; exact h4 y hy j _ b hu rfl
      · exact h4 y hy j u' y' hj' hy'
    · intro j k u1 u2 y y' hj hy hk hy' he; rw [htasks] at hj hk
      rcases (ts j u1).mp hj with ⟨rfl, rfl⟩ | ⟨hji, hj'⟩ <;> rcases (ts k u2).mp hk with ⟨rfl, rfl⟩ | ⟨hki, hk'⟩
      · rfl
      · simp [x] at hy; subst hy; exact h5 j k _ u2 b y' hu rfl hk' hy' he
      · simp [x] at hy'; subst hy'; exact h5 j k u1 _ y b hj' hy hu rfl he
      · exact h5 j k u1 u2 y y' hj' hy hk' hy' he
    · intro j u' v' up' hj hp; rw [htasks] at hj
      rcases (ts j u').mp hj with ⟨rfl, rfl⟩ | ⟨_, hj'⟩
      · cases hp
      · exact h6 j u' v' up' hj' hp
    · intro j u' hj; have := hseen j u' hj; rw [hgen]; omega
    · -- val
      intro e he; rw [hlat]
      subst hS'
      simp only at he
      cases hent : s.entry with
      | none =>
          rw [hent] at he
          cases v <;> cases up <;> simp [cacheWriteEntry] at he <;> subst he <;> rfl
      | some old =>
          rw [hent] at he
          have hp := h9 old hent
          cases v <;> cases up <;> simp [cacheWriteEntry] at he
          · obtain ⟨_, rfl⟩ := he; rfl
          · subst he; rfl
          · subst he; rfl
          · subst he; rfl
    · -- pinSome
      intro e he
      have hcs : S'.submitted.countP mentions + S'.tasks.countP isCw = s.submitted.countP mentions + s.tasks.countP isCw + (if up then 1 else 0) := by
        rw [hsubm, htasks, hcnt]; omega
      have htok : S'.tokens = s.tokens := by subst hS'; rfl
      rw [hcs, htok]
      have hent' : S'.entry = cacheWriteEntry s.entry v up := by subst hS'; rfl
      rw [hent'] at he
      cases hent : s.entry with
      | none =>
          rw [hent] at he
          have hz := h10 hent
          cases v <;> cases up <;> simp [cacheWriteEntry] at he <;> subst he <;> simp <;> (try have := hcount0 rfl) <;> omega
      | some old =>
          rw [hent] at he
          have hp := h9 old hent
          cases v <;> cases up <;> simp [cacheWriteEntry] at he
          · obtain ⟨_, rfl⟩ := he; simp; omega
          · subst he; simp; omega
          · subst he; simp; omega
          · subst he; simp; omega
    · -- pinNone
      intro he
      have hent' : S'.entry = cacheWriteEntry s.entry v up := by subst hS'; rfl
      rw [hent'] at he
      exfalso
      cases hent : s.entry with
      | none =>
          rw [hent] at he
          have hz := h10 hent
          cases v <;> cases up <;> simp [cacheWriteEntry] at he
          · have := hcount0 rfl; omega
      | some old =>
          rw [hent] at he
          have hp := h9 old hent
          cases v <;> cases up <;> simp [cacheWriteEntry] at he
          have := hcount0 rfl
          omega
    · intro hno; exact absurd hbin (hno b)
    · intro y hy hmax _
      rw [hlat]
      rcases hin1 y hy with rfl | hlt
      · exact hbw
      · have := hmax b hbin; omega
    · intro j u' hj _ hs
      have := hseen j u' hj; rw [hgen] at hs; omega
    · intro j u' v' hj _ hs
      have := hseen j u' hj; rw [hgen] at hs; omega
    · subst hS'; exact h15




/-- every (ordered) step preserves the invariant; a probe that returns a value returns `latest` -/
theorem inv_step {s s' : State} {e : Ev} {out} (I : Inv s)
    (hord : ∀ t, e = .cacheWrite t → ordered s t = true) (h : fire s e = some (s', out)) :
    Inv s' ∧ (∀ r, out = some r → r = s.latest ∧ s'.latest = s.latest) := by
  have noOut : ∀ {e}, fire s e = some (s', out) → (∀ i, e ≠ .probe i) → ∀ r, out = some r → r = s.latest ∧ s'.latest = s.latest := by
    intro e h hne r hr
    subst hr
    exfalso
    cases e <;> simp only [fire] at h <;> (try exact hne _ rfl) <;>
      (repeat' (split at h)) <;> simp at h
  cases e with
  | begin i => exact ⟨step_begin I h, noOut h (by simp)⟩
  | put i v => exact ⟨step_put I h, noOut h (by simp)⟩
  | cacheWrite i => exact ⟨step_cacheWrite I (hord i rfl) h, noOut h (by simp)⟩
  | submit i => exact ⟨step_submit I h, noOut h (by simp)⟩
  | readGen i => exact ⟨step_readGen I h, noOut h (by simp)⟩
  | probe i =>
      obtain ⟨h1, h2⟩ := step_probe I h
      refine ⟨h1, fun r hr => ⟨h2 r hr, ?_⟩⟩
      simp only [fire] at h
      (repeat' (split at h)) <;> simp at h <;> (try (obtain ⟨rfl, _⟩ := h; rfl))
  | sfEnter i => exact ⟨step_sfEnter I h, noOut h (by simp)⟩
  | sfWake i => exact ⟨step_sfWake I h, noOut h (by simp)⟩
  | readDb i => exact ⟨step_readDb I h, noOut h (by simp)⟩
  | fill i => exact ⟨step_fill I h, noOut h (by simp)⟩
  | sfLeave i => exact ⟨step_sfLeave I h, noOut h (by simp)⟩
  | commit => exact ⟨step_commit I h, noOut h (by simp)⟩
  | notify => exact ⟨step_notify I h, noOut h (by simp)⟩
  | evict => exact ⟨step_evict I h, noOut h (by simp)⟩

theorem inv_reach {db0 : Option Nat} {n : Nat} {s : State} (h : ReachOrdered (init true db0 n) s) : Inv s := by
  induction h with
  | init => exact inv_init db0 n
  | step _ hord hf ih => exact (inv_step ih hord hf).1

theorem run_outputs {s : State} (I : Inv s) :
    ∀ {sched : List Ev} {s' outs}, run s sched = some (s', outs) → ∀ p ∈ outs, p.1 = p.2 := by
  intro sched
  induction sched generalizing s with
  | nil => intro s' outs h; simp [run] at h; obtain ⟨_, rfl⟩ := h; simp
  | cons e es ih =>
      intro s' outs h
      simp only [run] at h
      by_cases hok : guardOk s e = false
      · simp [hok] at h
      · simp only [hok, if_false] at h
        have hord : ∀ t, e = .cacheWrite t → ordered s t = true := by
          intro t ht; subst ht; simpa [guardOk] using hok
        cases hf : fire s e with
        | none => simp [hf] at h
        | some r =>
            obtain ⟨s1, out⟩ := r
            simp only [hf] at h
            obtain ⟨I1, hout⟩ := inv_step I hord hf
            cases hr : run s1 es with
            | none => simp [hr] at h
            | some r2 =>
                obtain ⟨s2, outs2⟩ := r2
                simp only [hr] at h
                have ih' := ih I1 hr
                cases out with
                | none => simp at h; obtain ⟨_, rfl⟩ := h; exact ih'
                | some r =>
                    simp at h; obtain ⟨_, rfl⟩ := h
                    intro p hp
                    simp at hp
                    rcases hp with rfl | hp
                    · obtain ⟨h1, h2⟩ := hout r rfl
                      simp [h1, h2]
                    · exact ih' p hp


theorem run_of_runAny {s : State} : ∀ {sched : List Ev} {r}, runAny s sched = some r → orderedSched s sched = true →
    run s sched = some r := by
  intro sched
  induction sched generalizing s with
  | nil => intro r h _; simpa [run, runAny] using h
  | cons e es ih =>
      intro r h ho
      simp only [runAny] at h
      cases hf : fire s e with
      | none => simp [hf] at h
      | some p =>
          obtain ⟨s1, out⟩ := p
          simp only [orderedSched, hf, Bool.and_eq_true] at ho
          simp only [hf] at h
          simp only [run, ho.1, hf]
          cases hr : runAny s1 es with
          | none => simp [hr] at h
          | some r2 =>
              simp only [hr] at h
              rw [ih hr ho.2]
              simpa using h

end QbiceVerif.WideCacheR
