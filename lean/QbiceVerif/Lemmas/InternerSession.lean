/-
The encode/decode session of interned handles: decoding what `enc` produced gives back the values,
every reference resolves, and the allocations of the produced handles are equal exactly when the
values are equal.
-/
import QbiceVerif.Model.Interner

namespace QbiceVerif.Interner

/-- no two different values of the universe `U` have the same (type id, hash) -/
def NoCollision (H : Tm → Nat) (U : Tm → Prop) : Prop :=
  ∀ x y, U x → U y → x.key H = y.key H → x = y

structure DOk (H : Tm → Nat) (U : Tm → Prop) (d : DState) : Prop where
  cons : ∀ k a x, d.lookup k = some (a, x) → U x ∧ x.key H = k
  lt : ∀ k a x, d.lookup k = some (a, x) → a < d.fresh
  inj : ∀ k1 k2 a x y, d.lookup k1 = some (a, x) → d.lookup k2 = some (a, y) → k1 = k2
  log : ∀ a x, (a, x) ∈ d.log → d.lookup (x.key H) = some (a, x)

def Ext (d d' : DState) : Prop := ∀ k v, d.lookup k = some v → d'.lookup k = some v

def SeenOk (H : Tm → Nat) (seen : List (Nat × Nat)) (d : DState) (anc : List Tm) : Prop :=
  ∀ k, k ∈ seen → (∃ a x, d.lookup k = some (a, x)) ∨ (∃ y, y ∈ anc ∧ y.key H = k)

theorem Ext.refl (d : DState) : Ext d d := fun _ _ h => h
theorem Ext.trans {a b c : DState} (h1 : Ext a b) (h2 : Ext b c) : Ext a c := fun k v h => h2 k v (h1 k v h)

theorem lookup_cons (k0 : Nat × Nat) (e : Nat × Tm) (known : List ((Nat × Nat) × (Nat × Tm))) (f : Nat)
    (lg : List (Nat × Tm)) (k : Nat × Nat) :
    DState.lookup ⟨(k0, e) :: known, f, lg⟩ k = if k0 = k then some e else DState.lookup ⟨known, f, lg⟩ k := by
  unfold DState.lookup
  simp only [List.find?_cons]
  by_cases h : k0 = k
  · simp [h]
  · have : (k0 == k) = false := by simpa using h
    simp [h, this]

theorem lookup_log (d : DState) (lg : List (Nat × Tm)) (k : Nat × Nat) :
    DState.lookup { d with log := lg } k = d.lookup k := rfl

theorem size_pos (t : Tm) : 0 < t.size := by
  cases t; simp [Tm.size]; omega

/-- `Interner::intern` from the decoder's point of view -/
theorem intern_spec {H : Tm → Nat} {U : Tm → Prop} (hN : NoCollision H U) {d : DState} (hd : DOk H U d)
    {v : Tm} (hv : U v) :
    (d.intern H v).1 = v ∧ DOk H U (d.intern H v).2 ∧ Ext d (d.intern H v).2 ∧
      ∃ a, (d.intern H v).2.lookup (v.key H) = some (a, v) ∧ (d.intern H v).2.log = d.log ++ [(a, v)] := by
  unfold DState.intern
  cases hl : d.lookup (v.key H) with
  | some e =>
    obtain ⟨a, w⟩ := e
    have hw := hd.cons _ _ _ hl
    have : w = v := hN w v hw.1 hv hw.2
    subst this
    refine ⟨rfl, ⟨?_, ?_, ?_, ?_⟩, ?_, ⟨a, ?_⟩⟩
    · exact hd.cons
    · exact hd.lt
    · exact hd.inj
    · intro b x hx
      simp only [List.mem_append, List.mem_singleton] at hx
      rcases hx with hx | hx
      · exact hd.log b x hx
      · cases hx; exact hl
    · exact fun _ _ h => h
    · exact ⟨hl, rfl⟩
  | none =>
    have hlk : ∀ k, DState.lookup ⟨(v.key H, (d.fresh, v)) :: d.known, d.fresh + 1, d.log ++ [(d.fresh, v)]⟩ k
        = if v.key H = k then some (d.fresh, v) else d.lookup k := by
      intro k; rw [lookup_cons]; rfl
    have hext : Ext d ⟨(v.key H, (d.fresh, v)) :: d.known, d.fresh + 1, d.log ++ [(d.fresh, v)]⟩ := by
      intro k e he
      rw [hlk]
      by_cases hk : v.key H = k
      · subst hk; rw [hl] at he; cases he
      · simp [hk, he]
    refine ⟨rfl, ⟨?_, ?_, ?_, ?_⟩, hext, ⟨d.fresh, ?_⟩⟩
    · intro k a x hx
      rw [hlk] at hx
      by_cases hk : v.key H = k
      · simp only [hk, if_true, Option.some.injEq, Prod.mk.injEq] at hx
        obtain ⟨_, rfl⟩ := hx
        exact ⟨hv, hk⟩
      · simp only [hk, if_false] at hx; exact hd.cons k a x hx
    · intro k a x hx
      rw [hlk] at hx
      by_cases hk : v.key H = k
      · simp only [hk, if_true, Option.some.injEq, Prod.mk.injEq] at hx
        show a < d.fresh + 1
        omega
      · simp only [hk, if_false] at hx
        have := hd.lt k a x hx
        show a < d.fresh + 1
        omega
    · intro k1 k2 a x y h1 h2
      rw [hlk] at h1 h2
      by_cases e1 : v.key H = k1 <;> by_cases e2 : v.key H = k2
      · rw [← e1, ← e2]
      · simp only [e1, if_true, Option.some.injEq, Prod.mk.injEq] at h1
        simp only [e2, if_false] at h2
        have := hd.lt k2 a y h2
        omega
      · simp only [e2, if_true, Option.some.injEq, Prod.mk.injEq] at h2
        simp only [e1, if_false] at h1
        have := hd.lt k1 a x h1
        omega
      · simp only [e1, if_false] at h1
        simp only [e2, if_false] at h2
        exact hd.inj k1 k2 a x y h1 h2
    · intro b x hx
      simp only [List.mem_append, List.mem_singleton] at hx
      rcases hx with hx | hx
      · exact hext _ _ (hd.log b x hx)
      · cases hx; rw [hlk]; simp
    · exact ⟨by rw [hlk]; simp, rfl⟩

theorem mem_sizeList {t : Tm} {ts : List Tm} (h : t ∈ ts) : t.size ≤ Tm.sizeList ts := by
  induction ts with
  | nil => cases h
  | cons a as ih =>
    simp only [Tm.sizeList]
    rcases List.mem_cons.1 h with h | h
    · subst h; omega
    · have := ih h; omega


/- the handles a decoder produces for what `enc` emitted, in order of production: a first occurrence
   yields the handles of the contained values and then its own, a later occurrence only its own -/
mutual
  def prod (H : Tm → Nat) (seen : List (Nat × Nat)) : Tm → List Tm
    | .node ty label kids =>
      if (ty, H (.node ty label kids)) ∈ seen then [.node ty label kids]
      else prodList H ((ty, H (.node ty label kids)) :: seen) kids ++ [.node ty label kids]
  def prodList (H : Tm → Nat) (seen : List (Nat × Nat)) : List Tm → List Tm
    | [] => []
    | t :: ts => prod H seen t ++ prodList H (enc H seen t).2 ts
end

section roundtrip
variable {H : Tm → Nat} {U : Tm → Prop}

mutual
theorem dec_enc_tm (hU : ∀ ty label kids, U (.node ty label kids) → ∀ y, y ∈ kids → U y) (hN : NoCollision H U) :
    (t : Tm) → U t → ∀ (seen : List (Nat × Nat)) (d : DState) (anc : List Tm) (rest : List Tok) (fuel : Nat),
      DOk H U d → SeenOk H seen d anc → (∀ y, y ∈ anc → U y ∧ t.size < y.size) → 2 * t.size ≤ fuel →
      ∃ d', dec H fuel d ((enc H seen t).1 ++ rest) = .ok (t, d', rest) ∧ DOk H U d' ∧ Ext d d' ∧
        SeenOk H (enc H seen t).2 d' anc ∧ d'.log.map (·.2) = d.log.map (·.2) ++ prod H seen t
  | .node ty label kids, ht, seen, d, anc, rest, fuel, hd, hs, hanc, hfuel => by
    obtain ⟨f, rfl⟩ : ∃ f, fuel = f + 1 := ⟨fuel - 1, by simp only [Tm.size] at hfuel; omega⟩
    by_cases hk : (ty, H (.node ty label kids)) ∈ seen
    · -- a later occurrence: encoded as a reference
      have henc : enc H seen (.node ty label kids) = ([.ref ty (H (.node ty label kids))], seen) := by
        rw [enc]; simp [hk]
      rw [henc]
      rcases hs _ hk with ⟨a, x, hx⟩ | ⟨y, hy, hyk⟩
      · have hx' := hd.cons _ _ _ hx
        have : x = .node ty label kids := hN _ _ hx'.1 ht hx'.2
        subst this
        refine ⟨{ d with log := d.log ++ [(a, .node ty label kids)] }, ?_, ⟨hd.cons, hd.lt, hd.inj, ?_⟩, fun _ _ h => h, hs, ?_⟩
        rotate_left 2
        · rw [prod]; simp [hk]
        · simp only [List.singleton_append, dec]
          rw [hx]
        · intro b z hz
          simp only [List.mem_append, List.mem_singleton] at hz
          rcases hz with hz | hz
          · exact hd.log b z hz
          · cases hz; exact hx
      · exfalso
        have hy' := hanc y hy
        have : y = .node ty label kids := hN _ _ hy'.1 ht hyk
        subst this
        exact Nat.lt_irrefl _ hy'.2
    · -- first occurrence: the full value
      have henc : enc H seen (.node ty label kids) =
          (.src ty label kids.length :: (encList H ((ty, H (.node ty label kids)) :: seen) kids).1,
            (encList H ((ty, H (.node ty label kids)) :: seen) kids).2) := by
        rw [enc]; simp [hk]
      rw [henc]
      have hs' : SeenOk H ((ty, H (.node ty label kids)) :: seen) d (.node ty label kids :: anc) := by
        intro k hkm
        rcases List.mem_cons.1 hkm with hkm | hkm
        · exact Or.inr ⟨_, List.mem_cons_self, hkm.symm⟩
        · rcases hs k hkm with h | ⟨y, hy, hyk⟩
          · exact Or.inl h
          · exact Or.inr ⟨y, List.mem_cons_of_mem _ hy, hyk⟩
      have hanc' : ∀ y, y ∈ Tm.node ty label kids :: anc → U y ∧ Tm.sizeList kids < y.size := by
        intro y hy
        rcases List.mem_cons.1 hy with hy | hy
        · subst hy; exact ⟨ht, by simp [Tm.size]⟩
        · have := hanc y hy
          simp only [Tm.size] at this
          exact ⟨this.1, by omega⟩
      have hfuel' : 2 * Tm.sizeList kids + 1 ≤ f := by simp only [Tm.size] at hfuel; omega
      obtain ⟨d1, hdec, hd1, hext1, hs1, hlog1⟩ :=
        dec_enc_list hU hN kids (hU ty label kids ht) _ d _ rest f hd hs' hanc' hfuel'
      obtain ⟨hi1, hi2, hi3, a, hi4, hi5⟩ := intern_spec hN hd1 ht
      refine ⟨(d1.intern H (.node ty label kids)).2, ?_, hi2, Ext.trans hext1 hi3, ?_, ?_⟩
      rotate_left 2
      · rw [hi5, prod]; simp [hk, hlog1]
      · simp only [List.cons_append, dec]
        rw [hdec]
        simp only [hi1]
      · intro k hkm
        rcases hs1 k hkm with ⟨b, x, hx⟩ | ⟨y, hy, hyk⟩
        · exact Or.inl ⟨b, x, hi3 _ _ hx⟩
        · rcases List.mem_cons.1 hy with hy | hy
          · subst hy; subst hyk; exact Or.inl ⟨a, _, hi4⟩
          · exact Or.inr ⟨y, hy, hyk⟩
theorem dec_enc_list (hU : ∀ ty label kids, U (.node ty label kids) → ∀ y, y ∈ kids → U y) (hN : NoCollision H U) :
    (ts : List Tm) → (∀ t, t ∈ ts → U t) → ∀ (seen : List (Nat × Nat)) (d : DState) (anc : List Tm) (rest : List Tok) (fuel : Nat),
      DOk H U d → SeenOk H seen d anc → (∀ y, y ∈ anc → U y ∧ Tm.sizeList ts < y.size) → 2 * Tm.sizeList ts + 1 ≤ fuel →
      ∃ d', decList H fuel ts.length d ((encList H seen ts).1 ++ rest) = .ok (ts, d', rest) ∧ DOk H U d' ∧ Ext d d' ∧
        SeenOk H (encList H seen ts).2 d' anc ∧ d'.log.map (·.2) = d.log.map (·.2) ++ prodList H seen ts
  | [], _, seen, d, anc, rest, fuel, hd, hs, _, hfuel => by
    obtain ⟨f, rfl⟩ : ∃ f, fuel = f + 1 := ⟨fuel - 1, by omega⟩
    refine ⟨d, ?_, hd, Ext.refl d, ?_, ?_⟩
    · simp [encList, decList]
    · simpa [encList] using hs
    · simp [prodList]
  | t :: ts, hts, seen, d, anc, rest, fuel, hd, hs, hanc, hfuel => by
    obtain ⟨f, rfl⟩ : ∃ f, fuel = f + 1 := ⟨fuel - 1, by omega⟩
    have hpos := size_pos t
    simp only [Tm.sizeList] at hfuel hanc
    have henc : encList H seen (t :: ts) =
        ((enc H seen t).1 ++ (encList H (enc H seen t).2 ts).1, (encList H (enc H seen t).2 ts).2) := by
      rw [encList]
    rw [henc]
    obtain ⟨d1, hdec1, hd1, hext1, hs1, hlog1⟩ :=
      dec_enc_tm hU hN t (hts t List.mem_cons_self) seen d anc ((encList H (enc H seen t).2 ts).1 ++ rest) f hd hs
        (fun y hy => ⟨(hanc y hy).1, by have := (hanc y hy).2; omega⟩) (by omega)
    obtain ⟨d2, hdec2, hd2, hext2, hs2, hlog2⟩ :=
      dec_enc_list hU hN ts (fun x hx => hts x (List.mem_cons_of_mem _ hx)) (enc H seen t).2 d1 anc rest f hd1 hs1
        (fun y hy => ⟨(hanc y hy).1, by have := (hanc y hy).2; omega⟩) (by omega)
    refine ⟨d2, ?_, hd2, Ext.trans hext1 hext2, hs2, ?_⟩
    · simp only [List.length_cons, List.append_assoc, decList]
      rw [hdec1]
      simp only
      rw [hdec2]
    · rw [hlog2, hlog1, prodList, List.append_assoc]
end

/-- allocations of produced handles are equal exactly when the values are equal -/
theorem log_sharing (hN : NoCollision H U) {d : DState} (hd : DOk H U d) {a b : Nat} {x y : Tm}
    (hx : (a, x) ∈ d.log) (hy : (b, y) ∈ d.log) : a = b ↔ x = y := by
  have h1 := hd.log a x hx
  have h2 := hd.log b y hy
  constructor
  · intro h; subst h
    have hk := hd.inj _ _ _ _ _ h1 h2
    exact hN x y (hd.cons _ _ _ h1).1 (hd.cons _ _ _ h2).1 hk
  · intro h; subst h
    rw [h1] at h2; cases h2; rfl

end roundtrip

end QbiceVerif.Interner
