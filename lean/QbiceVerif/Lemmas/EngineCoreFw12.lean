/-
Lemmas about the extended core engine model, part 12: rounds and histories.
-/
import QbiceVerif.Lemmas.EngineCoreFw11
import QbiceVerif.Lemmas.EngineCore5
namespace Qbice.CoreFw
open Qbice.Core (Prog Err Write SetRes allVals evalProg applyWorld Sat TraceOK applyWrites writeResults
  Op OpOut Ref)

theorem query_spec {p : Program} (wf : WF p) (sh : Shape p) {fuel k : Nat} (hk : k < fuel)
    {s : St} (inv : Inv p s) : Sat (query p fuel .user k s) (UPost p k s) :=
  queryU_spec wf sh hk inv

/-- a history driven the way the correspondence driver drives the model: every operation starts
    with an empty execution log, rounds use `fuelFor p` -/
def runOps (p : Program) : List Op → St → Except Err (List OpOut × St)
  | [], s => .ok ([], s)
  | .sess ws :: rest, s =>
    match session p ws { s with log := [] } with
    | .error e => .error e
    | .ok (rs, s1) =>
      match runOps p rest s1 with
      | .error e => .error e
      | .ok (outs, s2) => .ok (.sess rs :: outs, s2)
  | .round ks :: rest, s =>
    match round p (fuelFor p) ks { s with log := [] } with
    | .error e => .error e
    | .ok (vs, s1) =>
      match runOps p rest s1 with
      | .error e => .error e
      | .ok (outs, s2) => .ok (.round vs s1.log :: outs, s2)

def refOf (s : St) : Ref := ⟨inputsOf s, pinsOf s, s.world⟩

/-- the external keys whose executor ran during a round are pinned at the current world -/
def pinLogged (p : Program) (w : Key → Val) (execs : List Key) (e : Key → Option Val) (k : Key) :
    Option Val :=
  match e k with
  | some v => some v
  | none =>
    match p[k]? with
    | some d => if d.kind = .external ∧ k ∈ execs then some (d.ext w) else none
    | none => none

/-- the outputs of a history are those of the from-scratch reference -/
def OutOK (p : Program) : List Op → List OpOut → Ref → Prop
  | [], [], _ => True
  | .sess ws :: ops, .sess rs :: outs, r =>
    rs = writeResults ws r.inputs ∧
      OutOK p ops outs ⟨applyWrites ws r.inputs,
        applyRefresh p (applyWorld ws r.world) ws r.pins, applyWorld ws r.world⟩
  | .round ks :: ops, .round vs execs :: outs, r =>
    vs.map some = ks.map (fun k => evalSpec p r.inputs (extRef p r.pins r.world) (k + 1) k) ∧
      OutOK p ops outs { r with pins := pinLogged p r.world execs r.pins }
  | _, _, _ => False

theorem Frame.pins {p : Program} {s s' : St} (f : Frame p s s') (inv : Inv p s) (inv' : Inv p s')
    {new : List Key} (hl : s'.log = s.log ++ new) :
    pinsOf s' = pinLogged p s.world new (pinsOf s) := by
  obtain ⟨new', h1, _, j, born⟩ := f.log
  have : new' = new := List.append_cancel_left (h1.symm.trans hl)
  subst this
  funext x
  have hext := congrFun f.ext x
  simp only [extOf, extRef, f.world] at hext
  simp only [pinLogged]
  cases hx : s.nodes x with
  | none =>
    have h0 : pinsOf s x = none := by simp [pinsOf, hx]
    rw [h0] at hext ⊢
    simp only
    cases hx' : s'.nodes x with
    | none =>
      have h0' : pinsOf s' x = none := by simp [pinsOf, hx']
      rw [h0']
      cases hp : p[x]? with
      | none => rfl
      | some d =>
        simp only
        rw [if_neg]
        rintro ⟨_, hm⟩
        obtain ⟨n', hn', _⟩ := (j x hm).2
        rw [hx'] at hn'; cases hn'
    | some n' =>
      have hm : x ∈ new' := born x hx (by rw [hx']; simp)
      obtain ⟨d, hp, hk, _⟩ := inv'.kind x n' hx'
      rw [hp] at hext ⊢
      simp only at hext ⊢
      by_cases he : n'.kind = .external
      · have h1' : pinsOf s' x = some n'.value := by simp [pinsOf, hx', he]
        rw [h1'] at hext ⊢
        simp only at hext
        rw [if_pos ⟨by rw [hk]; exact he, hm⟩]
        exact hext
      · have h1' : pinsOf s' x = none := by simp [pinsOf, hx', he]
        rw [h1', if_neg]
        rintro ⟨h, _⟩
        exact he (by rw [← hk]; exact h)
  | some n =>
    obtain ⟨d, hp, hk, _⟩ := inv.kind x n hx
    have hn' : ∃ n', s'.nodes x = some n' ∧ n'.kind = n.kind := by
      cases f.same_or_verified x with
      | inl e => exact ⟨n, by rw [e]; exact hx, rfl⟩
      | inr v =>
        obtain ⟨n', hn', _⟩ := v
        obtain ⟨d', hp', hk', _⟩ := inv'.kind x n' hn'
        rw [hp] at hp'; cases hp'
        exact ⟨n', hn', by rw [← hk', hk]⟩
    obtain ⟨n', hx', hk'⟩ := hn'
    by_cases he : n.kind = .external
    · have h0 : pinsOf s x = some n.value := by simp [pinsOf, hx, he]
      have h1' : pinsOf s' x = some n'.value := by simp [pinsOf, hx', hk', he]
      rw [h0, h1'] at hext
      rw [h0, h1']
      simp only at hext ⊢
      exact hext
    · have h0 : pinsOf s x = none := by simp [pinsOf, hx, he]
      have h1' : pinsOf s' x = none := by simp [pinsOf, hx', hk', he]
      rw [h0, h1', hp]
      simp only
      rw [if_neg]
      rintro ⟨h, _⟩
      exact he (by rw [← hk]; exact h)

theorem Inv.setLog {p : Program} {s : St} (inv : Inv p s) (l : List Key) :
    Inv p { s with log := l } := by
  have sol : ∀ x, Solid s x → Solid { s with log := l } x := fun x hx =>
    hx.transfer (fun y n hy hn => ⟨n, hn, rfl, rfl, rfl, rfl, rfl, id, id⟩)
  have ng : ∀ x, NGood s x → NGood { s with log := l } x := fun x hx =>
    NGood.congr (s := s) (s' := { s with log := l }) rfl hx
  refine ⟨inv.kind, inv.pjKinds, inv.pjStat, inv.pjSeen, inv.pjCause, inv.pjBroken, inv.down,
    inv.tfcDown, inv.nodup, inv.trace, inv.stamp, inv.seenSub,
    fun k n hn hv => sol k (inv.solid k n hn hv), ?_⟩
  intro x n hx y o hm hcl
  obtain ⟨ny, hny, hv, hacc, hgood⟩ := inv.clean x n hx y o hm hcl
  exact ⟨ny, hny, hv, hacc, fun hk => ng y (hgood hk)⟩

theorem Inv.init (p : Program) : Inv p {} := by
  refine ⟨?_, ?_, ?_, ?_, ?_, ?_, ?_, ?_, ?_, ?_, ?_, ?_, ?_, ?_⟩
  · intro k n h; cases h
  · intro k n h; cases h
  · intro k n d ks h; cases h
  · intro x n g o ng h; cases h
  · intro g ng h; cases h
  · intro k n h; cases h
  · intro k n h; cases h
  · intro k n h; cases h
  · intro k n h; cases h
  · intro k n d h; cases h
  · intro k n h; cases h
  · intro k n h; cases h
  · intro k n h; cases h
  · intro k n h; cases h

theorem query_badKey {p : Program} {s : St} (inv : Inv p s) {k : Key} (hk : p.length ≤ k) (f : Nat) :
    query p (f + 1) .user k s = .error (.badKey k) := by
  have hp : p[k]? = none := List.getElem?_eq_none hk
  have hn : s.nodes k = none := by
    cases h : s.nodes k with
    | none => rfl
    | some n => obtain ⟨d, hd, _⟩ := inv.kind k n h; rw [hp] at hd; cases hd
  simp [query, queryU, repairTfc, hn, queryQ_badKey inv hk f false]

theorem roundAux_spec {p : Program} (wf : WF p) (sh : Shape p) {fuel : Nat} (hf : p.length < fuel) :
    ∀ (ks : List Key) (cache : List (Key × Val)) (out : List Val) (s : St), Inv p s →
      (∀ e, e ∈ cache → cur p s e.1 = some e.2) →
      Sat (roundAux p fuel ks cache out s) (fun r =>
        (∃ vs', r.1 = out ++ vs' ∧ vs'.map some = ks.map (cur p s)) ∧ Inv p r.2 ∧ Frame p s r.2) := by
  intro ks
  induction ks with
  | nil =>
    intro cache out s inv _
    simp only [roundAux]
    exact ⟨⟨[], by simp⟩, inv, Frame.refl p s⟩
  | cons k rest ih =>
    intro cache out s inv hc
    simp only [roundAux]
    cases hfind : cache.find? (fun e => e.1 == k) with
    | some e =>
      simp only
      have hm := List.mem_of_find?_eq_some hfind
      have hk : e.1 = k := by simpa using List.find?_some hfind
      refine (ih cache (out ++ [e.2]) s inv hc).mono ?_
      rintro ⟨vs, s'⟩ ⟨⟨vs', h1, h2⟩, i', f'⟩
      simp only at h1
      refine ⟨⟨e.2 :: vs', by simp [h1], ?_⟩, i', f'⟩
      simp only [List.map_cons, h2, ← hk, hc e hm]
    | none =>
      simp only
      by_cases hk : k < p.length
      · have hq := query_spec wf sh (fuel := fuel) (k := k) (by komega) inv
        cases hr : query p fuel .user k s with
        | error e => rw [hr] at hq; simpa [Sat] using hq
        | ok r =>
          obtain ⟨v, s1⟩ := r
          rw [hr] at hq
          obtain ⟨i1, f1, c1, _⟩ := hq
          simp only at i1 f1 c1 ⊢
          have hc1 : ∀ e, e ∈ cache ++ [(k, v)] → cur p s1 e.1 = some e.2 := by
            intro e he
            rw [f1.cur]
            rw [List.mem_append, List.mem_singleton] at he
            cases he with
            | inl he => exact hc e he
            | inr he => subst he; exact c1
          refine (ih (cache ++ [(k, v)]) (out ++ [v]) s1 i1 hc1).mono ?_
          rintro ⟨vs, s'⟩ ⟨⟨vs', h1, h2⟩, i', f'⟩
          simp only at h1
          refine ⟨⟨v :: vs', by simp [h1], ?_⟩, i', f1.trans f'⟩
          simp only [List.map_cons, h2, c1, f1.cur]
      · obtain ⟨f, rfl⟩ : ∃ f, fuel = f + 1 := ⟨fuel - 1, by omega⟩
        rw [query_badKey inv (by komega) f]
        simp [Sat]

theorem round_spec {p : Program} (wf : WF p) (sh : Shape p) {s : St} (inv : Inv p s) (ks : List Key) :
    Sat (round p (fuelFor p) ks s) (fun r =>
      r.1.map some = ks.map (cur p s) ∧ Inv p r.2 ∧ Frame p s r.2) := by
  refine (roundAux_spec wf sh (fuel := fuelFor p) (by simp [fuelFor]) ks [] [] s inv
    (fun _ h => by cases h)).mono ?_
  rintro ⟨vs, s'⟩ ⟨⟨vs', h1, h2⟩, i', f'⟩
  simp only [List.nil_append] at h1
  subst h1
  exact ⟨h2, i', f'⟩

theorem runOps_spec {p : Program} (wf : WF p) (sh : Shape p) :
    ∀ (ops : List Op) (s : St), Inv p s →
      Sat (runOps p ops s) (fun r => OutOK p ops r.1 (refOf s) ∧ Inv p r.2) := by
  intro ops
  induction ops with
  | nil => intro s inv; exact ⟨trivial, inv⟩
  | cons op rest ih =>
    intro s inv
    cases op with
    | sess ws =>
      simp only [runOps]
      cases hs : session p ws { s with log := [] } with
      | error e =>
        simp only [Sat]
        intro he; subst he
        rw [session_eq] at hs
        cases ha : applySets p ws (sessionStart ws { s with log := [] }) [] [] with
        | error e' =>
          rw [ha] at hs
          simp only at hs
          cases hs
          exact absurd ha (applySets_not_oof _ _ _ _ _)
        | ok r => rw [ha] at hs; obtain ⟨_, _, _⟩ := r; cases hs
      | ok r =>
        obtain ⟨rs, s1⟩ := r
        obtain ⟨i1, h1, h2, _, h3, h4, _⟩ := session_spec (inv.setLog []) hs
        simp only
        have hrest := ih s1 i1
        cases hr : runOps p rest s1 with
        | error e => rw [hr] at hrest; simpa [Sat] using hrest
        | ok r2 =>
          obtain ⟨outs, s2⟩ := r2
          rw [hr] at hrest
          obtain ⟨o2, i2⟩ := hrest
          refine ⟨⟨h1, ?_⟩, i2⟩
          have e1 : inputsOf s1 = applyWrites ws (inputsOf s) := h2
          have e2 : s1.world = applyWorld ws s.world := h3
          have e3 : pinsOf s1 = applyRefresh p (applyWorld ws s.world) ws (pinsOf s) := h4
          have : refOf s1 = ⟨applyWrites ws (refOf s).inputs,
              applyRefresh p (applyWorld ws (refOf s).world) ws (refOf s).pins,
              applyWorld ws (refOf s).world⟩ := by
            simp only [refOf, e1, e2, e3]
          rw [← this]; exact o2
    | round ks =>
      simp only [runOps]
      have hrd := round_spec wf sh (inv.setLog []) ks
      cases hs : round p (fuelFor p) ks { s with log := [] } with
      | error e => rw [hs] at hrd; simpa [Sat] using hrd
      | ok r =>
        obtain ⟨vs, s1⟩ := r
        rw [hs] at hrd
        obtain ⟨h1, i1, f1⟩ := hrd
        simp only at h1 i1 f1 ⊢
        have hrest := ih s1 i1
        cases hr : runOps p rest s1 with
        | error e => rw [hr] at hrest; simpa [Sat] using hrest
        | ok r2 =>
          obtain ⟨outs, s2⟩ := r2
          rw [hr] at hrest
          obtain ⟨o2, i2⟩ := hrest
          refine ⟨⟨h1, ?_⟩, i2⟩
          have e1 : inputsOf s1 = inputsOf s := f1.inputs
          have e2 : s1.world = s.world := f1.world
          have e3 : pinsOf s1 = pinLogged p s.world s1.log (pinsOf s) :=
            f1.pins (inv.setLog []) i1 (new := s1.log) (by simp)
          have : refOf s1 = { refOf s with pins := pinLogged p (refOf s).world s1.log (refOf s).pins } := by
            simp only [refOf, e1, e2, e3]
          rw [← this]; exact o2

end Qbice.CoreFw
