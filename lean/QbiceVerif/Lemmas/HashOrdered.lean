/-
Unique decodability of the write stream on the ordered fragment (C13).
-/
import QbiceVerif.Lemmas.HashBasic

namespace QbiceVerif.Hash

theorem M64_eq : M64 = 256 ^ 8 := by decide
theorem M128_eq : M128 = 256 ^ 16 := by decide

/-! ### enum declarations -/

theorem VarList.get?_ordered : ∀ (vs : VarList) {i d fs}, vs.ordered = true →
    vs.get? i = some (d, fs) → fs.ordered = true
  | .nil, i, d, fs, _, hg => by simp [VarList.get?] at hg
  | .cons d' fs' rest, i, d, fs, h, hg => by
    simp only [VarList.ordered, Bool.and_eq_true] at h
    cases i with
    | zero => simp [VarList.get?] at hg; rw [← hg.2]; exact h.1
    | succ i => simp only [VarList.get?] at hg; exact VarList.get?_ordered rest h.2 hg

theorem VarList.get?_wf : ∀ (vs : VarList) {i d fs}, vs.wf = true →
    vs.get? i = some (d, fs) → fs.wf = true
  | .nil, i, d, fs, _, hg => by simp [VarList.get?] at hg
  | .cons d' fs' rest, i, d, fs, h, hg => by
    simp only [VarList.wf, Bool.and_eq_true] at h
    cases i with
    | zero => simp [VarList.get?] at hg; rw [← hg.2]; exact h.1
    | succ i => simp only [VarList.get?] at hg; exact VarList.get?_wf rest h.2 hg

theorem VarList.get?_mem : ∀ (vs : VarList) {i d fs}, vs.get? i = some (d, fs) → d ∈ vs.discs
  | .nil, i, d, fs, hg => by simp [VarList.get?] at hg
  | .cons d' fs' rest, i, d, fs, hg => by
    cases i with
    | zero => simp [VarList.get?] at hg; simp [VarList.discs, hg.1]
    | succ i => simp only [VarList.get?] at hg; simp [VarList.discs, VarList.get?_mem rest hg]

theorem allBelow_mem {b : Nat} {ds : List Nat} {d : Nat} (h : allBelow b ds = true) (hm : d ∈ ds) : d < b := by
  induction ds with
  | nil => simp at hm
  | cons x xs ih =>
    simp only [allBelow, Bool.and_eq_true, decide_eq_true_eq] at h
    rcases List.mem_cons.mp hm with rfl | hm
    · exact h.1
    · exact ih h.2 hm

/-- the compiler's guarantee: one discriminant, one variant -/
theorem VarList.get?_inj : ∀ (vs : VarList) {i j d f g}, distinctNats vs.discs = true →
    vs.get? i = some (d, f) → vs.get? j = some (d, g) → i = j
  | .nil, i, j, d, f, g, _, hi, _ => by simp [VarList.get?] at hi
  | .cons d' fs' rest, i, j, d, f, g, hd, hi, hj => by
    simp only [VarList.discs, distinctNats, Bool.and_eq_true, Bool.not_eq_true',
      List.contains_eq_mem, decide_eq_false_iff_not] at hd
    cases i with
    | zero =>
      cases j with
      | zero => rfl
      | succ j =>
        simp only [VarList.get?] at hi hj
        simp at hi
        have := VarList.get?_mem rest hj
        rw [← hi.1] at this
        exact absurd this hd.1
    | succ i =>
      cases j with
      | zero =>
        simp only [VarList.get?] at hi hj
        simp at hj
        have := VarList.get?_mem rest hi
        rw [← hj.1] at this
        exact absurd this hd.1
      | succ j =>
        simp only [VarList.get?] at hi hj
        rw [VarList.get?_inj rest hd.2 hi hj]

theorem pow256 (k : Nat) : 2 ^ (8 * k) = 256 ^ k := by
  rw [Nat.pow_mul]

/-! ### the main lemma -/

section
variable {σ : Type} (absorb : σ → Bytes → σ) (finish : σ → Nat)

mutual
/-- On the ordered fragment the stream of a well-typed value, followed by anything, determines the
    value (up to NaN payloads) and the rest.  The hasher states on the two sides are unrelated. -/
theorem stream_dec : ∀ (v : Val) (t : Ty) (w : Val) (s1 s2 : σ) (r1 r2 : Bytes),
    t.ordered = true → t.wf = true → hasType t v = true → hasType t w = true →
    stream absorb finish t v s1 ++ r1 = stream absorb finish t w s2 ++ r2 →
    v.canon = w.canon ∧ r1 = r2
  | .int i, t, w, s1, s2, r1, r2, ho, hwf, hv, hw, h => by
    cases t <;> simp [hasType] at hv
    cases w <;> simp [hasType] at hw
    simp only [stream] at h
    obtain ⟨h1, h2⟩ := le_append_inj h
    exact ⟨by rw [int_pattern_inj hv hw h1], h2⟩
  | .bool b, t, w, s1, s2, r1, r2, ho, hwf, hv, hw, h => by
    cases t <;> simp [hasType] at hv
    cases w <;> simp [hasType] at hw
    simp only [stream, List.cons_append, List.nil_append, List.cons.injEq] at h
    refine ⟨?_, h.2⟩
    rename_i b'
    cases b <;> cases b' <;> simp_all
  | .char c, t, w, s1, s2, r1, r2, ho, hwf, hv, hw, h => by
    cases t <;> simp [hasType] at hv
    cases w <;> simp [hasType] at hw
    simp only [stream] at h
    obtain ⟨h1, h2⟩ := le_inj_of_lt (by omega) (by omega) h
    exact ⟨by rw [h1], h2⟩
  | .f32 b, t, w, s1, s2, r1, r2, ho, hwf, hv, hw, h => by
    cases t <;> simp [hasType] at hv
    cases w <;> simp [hasType] at hw
    simp only [stream] at h
    obtain ⟨h1, h2⟩ := le_inj_of_lt (canonF32_lt hv) (canonF32_lt hw) h
    exact ⟨by simp [Val.canon, h1], h2⟩
  | .f64 b, t, w, s1, s2, r1, r2, ho, hwf, hv, hw, h => by
    cases t <;> simp [hasType] at hv
    cases w <;> simp [hasType] at hw
    simp only [stream] at h
    obtain ⟨h1, h2⟩ := le_inj_of_lt (canonF64_lt hv) (canonF64_lt hw) h
    exact ⟨by simp [Val.canon, h1], h2⟩
  | .unit, t, w, s1, s2, r1, r2, ho, hwf, hv, hw, h => by
    cases t <;> simp [hasType] at hv
    cases w <;> simp [hasType] at hw
    simpa [stream] using h
  | .str bs, t, w, s1, s2, r1, r2, ho, hwf, hv, hw, h => by
    cases t <;> simp [hasType] at hv
    cases w <;> simp [hasType] at hw
    simp only [stream, List.append_assoc] at h
    rw [M64_eq] at hv hw
    obtain ⟨h1, h2⟩ := le_inj_of_lt hv hw h
    obtain ⟨h3, h4⟩ := List.append_inj h2 h1
    exact ⟨by rw [h3], h4⟩
  | .none, t, w, s1, s2, r1, r2, ho, hwf, hv, hw, h => by
    cases t <;> simp [hasType] at hv
    cases w <;> simp [hasType] at hw
    · simp only [stream] at h
      exact ⟨rfl, (le_append_inj h).2⟩
    · simp only [stream, List.append_assoc] at h
      have := (le_append_inj h).1
      simp at this
  | .some v, t, w, s1, s2, r1, r2, ho, hwf, hv, hw, h => by
    cases t <;> simp [hasType] at hv
    cases w <;> simp [hasType] at hw
    · simp only [stream, List.append_assoc] at h
      have := (le_append_inj h).1
      simp at this
    · simp only [stream, List.append_assoc] at h
      simp only [Ty.ordered, Ty.wf] at ho hwf
      obtain ⟨h1, h2⟩ := stream_dec v _ _ _ _ _ _ ho hwf hv hw (le_append_inj h).2
      exact ⟨by simp [Val.canon, h1], h2⟩
  | .ok v, t, w, s1, s2, r1, r2, ho, hwf, hv, hw, h => by
    cases t <;> simp [hasType] at hv
    simp only [Ty.ordered, Ty.wf, Bool.and_eq_true] at ho hwf
    cases w <;> simp [hasType] at hw
    · simp only [stream, List.append_assoc] at h
      obtain ⟨h1, h2⟩ := stream_dec v _ _ _ _ _ _ ho.1 hwf.1 hv hw (le_append_inj h).2
      exact ⟨by simp [Val.canon, h1], h2⟩
    · simp only [stream, List.append_assoc] at h
      have := (le_append_inj h).1
      simp at this
  | .err v, t, w, s1, s2, r1, r2, ho, hwf, hv, hw, h => by
    cases t <;> simp [hasType] at hv
    simp only [Ty.ordered, Ty.wf, Bool.and_eq_true] at ho hwf
    cases w <;> simp [hasType] at hw
    · simp only [stream, List.append_assoc] at h
      have := (le_append_inj h).1
      simp at this
    · simp only [stream, List.append_assoc] at h
      obtain ⟨h1, h2⟩ := stream_dec v _ _ _ _ _ _ ho.2 hwf.2 hv hw (le_append_inj h).2
      exact ⟨by simp [Val.canon, h1], h2⟩
  | .list vs, t, w, s1, s2, r1, r2, ho, hwf, hv, hw, h => by
    cases t <;> simp [hasType] at hv <;> simp [Ty.ordered] at ho
    · -- seq
      cases w <;> simp [hasType] at hw
      simp only [stream, List.append_assoc] at h
      simp only [Ty.wf] at hwf
      rw [M64_eq] at hv hw
      obtain ⟨h1, h2⟩ := le_inj_of_lt hv.1 hw.1 h
      obtain ⟨h3, h4⟩ := streamAll_dec vs _ _ _ _ _ _ ho hwf hv.2 hw.2 h1 h2
      exact ⟨by simp [Val.canon, h3], h4⟩
    · -- array
      cases w <;> simp [hasType] at hw
      simp only [stream, List.append_assoc] at h
      simp only [Ty.wf] at hwf
      rw [M64_eq] at hv hw
      obtain ⟨h1, h2⟩ := le_inj_of_lt hv.1.2 hw.1.2 h
      obtain ⟨h3, h4⟩ := streamAll_dec vs _ _ _ _ _ _ ho hwf hv.2 hw.2 h1 h2
      exact ⟨by simp [Val.canon, h3], h4⟩
  | .tuple vs, t, w, s1, s2, r1, r2, ho, hwf, hv, hw, h => by
    cases t <;> simp [hasType] at hv
    cases w <;> simp [hasType] at hw
    simp only [stream] at h
    simp only [Ty.ordered, Ty.wf] at ho hwf
    obtain ⟨h3, h4⟩ := streamFields_dec vs _ _ _ _ _ _ ho hwf hv hw h
    exact ⟨by simp [Val.canon, h3], h4⟩
  | .wrap v, t, w, s1, s2, r1, r2, ho, hwf, hv, hw, h => by
    cases t <;> simp [hasType] at hv
    cases w <;> simp [hasType] at hw
    simp only [stream] at h
    simp only [Ty.ordered, Ty.wf] at ho hwf
    obtain ⟨h1, h2⟩ := stream_dec v _ _ _ _ _ _ ho hwf hv hw h
    exact ⟨by simp [Val.canon, h1], h2⟩
  | .variant idx fs, t, w, s1, s2, r1, r2, ho, hwf, hv, hw, h => by
    cases t <;> simp only [hasType] at hv <;> try (simp at hv; done)
    rename_i dw vars
    cases w <;> simp only [hasType] at hw <;> try (simp at hw; done)
    rename_i idx' fs'
    simp only [Ty.ordered, Ty.wf, Bool.and_eq_true] at ho hwf
    simp only [stream] at h
    cases hg : vars.get? idx with
    | none => simp [hg] at hv
    | some p =>
      obtain ⟨d, fts⟩ := p
      cases hg' : vars.get? idx' with
      | none => simp [hg'] at hw
      | some p' =>
        obtain ⟨d', fts'⟩ := p'
        simp only [hg, hg'] at h hv hw
        simp only [List.append_assoc] at h
        have hd : d < 256 ^ dw.bytes := by
          rw [← pow256]; exact allBelow_mem hwf.1.2 (VarList.get?_mem _ hg)
        have hd' : d' < 256 ^ dw.bytes := by
          rw [← pow256]; exact allBelow_mem hwf.1.2 (VarList.get?_mem _ hg')
        obtain ⟨h1, h2⟩ := le_inj_of_lt hd hd' h
        subst h1
        have hidx := VarList.get?_inj _ hwf.1.1 hg hg'
        subst hidx
        rw [hg] at hg'
        simp only [Option.some.injEq, Prod.mk.injEq, true_and] at hg'
        subst hg'
        obtain ⟨h3, h4⟩ := streamFields_dec fs _ _ _ _ _ _
          (VarList.get?_ordered _ ho hg) (VarList.get?_wf _ hwf.2 hg) hv hw h2
        exact ⟨by simp [Val.canon, h3], h4⟩

theorem streamAll_dec : ∀ (vs : ValList) (t : Ty) (ws : ValList) (s1 s2 : σ) (r1 r2 : Bytes),
    t.ordered = true → t.wf = true → allHaveType t vs = true → allHaveType t ws = true →
    vs.length = ws.length →
    streamAll absorb finish t vs s1 ++ r1 = streamAll absorb finish t ws s2 ++ r2 →
    vs.canon = ws.canon ∧ r1 = r2
  | .nil, t, ws, s1, s2, r1, r2, ho, hwf, hv, hw, hl, h => by
    cases ws with
    | nil => simpa [streamAll, ValList.canon] using h
    | cons w ws => simp [ValList.length] at hl
  | .cons v vs, t, ws, s1, s2, r1, r2, ho, hwf, hv, hw, hl, h => by
    cases ws with
    | nil => simp [ValList.length] at hl
    | cons w ws =>
      simp only [allHaveType, Bool.and_eq_true] at hv hw
      simp only [ValList.length, Nat.add_right_cancel_iff] at hl
      simp only [streamAll, List.append_assoc] at h
      obtain ⟨h1, h2⟩ := stream_dec v _ _ _ _ _ _ ho hwf hv.1 hw.1 h
      obtain ⟨h3, h4⟩ := streamAll_dec vs _ _ _ _ _ _ ho hwf hv.2 hw.2 hl h2
      exact ⟨by simp [ValList.canon, h1, h3], h4⟩

theorem streamFields_dec : ∀ (vs : ValList) (ts : TyList) (ws : ValList) (s1 s2 : σ) (r1 r2 : Bytes),
    ts.ordered = true → ts.wf = true → fieldsHaveType ts vs = true → fieldsHaveType ts ws = true →
    streamFields absorb finish ts vs s1 ++ r1 = streamFields absorb finish ts ws s2 ++ r2 →
    vs.canon = ws.canon ∧ r1 = r2
  | .nil, ts, ws, s1, s2, r1, r2, ho, hwf, hv, hw, h => by
    cases ts <;> simp [fieldsHaveType] at hv
    cases ws <;> simp [fieldsHaveType] at hw
    simpa [streamFields, ValList.canon] using h
  | .cons v vs, ts, ws, s1, s2, r1, r2, ho, hwf, hv, hw, h => by
    cases ts <;> simp [fieldsHaveType] at hv
    cases ws <;> simp [fieldsHaveType] at hw
    simp only [TyList.ordered, TyList.wf, Bool.and_eq_true] at ho hwf
    simp only [streamFields, List.append_assoc] at h
    obtain ⟨h1, h2⟩ := stream_dec v _ _ _ _ _ _ ho.1 hwf.1 hv.1 hw.1 h
    obtain ⟨h3, h4⟩ := streamFields_dec vs _ _ _ _ _ _ ho.2 hwf.2 hv.2 hw.2 h2
    exact ⟨by simp [ValList.canon, h1, h3], h4⟩
end

end

end QbiceVerif.Hash
