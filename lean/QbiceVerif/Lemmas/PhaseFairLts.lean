import QbiceVerif.Lemmas.PhaseFairLock
import QbiceVerif.Lemmas.PhaseLockStep

/-!
# C04 progress — bounded overtaking in the full phase LTS (`Model/PhaseLts`, `Cfg.fair = true`)

The lock of `Model/PhaseLts` changes only by `enqueue` (at the back), `grant` (FIFO: of the head) and releases
(which leave the queue alone), so the lock-level facts of `Lemmas/PhaseFairLock` carry over to every event.
-/

namespace QbiceVerif.Phase

open QbiceVerif.PhaseFair (ahead)

/-- the three things one step of the full LTS can do to the queue -/
theorem step_queue {c : Cfg} {s s' : State} {ev : Ev} (hs : step c s ev = some s') :
    s'.lock.queue = s.lock.queue ∨ (∃ t x, s'.lock = s.lock.enqueue t x) ∨
    (∃ t, ev = .grant t ∧ s.lock.grantable c.fair t = true ∧ s'.lock = s.lock.grant t) := by
  cases ev with
  | rReq t => obtain ⟨_, _, _, _, _, h, _⟩ := Prog.step_rReq hs; exact .inr (.inl ⟨t, false, h⟩)
  | grant t => obtain ⟨h1, _, h2, _⟩ := Prog.step_grant hs; exact .inr (.inr ⟨t, rfl, h1, h2⟩)
  | rAcq t => obtain ⟨_, _, _, _, _, h, _⟩ := Prog.step_rAcq hs; exact .inl (by rw [h])
  | rSample t e => obtain ⟨_, _, _, h, _⟩ := Prog.step_rSample hs; exact .inl (by rw [h])
  | rQuery t k v => obtain ⟨_, _, _, _, _, h, _⟩ := Prog.step_rQuery hs; exact .inl (by rw [h])
  | rRel t => obtain ⟨_, _, _, _, _, h, _⟩ := Prog.step_rRel hs; exact .inl h
  | wStep t st e =>
    obtain ⟨_, _, _, _, _, _, _, _, _, h, _⟩ := Prog.step_wStep hs
    by_cases hst : st = .req
    · simp only [hst, if_true] at h; exact .inr (.inl ⟨t, true, h⟩)
    · simp only [hst, if_false] at h; exact .inl (by rw [h])
  | wSet t k v => obtain ⟨_, _, _, _, _, _, _, _, _, h, _⟩ := Prog.step_wSet hs; exact .inl (by rw [h])
  | wCommit t => obtain ⟨_, _, _, _, _, _, h, _⟩ := Prog.step_wCommit hs; exact .inl (by rw [h])
  | wDrop t => obtain ⟨_, _, _, _, _, _, h, _⟩ := Prog.step_wDrop hs; exact .inl (by rw [h])
  | cPropagate t => obtain ⟨_, _, _, _, _, h, _⟩ := Prog.step_cPropagate hs; exact .inl (by rw [h])
  | cSubmit t => obtain ⟨_, _, _, _, _, h, _⟩ := Prog.step_cSubmit hs; exact .inl (by rw [h])
  | cRel t => obtain ⟨_, _, _, _, _, _, _, h, _⟩ := Prog.step_cRel hs; exact .inl h
  | wDone t => obtain ⟨_, _, h, _⟩ := Prog.step_wDone hs; exact .inl (by rw [h])

/-- one step of the full LTS with the FIFO lock while `w` is queued and is not the one granted -/
theorem lts_step_wait {c : Cfg} (hf : c.fair = true) {s s' : State} {w : Tid} {ev : Ev}
    (hw : s.lock.want w ≠ none) (hs : step c s ev = some s') (hne : ev ≠ .grant w) :
    s'.lock.want w = s.lock.want w ∧
    (∀ p, p ∈ ahead s'.lock.queue w → p ∈ ahead s.lock.queue w) ∧
    (∀ t, ev = .grant t → ∃ x, (t, x) ∈ ahead s.lock.queue w) := by
  rcases step_queue hs with h | ⟨t, x, h⟩ | ⟨t, he, hg, h⟩
  · refine ⟨Prog.want_congr h w, by intro p hp; rwa [h] at hp, ?_⟩
    intro t he
    subst he
    obtain ⟨hg, _, h2, _⟩ := Prog.step_grant hs
    -- a grant changes the queue: it removes the granted request
    have hwt := Prog.grantable_want hg
    have hlen := Prog.grant_queue_length (l := s.lock) (t := t) (by
      intro h0; rw [h0] at hwt; simp at hwt)
    rw [← h2, h] at hlen
    omega
  · refine ⟨by rw [h]; exact PhaseFair.want_enqueue_keep t x hw, ?_, ?_⟩
    · intro p hp; rw [h, PhaseFair.ahead_enqueue t x hw] at hp; exact hp
    · intro t' he
      subst he
      obtain ⟨hg, _, h2, _⟩ := Prog.step_grant hs
      have hwt := Prog.grantable_want hg
      have hlen := Prog.grant_queue_length (l := s.lock) (t := t') (by
        intro h0; rw [h0] at hwt; simp at hwt)
      rw [← h2, h] at hlen
      simp [Lock.enqueue] at hlen
      omega
  · subst he
    have htw : t ≠ w := fun e => hne (by rw [e])
    rw [hf] at hg
    obtain ⟨hmem, hq, hwant⟩ := PhaseFair.fair_grant (l := s.lock) (w := w) hg htw
    refine ⟨by rw [h]; exact hwant, ?_, ?_⟩
    · intro p hp
      rw [h, hq] at hp
      exact (List.mem_filter.1 hp).1
    · intro t' he
      cases he
      exact hmem

/-- along a run of the full LTS in which `w` is not granted -/
theorem lts_run_wait {c : Cfg} (hf : c.fair = true) : ∀ (evs : List Ev) {s s' : State} {w : Tid},
    s.lock.want w ≠ none → run c s evs = some s' → Ev.grant w ∉ evs →
    s'.lock.want w = s.lock.want w ∧
    (∀ t, Ev.grant t ∈ evs → ∃ x, (t, x) ∈ ahead s.lock.queue w) ∧
    (∀ p, p ∈ ahead s'.lock.queue w → p ∈ ahead s.lock.queue w) := by
  intro evs
  induction evs with
  | nil =>
    intro s s' w _ hr _
    simp only [run, Option.some.injEq] at hr
    subst hr
    exact ⟨rfl, (by intro t h; cases h), fun p hp => hp⟩
  | cons e es ih =>
    intro s s' w hw hr hng
    simp only [run] at hr
    cases hs : step c s e with
    | none => simp [hs] at hr
    | some s1 =>
      simp only [hs] at hr
      have hne : e ≠ .grant w := fun h => hng (by simp [h])
      obtain ⟨h1, h2, h3⟩ := lts_step_wait hf hw hs hne
      have hw1 : s1.lock.want w ≠ none := by rw [h1]; exact hw
      obtain ⟨i1, i2, i3⟩ := ih hw1 hr (fun h => hng (List.mem_cons_of_mem _ h))
      refine ⟨by rw [i1, h1], ?_, fun p hp => h2 p (i3 p hp)⟩
      intro t ht
      rcases List.mem_cons.1 ht with h | h
      · exact h3 t h.symm
      · obtain ⟨x, hx⟩ := i2 t h
        exact ⟨x, h2 _ hx⟩

end QbiceVerif.Phase
