/-
Basic facts for the fresh-evaluation cycle model (Model/Cycle.lean): frame lookups, marking,
registration, paths in a relation, a pigeonhole bound.
-/
import QbiceVerif.Model.Cycle
namespace Qbice.Cycle

def keys (s : List Frame) : List Key := s.map (·.key)
def mkeys (m : List Done) : List Key := m.map (·.key)

/-- what marking does not touch -/
def shape (s : List Frame) : List (Key × List Key) := s.map fun f => (f.key, f.callees)

/-- marks every frame whose key satisfies `P` -/
def markSet (P : Key → Bool) (s : List Frame) : List Frame :=
  s.map fun f => if P f.key then { f with inScc := true } else f

theorem markFrame_eq_markSet (k : Key) (s : List Frame) : markFrame k s = markSet (fun x => x == k) s := by
  simp [markFrame, markSet]

theorem markSet_markSet (P Q : Key → Bool) (s : List Frame) :
    markSet P (markSet Q s) = markSet (fun x => P x || Q x) s := by
  simp only [markSet, List.map_map]
  apply List.map_congr_left
  intro f _
  by_cases hq : Q f.key <;> by_cases hp : P f.key <;> simp [hp, hq]

theorem shape_markSet (P : Key → Bool) (s : List Frame) : shape (markSet P s) = shape s := by
  simp only [shape, markSet, List.map_map]
  apply List.map_congr_left
  intro f _
  by_cases hp : P f.key <;> simp [hp]

theorem keys_eq_of_shape {s s' : List Frame} (h : shape s = shape s') : keys s = keys s' := by
  have : (shape s).map Prod.fst = (shape s').map Prod.fst := by rw [h]
  simpa [shape, keys, List.map_map, Function.comp_def] using this

theorem keys_markSet (P : Key → Bool) (s : List Frame) : keys (markSet P s) = keys s :=
  keys_eq_of_shape (shape_markSet P s)

theorem length_markSet (P : Key → Bool) (s : List Frame) : (markSet P s).length = s.length := by
  simp [markSet]

theorem findFrame_none_iff {k : Key} {s : List Frame} : findFrame k s = none ↔ k ∉ keys s := by
  induction s with
  | nil => simp [findFrame, keys]
  | cons f r ih =>
    by_cases h : f.key = k
    · simp [findFrame, keys, h]
    · have h' : ¬ k = f.key := fun e => h e.symm
      simp only [keys] at ih
      simp [findFrame, keys, h, h', ih]

theorem findFrame_some {k : Key} {s : List Frame} {f : Frame} (h : findFrame k s = some f) :
    f ∈ s ∧ f.key = k := by
  induction s with
  | nil => simp [findFrame] at h
  | cons g r ih =>
    by_cases hg : g.key = k
    · simp [findFrame, hg] at h; subst h; simp [hg]
    · simp [findFrame, hg] at h
      have := ih h
      exact ⟨List.mem_cons_of_mem _ this.1, this.2⟩

theorem findFrame_isSome_iff {k : Key} {s : List Frame} : (findFrame k s).isSome ↔ k ∈ keys s := by
  cases h : findFrame k s with
  | none => simp [findFrame_none_iff.1 h]
  | some f =>
    have := findFrame_some h
    simp only [Option.isSome_some, true_iff]
    rw [← this.2]
    exact List.mem_map_of_mem this.1

/-- with distinct keys `findFrame` returns the frame itself -/
theorem findFrame_of_mem {s : List Frame} (nd : (keys s).Nodup) {f : Frame} (hf : f ∈ s) :
    findFrame f.key s = some f := by
  induction s with
  | nil => simp at hf
  | cons g r ih =>
    simp only [keys, List.map_cons, List.nodup_cons] at nd
    rcases List.mem_cons.1 hf with rfl | hr
    · simp [findFrame]
    · have hne : g.key ≠ f.key := by
        intro e
        apply nd.1
        rw [e]
        exact List.mem_map_of_mem hr
      simp only [findFrame, hne, if_false]
      exact ih nd.2 hr

/-- lookups see the same key and callees when the shapes agree -/
theorem findFrame_shape {s s' : List Frame} (h : shape s = shape s') {k : Key} {f : Frame}
    (hf : findFrame k s = some f) : ∃ f', findFrame k s' = some f' ∧ f'.key = f.key ∧ f'.callees = f.callees := by
  induction s generalizing s' with
  | nil => simp [findFrame] at hf
  | cons g r ih =>
    cases s' with
    | nil => simp [shape] at h
    | cons g' r' =>
      simp only [shape, List.map_cons, List.cons.injEq, Prod.mk.injEq] at h
      obtain ⟨⟨hk, hc⟩, hr⟩ := h
      by_cases hg : g.key = k
      · simp [findFrame, hg] at hf
        subst hf
        refine ⟨g', ?_, hk.symm, hc.symm⟩
        simp [findFrame, ← hk, hg]
      · simp [findFrame, hg] at hf
        have hg' : ¬ g'.key = k := by rw [← hk]; exact hg
        obtain ⟨f', h1, h2⟩ := ih (s' := r') hr hf
        exact ⟨f', by simp [findFrame, hg', h1], h2⟩

theorem findFrame_markSet_none {P : Key → Bool} {k : Key} {s : List Frame} :
    findFrame k (markSet P s) = none ↔ findFrame k s = none := by
  rw [findFrame_none_iff, findFrame_none_iff, keys_markSet]

theorem mem_markSet {P : Key → Bool} {s : List Frame} {g : Frame} (h : g ∈ markSet P s) :
    ∃ f ∈ s, g.key = f.key ∧ g.callees = f.callees ∧ g.inScc = (f.inScc || P f.key) := by
  simp only [markSet, List.mem_map] at h
  obtain ⟨f, hf, rfl⟩ := h
  refine ⟨f, hf, ?_⟩
  by_cases hp : P f.key <;> simp [hp]

theorem mem_markSet_of_mem {P : Key → Bool} {s : List Frame} {f : Frame} (h : f ∈ s) :
    (if P f.key then { f with inScc := true } else f) ∈ markSet P s := by
  simp only [markSet, List.mem_map]
  exact ⟨f, h, rfl⟩

-- ------------------------------------------------------------------ register

theorem keys_register (c k : Key) (s : List Frame) : keys (register c k s) = keys s := by
  simp only [keys, register, List.map_map]
  apply List.map_congr_left
  intro f _
  by_cases h1 : f.key = c <;> by_cases h2 : k ∈ f.callees <;> simp [h1, h2]

theorem length_register (c k : Key) (s : List Frame) : (register c k s).length = s.length := by
  simp [register]

/-- the callee list after `register_calee` -/
def addCallee (k : Key) (l : List Key) : List Key := if k ∈ l then l else l ++ [k]

theorem mem_addCallee {k x : Key} {l : List Key} : x ∈ addCallee k l ↔ x ∈ l ∨ x = k := by
  unfold addCallee
  by_cases h : k ∈ l
  · simp only [h, if_true]
    constructor
    · exact Or.inl
    · rintro (h' | rfl)
      · exact h'
      · exact h
  · simp [h]

theorem register_cons_self (f : Frame) (k : Key) (r : List Frame) (hr : f.key ∉ keys r) :
    register f.key k (f :: r) = { f with callees := addCallee k f.callees } :: r := by
  have : ∀ g ∈ r, (if g.key = f.key then (if k ∈ g.callees then g else { g with callees := g.callees ++ [k] }) else g) = g := by
    intro g hg
    have : g.key ≠ f.key := by
      intro e
      apply hr
      rw [← e]
      exact List.mem_map_of_mem hg
    simp [this]
  simp only [register, List.map_cons, if_true, addCallee]
  congr 1
  · by_cases h : k ∈ f.callees <;> simp [h]
  · conv => rhs; rw [← List.map_id r]
    exact List.map_congr_left this

-- ------------------------------------------------------------------ memo lookups

theorem findDone_none_iff {k : Key} {m : List Done} : findDone k m = none ↔ k ∉ mkeys m := by
  induction m with
  | nil => simp [findDone, mkeys]
  | cons d r ih =>
    by_cases h : d.key = k
    · simp [findDone, mkeys, h]
    · have h' : ¬ k = d.key := fun e => h e.symm
      simp only [mkeys] at ih
      simp [findDone, mkeys, h, h', ih]

theorem findDone_some {k : Key} {m : List Done} {d : Done} (h : findDone k m = some d) :
    d ∈ m ∧ d.key = k := by
  induction m with
  | nil => simp [findDone] at h
  | cons g r ih =>
    by_cases hg : g.key = k
    · simp [findDone, hg] at h; subst h; simp [hg]
    · simp [findDone, hg] at h
      have := ih h
      exact ⟨List.mem_cons_of_mem _ this.1, this.2⟩

theorem findDone_of_mem {m : List Done} (nd : (mkeys m).Nodup) {d : Done} (hd : d ∈ m) :
    findDone d.key m = some d := by
  induction m with
  | nil => simp at hd
  | cons g r ih =>
    simp only [mkeys, List.map_cons, List.nodup_cons] at nd
    rcases List.mem_cons.1 hd with rfl | hr
    · simp [findDone]
    · have hne : g.key ≠ d.key := by
        intro e
        apply nd.1
        rw [e]
        exact List.mem_map_of_mem hr
      simp only [findDone, hne, if_false]
      exact ih nd.2 hr

/-- a lookup that succeeds keeps its answer when newer entries with other keys are added -/
theorem findDone_append {k : Key} {new m : List Done} (h : k ∉ mkeys new) :
    findDone k (new ++ m) = findDone k m := by
  induction new with
  | nil => rfl
  | cons d r ih =>
    simp only [mkeys, List.map_cons, List.mem_cons, not_or] at h
    have hne : ¬ d.key = k := fun e => h.1 e.symm
    simp only [List.cons_append, findDone, hne, if_false]
    exact ih h.2

theorem valOf_append_of_mem {k : Key} {new m : List Done} (nd : (mkeys (new ++ m)).Nodup)
    (hk : k ∈ mkeys m) : valOf (new ++ m) k = valOf m k := by
  unfold valOf
  rw [findDone_append]
  intro hn
  simp only [mkeys, List.map_append] at nd
  exact (List.nodup_append.1 nd).2.2 k hn k hk rfl

-- ------------------------------------------------------------------ paths

/-- reflexive-transitive closure -/
inductive Path (E : Key → Key → Prop) : Key → Key → Prop
  | refl (a : Key) : Path E a a
  | head {a b c : Key} : E a b → Path E b c → Path E a c

theorem Path.trans {E : Key → Key → Prop} {a b c : Key} (h1 : Path E a b) (h2 : Path E b c) : Path E a c := by
  induction h1 with
  | refl => exact h2
  | head e _ ih => exact .head e (ih h2)

theorem Path.tail {E : Key → Key → Prop} {a b c : Key} (h1 : Path E a b) (e : E b c) : Path E a c :=
  h1.trans (.head e (.refl c))

theorem Path.mono {E E' : Key → Key → Prop} (h : ∀ a b, E a b → E' a b) {a b : Key} (p : Path E a b) :
    Path E' a b := by
  induction p with
  | refl => exact .refl _
  | head e _ ih => exact .head (h _ _ e) ih

/-- `a` lies on a cycle of `E` -/
def OnCycle (E : Key → Key → Prop) (a : Key) : Prop := ∃ b, E a b ∧ Path E b a

theorem OnCycle.mono {E E' : Key → Key → Prop} (h : ∀ a b, E a b → E' a b) {a : Key} (c : OnCycle E a) :
    OnCycle E' a := by
  obtain ⟨b, e, p⟩ := c
  exact ⟨b, h _ _ e, p.mono h⟩

/-- a path that stays inside a set closed under `E` -/
theorem Path.closed {E : Key → Key → Prop} {S : Key → Prop} (hS : ∀ a b, S a → E a b → S b)
    {a b : Key} (p : Path E a b) (ha : S a) : S b := by
  induction p with
  | refl => exact ha
  | head e _ ih => exact ih (hS _ _ ha e)

-- ------------------------------------------------------------------ pigeonhole

theorem nodup_bounded_length : ∀ (n : Nat) (l : List Nat), l.Nodup → (∀ x ∈ l, x < n) → l.length ≤ n := by
  intro n
  induction n with
  | zero =>
    intro l _ h
    cases l with
    | nil => simp
    | cons a r => exact absurd (h a (by simp)) (Nat.not_lt_zero _)
  | succ n ih =>
    intro l nd h
    have nd' : (l.erase n).Nodup := nd.erase n
    have h' : ∀ x ∈ l.erase n, x < n := by
      intro x hx
      have hx' := (List.Nodup.mem_erase_iff nd).1 hx
      have := h x hx'.2
      omega
    have := ih (l.erase n) nd' h'
    have hl : l.length ≤ (l.erase n).length + 1 := by
      by_cases hm : n ∈ l
      · rw [List.length_erase_of_mem hm]; omega
      · rw [List.erase_of_not_mem hm]; omega
    omega

end Qbice.Cycle
