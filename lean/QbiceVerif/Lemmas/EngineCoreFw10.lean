/-
Lemmas about the extended core engine model, part 10: input sessions (writes, refresh, dirty
propagation at commit).
-/
import QbiceVerif.Lemmas.EngineCoreFw9
import QbiceVerif.Lemmas.EngineCore4
namespace Qbice.CoreFw
open Qbice.Core (Prog Err Write SetRes allVals evalProg applyWorld Sat TraceOK applyWrites writeResults)

/-- reference semantics of one `refresh` on the pinned external values -/
def refreshed (p : Program) (w : Key → Val) (e : Key → Option Val) (k : Key) : Option Val :=
  match e k, p[k]? with
  | some _, some d => some (d.ext w)
  | o, _ => o

/-- reference semantics of the writes of a session on the pinned external values -/
def applyRefresh (p : Program) (w : Key → Val) : List Write → (Key → Option Val) → (Key → Option Val)
  | [], e => e
  | .refresh :: rest, e => applyRefresh p w rest (refreshed p w e)
  | .set _ _ :: rest, e => applyRefresh p w rest e
  | .world _ _ :: rest, e => applyRefresh p w rest e

/-- the state in which the writes of a session start -/
def sessionStart (ws : List Write) (s : St) : St :=
  { s with epoch := s.epoch + 1, world := applyWorld ws s.world }

theorem session_eq (p : Program) (ws : List Write) (s : St) :
    session p ws s =
      match applySets p ws (sessionStart ws s) [] [] with
      | .error e => .error e
      | .ok (s1, rs, changed) => .ok (rs, markDirty s1 changed) := rfl

/-- a node without recorded reads, of an input or external key -/
def IsLeaf (n : Node) : Prop := (n.kind = .input ∨ n.kind = .external) ∧ n.deps = [] ∧ n.tfc = []

/-- the kind clause of the invariant, alone -/
def KindsOK (p : Program) (s : St) : Prop :=
  ∀ k n, s.nodes k = some n → ∃ d, p[k]? = some d ∧ d.kind = n.kind ∧
    (n.kind = .input ∨ n.kind = .external → n.deps = [] ∧ n.tfc = [])

theorem Inv.kindsOK {p : Program} {s : St} (inv : Inv p s) : KindsOK p s := inv.kind

/-- relation between the state at the start of the writes and during/after them -/
def SetRel (p : Program) (s0 s : St) (ch : List Key) : Prop :=
  s.epoch = s0.epoch ∧ s.dirty = s0.dirty ∧ s.world = s0.world ∧
  (∃ l, s.log = s0.log ++ l ∧ ∀ x, x ∈ l → ∃ n, s0.nodes x = some n ∧ n.kind = .external) ∧
  ∀ x, s.nodes x = s0.nodes x ∨
    ∃ n', s.nodes x = some n' ∧ IsLeaf n' ∧ n'.lastVerified = s0.epoch ∧
      (∃ d, p[x]? = some d ∧ d.kind = n'.kind) ∧
      (n'.kind = .external → ∃ n, s0.nodes x = some n ∧ n.kind = .external) ∧
      (s0.nodes x = none ∨ x ∈ ch ∨ ∃ n, s0.nodes x = some n ∧ n.value = n'.value)

theorem SetRel.refl (p : Program) (s : St) : SetRel p s s [] :=
  ⟨rfl, rfl, rfl, ⟨[], by simp, fun _ h => (by cases h)⟩, fun _ => Or.inl rfl⟩

theorem mem_ite_append {x k : Key} {ch : List Key} (c : Prop) [Decidable c] (h : x ∈ ch) :
    x ∈ if c then ch ++ [k] else ch := by
  split
  · exact List.mem_append_left _ h
  · exact h

theorem isExtNode_iff {s : St} {k : Key} :
    isExtNode s k = true ↔ ∃ n, s.nodes k = some n ∧ n.kind = .external := by
  simp only [isExtNode]
  cases s.nodes k with
  | none => simp
  | some n => simp

/-- the kind clause during the writes -/
def KindsRel (p : Program) (s : St) : Prop := KindsOK p s

theorem KindsOK.refreshAll {p : Program} {s : St} (hk : KindsOK p s) (ch : List Key) :
    KindsOK p (refreshAll p s ch).1 := by
  intro x n hn
  simp only [Qbice.CoreFw.refreshAll, refreshNode] at hn
  cases hx : s.nodes x with
  | none => rw [hx] at hn; cases hn
  | some n0 =>
    obtain ⟨d, hp, hdk, hleaf⟩ := hk x n0 hx
    rw [hx, hp] at hn
    simp only at hn
    split at hn
    · rename_i he
      cases hn
      exact ⟨d, hp, hdk, fun _ => ⟨rfl, (hleaf (Or.inr he)).2⟩⟩
    · cases hn; exact ⟨d, hp, hdk, hleaf⟩

theorem KindsOK.setInput {p : Program} {s : St} (hk : KindsOK p s) {k : Key} {d : NodeDef}
    (hp : p[k]? = some d) (hi : d.kind = .input) (v : Val) : KindsOK p (setNode s k (inputNode s v)) := by
  intro x n hn
  simp only [setNode] at hn
  by_cases hx : x = k
  · rw [if_pos hx] at hn; cases hn; subst hx; exact ⟨d, hp, hi, fun _ => ⟨rfl, rfl⟩⟩
  · rw [if_neg hx] at hn; exact hk x n hn

/-- one `refresh` step preserves the relation -/
theorem refreshAll_rel {p : Program} {s0 s : St} {ch : List Key} (hk0 : KindsOK p s0) (hks : KindsOK p s)
    (h : SetRel p s0 s ch) : SetRel p s0 (refreshAll p s ch).1 (refreshAll p s ch).2 := by
  obtain ⟨he, hd, hw, ⟨l, hl, hlm⟩, hnodes⟩ := h
  have ext0 : ∀ x n, s.nodes x = some n → n.kind = .external →
      ∃ n0, s0.nodes x = some n0 ∧ n0.kind = .external := by
    intro x n hx hk
    cases hnodes x with
    | inl h => exact ⟨n, by rw [← h]; exact hx, hk⟩
    | inr h =>
      obtain ⟨n', hn', _, _, _, h5, _⟩ := h
      rw [hx] at hn'; cases hn'
      exact h5 hk
  refine ⟨he, hd, hw, ⟨l ++ (List.range p.length).filter (isExtNode s), ?_, ?_⟩, ?_⟩
  · simp only [refreshAll, hl, List.append_assoc]
  · intro x hx
    rw [List.mem_append] at hx
    cases hx with
    | inl hx => exact hlm x hx
    | inr hx =>
      rw [List.mem_filter] at hx
      obtain ⟨n, hn, hk⟩ := isExtNode_iff.1 hx.2
      exact ext0 x n hn hk
  · intro x
    have hsub : ∀ y, y ∈ ch → y ∈ (refreshAll p s ch).2 := fun y hy => by
      simp only [refreshAll]; exact List.mem_append_left _ hy
    simp only [refreshAll, refreshNode]
    cases hx : s.nodes x with
    | none =>
      simp only
      cases hnodes x with
      | inl h => left; rw [← h]; exact hx.symm
      | inr h => obtain ⟨n', hn', _⟩ := h; rw [hx] at hn'; cases hn'
    | some n =>
      obtain ⟨d, hp, hdk, hleaf⟩ := hks x n hx
      rw [hp]
      simp only
      by_cases hk : n.kind = .external
      · rw [if_pos hk]
        right
        refine ⟨_, rfl, ⟨Or.inr hk, rfl, (hleaf (Or.inr hk)).2⟩, he, ⟨d, rfl, hdk⟩, fun _ => ext0 x n hx hk, ?_⟩
        by_cases hv : n.value = d.ext s.world
        · cases hnodes x with
          | inl h => right; right; exact ⟨n, by rw [← h]; exact hx, hv⟩
          | inr h =>
            obtain ⟨n', hn', _, _, _, _, h6⟩ := h
            rw [hx] at hn'; cases hn'
            rcases h6 with h6 | h6 | ⟨n0, h0, hv0⟩
            · exact Or.inl h6
            · exact Or.inr (Or.inl (hsub x h6))
            · exact Or.inr (Or.inr ⟨n0, h0, by rw [hv0]; exact hv⟩)
        · right; left
          apply List.mem_append_right
          rw [List.mem_filter]
          have hlt : x < p.length := by
            rw [List.getElem?_eq_some_iff] at hp
            obtain ⟨h, _⟩ := hp; exact h
          refine ⟨?_, ?_⟩
          · rw [List.mem_filter]
            exact ⟨List.mem_range.2 hlt, isExtNode_iff.2 ⟨n, hx, hk⟩⟩
          · simp [extChanged, hx, hp, hk, hv]
      · rw [if_neg hk]
        cases hnodes x with
        | inl h => left; rw [← h]; exact hx.symm
        | inr h =>
          right
          obtain ⟨n', hn', a1, a2, _, a5, h6⟩ := h
          rw [hx] at hn'; cases hn'
          refine ⟨n, rfl, a1, a2, ⟨d, rfl, hdk⟩, a5, ?_⟩
          rcases h6 with h6 | h6 | h6
          · exact Or.inl h6
          · exact Or.inr (Or.inl (hsub x h6))
          · exact Or.inr (Or.inr h6)

theorem applySets_rel {p : Program} {s0 : St} (hk0 : KindsOK p s0) :
    ∀ (ws : List Write) (s : St) (rs : List SetRes) (ch : List Key)
      (s1 : St) (rs1 : List SetRes) (ch1 : List Key), KindsOK p s →
      SetRel p s0 s ch → applySets p ws s rs ch = .ok (s1, rs1, ch1) → SetRel p s0 s1 ch1 := by
  intro ws
  induction ws with
  | nil =>
    intro s rs ch s1 rs1 ch1 _ h e
    simp only [applySets] at e
    cases e; exact h
  | cons w rest ih =>
    intro s rs ch s1 rs1 ch1 hks h e
    cases w with
    | world c v =>
      simp only [applySets] at e
      exact ih _ _ _ _ _ _ hks h e
    | refresh =>
      simp only [applySets] at e
      exact ih _ _ _ _ _ _ (hks.refreshAll ch) (refreshAll_rel hk0 hks h) e
    | set k v =>
      simp only [applySets] at e
      cases hp : p[k]? with
      | none => rw [hp] at e; cases e
      | some d =>
        rw [hp] at e
        simp only at e
        by_cases hi : d.kind = .input
        · simp only [hi, ne_eq, not_true_eq_false, if_false] at e
          refine ih _ _ _ _ _ _ (hks.setInput hp hi v) ?_ e
          obtain ⟨he, hd, hw, hl, hnodes⟩ := h
          refine ⟨he, hd, hw, hl, ?_⟩
          intro x
          by_cases hx : x = k
          · subst hx
            right
            refine ⟨inputNode s v, by simp [setNode], ⟨Or.inl rfl, rfl, rfl⟩, he, ⟨d, hp, hi⟩,
              fun h => (by cases h), ?_⟩
            cases hsx : s.nodes x with
            | none =>
              left
              cases hnodes x with
              | inl h => rw [← h]; exact hsx
              | inr h => obtain ⟨n', hn', _⟩ := h; rw [hsx] at hn'; cases hn'
            | some n =>
              simp only
              by_cases hv : n.value = v
              · simp only [hv, not_true_eq_false, if_false]
                cases hnodes x with
                | inl h => right; right; exact ⟨n, by rw [← h]; exact hsx, hv⟩
                | inr h =>
                  obtain ⟨n', hn', _, _, _, _, h3⟩ := h
                  rw [hsx] at hn'; cases hn'
                  rcases h3 with h3 | h3 | ⟨n0, h0, hv0⟩
                  · exact Or.inl h3
                  · exact Or.inr (Or.inl (by simp [h3]))
                  · exact Or.inr (Or.inr ⟨n0, h0, by rw [hv0]; exact hv⟩)
              · right; left
                simp [hv]
          · cases hnodes x with
            | inl h => left; simp only [setNode, if_neg hx]; exact h
            | inr h =>
              right
              obtain ⟨n', hn', a1, a2, a4, a5, h3⟩ := h
              refine ⟨n', by simp only [setNode, if_neg hx]; exact hn', a1, a2, a4, a5, ?_⟩
              rcases h3 with h3 | h3 | h3
              · exact Or.inl h3
              · exact Or.inr (Or.inl (mem_ite_append _ h3))
              · exact Or.inr (Or.inr h3)
        · simp only [ne_eq, hi, not_false_eq_true, if_true] at e
          cases e

theorem refreshAll_io {p : Program} {s : St} (hk : KindsOK p s) (ch : List Key) :
    inputsOf (refreshAll p s ch).1 = inputsOf s ∧
      pinsOf (refreshAll p s ch).1 = refreshed p s.world (pinsOf s) := by
  refine ⟨?_, ?_⟩
  · funext x
    simp only [inputsOf, refreshAll, refreshNode]
    cases hx : s.nodes x with
    | none => rfl
    | some n =>
      obtain ⟨d, hp, _⟩ := hk x n hx
      rw [hp]
      simp only
      by_cases he : n.kind = .external
      · simp [he]
      · simp [he]
  · funext x
    simp only [pinsOf, refreshed, refreshAll, refreshNode]
    cases hx : s.nodes x with
    | none => rfl
    | some n =>
      obtain ⟨d, hp, _⟩ := hk x n hx
      rw [hp]
      simp only
      by_cases he : n.kind = .external
      · simp [he]
      · simp [he]

theorem applySets_io {p : Program} :
    ∀ (ws : List Write) (s : St) (rs : List SetRes) (ch : List Key)
      (s1 : St) (rs1 : List SetRes) (ch1 : List Key),
      KindsOK p s → applySets p ws s rs ch = .ok (s1, rs1, ch1) →
      inputsOf s1 = applyWrites ws (inputsOf s) ∧ rs1 = rs ++ writeResults ws (inputsOf s) ∧
        pinsOf s1 = applyRefresh p s.world ws (pinsOf s) := by
  intro ws
  induction ws with
  | nil =>
    intro s rs ch s1 rs1 ch1 _ e
    simp only [applySets] at e
    cases e; simp [applyWrites, writeResults, applyRefresh]
  | cons w rest ih =>
    intro s rs ch s1 rs1 ch1 hk e
    cases w with
    | world c v =>
      simp only [applySets] at e
      obtain ⟨h1, h2, h3⟩ := ih _ _ _ _ _ _ hk e
      refine ⟨h1, ?_, h3⟩
      rw [h2]; simp [writeResults]
    | refresh =>
      simp only [applySets] at e
      obtain ⟨h1, h2, h3⟩ := ih _ _ _ _ _ _ (hk.refreshAll ch) e
      obtain ⟨g1, g2⟩ := refreshAll_io hk ch
      rw [g1] at h1 h2
      rw [g2] at h3
      refine ⟨h1, ?_, h3⟩
      rw [h2]; simp [writeResults]
    | set k v =>
      simp only [applySets] at e
      cases hp : p[k]? with
      | none => rw [hp] at e; cases e
      | some d =>
        rw [hp] at e
        simp only at e
        by_cases hi : d.kind = .input
        · simp only [hi, ne_eq, not_true_eq_false, if_false] at e
          obtain ⟨h1, h2, h3⟩ := ih _ _ _ _ _ _ (hk.setInput hp hi v) e
          have hin : inputsOf (setNode s k (inputNode s v)) = fun x => if x = k then some v else inputsOf s x := by
            funext x
            simp only [inputsOf, setNode]
            by_cases hx : x = k
            · simp [hx, inputNode]
            · simp [hx]
          have hpin : pinsOf (setNode s k (inputNode s v)) = pinsOf s := by
            funext x
            simp only [pinsOf, setNode]
            by_cases hx : x = k
            · subst hx
              simp only [if_true]
              cases hsx : s.nodes x with
              | none => simp [inputNode]
              | some n =>
                obtain ⟨d', hp', hk', _⟩ := hk x n hsx
                rw [hp] at hp'; cases hp'
                have : ¬ n.kind = .external := by rw [← hk', hi]; decide
                simp [this, inputNode]
            · simp [hx]
          rw [hin] at h1 h2
          rw [hpin] at h3
          refine ⟨h1, ?_, h3⟩
          rw [h2]
          simp only [writeResults, List.append_assoc, List.singleton_append]
          congr 2
          cases hsk : s.nodes k with
          | none => simp [inputsOf, hsk]
          | some n =>
            obtain ⟨d', hp', hk', _⟩ := hk k n hsk
            rw [hp] at hp'; cases hp'
            simp [inputsOf, hsk, ← hk', hi]
        · simp only [ne_eq, hi, not_false_eq_true, if_true] at e
          cases e

theorem applySets_log (p : Program) :
    ∀ (ws : List Write) (s : St) (rs : List SetRes) (ch : List Key) (s1 : St) (rs1 : List SetRes)
      (ch1 : List Key), Write.refresh ∉ ws → applySets p ws s rs ch = .ok (s1, rs1, ch1) →
      s1.log = s.log := by
  intro ws
  induction ws with
  | nil => intro s rs ch s1 rs1 ch1 _ e; simp only [applySets] at e; cases e; rfl
  | cons w rest ih =>
    intro s rs ch s1 rs1 ch1 hnr e
    have hnr' : Write.refresh ∉ rest := fun h => hnr (List.mem_cons_of_mem _ h)
    cases w with
    | world c v => simp only [applySets] at e; exact ih _ _ _ _ _ _ hnr' e
    | refresh => exact absurd (List.mem_cons_self ..) hnr
    | set k v =>
      simp only [applySets] at e
      cases hp : p[k]? with
      | none => rw [hp] at e; cases e
      | some d =>
        rw [hp] at e
        simp only at e
        split at e
        · cases e
        · have := ih _ _ _ _ _ _ hnr' e; exact this

theorem applySets_not_oof (p : Program) :
    ∀ (ws : List Write) (s : St) (rs : List SetRes) (ch : List Key),
      applySets p ws s rs ch ≠ .error .outOfFuel := by
  intro ws
  induction ws with
  | nil => intro s rs ch h; simp [applySets] at h
  | cons w rest ih =>
    intro s rs ch
    cases w with
    | world c v => simp only [applySets]; exact ih _ _ _
    | refresh => simp only [applySets]; exact ih _ _ _
    | set k v =>
      simp only [applySets]
      cases p[k]? with
      | none => simp
      | some d =>
        simp only
        split
        · simp
        · exact ih _ _ _

end Qbice.CoreFw
