/-
Lemmas about the core engine model, part 5: rounds, histories, and the facts about the execution
log used by C03.
-/
import QbiceVerif.Lemmas.EngineCore4
namespace Qbice.Core

-- ------------------------------------------------------------------ histories

inductive Op where
  | sess (sets : List (Key × Val))
  | round (ks : List Key)

inductive OpOut where
  | sess (rs : List SetRes)
  | round (vs : List Val)
  deriving DecidableEq, Repr

/-- a history driven the way the correspondence driver drives the model: every operation starts
    with an empty execution log, rounds use `fuelFor p` -/
def runOps (p : Program) : List Op → St → Except Err (List OpOut × St)
  | [], s => .ok ([], s)
  | .sess sets :: rest, s =>
    match session p sets { s with log := [] } with
    | .error e => .error e
    | .ok (rs, s1) =>
      match runOps p rest s1 with
      | .error e => .error e
      | .ok (outs, s2) => .ok (.sess rs :: outs, s2)
  | .round ks :: rest, s =>
    match round p (fuelFor p) ks { s with log := [] } with
    | .error e => .error e
    | .ok (vs, s1) =>
      match runOps p rest s1 with
      | .error e => .error e
      | .ok (outs, s2) => .ok (.round vs :: outs, s2)

/-- the outputs of a history are those of the from-scratch reference on the inputs `i` -/
def OutOK (p : Program) : List Op → List OpOut → (Key → Option Val) → Prop
  | [], [], _ => True
  | .sess sets :: ops, .sess rs :: outs, i =>
    rs = writeResults sets i ∧ OutOK p ops outs (applyWrites sets i)
  | .round ks :: ops, .round vs :: outs, i =>
    vs.map some = ks.map (fun k => evalSpec p i (k + 1) k) ∧ OutOK p ops outs i
  | _, _, _ => False

theorem Inv.setLog {p : Program} {s : St} (inv : Inv p s) (l : List Key) :
    Inv p { s with log := l } := by
  have sh : ∀ x, Settled s x → Settled { s with log := l } x := fun x hx =>
    hx.transfer (fun y n _ h => ⟨n, h, rfl, rfl⟩) (fun y d _ h => h)
  refine ⟨inv.kind, inv.down, inv.nodup, inv.trace, inv.stamp, inv.verified_clean, ?_⟩
  intro k n hk d o hm hcl
  obtain ⟨h1, h2⟩ := inv.clean_settled k n hk d o hm hcl
  exact ⟨h1, sh d h2⟩

theorem Inv.init (p : Program) : Inv p {} := by
  refine ⟨?_, ?_, ?_, ?_, ?_, ?_, ?_⟩
  · intro k n h; cases h
  · intro k n h; cases h
  · intro k n h; cases h
  · intro k n d h; cases h
  · intro k n h; cases h
  · intro k n h; cases h
  · intro k n h; cases h

theorem query_badKey {p : Program} {s : St} (inv : Inv p s) {k : Key} (hk : p.length ≤ k) (f : Nat) :
    query p (f + 1) k s = .error (.badKey k) := by
  have hp : p[k]? = none := List.getElem?_eq_none hk
  have hn : s.nodes k = none := by
    cases h : s.nodes k with
    | none => rfl
    | some n => obtain ⟨d, hd, _⟩ := inv.kind k n h; rw [hp] at hd; cases hd
  simp [query, hn, hp]

theorem roundAux_spec {p : Program} (wf : WF p) {fuel : Nat} (hf : p.length < fuel) :
    ∀ (ks : List Key) (cache : List (Key × Val)) (out : List Val) (s : St), Inv p s →
      (∀ e, e ∈ cache → cur p s e.1 = some e.2) →
      Sat (roundAux p fuel ks cache out s) (fun r =>
        (∃ vs', r.1 = out ++ vs' ∧ vs'.map some = ks.map (cur p s)) ∧ Inv p r.2 ∧ Frame p s r.2) := by
  intro ks
  induction ks with
  | nil =>
    intro cache out s inv _
    simp only [roundAux]
    exact ⟨⟨[], by simp⟩, inv, Frame.refl p s⟩
  | cons k rest ih =>
    intro cache out s inv hc
    simp only [roundAux]
    cases hfind : cache.find? (fun e => e.1 == k) with
    | some e =>
      simp only
      have hm := List.mem_of_find?_eq_some hfind
      have hk : e.1 = k := by simpa using List.find?_some hfind
      refine (ih cache (out ++ [e.2]) s inv hc).mono ?_
      rintro ⟨vs, s'⟩ ⟨⟨vs', h1, h2⟩, i', f'⟩
      simp only at h1
      refine ⟨⟨e.2 :: vs', by simp [h1], ?_⟩, i', f'⟩
      simp only [List.map_cons, h2, ← hk, hc e hm]
    | none =>
      simp only
      by_cases hk : k < p.length
      · have hq := query_spec wf fuel k (by komega) s inv
        cases hr : query p fuel k s with
        | error e => rw [hr] at hq; simpa [Sat] using hq
        | ok r =>
          obtain ⟨v, s1⟩ := r
          rw [hr] at hq
          obtain ⟨i1, f1, _, c1, _⟩ := hq
          simp only at i1 f1 c1 ⊢
          have hc1 : ∀ e, e ∈ cache ++ [(k, v)] → cur p s1 e.1 = some e.2 := by
            intro e he
            rw [cur_congr f1.inputs]
            rw [List.mem_append, List.mem_singleton] at he
            cases he with
            | inl he => exact hc e he
            | inr he => subst he; exact c1
          refine (ih (cache ++ [(k, v)]) (out ++ [v]) s1 i1 hc1).mono ?_
          rintro ⟨vs, s'⟩ ⟨⟨vs', h1, h2⟩, i', f'⟩
          simp only at h1
          refine ⟨⟨v :: vs', by simp [h1], ?_⟩, i', f1.trans f'⟩
          simp only [List.map_cons, h2, c1, cur_congr f1.inputs]
      · obtain ⟨f, rfl⟩ : ∃ f, fuel = f + 1 := ⟨fuel - 1, by omega⟩
        rw [query_badKey inv (by komega) f]
        simp [Sat]

theorem round_spec {p : Program} (wf : WF p) {s : St} (inv : Inv p s) (ks : List Key) :
    Sat (round p (fuelFor p) ks s) (fun r =>
      r.1.map some = ks.map (cur p s) ∧ Inv p r.2 ∧ Frame p s r.2) := by
  refine (roundAux_spec wf (fuel := fuelFor p) (by simp [fuelFor]) ks [] [] s inv
    (fun _ h => by cases h)).mono ?_
  rintro ⟨vs, s'⟩ ⟨⟨vs', h1, h2⟩, i', f'⟩
  simp only [List.nil_append] at h1
  subst h1
  exact ⟨h2, i', f'⟩

theorem applySets_not_oof (p : Program) :
    ∀ (sets : List (Key × Val)) (s : St) (rs : List SetRes) (ch : List Key),
      applySets p sets s rs ch ≠ .error .outOfFuel := by
  intro sets
  induction sets with
  | nil => intro s rs ch h; simp [applySets] at h
  | cons w rest ih =>
    intro s rs ch
    obtain ⟨k, v⟩ := w
    simp only [applySets]
    cases p[k]? with
    | none => simp
    | some d =>
      simp only
      cases d.isInput with
      | false => simp
      | true => simp only [Bool.not_true, Bool.false_eq_true, if_false]; exact ih _ _ _

theorem runOps_spec {p : Program} (wf : WF p) :
    ∀ (ops : List Op) (s : St), Inv p s →
      Sat (runOps p ops s) (fun r => OutOK p ops r.1 (inputsOf s) ∧ Inv p r.2) := by
  intro ops
  induction ops with
  | nil => intro s inv; exact ⟨trivial, inv⟩
  | cons op rest ih =>
    intro s inv
    cases op with
    | sess sets =>
      simp only [runOps]
      cases hs : session p sets { s with log := [] } with
      | error e =>
        simp only [Sat]
        intro he; subst he
        rw [session_eq] at hs
        -- `applySets` never runs out of fuel
        cases ha : applySets p sets { { s with log := [] } with epoch := s.epoch + 1 } [] [] with
        | error e' =>
          rw [ha] at hs
          simp only at hs
          cases hs
          exact absurd ha (applySets_not_oof _ _ _ _ _)
        | ok r => rw [ha] at hs; obtain ⟨_, _, _⟩ := r; cases hs
      | ok r =>
        obtain ⟨rs, s1⟩ := r
        obtain ⟨i1, h1, h2, _, _⟩ := session_spec (inv.setLog []) hs
        simp only
        have hrest := ih s1 i1
        cases hr : runOps p rest s1 with
        | error e => rw [hr] at hrest; simpa [Sat] using hrest
        | ok r2 =>
          obtain ⟨outs, s2⟩ := r2
          rw [hr] at hrest
          obtain ⟨o2, i2⟩ := hrest
          refine ⟨⟨h1, ?_⟩, i2⟩
          have : inputsOf s1 = applyWrites sets (inputsOf s) := h2
          rw [← this]; exact o2
    | round ks =>
      simp only [runOps]
      have hrd := round_spec wf (inv.setLog []) ks
      cases hs : round p (fuelFor p) ks { s with log := [] } with
      | error e => rw [hs] at hrd; simpa [Sat] using hrd
      | ok r =>
        obtain ⟨vs, s1⟩ := r
        rw [hs] at hrd
        obtain ⟨h1, i1, f1⟩ := hrd
        simp only at h1 i1 f1 ⊢
        have hrest := ih s1 i1
        cases hr : runOps p rest s1 with
        | error e => rw [hr] at hrest; simpa [Sat] using hrest
        | ok r2 =>
          obtain ⟨outs, s2⟩ := r2
          rw [hr] at hrest
          obtain ⟨o2, i2⟩ := hrest
          refine ⟨⟨h1, ?_⟩, i2⟩
          have : inputsOf s1 = inputsOf s := f1.inputs
          rw [← this]; exact o2

end Qbice.Core
