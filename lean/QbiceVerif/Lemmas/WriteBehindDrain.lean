import QbiceVerif.Lemmas.WriteBehindAll

/-! Shutdown (drain), crash and quiescence facts of the write-behind model. -/

namespace QbiceVerif.WB

/-- When all serializers have exited nothing is left before the commit channel. -/
theorem serQ_empty_of_allExited {nSer : Nat} {s : State} (h : AllInv nSer s)
    (hx : allExited s.sers = true) : s.serQ = [] := by
  cases hs : s.sers with
  | nil => exact h.a.nosers hs
  | cons x xs =>
    have hxe : x = .exited := by
      rw [allExited_iff] at hx
      exact hx x (by rw [hs]; exact List.mem_cons_self)
    exact (h.b x (by rw [hs]; exact List.mem_cons_self) hxe).1

/-- In the final phase of the commit worker everything still pending sits in the hold-back heap. -/
theorem pending_eq_heap_of_final {nSer : Nat} {s : State} (h : AllInv nSer s) (hf : s.final = true) :
    s.pending = s.heap := by
  obtain ⟨hx, hq⟩ := h.c hf
  simp [State.pending, serQ_empty_of_allExited h hx, heldAll_of_allExited hx, hq]

/-- State of the pipeline when `Drop for WriteBehind` has returned. -/
theorem returned_facts {nSer : Nat} {s : State} (h : AllInv nSer s) (hd : s.dpc = .returned) :
    s.pending = [] ∧ s.cur = [] ∧ s.cpc = .done ∧ s.aExited = true := by
  have hdone : s.cpc = .done := h.g.joinC (by simp [hd, DPc.commitJoined])
  have hfin : s.final = true := h.d.late_final (by simp [hdone, CPc.late])
  refine ⟨?_, h.d.cur_empty (by simp [hdone, CPc.curEmpty]), hdone, h.g.joinA hd⟩
  rw [pending_eq_heap_of_final h hfin]
  exact h.f hdone

theorem returned_applied {nSer : Nat} {s : State} (h : AllInv nSer s) (hd : s.dpc = .returned) :
    (s.applied.map Task.core).Perm (s.submitted.map Task.core) := by
  obtain ⟨hp, hc, _, _⟩ := returned_facts h hd
  have := h.inv.conserve
  simpa [State.places, State.consumed, hp, hc, State.applied] using this

theorem perm_range_of_nodup_lt {l : List Nat} {n : Nat} (hn : l.Nodup) (hlt : ∀ x ∈ l, x < n)
    (hall : ∀ e, e < n → e ∈ l) : l.Perm (List.range n) := by
  rw [List.perm_ext_iff_of_nodup hn List.nodup_range]
  intro a
  simp only [List.mem_range]
  exact ⟨hlt a, hall a⟩

/-- If every created batch was submitted, then after the drop the applied epochs are exactly
`0 … counter-1`. -/
theorem returned_all {nSer : Nat} {s : State} (h : AllInv nSer s) (hd : s.dpc = .returned)
    (hall : ∀ e, e < s.counter → e ∈ s.submitted.map Task.epoch) :
    s.applied.map Task.epoch = List.range s.counter := by
  have h1 := (returned_applied h hd).map Prod.fst
  simp only [List.map_map] at h1
  have e : (Prod.fst ∘ Task.core) = Task.epoch := rfl
  rw [e] at h1
  have h2 : (s.submitted.map Task.epoch).Perm (List.range s.counter) :=
    perm_range_of_nodup_lt h.inv.sub_nodup
      (fun x hx => by
        obtain ⟨t, ht, rfl⟩ := List.mem_map.mp hx
        exact h.inv.sub_lt t ht) hall
  have hlen : s.applied.length = s.counter := by
    have := (h1.trans h2).length_eq
    simpa using this
  rw [applied_epochs h, hlen]

/-! ### Crash -/

/-- The only ways to abort: no serializer at all, or a created batch that was never submitted
(with a later one submitted) at shutdown. -/
def CrashInv (s : State) : Prop :=
  s.crashed = true → s.sers = [] ∨ ∃ e, e < s.counter ∧ e ∉ s.submitted.map Task.epoch

theorem crashInv_step {nSer : Nat} (s : State) (ev : Event) (s' : State) (h : AllInv nSer s)
    (hst : Step s ev s') : CrashInv s' := by
  unfold CrashInv
  cases hst
  case submitCrash e ops hc hd he hn hk h0 => intro _; exact .inl h0
  case cAssertCrash hc hp hh =>
    intro _
    right
    refine ⟨s.expected, ?_, ?_⟩
    · -- some held-back batch has a larger epoch, and it was created
      obtain ⟨t, ht⟩ := List.exists_mem_of_ne_nil _ hh
      have h1 := h.e (by simp [hp, CPc.broke]) t ht
      have h2 := h.inv.heap_ge t ht
      have hpl : t ∈ s.places := by simp [State.places, State.pending, ht]
      obtain ⟨t', ht', he, _⟩ := h.inv.core_mem hpl
      have := h.inv.sub_lt t' ht'
      simp only; omega
    · intro hmem
      simp only at hmem
      have hfin : s.final = true := h.d.late_final (by simp [hp, CPc.late])
      have hpe := pending_eq_heap_of_final h hfin
      have h1 := (h.inv.conserve.map Prod.fst)
      simp only [List.map_map] at h1
      have e : (Prod.fst ∘ Task.core) = Task.epoch := rfl
      rw [e] at h1
      have h2 := h1.mem_iff.mpr hmem
      simp only [State.places, List.map_append, List.mem_append, hpe, h.inv.order, List.mem_range,
        Nat.lt_irrefl, or_false] at h2
      obtain ⟨t, ht, hte⟩ := List.mem_map.mp h2
      exact h.e (by simp [hp, CPc.broke]) t ht hte
  all_goals (intro hcr; simp_all)

theorem reachable_crashInv {nSer : Nat} : ∀ s, Reachable nSer s → CrashInv s := by
  apply reachable_step_induction
  · simp [CrashInv, init]
  · intro s ev s' hr _ hst
    exact crashInv_step s ev s' (reachable_allInv s hr) hst


/-! ### Quiescence -/

/-- No step of the pipeline itself is enabled: only the user (create / submit / drop) can move. -/
def Quiescent (s : State) : Prop := ∀ ev, ev.internal = true → step s ev = none

theorem all_idle_of_quiescent {nSer : Nat} {s : State} (h : AllInv nSer s)
    (hd : s.dpc = .running) (hc : s.crashed = false) (hq : Quiescent s) :
    ∀ x ∈ s.sers, x = .idle := by
  intro x hx
  obtain ⟨w, hw, hwx⟩ := List.getElem_of_mem hx
  have hw' : s.sers[w]? = some x := by rw [List.getElem?_eq_getElem hw, hwx]
  cases x with
  | idle => rfl
  | raw t =>
    have := hq (.serSerialise w t.ops) rfl
    have hperm : t.ops.isPerm t.ops = true := List.isPerm_iff.mpr (List.Perm.refl _)
    simp [step, hc, hw', hperm] at this
  | done t =>
    have := hq (.serSend w) rfl
    simp [step, hc, hw'] at this
  | exited =>
    have h1 := (h.b _ hx rfl).2
    rw [h.a.closed_iff, hd] at h1
    simp [DPc.closed] at h1

theorem quiescent_facts {nSer : Nat} {s : State} (h : AllInv nSer s) (hn : 0 < nSer)
    (hd : s.dpc = .running) (hc : s.crashed = false) (hq : Quiescent s) :
    s.serQ = [] ∧ heldAll s.sers = [] ∧ s.commitQ = [] ∧ s.cpc = .wait ∧
      ∀ t ∈ s.heap, s.expected < t.epoch := by
  have hidle := all_idle_of_quiescent h hd hc hq
  have hlen := h.a.len
  have h0 : s.sers[0]? = some .idle := by
    have hl : 0 < s.sers.length := by omega
    rw [List.getElem?_eq_getElem hl]
    exact congrArg some (hidle _ (List.getElem_mem hl))
  have hserQ : s.serQ = [] := by
    cases hs : s.serQ with
    | nil => rfl
    | cons t q =>
      have := hq (.serTake 0) rfl
      simp [step, hc, h0, hs] at this
  have hheld : heldAll s.sers = [] := by
    have : ∀ l : List SerSt, (∀ x ∈ l, x = .idle) → heldAll l = [] := by
      intro l hl
      induction l with
      | nil => rfl
      | cons x xs ih =>
        rw [heldAll_cons, ih (fun y hy => hl y (List.mem_cons_of_mem _ hy)), hl x List.mem_cons_self]
        rfl
    exact this _ hidle
  have hnotall : allExited s.sers = false := by
    cases hs : s.sers with
    | nil => rw [hs] at hlen; simp at hlen; omega
    | cons x xs =>
      have : x = .idle := hidle x (by rw [hs]; exact List.mem_cons_self)
      subst this
      simp [allExited]
  have hpc : s.cpc = .wait := by
    cases hp : s.cpc with
    | wait => rfl
    | loop =>
      cases hm : heapMin s.heap with
      | none =>
        have := hq .cBreak rfl
        simp [step, hc, hp, hm] at this
      | some t =>
        by_cases he : t.epoch = s.expected
        · have := hq .cPop rfl
          simp [step, hc, hp, hm, he] at this
        · have := hq .cBreak rfl
          simp [step, hc, hp, hm, he] at this
    | decide =>
      have := hq (.cDecide true) rfl
      simp [step, hc, hp] at this
    | commit =>
      have := hq .cCommit rfl
      simp [step, hc, hp] at this
    | notify r =>
      have := hq .cNotify rfl
      cases r <;> simp [step, hc, hp] at this
      split at this <;> simp at this
    | lastCommit =>
      have := hq .cCommit rfl
      simp [step, hc, hp] at this
    | lastNotify r =>
      have := hq .cNotify rfl
      cases r <;> simp [step, hc, hp] at this
      split at this <;> simp at this
    | assert =>
      have := hq .cAssert rfl
      simp [step, hc, hp] at this
      split at this <;> simp at this
    | done =>
      have hf := h.d.late_final (by simp [hp, CPc.late])
      have := (h.c hf).1
      rw [hnotall] at this
      cases this
  have hcq : s.commitQ = [] := by
    cases hs : s.commitQ with
    | nil => rfl
    | cons t q =>
      have := hq .cRecv rfl
      simp [step, hc, hpc, hs] at this
  refine ⟨hserQ, hheld, hcq, hpc, ?_⟩
  intro t ht
  have h1 := h.e (by simp [hpc, CPc.broke]) t ht
  have h2 := h.inv.heap_ge t ht
  omega

theorem epochs_perm {s : State} (hi : Inv s) :
    (s.places.map Task.epoch).Perm (s.submitted.map Task.epoch) := by
  have h1 := hi.conserve.map Prod.fst
  simp only [List.map_map] at h1
  have e : (Prod.fst ∘ Task.core) = Task.epoch := rfl
  rwa [e] at h1

/-- At rest (before shutdown): the consumed epochs are `0 … expected-1`, the epoch `expected` was
never submitted, and the hold-back heap holds exactly the submitted epochs above it. -/
theorem quiescent_split {nSer : Nat} {s : State} (h : AllInv nSer s) (hn : 0 < nSer)
    (hd : s.dpc = .running) (hc : s.crashed = false) (hq : Quiescent s) :
    s.expected ∉ s.submitted.map Task.epoch ∧
    (∀ e, e ∈ s.heap.map Task.epoch ↔ (e ∈ s.submitted.map Task.epoch ∧ s.expected < e)) ∧
    (∀ e, e ∈ s.consumed.map Task.epoch ↔ e < s.expected) := by
  obtain ⟨h1, h2, h3, _, h5⟩ := quiescent_facts h hn hd hc hq
  have hp := epochs_perm h.inv
  have hmem : ∀ e, e ∈ s.submitted.map Task.epoch ↔ (e ∈ s.heap.map Task.epoch ∨ e < s.expected) := by
    intro e
    rw [← hp.mem_iff]
    simp only [State.places, State.pending, h1, h2, h3, List.nil_append, List.append_nil, List.map_append,
      List.mem_append, h.inv.order, List.mem_range]
  have hgt : ∀ e, e ∈ s.heap.map Task.epoch → s.expected < e := by
    intro e he
    obtain ⟨t, ht, rfl⟩ := List.mem_map.mp he
    exact h5 t ht
  refine ⟨?_, ?_, ?_⟩
  · intro hm
    rcases (hmem _).mp hm with hm | hm
    · exact Nat.lt_irrefl _ (hgt _ hm)
    · exact Nat.lt_irrefl _ hm
  · intro e
    constructor
    · intro he
      exact ⟨(hmem e).mpr (.inl he), hgt e he⟩
    · rintro ⟨he, hlt⟩
      rcases (hmem e).mp he with he | he
      · exact he
      · omega
  · intro e
    rw [h.inv.order, List.mem_range]

end QbiceVerif.WB
