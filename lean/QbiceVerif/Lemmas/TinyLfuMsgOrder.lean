/-
Property C16, concurrency: the order of the policy messages of ONE key.

`OccupiedEntry::remove` pushes `WriteMessage::Removed(key)` and `VacantEntry::insert` pushes
`WriteMessage::Insert(key)` while the caller holds the entry, i.e. the bucket lock of `scc::HashMap` for that key
(`entry_sync`).  The LTS below has any number of threads operating on one key:

* `ins`    — `entry(k)`: Vacant → `insert`: the storage gets the key, `Insert` is pushed (under the lock);
* `rem`    — `entry(k)`: Occupied → `remove`: the storage loses the key; `Removed` is pushed under the lock
             (`late = false`, the code as it is) or is only *pending* when the lock is released (`late = true`:
             the seeded variant `/verif/seeded/C16-removed-message-after-unlock`, `remove_entry()` first, push after);
* `push i` — the thread holding the `i`-th pending message pushes it (any time later, in any order);
* `drain`  — the maintenance pass consumes the oldest buffered message (`Insert` → the policy tracks the key,
             `Removed` → it forgets it).

A thread is nothing but a possibly pending push, so "any number of threads" = any number of pending messages; the
bucket lock is modelled as: `ins` and `rem` (storage access + push under the lock) are single steps.
(MODELLED, not verified: that `scc::HashMap::entry_sync` gives mutual exclusion per key.)
Eviction by the policy is not part of this LTS (it goes through `remove_closure`, atomically, and removes the
storage entry and the tracking together).
-/
namespace QbiceVerif.TinyLfu.MsgOrder

inductive Msg | ins | rem
  deriving DecidableEq, Repr

inductive Ev
  | ins
  | rem
  | push (i : Nat)
  | drain
  deriving DecidableEq, Repr

structure St where
  /-- the storage holds the key -/
  resident : Bool := false
  /-- the write buffer (FIFO, oldest first) -/
  buf : List Msg := []
  /-- the policy tracks the key -/
  tracked : Bool := false
  /-- messages whose push is still to come (their threads have released the bucket lock) -/
  pend : List Msg := []
  /-- GHOST: the storage operations on the key, in the order they happened -/
  ops : List Msg := []
  /-- GHOST: every message ever pushed, in the order of the pushes -/
  msgs : List Msg := []
  deriving DecidableEq, Repr

def Msg.tracks : Msg → Bool
  | .ins => true
  | .rem => false

def step (late : Bool) (s : St) : Ev → St
  | .ins =>
    if s.resident then s
    else { s with resident := true, buf := s.buf ++ [.ins], ops := s.ops ++ [.ins], msgs := s.msgs ++ [.ins] }
  | .rem =>
    if !s.resident then s
    else if late then { s with resident := false, pend := s.pend ++ [.rem], ops := s.ops ++ [.rem] }
    else { s with resident := false, buf := s.buf ++ [.rem], ops := s.ops ++ [.rem], msgs := s.msgs ++ [.rem] }
  | .push i =>
    match s.pend[i]? with
    | some m => { s with buf := s.buf ++ [m], msgs := s.msgs ++ [m], pend := s.pend.eraseIdx i }
    | none => s
  | .drain =>
    match s.buf with
    | [] => s
    | m :: b => { s with buf := b, tracked := m.tracks }

def run (late : Bool) (s : St) (evs : List Ev) : St := evs.foldl (step late) s

/-- what the policy will say once the buffer is drained: the last buffered message decides, else the present state -/
def willTrack (s : St) : Bool :=
  match s.buf.getLast? with
  | some m => m.tracks
  | none => s.tracked

/-- the invariant of the locked variant -/
structure Inv (s : St) : Prop where
  nopend : s.pend = []
  order : s.msgs = s.ops
  will : willTrack s = s.resident

theorem step_inv {s : St} (ev : Ev) (h : Inv s) : Inv (step false s ev) := by
  obtain ⟨hp, ho, hw⟩ := h
  cases ev with
  | ins =>
    simp only [step]
    split
    · exact ⟨hp, ho, hw⟩
    · exact ⟨hp, by simp [ho], by simp [willTrack, Msg.tracks]⟩
  | rem =>
    simp only [step]
    split
    · exact ⟨hp, ho, hw⟩
    · simp only [Bool.false_eq_true, ↓reduceIte]
      exact ⟨hp, by simp [ho], by simp [willTrack, Msg.tracks]⟩
  | push i =>
    simp only [step, hp]
    simp
    exact ⟨hp, ho, hw⟩
  | drain =>
    simp only [step]
    split
    · exact ⟨hp, ho, hw⟩
    · rename_i m b hb
      refine ⟨hp, ho, ?_⟩
      simp only [willTrack, hb] at hw ⊢
      cases b with
      | nil => simpa using hw
      | cons m' b' =>
        rw [List.getLast?_cons_cons] at hw
        cases hl : (m' :: b').getLast? with
        | none => simp at hl
        | some x => rw [hl] at hw; simpa using hw

theorem run_inv {s : St} (evs : List Ev) (h : Inv s) : Inv (run false s evs) := by
  induction evs generalizing s with
  | nil => exact h
  | cons e es ih => exact ih (step_inv e h)

theorem init_inv : Inv {} := ⟨rfl, rfl, rfl⟩

/-- The seeded variant's schedule: the key is inserted and tracked; thread A removes it (storage entry gone, bucket
lock released, `Removed` not pushed yet); thread B finds it vacant and inserts it again (`Insert` pushed under the
lock); A pushes its `Removed`; the maintenance pass drains `[Insert, Removed]`. -/
def lateWitness : List Ev := [.ins, .drain, .rem, .ins, .push 0, .drain, .drain]

end QbiceVerif.TinyLfu.MsgOrder
