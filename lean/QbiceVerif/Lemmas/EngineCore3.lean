/-
Lemmas about the core engine model, part 3: `runProg`, `execute`, and the main induction for `query`.
-/
import QbiceVerif.Lemmas.EngineCore2
namespace Qbice.Core

/-- what is known about the dependencies recorded so far by the running executor of `k` -/
def AccOK (p : Program) (k : Key) (s : St) (acc : List (Key × Val)) : Prop :=
  (acc.map (·.1)).Nodup ∧
    ∀ d o, (d, o) ∈ acc →
      d < k ∧ cur p s d = some o ∧ (∃ nd, s.nodes d = some nd ∧ nd.value = o) ∧ Settled s d

theorem AccOK.frame {p : Program} {k : Key} {s s' : St} {acc : List (Key × Val)}
    (h : AccOK p k s acc) (f : Frame p s s') : AccOK p k s' acc := by
  refine ⟨h.1, ?_⟩
  intro d o hm
  obtain ⟨h1, h2, ⟨nd, hnd, hv⟩, h4⟩ := h.2 d o hm
  obtain ⟨nd', hnd', hv', _⟩ := f.keep d nd h4 hnd
  exact ⟨h1, by rw [cur_congr f.inputs]; exact h2, ⟨nd', hnd', by rw [hv', hv]⟩, f.settled h4⟩

theorem recordDep_spec {p : Program} {k : Key} {s : St} {acc : List (Key × Val)} {d : Key} {v : Val}
    (h : AccOK p k s acc) (hd : d < k) (hc : cur p s d = some v)
    (hn : ∃ nd, s.nodes d = some nd ∧ nd.value = v) (hs : Settled s d) :
    AccOK p k s (recordDep acc d v) ∧ (d, v) ∈ recordDep acc d v ∧
      ∀ e, e ∈ acc → e ∈ recordDep acc d v := by
  unfold recordDep
  split
  · rename_i hany
    obtain ⟨o, hm⟩ := (any_key_iff acc d).1 hany
    have := (h.2 d o hm).2.1
    rw [hc] at this; cases this
    exact ⟨h, hm, fun _ he => he⟩
  · rename_i hany
    have hnot : ∀ o, (d, o) ∉ acc := fun o hm => hany ((any_key_iff acc d).2 ⟨o, hm⟩)
    refine ⟨⟨?_, ?_⟩, by simp, fun e he => by simp [he]⟩
    · rw [List.map_append, List.nodup_append]
      refine ⟨h.1, by simp, ?_⟩
      intro a ha b hb hab
      simp only [List.map_cons, List.map_nil, List.mem_singleton] at hb
      subst hb; subst hab
      rw [List.mem_map] at ha
      obtain ⟨⟨a1, a2⟩, hm, rfl⟩ := ha
      exact hnot a2 hm
    · intro d' o' hm
      rw [List.mem_append, List.mem_singleton] at hm
      cases hm with
      | inl hm => exact h.2 d' o' hm
      | inr e => cases e; exact ⟨hd, hc, hn, hs⟩

theorem runProg_spec {p : Program} {q : Q} {k : Key} (hq : QSpec p q k) :
    ∀ (prog : Prog) (acc : List (Key × Val)) (s : St), prog.Below k → Inv p s → AccOK p k s acc →
      Sat (runProg q prog acc s) (fun r =>
        Inv p r.2.2 ∧ Frame p s r.2.2 ∧ Touches k s r.2.2 ∧ AccOK p k r.2.2 r.2.1 ∧
        (∀ e, e ∈ acc → e ∈ r.2.1) ∧ TraceOK prog r.2.1 r.1) := by
  intro prog
  induction prog with
  | ret v =>
    intro acc s _ inv hacc
    simp only [runProg]
    exact ⟨inv, Frame.refl p s, Touches.refl _ s, hacc, fun _ h => h, fun _ _ => rfl⟩
  | ask d cont ih =>
    intro acc s hb inv hacc
    obtain ⟨hd, hc⟩ := hb
    have hqd := hq d hd s inv
    simp only [runProg]
    cases hr : q d s with
    | error e => rw [hr] at hqd; simpa [Sat] using hqd
    | ok r =>
      obtain ⟨v, s1⟩ := r
      rw [hr] at hqd
      obtain ⟨i1, f1, t1, c1, nd, hnd, hvd, hver⟩ := hqd
      simp only at i1 f1 t1 c1 hnd hvd hver ⊢
      have hacc1 := hacc.frame f1
      obtain ⟨hacc2, hmem, hsub⟩ := recordDep_spec hacc1 hd (by rw [cur_congr f1.inputs]; exact c1)
        ⟨nd, hnd, hvd⟩ (verified_settled i1 hnd hver)
      refine (ih v (recordDep acc d v) s1 (hc v) i1 hacc2).mono ?_
      rintro ⟨v', deps, s2⟩ ⟨i2, f2, t2, a2, sub2, tr2⟩
      refine ⟨i2, f1.trans f2, (t1.mono (by komega)).trans t2, a2, fun e he => sub2 e (hsub e he), ?_⟩
      intro rec hrec
      simp only [evalProg, hrec d v (sub2 _ hmem)]
      exact tr2 rec hrec

theorem execute_spec {p : Program} (wf : WF p) {q : Q} {k : Key} (hq : QSpec p q k) {d : NodeDef}
    (hp : p[k]? = some d) (hi : d.isInput = false) {s : St} (inv : Inv p s) (hj : Just p s k) :
    Sat (execute q k d.prog s) (QPost p k s) := by
  have hrun := runProg_spec hq d.prog [] s (wf k d hp hi) inv ⟨by simp, fun _ _ h => by cases h⟩
  unfold execute
  cases hr : runProg q d.prog [] s with
  | error e => rw [hr] at hrun; simpa [Sat] using hrun
  | ok r =>
    obtain ⟨v, deps, s1⟩ := r
    rw [hr] at hrun
    obtain ⟨i1, f1, t1, a1, _, tr⟩ := hrun
    simp only at i1 f1 t1 a1 tr ⊢
    -- `k` is not settled in `s1`
    have hk1 : s1.nodes k = s.nodes k := (t1 k (Nat.le_refl _)).1
    have hj1 : Just p s1 k := by
      obtain ⟨hnv, h⟩ := hj
      refine ⟨?_, ?_⟩
      · rintro ⟨n, hn, hv⟩
        exact hnv ⟨n, by rw [← hk1]; exact hn, by rw [hv, f1.epoch]⟩
      · rw [hk1, cur_congr f1.inputs]; exact h
    have hns : ¬ Settled s1 k := just_not_settled wf i1 hj1
    -- the new state
    let nn : Node := { isInput := false, lastVerified := s1.epoch, value := v, deps := deps }
    let s3 : St := { setNode (clearDirtyFrom s1 k) k nn with log := s1.log ++ [k] }
    have hs3 : ({ setNode (clearDirtyFrom s1 k) k
          { isInput := false, lastVerified := (clearDirtyFrom s1 k).epoch, value := v, deps := deps } with
          log := (setNode (clearDirtyFrom s1 k) k
            { isInput := false, lastVerified := (clearDirtyFrom s1 k).epoch, value := v, deps := deps }).log ++ [k] } : St)
        = s3 := rfl
    rw [hs3]
    have n3k : s3.nodes k = some nn := by simp [s3, setNode]
    have n3o : ∀ x, x ≠ k → s3.nodes x = s1.nodes x := by
      intro x hx; simp [s3, setNode, clearDirtyFrom, hx]
    have d3k : ∀ y, s3.dirty k y = false := by
      intro y; simp [s3, setNode, clearDirtyFrom]
    have d3o : ∀ x y, x ≠ k → s3.dirty x y = s1.dirty x y := by
      intro x y hx; simp [s3, setNode, clearDirtyFrom, hx]
    have e3 : s3.epoch = s1.epoch := rfl
    have sh : ∀ x, Settled s1 x → Settled s3 x := by
      intro x hx
      apply hx.transfer
      · intro y ny hy hny
        have : y ≠ k := fun e => hns (e ▸ hy)
        exact ⟨ny, by rw [n3o y this]; exact hny, rfl, rfl⟩
      · intro y dd hy hdd
        have : y ≠ k := fun e => hns (e ▸ hy)
        rw [d3o y dd this] at hdd; exact hdd
    have nodeK : ∀ n0, s1.nodes k = some n0 → n0.isInput = false := by
      intro n0 h0
      obtain ⟨d', hp', hk', _⟩ := i1.kind k n0 h0
      rw [hp] at hp'; cases hp'
      rw [← hk', hi]
    have i3 : Inv p s3 := by
      constructor
      · intro x nx hx
        by_cases e : x = k
        · subst e; rw [n3k] at hx; cases hx
          exact ⟨d, hp, hi, fun h => by cases h⟩
        · rw [n3o x e] at hx; exact i1.kind x nx hx
      · intro x nx hx
        by_cases e : x = k
        · subst e; rw [n3k] at hx; cases hx
          intro d' o' hm; exact (a1.2 d' o' hm).1
        · rw [n3o x e] at hx; exact i1.down x nx hx
      · intro x nx hx
        by_cases e : x = k
        · subst e; rw [n3k] at hx; cases hx; exact a1.1
        · rw [n3o x e] at hx; exact i1.nodup x nx hx
      · intro x nx dx hx hpx hix
        by_cases e : x = k
        · subst e; rw [n3k] at hx; cases hx
          rw [hp] at hpx; cases hpx; exact tr
        · rw [n3o x e] at hx; exact i1.trace x nx dx hx hpx hix
      · intro x nx hx
        by_cases e : x = k
        · subst e; rw [n3k] at hx; cases hx; exact Nat.le_refl _
        · rw [n3o x e] at hx; exact i1.stamp x nx hx
      · intro x nx hx hvx d' o' hm
        by_cases e : x = k
        · subst e; exact d3k d'
        · rw [n3o x e] at hx; rw [d3o x d' e]
          exact i1.verified_clean x nx hx hvx d' o' hm
      · intro x nx hx d' o' hm hcl
        by_cases e : x = k
        · subst e; rw [n3k] at hx; cases hx
          obtain ⟨hlt, _, ⟨nd, hnd, hvd⟩, hsd⟩ := a1.2 d' o' hm
          have : d' ≠ x := by komega
          exact ⟨⟨nd, by rw [n3o d' this]; exact hnd, hvd⟩, sh d' hsd⟩
        · rw [n3o x e] at hx; rw [d3o x d' e] at hcl
          obtain ⟨⟨nd, hnd, hvd⟩, hsd⟩ := i1.clean_settled x nx hx d' o' hm hcl
          have : d' ≠ k := fun e => hns (e ▸ hsd)
          exact ⟨⟨nd, by rw [n3o d' this]; exact hnd, hvd⟩, sh d' hsd⟩
    have f13 : Frame p s1 s3 := by
      constructor
      · exact e3
      · intro a b h
        by_cases e : a = k
        · subst e; rw [d3k b] at h; cases h
        · rw [d3o a b e] at h; exact h
      · funext x
        simp only [inputsOf]
        by_cases e : x = k
        · subst e; rw [n3k]
          cases h0 : s1.nodes x with
          | none => rfl
          | some n0 => simp [nn, nodeK n0 h0]
        · rw [n3o x e]
      · intro x nx hsx hx
        have : x ≠ k := fun e => hns (e ▸ hsx)
        exact ⟨nx, by rw [n3o x this]; exact hx, rfl, rfl⟩
      · intro x
        by_cases e : x = k
        · subst e; exact Or.inr ⟨nn, n3k, rfl⟩
        · exact Or.inl (n3o x e)
      · exact ⟨[k], rfl, by simp, fun x hx => by
          rw [List.mem_singleton] at hx; subst hx; exact ⟨hj1, nn, n3k, rfl⟩⟩
    refine ⟨i3, f1.trans f13, ?_, ?_, nn, n3k, rfl, rfl⟩
    · intro x hx
      have hxk : x ≠ k := by komega
      obtain ⟨a, b⟩ := t1 x (by komega)
      exact ⟨by rw [n3o x hxk]; exact a, fun y => by rw [d3o x y hxk]; exact b y⟩
    · simp only [cur, evalSpec, hp, hi, Bool.false_eq_true, if_false]
      apply tr
      intro d' o' hm
      obtain ⟨hlt, hc, _, _⟩ := a1.2 d' o' hm
      rw [evalSpec_fuel_stable wf _ d' k hlt]
      rw [cur_congr f1.inputs] at hc
      exact hc

/-- main induction: with fuel above the key, `query` meets `QPost` and never runs out of fuel -/
theorem query_spec {p : Program} (wf : WF p) :
    ∀ fuel k, k < fuel → ∀ s, Inv p s → Sat (query p fuel k s) (QPost p k s) := by
  intro fuel
  induction fuel with
  | zero => intro k hk; cases hk
  | succ fuel ih =>
    intro k hk s inv
    have hq : QSpec p (query p fuel) k := fun d hd s' inv' => ih d (by komega) s' inv'
    simp only [query]
    cases hn : s.nodes k with
    | none =>
      simp only
      cases hp : p[k]? with
      | none => simp [Sat]
      | some d =>
        simp only
        cases hi : d.isInput with
        | true => simp [Sat]
        | false =>
          simp only [Bool.false_eq_true, if_false]
          exact execute_spec wf hq hp hi inv ⟨fun ⟨n, h, _⟩ => (by rw [hn] at h; cases h), Or.inl hn⟩
    | some n =>
      simp only
      split
      · rename_i hv
        refine ⟨inv, Frame.refl p s, Touches.refl _ s, ?_, n, hn, rfl, hv⟩
        obtain ⟨n', hn', hc⟩ := settled_correct wf inv (verified_settled inv hn hv)
        rw [hn] at hn'; cases hn'; exact hc
      · rename_i hv
        obtain ⟨d, hp, hki, hnd⟩ := inv.kind k n hn
        split
        · rename_i hin
          have hcl : ∀ d o, (d, o) ∈ n.deps → s.dirty k d = false := by
            intro d o hm; rw [hnd hin] at hm; cases hm
          refine ⟨inv.stamp' hn hcl, Frame.stamp' p hn, Touches.stamp' s k _, ?_,
            { n with lastVerified := s.epoch }, by simp [setNode], rfl, rfl⟩
          simp [cur, evalSpec, hp, hki, hin, inputsOf, hn]
        · rename_i hin
          have hin : n.isInput = false := by simpa using hin
          rw [hp]
          simp only
          have hrep := repairDeps_spec hq n.deps s inv hn (fun _ h => h)
          cases hr : repairDeps (query p fuel) k n.deps s with
          | error e => rw [hr] at hrep; simpa [Sat] using hrep
          | ok r =>
            obtain ⟨b, s1⟩ := r
            rw [hr] at hrep
            obtain ⟨i1, f1, t1, k1, hf, ht⟩ := hrep
            simp only at i1 f1 t1 k1 hf ht
            cases b with
            | true =>
              simp only
              obtain ⟨dd, oo, hm, hne⟩ := ht rfl
              have hj1 : Just p s1 k := by
                refine ⟨?_, Or.inr ⟨n, dd, oo, k1, hm, by rw [cur_congr f1.inputs]; exact hne⟩⟩
                rintro ⟨n', hn', hv'⟩
                rw [k1] at hn'; cases hn'
                exact hv (by rw [hv', f1.epoch])
              refine (execute_spec wf hq hp (by rw [hki, hin]) i1 hj1).mono ?_
              rintro ⟨v, s2⟩ ⟨i2, f2, t2, c2, hnode⟩
              exact ⟨i2, f1.trans f2, t1.trans t2, by rw [← cur_congr f1.inputs]; exact c2, hnode⟩
            | false =>
              simp only
              have hcl := hf rfl
              refine ⟨i1.stamp' k1 hcl, f1.trans (Frame.stamp' p k1), t1.trans (Touches.stamp' s1 k _),
                ?_, { n with lastVerified := s1.epoch }, by simp [setNode], rfl, rfl⟩
              have hs : Settled s1 k := by
                refine Settled.mk k n k1 hcl ?_ ?_
                · intro d' o' hm; exact (i1.clean_settled k n k1 d' o' hm (hcl d' o' hm)).1
                · intro d' o' hm; exact (i1.clean_settled k n k1 d' o' hm (hcl d' o' hm)).2
              obtain ⟨n', hn', hc⟩ := settled_correct wf i1 hs
              rw [k1] at hn'; cases hn'
              rw [← cur_congr f1.inputs]; exact hc

end Qbice.Core
