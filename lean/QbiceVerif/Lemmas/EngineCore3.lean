/-
Lemmas about the core engine model, part 3: `runProg` (single reads and unordered groups),
`install` / `execute` / `executeExt`, and the main induction for `query`.
-/
import QbiceVerif.Lemmas.EngineCore2
namespace Qbice.Core

/-- what is known about the dependencies recorded so far by the running executor of `k` -/
def AccOK (p : Program) (k : Key) (s : St) (acc : List (Key × Val)) : Prop :=
  (acc.map (·.1)).Nodup ∧
    ∀ d o, (d, o) ∈ acc →
      d < k ∧ cur p s d = some o ∧ (∃ nd, s.nodes d = some nd ∧ nd.value = o) ∧ Settled s d

theorem AccOK.frame {p : Program} {k : Key} {s s' : St} {acc : List (Key × Val)}
    (h : AccOK p k s acc) (f : Frame p s s') : AccOK p k s' acc := by
  refine ⟨h.1, ?_⟩
  intro d o hm
  obtain ⟨h1, h2, ⟨nd, hnd, hv⟩, h4⟩ := h.2 d o hm
  obtain ⟨nd', hnd', hv', _⟩ := f.keep d nd h4 hnd
  exact ⟨h1, by rw [f.cur]; exact h2, ⟨nd', hnd', by rw [hv', hv]⟩, f.settled h4⟩

theorem recordDep_spec {p : Program} {k : Key} {s : St} {acc : List (Key × Val)} {d : Key} {v : Val}
    (h : AccOK p k s acc) (hd : d < k) (hc : cur p s d = some v)
    (hn : ∃ nd, s.nodes d = some nd ∧ nd.value = v) (hs : Settled s d) :
    AccOK p k s (recordDep acc d v) ∧ (d, v) ∈ recordDep acc d v ∧
      ∀ e, e ∈ acc → e ∈ recordDep acc d v := by
  unfold recordDep
  split
  · rename_i hany
    obtain ⟨o, hm⟩ := (any_key_iff acc d).1 hany
    have := (h.2 d o hm).2.1
    rw [hc] at this; cases this
    exact ⟨h, hm, fun _ he => he⟩
  · rename_i hany
    have hnot : ∀ o, (d, o) ∉ acc := fun o hm => hany ((any_key_iff acc d).2 ⟨o, hm⟩)
    refine ⟨⟨?_, ?_⟩, by simp, fun e he => by simp [he]⟩
    · rw [List.map_append, List.nodup_append]
      refine ⟨h.1, by simp, ?_⟩
      intro a ha b hb hab
      simp only [List.map_cons, List.map_nil, List.mem_singleton] at hb
      subst hb; subst hab
      rw [List.mem_map] at ha
      obtain ⟨⟨a1, a2⟩, hm, rfl⟩ := ha
      exact hnot a2 hm
    · intro d' o' hm
      rw [List.mem_append, List.mem_singleton] at hm
      cases hm with
      | inl hm => exact h.2 d' o' hm
      | inr e => cases e; exact ⟨hd, hc, hn, hs⟩

theorem recordAll_spec {p : Program} {k : Key} {s : St} :
    ∀ (kvs acc : List (Key × Val)), AccOK p k s acc →
      (∀ d v, (d, v) ∈ kvs →
        d < k ∧ cur p s d = some v ∧ (∃ nd, s.nodes d = some nd ∧ nd.value = v) ∧ Settled s d) →
      AccOK p k s (recordAll acc kvs) ∧ (∀ e, e ∈ kvs → e ∈ recordAll acc kvs) ∧
        ∀ e, e ∈ acc → e ∈ recordAll acc kvs := by
  intro kvs
  induction kvs with
  | nil => intro acc h _; exact ⟨h, fun _ he => (by cases he), fun _ he => he⟩
  | cons e rest ih =>
    intro acc h hall
    obtain ⟨d, v⟩ := e
    obtain ⟨hd, hc, hn, hs⟩ := hall d v (List.mem_cons_self ..)
    obtain ⟨h1, hmem, hsub⟩ := recordDep_spec h hd hc hn hs
    obtain ⟨a, b, c⟩ := ih (recordDep acc d v) h1 (fun d' v' hm => hall d' v' (List.mem_cons_of_mem _ hm))
    refine ⟨a, ?_, fun e he => c e (hsub e he)⟩
    intro e he
    simp only [List.mem_cons] at he
    cases he with
    | inl he => subst he; exact c _ hmem
    | inr he => exact b e he

theorem allVals_of_pairs (rec : Key → Option Val) :
    ∀ kvs : List (Key × Val), (∀ d v, (d, v) ∈ kvs → rec d = some v) →
      allVals rec (kvs.map (·.1)) = some (kvs.map (·.2)) := by
  intro kvs
  induction kvs with
  | nil => intro _; rfl
  | cons e rest ih =>
    intro h
    obtain ⟨d, v⟩ := e
    simp only [List.map_cons, allVals, h d v (List.mem_cons_self ..),
      ih (fun d' v' hm => h d' v' (List.mem_cons_of_mem _ hm))]

/-- the members of an unordered group, queried one after the other -/
theorem askMany_spec {p : Program} {q : Q} {k : Key} (hq : QSpec p q k) :
    ∀ (ks : List Key) (s : St), (∀ d, d ∈ ks → d < k) → Inv p s →
      Sat (askMany q ks s) (fun r =>
        Inv p r.2 ∧ Frame p s r.2 ∧ Touches k s r.2 ∧ r.1.map (·.1) = ks ∧
        ∀ d v, (d, v) ∈ r.1 →
          d < k ∧ cur p s d = some v ∧ (∃ nd, r.2.nodes d = some nd ∧ nd.value = v) ∧ Settled r.2 d) := by
  intro ks
  induction ks with
  | nil =>
    intro s _ inv
    simp only [askMany]
    exact ⟨inv, Frame.refl p s, Touches.refl _ s, rfl, fun _ _ h => (by cases h)⟩
  | cons d rest ih =>
    intro s hb inv
    have hd : d < k := hb d (List.mem_cons_self ..)
    have hqd := hq d hd s inv
    simp only [askMany]
    cases hr : q d s with
    | error e => rw [hr] at hqd; simpa [Sat] using hqd
    | ok r =>
      obtain ⟨v, s1⟩ := r
      rw [hr] at hqd
      obtain ⟨i1, f1, t1, c1, nd, hnd, hvd, hver⟩ := hqd
      simp only at i1 f1 t1 c1 hnd hvd hver ⊢
      have hrest := ih s1 (fun d' hm => hb d' (List.mem_cons_of_mem _ hm)) i1
      cases hr2 : askMany q rest s1 with
      | error e => rw [hr2] at hrest; simpa [Sat] using hrest
      | ok r2 =>
        obtain ⟨kvs, s2⟩ := r2
        rw [hr2] at hrest
        obtain ⟨i2, f2, t2, hk2, hall⟩ := hrest
        simp only at i2 f2 t2 hk2 hall ⊢
        refine ⟨i2, f1.trans f2, (t1.mono (by komega)).trans t2, by simp [hk2], ?_⟩
        intro d' v' hm
        simp only [List.mem_cons] at hm
        cases hm with
        | inl e =>
          cases e
          have hs1 : Settled s1 d := verified_settled i1 hnd hver
          obtain ⟨nd', hnd', hv', _⟩ := f2.keep d nd hs1 hnd
          exact ⟨hd, c1, ⟨nd', hnd', by rw [hv', hvd]⟩, f2.settled hs1⟩
        | inr hm =>
          obtain ⟨a, b, c, e⟩ := hall d' v' hm
          exact ⟨a, by rw [← f1.cur]; exact b, c, e⟩

theorem runProg_spec {p : Program} {q : Q} {k : Key} (hq : QSpec p q k) :
    ∀ (prog : Prog) (acc : List (Key × Val)) (s : St), prog.Below k → Inv p s → AccOK p k s acc →
      Sat (runProg q prog acc s) (fun r =>
        Inv p r.2.2 ∧ Frame p s r.2.2 ∧ Touches k s r.2.2 ∧ AccOK p k r.2.2 r.2.1 ∧
        (∀ e, e ∈ acc → e ∈ r.2.1) ∧ TraceOK prog r.2.1 r.1) := by
  intro prog
  induction prog with
  | ret v =>
    intro acc s _ inv hacc
    simp only [runProg]
    exact ⟨inv, Frame.refl p s, Touches.refl _ s, hacc, fun _ h => h, fun _ _ => rfl⟩
  | ask d cont ih =>
    intro acc s hb inv hacc
    obtain ⟨hd, hc⟩ := hb
    have hqd := hq d hd s inv
    simp only [runProg]
    cases hr : q d s with
    | error e => rw [hr] at hqd; simpa [Sat] using hqd
    | ok r =>
      obtain ⟨v, s1⟩ := r
      rw [hr] at hqd
      obtain ⟨i1, f1, t1, c1, nd, hnd, hvd, hver⟩ := hqd
      simp only at i1 f1 t1 c1 hnd hvd hver ⊢
      have hacc1 := hacc.frame f1
      obtain ⟨hacc2, hmem, hsub⟩ := recordDep_spec hacc1 hd (by rw [f1.cur]; exact c1)
        ⟨nd, hnd, hvd⟩ (verified_settled i1 hnd hver)
      refine (ih v (recordDep acc d v) s1 (hc v) i1 hacc2).mono ?_
      rintro ⟨v', deps, s2⟩ ⟨i2, f2, t2, a2, sub2, tr2⟩
      refine ⟨i2, f1.trans f2, (t1.mono (by komega)).trans t2, a2, fun e he => sub2 e (hsub e he), ?_⟩
      intro rec hrec
      simp only [evalProg, hrec d v (sub2 _ hmem)]
      exact tr2 rec hrec
  | askAll ks cont ih =>
    intro acc s hb inv hacc
    obtain ⟨hd, hc⟩ := hb
    have hall := askMany_spec hq ks s hd inv
    simp only [runProg]
    cases hr : askMany q ks s with
    | error e => rw [hr] at hall; simpa [Sat] using hall
    | ok r =>
      obtain ⟨kvs, s1⟩ := r
      rw [hr] at hall
      obtain ⟨i1, f1, t1, hks, hmem⟩ := hall
      simp only at i1 f1 t1 hks hmem ⊢
      have hacc1 := hacc.frame f1
      obtain ⟨hacc2, hin, hsub⟩ := recordAll_spec kvs acc hacc1 (fun d v hm => by
        obtain ⟨a, b, c, e⟩ := hmem d v hm
        exact ⟨a, by rw [f1.cur]; exact b, c, e⟩)
      refine (ih (kvs.map (·.2)) (recordAll acc kvs) s1 (hc _) i1 hacc2).mono ?_
      rintro ⟨v', deps, s2⟩ ⟨i2, f2, t2, a2, sub2, tr2⟩
      refine ⟨i2, f1.trans f2, t1.trans t2, a2, fun e he => sub2 e (hsub e he), ?_⟩
      intro rec hrec
      have := allVals_of_pairs rec kvs (fun d v hm => hrec d v (sub2 _ (hin _ hm)))
      rw [hks] at this
      simp only [evalProg, this]
      exact tr2 rec hrec

/-- publishing a freshly computed node for a key that is not settled -/
theorem install_spec {p : Program} (wf : WF p) {k : Key} {d : NodeDef} (hp : p[k]? = some d)
    {s1 : St} (i1 : Inv p s1) (hj1 : Just p s1 k) {nn : Node}
    (hkind : nn.kind = d.kind) (hni : d.kind ≠ .input) (hlv : nn.lastVerified = s1.epoch)
    (hacc : AccOK p k s1 nn.deps) (hnorm : nn.kind ≠ .normal → nn.deps = [])
    (htr : nn.kind = .normal → TraceOK d.prog nn.deps nn.value)
    (hext : nn.kind = .external → extOf p s1 k = some nn.value) :
    Inv p (install s1 k nn) ∧ Frame p s1 (install s1 k nn) ∧ Touches (k + 1) s1 (install s1 k nn) ∧
      (install s1 k nn).nodes k = some nn ∧ (install s1 k nn).epoch = s1.epoch := by
  have hns : ¬ Settled s1 k := just_not_settled wf i1 hj1
  have n3k : (install s1 k nn).nodes k = some nn := by simp [install, setNode]
  have n3o : ∀ x, x ≠ k → (install s1 k nn).nodes x = s1.nodes x := by
    intro x hx; simp [install, setNode, clearDirtyFrom, hx]
  have d3k : ∀ y, (install s1 k nn).dirty k y = false := by
    intro y; simp [install, setNode, clearDirtyFrom]
  have d3o : ∀ x y, x ≠ k → (install s1 k nn).dirty x y = s1.dirty x y := by
    intro x y hx; simp [install, setNode, clearDirtyFrom, hx]
  have e3 : (install s1 k nn).epoch = s1.epoch := rfl
  have w3 : (install s1 k nn).world = s1.world := rfl
  have l3 : (install s1 k nn).log = s1.log ++ [k] := rfl
  generalize install s1 k nn = s3 at n3k n3o d3k d3o e3 w3 l3 ⊢
  have sh : ∀ x, Settled s1 x → Settled s3 x := by
    intro x hx
    apply hx.transfer
    · intro y ny hy hny
      have : y ≠ k := fun e => hns (e ▸ hy)
      exact ⟨ny, by rw [n3o y this]; exact hny, rfl, rfl⟩
    · intro y dd hy hdd
      have : y ≠ k := fun e => hns (e ▸ hy)
      rw [d3o y dd this] at hdd; exact hdd
  have nodeK : ∀ n0, s1.nodes k = some n0 → n0.kind = d.kind := by
    intro n0 h0
    obtain ⟨d', hp', hk', _⟩ := i1.kind k n0 h0
    rw [hp] at hp'; cases hp'
    exact hk'.symm
  have i3 : Inv p s3 := by
    constructor
    · intro x nx hx
      by_cases e : x = k
      · subst e; rw [n3k] at hx; cases hx
        exact ⟨d, hp, hkind.symm, hnorm⟩
      · rw [n3o x e] at hx; exact i1.kind x nx hx
    · intro x nx hx
      by_cases e : x = k
      · subst e; rw [n3k] at hx; cases hx
        intro d' o' hm; exact (hacc.2 d' o' hm).1
      · rw [n3o x e] at hx; exact i1.down x nx hx
    · intro x nx hx
      by_cases e : x = k
      · subst e; rw [n3k] at hx; cases hx; exact hacc.1
      · rw [n3o x e] at hx; exact i1.nodup x nx hx
    · intro x nx dx hx hpx hix
      by_cases e : x = k
      · subst e; rw [n3k] at hx; cases hx
        rw [hp] at hpx; cases hpx; exact htr hix
      · rw [n3o x e] at hx; exact i1.trace x nx dx hx hpx hix
    · intro x nx hx
      by_cases e : x = k
      · subst e; rw [n3k] at hx; cases hx; rw [hlv, e3]; exact Nat.le_refl _
      · rw [n3o x e] at hx; rw [e3]; exact i1.stamp x nx hx
    · intro x nx hx hvx d' o' hm
      by_cases e : x = k
      · subst e; exact d3k d'
      · rw [n3o x e] at hx; rw [d3o x d' e]
        exact i1.verified_clean x nx hx (by rw [hvx, e3]) d' o' hm
    · intro x nx hx d' o' hm hcl
      by_cases e : x = k
      · subst e; rw [n3k] at hx; cases hx
        obtain ⟨hlt, _, ⟨nd, hnd, hvd⟩, hsd⟩ := hacc.2 d' o' hm
        have : d' ≠ x := by komega
        exact ⟨⟨nd, by rw [n3o d' this]; exact hnd, hvd⟩, sh d' hsd⟩
      · rw [n3o x e] at hx; rw [d3o x d' e] at hcl
        obtain ⟨⟨nd, hnd, hvd⟩, hsd⟩ := i1.clean_settled x nx hx d' o' hm hcl
        have : d' ≠ k := fun e => hns (e ▸ hsd)
        exact ⟨⟨nd, by rw [n3o d' this]; exact hnd, hvd⟩, sh d' hsd⟩
  have hpins : ∀ x, x ≠ k → pinsOf s3 x = pinsOf s1 x := by
    intro x e; simp only [pinsOf, n3o x e]
  have f13 : Frame p s1 s3 := by
    constructor
    · exact e3
    · intro a b h
      by_cases e : a = k
      · subst e; rw [d3k b] at h; cases h
      · rw [d3o a b e] at h; exact h
    · funext x
      simp only [inputsOf]
      by_cases e : x = k
      · subst e; rw [n3k]
        have h1 : ¬ nn.kind = .input := by rw [hkind]; exact hni
        cases h0 : s1.nodes x with
        | none => simp [h1]
        | some n0 =>
          have h2 : ¬ n0.kind = .input := by rw [nodeK n0 h0]; exact hni
          simp [h1, h2]
      · rw [n3o x e]
    · funext x
      simp only [extOf, w3]
      by_cases e : x = k
      · subst e
        by_cases hx : nn.kind = .external
        · have := hext hx
          simp only [extOf] at this
          rw [this]
          simp [extRef, pinsOf, n3k, hx]
        · have h1 : pinsOf s3 x = none := by simp [pinsOf, n3k, hx]
          have h2 : pinsOf s1 x = none := by
            simp only [pinsOf]
            cases h0 : s1.nodes x with
            | none => rfl
            | some n0 =>
              have : ¬ n0.kind = .external := by rw [nodeK n0 h0, ← hkind]; exact hx
              simp [this]
          simp only [extRef, h1, h2]
      · simp only [extRef, hpins x e]
    · exact w3
    · intro x nx hsx hx
      have : x ≠ k := fun e => hns (e ▸ hsx)
      exact ⟨nx, by rw [n3o x this]; exact hx, rfl, rfl⟩
    · intro x
      by_cases e : x = k
      · subst e; exact Or.inr ⟨nn, n3k, by rw [hlv, e3]⟩
      · exact Or.inl (n3o x e)
    · refine ⟨[k], l3, by simp, fun x hx => ?_, fun x hx hx' => ?_⟩
      · rw [List.mem_singleton] at hx; subst hx; exact ⟨hj1, nn, n3k, by rw [hlv, e3]⟩
      · rw [List.mem_singleton]
        false_or_by_contra
        rename_i e
        exact hx' (by rw [n3o x e]; exact hx)
  refine ⟨i3, f13, ?_, n3k, e3⟩
  intro x hx
  have hxk : x ≠ k := by komega
  exact ⟨n3o x hxk, fun y => d3o x y hxk⟩

theorem execute_spec {p : Program} (wf : WF p) {q : Q} {k : Key} (hq : QSpec p q k) {d : NodeDef}
    (hp : p[k]? = some d) (hi : d.kind = .normal) {s : St} (inv : Inv p s) (hj : Just p s k) :
    Sat (execute q k d.prog s) (QPost p k s) := by
  have hrun := runProg_spec hq d.prog [] s (wf k d hp hi) inv ⟨by simp, fun _ _ h => by cases h⟩
  unfold execute
  cases hr : runProg q d.prog [] s with
  | error e => rw [hr] at hrun; simpa [Sat] using hrun
  | ok r =>
    obtain ⟨v, deps, s1⟩ := r
    rw [hr] at hrun
    obtain ⟨i1, f1, t1, a1, _, tr⟩ := hrun
    simp only at i1 f1 t1 a1 tr ⊢
    have hk1 : s1.nodes k = s.nodes k := (t1 k (Nat.le_refl _)).1
    have hj1 : Just p s1 k := by
      obtain ⟨hnv, h⟩ := hj
      refine ⟨?_, ?_⟩
      · rintro ⟨n, hn, hv⟩
        exact hnv ⟨n, by rw [← hk1]; exact hn, by rw [hv, f1.epoch]⟩
      · rw [hk1, f1.cur]; exact h
    obtain ⟨i3, f13, t13, n3k, e3⟩ := install_spec wf hp i1 hj1
      (nn := { kind := .normal, lastVerified := s1.epoch, value := v, deps := deps })
      hi.symm (by rw [hi]; decide) rfl a1 (fun h => absurd rfl h) (fun _ => tr) (fun h => by cases h)
    refine ⟨i3, f1.trans f13, (t1.mono (by komega)).trans t13, ?_, _, n3k, rfl, e3.symm⟩
    simp only [cur, evalSpec, hp, hi]
    apply tr
    intro d' o' hm
    obtain ⟨hlt, hc, _, _⟩ := a1.2 d' o' hm
    rw [evalSpec_fuel_stable wf _ _ d' k hlt]
    rw [f1.cur] at hc
    exact hc

theorem executeExt_spec {p : Program} (wf : WF p) {k : Key} {d : NodeDef}
    (hp : p[k]? = some d) (hi : d.kind = .external) {s : St} (inv : Inv p s) (hn : s.nodes k = none) :
    QPost p k s (executeExt k d s) := by
  have hj : Just p s k := ⟨fun ⟨n, h, _⟩ => (by rw [hn] at h; cases h), Or.inl hn⟩
  have hext : extOf p s k = some (d.ext s.world) := by
    simp [extOf, extRef, pinsOf, hn, hp]
  obtain ⟨i3, f13, t13, n3k, e3⟩ := install_spec wf hp inv hj
    (nn := { kind := .external, lastVerified := s.epoch, value := d.ext s.world, deps := [] })
    hi.symm (by rw [hi]; decide) rfl ⟨by simp, fun _ _ h => by cases h⟩ (fun _ => rfl)
    (fun h => by cases h) (fun _ => hext)
  refine ⟨i3, f13, t13, ?_, _, n3k, rfl, e3.symm⟩
  simp only [cur, evalSpec, hp, hi]
  exact hext

/-- main induction: with fuel above the key, `query` meets `QPost` and never runs out of fuel -/
theorem query_spec {p : Program} (wf : WF p) :
    ∀ fuel k, k < fuel → ∀ s, Inv p s → Sat (query p fuel k s) (QPost p k s) := by
  intro fuel
  induction fuel with
  | zero => intro k hk; cases hk
  | succ fuel ih =>
    intro k hk s inv
    have hq : QSpec p (query p fuel) k := fun d hd s' inv' => ih d (by komega) s' inv'
    simp only [query]
    cases hn : s.nodes k with
    | none =>
      simp only
      cases hp : p[k]? with
      | none => simp [Sat]
      | some d =>
        simp only
        cases hi : d.kind with
        | input => simp [Sat]
        | external => exact executeExt_spec wf hp hi inv hn
        | normal =>
          exact execute_spec wf hq hp hi inv ⟨fun ⟨n, h, _⟩ => (by rw [hn] at h; cases h), Or.inl hn⟩
    | some n =>
      simp only
      split
      · rename_i hv
        refine ⟨inv, Frame.refl p s, Touches.refl _ s, ?_, n, hn, rfl, hv⟩
        obtain ⟨n', hn', hc⟩ := settled_correct wf inv (verified_settled inv hn hv)
        rw [hn] at hn'; cases hn'; exact hc
      · rename_i hv
        obtain ⟨d, hp, hki, hnd⟩ := inv.kind k n hn
        split
        · rename_i hin
          have hcl : ∀ d o, (d, o) ∈ n.deps → s.dirty k d = false := by
            intro d o hm; rw [hnd hin] at hm; cases hm
          refine ⟨inv.stamp' hn hcl, Frame.stamp' p hn, Touches.stamp' s k _, ?_,
            { n with lastVerified := s.epoch }, by simp [setNode], rfl, rfl⟩
          have hs : Settled s k := by
            refine Settled.mk k n hn hcl ?_ ?_
            · intro d o hm; rw [hnd hin] at hm; cases hm
            · intro d o hm; rw [hnd hin] at hm; cases hm
          obtain ⟨n', hn', hc⟩ := settled_correct wf inv hs
          rw [hn] at hn'; cases hn'; exact hc
        · rename_i hin
          have hin : n.kind = .normal := by
            false_or_by_contra
            rename_i h
            exact hin h
          rw [hp]
          simp only
          have hrep := repairDeps_spec hq n.deps s inv hn (fun _ h => h)
          cases hr : repairDeps (query p fuel) k n.deps s with
          | error e => rw [hr] at hrep; simpa [Sat] using hrep
          | ok r =>
            obtain ⟨b, s1⟩ := r
            rw [hr] at hrep
            obtain ⟨i1, f1, t1, k1, hf, ht⟩ := hrep
            simp only at i1 f1 t1 k1 hf ht
            cases b with
            | true =>
              simp only
              obtain ⟨dd, oo, hm, hne⟩ := ht rfl
              have hj1 : Just p s1 k := by
                refine ⟨?_, Or.inr ⟨n, dd, oo, k1, hm, by rw [f1.cur]; exact hne⟩⟩
                rintro ⟨n', hn', hv'⟩
                rw [k1] at hn'; cases hn'
                exact hv (by rw [hv', f1.epoch])
              refine (execute_spec wf hq hp (by rw [hki, hin]) i1 hj1).mono ?_
              rintro ⟨v, s2⟩ ⟨i2, f2, t2, c2, hnode⟩
              exact ⟨i2, f1.trans f2, t1.trans t2, by rw [← f1.cur]; exact c2, hnode⟩
            | false =>
              simp only
              have hcl := hf rfl
              refine ⟨i1.stamp' k1 hcl, f1.trans (Frame.stamp' p k1), t1.trans (Touches.stamp' s1 k _),
                ?_, { n with lastVerified := s1.epoch }, by simp [setNode], rfl, rfl⟩
              have hs : Settled s1 k := by
                refine Settled.mk k n k1 hcl ?_ ?_
                · intro d' o' hm; exact (i1.clean_settled k n k1 d' o' hm (hcl d' o' hm)).1
                · intro d' o' hm; exact (i1.clean_settled k n k1 d' o' hm (hcl d' o' hm)).2
              obtain ⟨n', hn', hc⟩ := settled_correct wf i1 hs
              rw [k1] at hn'; cases hn'
              rw [← f1.cur]; exact hc

end Qbice.Core
