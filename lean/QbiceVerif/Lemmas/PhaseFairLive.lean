import QbiceVerif.Lemmas.PhaseFairWait

/-!
# C04 progress — the fair-queue LTS does not get stuck while a writer waits

Well-formedness of reachable states (queue entries are waiting tasks, holders are holding tasks) and: when `w` is
queued and no event other than `w`'s grant is enabled, `w`'s grant is enabled.
-/

namespace QbiceVerif.PhaseFair

open QbiceVerif.Phase

def IsWaiting (ts : List Task) (t : Tid) (x : Bool) : Prop := ∃ k sc, ts[t]? = some ⟨.waiting x k, sc⟩
def IsHolding (ts : List Task) (t : Tid) (x : Bool) : Prop := ∃ k sc, ts[t]? = some ⟨.holding x k, sc⟩

structure WF (s : State) : Prop where
  q : ∀ p, p ∈ s.lock.queue → IsWaiting s.tasks p.1 p.2
  r : ∀ t, t ∈ s.lock.readers → IsHolding s.tasks t false
  w : ∀ t, s.lock.writer = some t → IsHolding s.tasks t true
  nd : s.lock.readers.Nodup

theorem get_set_self {ts : List Task} {t : Nat} {y : Task} (x : Task) (h : ts[t]? = some y) :
    (ts.set t x)[t]? = some x := by
  have hlt : t < ts.length := (List.getElem?_eq_some_iff.1 h).1
  simp [hlt]

theorem IsWaiting.set_ne {ts : List Task} {t t' : Tid} {x : Bool} (y : Task) (h : IsWaiting ts t' x) (hne : t ≠ t') :
    IsWaiting (ts.set t y) t' x := by
  obtain ⟨k, sc, h⟩ := h
  exact ⟨k, sc, by rw [List.getElem?_set_ne hne]; exact h⟩

theorem IsHolding.set_ne {ts : List Task} {t t' : Tid} {x : Bool} (y : Task) (h : IsHolding ts t' x) (hne : t ≠ t') :
    IsHolding (ts.set t y) t' x := by
  obtain ⟨k, sc, h⟩ := h
  exact ⟨k, sc, by rw [List.getElem?_set_ne hne]; exact h⟩

theorem wf_init (scripts : List (List Acq)) : WF (init scripts) :=
  ⟨by intro p hp; simp [init] at hp, by intro t ht; simp [init] at ht, by intro t ht; simp [init] at ht,
   by simp [init]⟩

theorem wf_step {s s' : State} {ev : Ev} (hwf : WF s) (hs : step false s ev = some s') : WF s' := by
  obtain ⟨hq, hr, hw, hnd⟩ := hwf
  cases ev with
  | req t =>
    simp only [step] at hs
    split at hs
    · rename_i x k rest hget
      split at hs
      · rename_i hnone
        simp only [Bool.false_and, Bool.false_eq_true, if_false, Option.some.injEq] at hs
        subst hs
        refine ⟨?_, ?_, ?_, hnd⟩
        · intro p hp
          simp only [Lock.enqueue, List.mem_append, List.mem_singleton] at hp
          rcases hp with hp | hp
          · refine (hq p hp).set_ne _ ?_
            intro e
            exact (Prog.want_eq_none_iff s.lock t).1 hnone p.2 (by rw [e]; exact hp)
          · subst hp; exact ⟨k, rest, get_set_self _ hget⟩
        · intro t' ht'
          refine (hr t' ht').set_ne _ ?_
          intro e; subst e
          obtain ⟨_, _, h⟩ := hr t ht'
          rw [hget] at h; simp at h
        · intro t' ht'
          refine (hw t' ht').set_ne _ ?_
          intro e; subst e
          obtain ⟨_, _, h⟩ := hw t ht'
          rw [hget] at h; simp at h
      · simp at hs
    · simp at hs
  | grant t =>
    simp only [step] at hs
    split at hs
    · rename_i x k sc hget
      split at hs
      · rename_i hg
        simp only [Option.some.injEq] at hs
        subst hs
        obtain ⟨b, hb, _⟩ := Prog.grantable_want hg
        have hbx : b = x := by
          obtain ⟨_, _, h⟩ := hq (t, b) (Prog.want_some_mem hb)
          rw [hget] at h; simp at h; exact h.1.1.symm
        subst hbx
        have hnotr : ∀ t', t' ∈ s.lock.readers → t ≠ t' := by
          intro t' ht' e; subst e
          obtain ⟨_, _, h⟩ := hr t ht'
          rw [hget] at h; simp at h
        have hnotw : ∀ t', s.lock.writer = some t' → t ≠ t' := by
          intro t' ht' e; subst e
          obtain ⟨_, _, h⟩ := hw t ht'
          rw [hget] at h; simp at h
        have hqueue : (s.lock.grant t).queue = s.lock.queue.filter (fun p => p.1 != t) :=
          grant_queue s.lock t (by rw [hb]; simp)
        refine ⟨?_, ?_, ?_, ?_⟩
        · intro p hp
          simp only [hqueue, List.mem_filter, bne_iff_ne] at hp
          exact (hq p hp.1).set_ne _ (Ne.symm hp.2)
        · intro t' ht'
          cases b with
          | true =>
            have : (s.lock.grant t).readers = s.lock.readers := by simp [Lock.grant, hb]
            simp only [this] at ht'
            exact (hr t' ht').set_ne _ (hnotr t' ht')
          | false =>
            have : (s.lock.grant t).readers = t :: s.lock.readers := by simp [Lock.grant, hb]
            simp only [this, List.mem_cons] at ht'
            rcases ht' with e | ht'
            · subst e; exact ⟨k, sc, get_set_self _ hget⟩
            · exact (hr t' ht').set_ne _ (hnotr t' ht')
        · intro t' ht'
          cases b with
          | true =>
            have : (s.lock.grant t).writer = some t := by simp [Lock.grant, hb]
            simp only [this, Option.some.injEq] at ht'
            subst ht'; exact ⟨k, sc, get_set_self _ hget⟩
          | false =>
            have : (s.lock.grant t).writer = s.lock.writer := by simp [Lock.grant, hb]
            simp only [this] at ht'
            exact (hw t' ht').set_ne _ (hnotw t' ht')
        · cases b with
          | true =>
            have : (s.lock.grant t).readers = s.lock.readers := by simp [Lock.grant, hb]
            simp only [this]; exact hnd
          | false =>
            have : (s.lock.grant t).readers = t :: s.lock.readers := by simp [Lock.grant, hb]
            simp only [this]
            exact List.nodup_cons.2 ⟨fun h => hnotr t h rfl, hnd⟩
      · simp at hs
    · simp at hs
  | work t =>
    simp only [step] at hs
    split at hs
    · rename_i x k sc hget
      simp only [Option.some.injEq] at hs
      subst hs
      refine ⟨?_, ?_, ?_, hnd⟩
      · intro p hp
        refine (hq p hp).set_ne _ ?_
        intro e
        obtain ⟨_, _, h⟩ := hq p hp
        rw [← e, hget] at h; simp at h
      · intro t' ht'
        by_cases e : t = t'
        · subst e
          obtain ⟨_, _, h⟩ := hr t ht'
          rw [hget] at h; simp at h
          exact ⟨k, sc, by rw [get_set_self _ hget, h.1.1]⟩
        · exact (hr t' ht').set_ne _ e
      · intro t' ht'
        by_cases e : t = t'
        · subst e
          obtain ⟨_, _, h⟩ := hw t ht'
          rw [hget] at h; simp at h
          exact ⟨k, sc, by rw [get_set_self _ hget, h.1.1]⟩
        · exact (hw t' ht').set_ne _ e
    · simp at hs
  | rel t =>
    simp only [step] at hs
    split at hs
    · rename_i x sc hget
      simp only [Option.some.injEq] at hs
      subst hs
      have hqn : ∀ p, p ∈ s.lock.queue → t ≠ p.1 := by
        intro p hp e
        obtain ⟨_, _, h⟩ := hq p hp
        rw [← e, hget] at h; simp at h
      cases x with
      | true =>
        simp only [if_true]
        refine ⟨fun p hp => (hq p hp).set_ne _ (hqn p hp), ?_, by intro t' h; simp at h, hnd⟩
        intro t' ht'
        refine (hr t' ht').set_ne _ ?_
        intro e; subst e
        obtain ⟨_, _, h⟩ := hr t ht'
        rw [hget] at h; simp at h
      | false =>
        simp only [Bool.false_eq_true, if_false]
        refine ⟨fun p hp => (hq p hp).set_ne _ (hqn p hp), ?_, ?_, hnd.erase t⟩
        · intro t' ht'
          have hm := (hnd.mem_erase_iff).1 ht'
          exact (hr t' hm.2).set_ne _ (Ne.symm hm.1)
        · intro t' ht'
          refine (hw t' ht').set_ne _ ?_
          intro e; subst e
          obtain ⟨_, _, h⟩ := hw t ht'
          rw [hget] at h; simp at h
    · simp at hs

theorem wf_run : ∀ (evs : List Ev) {s s' : State}, WF s → run false s evs = some s' → WF s' := by
  intro evs
  induction evs with
  | nil => intro s s' h hr; simp only [run, Option.some.injEq] at hr; subst hr; exact h
  | cons e es ih =>
    intro s s' h hr
    simp only [run] at hr
    cases hs : step false s e with
    | none => simp [hs] at hr
    | some s1 => simp only [hs] at hr; exact ih (wf_step h hs) hr

/-- a holder can always move: one more step of work, or the release -/
theorem holder_enabled {j : Bool} {s : State} {t : Tid} {x : Bool} (h : IsHolding s.tasks t x) :
    (step j s (.work t)).isSome = true ∨ (step j s (.rel t)).isSome = true := by
  obtain ⟨k, sc, h⟩ := h
  cases k with
  | zero => right; simp [step, h]
  | succ k => left; simp [step, h]

/-- No deadlock in front of a waiting writer: in a well-formed state in which `w` is queued, either some event
other than `w`'s grant is enabled, or `w`'s grant is. -/
theorem waiting_not_stuck {s : State} {w : Tid} (hwf : WF s) (hw : s.lock.want w ≠ none) :
    (∃ ev, ev ≠ Ev.grant w ∧ (step false s ev).isSome = true) ∨ (step false s (.grant w)).isSome = true := by
  obtain ⟨x0, hmem⟩ := mem_of_want_ne_none hw
  cases hq : s.lock.queue with
  | nil => rw [hq] at hmem; cases hmem
  | cons p rest =>
    obtain ⟨t, x⟩ := p
    obtain ⟨k, sc, hget⟩ := hwf.q (t, x) (by rw [hq]; exact List.mem_cons_self)
    by_cases hc : s.lock.compat x = true
    · have hg : s.lock.grantable true t = true := Prog.grantable_of_head hq hc
      have hen : (step false s (.grant t)).isSome = true := by simp [step, hget, hg]
      by_cases e : t = w
      · subst e; exact .inr hen
      · exact .inl ⟨.grant t, (by intro h; cases h; exact e rfl), hen⟩
    · -- the head is blocked by a holder, and a holder can move
      have hholder : ∃ h b, IsHolding s.tasks h b := by
        cases hwr : s.lock.writer with
        | some h => exact ⟨h, true, hwf.w h hwr⟩
        | none =>
          cases hrd : s.lock.readers with
          | nil => exfalso; apply hc; cases x <;> simp [Lock.compat, hwr, hrd]
          | cons r rs => exact ⟨r, false, hwf.r r (by rw [hrd]; exact List.mem_cons_self)⟩
      obtain ⟨h, b, hh⟩ := hholder
      rcases holder_enabled (j := false) hh with h1 | h1
      · exact .inl ⟨.work h, (by intro e; cases e), h1⟩
      · exact .inl ⟨.rel h, (by intro e; cases e), h1⟩

end QbiceVerif.PhaseFair
