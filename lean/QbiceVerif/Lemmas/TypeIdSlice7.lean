/-
Slice 7 of the generated universe (Gen/TypeIdTable.lean): every type has an id and the id keys
ascend strictly from `sliceBound7` to below `sliceBound8`.  A finite table, proved whole by kernel
evaluation; one module per slice so that lake checks the slices in parallel.
-/
import QbiceVerif.Gen.TypeIdTable

namespace QbiceVerif.TypeId
open Gen

theorem slice7_ok : sliceCheck ctorTable sliceBound7 slice7 = some sliceBound8 := by
  decide +kernel

end QbiceVerif.TypeId
