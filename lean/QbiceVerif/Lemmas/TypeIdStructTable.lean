/-
The generated constructor table passes the structural check `tableOk` (a finite table, evaluated
whole by the kernel): every impl is a left fold, the derive's right fold, or a plain name; rows are
pairwise compatible.
-/
import QbiceVerif.Lemmas.TypeIdStruct
import QbiceVerif.Gen.TypeIdTable

namespace QbiceVerif.TypeId
open Gen

theorem ctorTable_ok : tableOk ctorTable = true := by decide +kernel

theorem ctorTable_facts : TableFacts ctorTable := tableFacts_of_ok ctorTable_ok

end QbiceVerif.TypeId
