/-
C13: the decoding induction of `Lemmas/HashNested.lean` (`full_dec`) redone with the LOCATED collision event
`Val.Located` of `Lemmas/HashLocated.lean` instead of the closed `SomeCollision`.
-/
import QbiceVerif.Lemmas.HashLocated

namespace QbiceVerif.Hash

section
variable {σ : Type} (absorb : σ → Bytes → σ) (finish : σ → Nat)

mutual
theorem loc_dec : ∀ (v : Val) (t : Ty) (w : Val) (st : σ) (r1 r2 : Bytes),
    t.wf = true → hasType t v = true → hasType t w = true →
    stream absorb finish t v st ++ r1 = stream absorb finish t w st ++ r2 →
    (Val.SameUpTo v t w ∨ Val.Located absorb finish v t w st) ∧ r1 = r2
  | .int i, t, w, st, r1, r2, hwf, hv, hw, h => by
    have hv' := hv
    cases t <;> simp [hasType] at hv
    have := stream_dec absorb finish _ _ w st st r1 r2 rfl hwf hv' hw h
    cases w <;> simp [hasType] at hw
    exact ⟨Or.inl (by simpa [Val.SameUpTo] using this.1), this.2⟩
  | .bool b, t, w, st, r1, r2, hwf, hv, hw, h => by
    have hv' := hv
    cases t <;> simp [hasType] at hv
    have := stream_dec absorb finish _ _ w st st r1 r2 rfl hwf hv' hw h
    cases w <;> simp [hasType] at hw
    exact ⟨Or.inl (by simpa [Val.SameUpTo] using this.1), this.2⟩
  | .char c, t, w, st, r1, r2, hwf, hv, hw, h => by
    have hv' := hv
    cases t <;> simp [hasType] at hv
    have := stream_dec absorb finish _ _ w st st r1 r2 rfl hwf hv' hw h
    cases w <;> simp [hasType] at hw
    exact ⟨Or.inl (by simpa [Val.SameUpTo] using this.1), this.2⟩
  | .f32 b, t, w, st, r1, r2, hwf, hv, hw, h => by
    have hv' := hv
    cases t <;> simp [hasType] at hv
    have := stream_dec absorb finish _ _ w st st r1 r2 rfl hwf hv' hw h
    cases w <;> simp [hasType] at hw
    exact ⟨Or.inl (by simpa [Val.SameUpTo] using this.1), this.2⟩
  | .f64 b, t, w, st, r1, r2, hwf, hv, hw, h => by
    have hv' := hv
    cases t <;> simp [hasType] at hv
    have := stream_dec absorb finish _ _ w st st r1 r2 rfl hwf hv' hw h
    cases w <;> simp [hasType] at hw
    exact ⟨Or.inl (by simpa [Val.SameUpTo] using this.1), this.2⟩
  | .unit, t, w, st, r1, r2, hwf, hv, hw, h => by
    have hv' := hv
    cases t <;> simp [hasType] at hv
    have := stream_dec absorb finish _ _ w st st r1 r2 rfl hwf hv' hw h
    cases w <;> simp [hasType] at hw
    exact ⟨Or.inl (by simp [Val.SameUpTo]), this.2⟩
  | .str bs, t, w, st, r1, r2, hwf, hv, hw, h => by
    have hv' := hv
    cases t <;> simp [hasType] at hv
    have := stream_dec absorb finish _ _ w st st r1 r2 rfl hwf hv' hw h
    cases w <;> simp [hasType] at hw
    exact ⟨Or.inl (by simpa [Val.SameUpTo] using this.1), this.2⟩
  | .none, t, w, st, r1, r2, hwf, hv, hw, h => by
    cases t <;> simp [hasType] at hv
    cases w <;> simp [hasType] at hw
    · simp only [stream] at h
      exact ⟨Or.inl (by simp [Val.SameUpTo]), (le_append_inj h).2⟩
    · simp only [stream, List.append_assoc] at h
      have := (le_append_inj h).1
      simp at this
  | .some v, t, w, st, r1, r2, hwf, hv, hw, h => by
    cases t <;> simp [hasType] at hv
    cases w <;> simp [hasType] at hw
    · simp only [stream, List.append_assoc] at h
      have := (le_append_inj h).1
      simp at this
    · simp only [stream, List.append_assoc] at h
      simp only [Ty.wf] at hwf
      have := loc_dec v _ _ _ _ _ hwf hv hw (le_append_inj h).2
      refine ⟨?_, this.2⟩
      rcases this.1 with a | b
      · exact Or.inl (by simpa [Val.SameUpTo] using a)
      · exact Or.inr (by simp only [Val.Located]; exact b)
  | .ok v, t, w, st, r1, r2, hwf, hv, hw, h => by
    cases t <;> simp [hasType] at hv
    simp only [Ty.wf, Bool.and_eq_true] at hwf
    cases w <;> simp [hasType] at hw
    · simp only [stream, List.append_assoc] at h
      have := loc_dec v _ _ _ _ _ hwf.1 hv hw (le_append_inj h).2
      refine ⟨?_, this.2⟩
      rcases this.1 with a | b
      · exact Or.inl (by simpa [Val.SameUpTo] using a)
      · exact Or.inr (by simp only [Val.Located]; exact b)
    · simp only [stream, List.append_assoc] at h
      have := (le_append_inj h).1
      simp at this
  | .err v, t, w, st, r1, r2, hwf, hv, hw, h => by
    cases t <;> simp [hasType] at hv
    simp only [Ty.wf, Bool.and_eq_true] at hwf
    cases w <;> simp [hasType] at hw
    · simp only [stream, List.append_assoc] at h
      have := (le_append_inj h).1
      simp at this
    · simp only [stream, List.append_assoc] at h
      have := loc_dec v _ _ _ _ _ hwf.2 hv hw (le_append_inj h).2
      refine ⟨?_, this.2⟩
      rcases this.1 with a | b
      · exact Or.inl (by simpa [Val.SameUpTo] using a)
      · exact Or.inr (by simp only [Val.Located]; exact b)
  | .wrap v, t, w, st, r1, r2, hwf, hv, hw, h => by
    cases t <;> simp [hasType] at hv
    cases w <;> simp [hasType] at hw
    simp only [stream] at h
    simp only [Ty.wf] at hwf
    have := loc_dec v _ _ _ _ _ hwf hv hw h
    refine ⟨?_, this.2⟩
    rcases this.1 with a | b
    · exact Or.inl (by simpa [Val.SameUpTo] using a)
    · exact Or.inr (by simp only [Val.Located]; exact b)
  | .tuple vs, t, w, st, r1, r2, hwf, hv, hw, h => by
    cases t <;> simp [hasType] at hv
    cases w <;> simp [hasType] at hw
    simp only [stream] at h
    simp only [Ty.wf] at hwf
    have := locFields_dec vs _ _ _ _ _ hwf hv hw h
    refine ⟨?_, this.2⟩
    rcases this.1 with a | b
    · exact Or.inl (by simpa [Val.SameUpTo] using a)
    · exact Or.inr (by simp only [Val.Located]; exact b)
  | .list vs, t, w, st, r1, r2, hwf, hv, hw, h => by
    cases t <;> simp [hasType] at hv
    · -- seq
      cases w <;> simp [hasType] at hw
      simp only [stream, List.append_assoc] at h
      simp only [Ty.wf] at hwf
      rw [M64_eq] at hv hw
      obtain ⟨h1, h2⟩ := le_inj_of_lt hv.1 hw.1 h
      rw [← h1] at h2
      have := locAll_dec vs _ _ _ _ _ hwf hv.2 hw.2 h1 h2
      refine ⟨?_, this.2⟩
      rcases this.1 with a | b
      · exact Or.inl (by simpa [Val.SameUpTo] using a)
      · exact Or.inr (by simp only [Val.Located]; exact ⟨h1, b⟩)
    · -- array
      cases w <;> simp [hasType] at hw
      simp only [stream, List.append_assoc] at h
      simp only [Ty.wf] at hwf
      rw [M64_eq] at hv hw
      obtain ⟨h1, h2⟩ := le_inj_of_lt hv.1.2 hw.1.2 h
      rw [← h1] at h2
      have := locAll_dec vs _ _ _ _ _ hwf hv.2 hw.2 h1 h2
      refine ⟨?_, this.2⟩
      rcases this.1 with a | b
      · exact Or.inl (by simpa [Val.SameUpTo] using a)
      · exact Or.inr (by simp only [Val.Located]; exact ⟨h1, b⟩)
    · -- uset
      cases w <;> simp [hasType] at hw
      rename_i t' ws
      simp only [Ty.wf] at hwf
      obtain ⟨hl, hr, hp⟩ := uset_node_loc absorb finish hv.1 hw.1 h
      refine ⟨?_, hr⟩
      rcases hp with hp | hc
      · rcases locMatch vs t' ws _ hwf hv.2 (fun w hm => allHaveType_mem ws hw.2 hm) hp with hm | hc
        · exact Or.inl (by simpa [Val.SameUpTo] using hm)
        · exact Or.inr (by simp only [Val.Located]; exact ⟨hl, Or.inr hc⟩)
      · exact Or.inr (by simp only [Val.Located]; exact ⟨hl, Or.inl hc⟩)
    · -- umap
      cases w <;> simp [hasType] at hw
      rename_i k' v' ws
      simp only [Ty.wf, Bool.and_eq_true] at hwf
      rw [stream_umap, stream_umap] at h
      obtain ⟨hl, hr, hp⟩ := uset_node_loc absorb finish hv.1 hw.1 h
      refine ⟨?_, hr⟩
      have hwf' : (Ty.pair k' v').wf = true := by simp [Ty.pair, Ty.wf, TyList.wf, hwf.1, hwf.2]
      rcases hp with hp | hc
      · rcases locMatch vs (Ty.pair k' v') ws _ hwf' hv.2 (fun w hm => allHaveType_mem ws hw.2 hm) hp with hm | hc
        · exact Or.inl (by simpa [Val.SameUpTo] using hm)
        · exact Or.inr (by simp only [Val.Located]; exact ⟨hl, Or.inr hc⟩)
      · exact Or.inr (by simp only [Val.Located]; exact ⟨hl, Or.inl hc⟩)
  | .variant idx fs, t, w, st, r1, r2, hwf, hv, hw, h => by
    cases t <;> simp only [hasType] at hv <;> try (simp at hv; done)
    rename_i dw vars
    cases w <;> simp only [hasType] at hw <;> try (simp at hw; done)
    rename_i idx' fs'
    simp only [Ty.wf, Bool.and_eq_true] at hwf
    simp only [stream] at h
    cases hg : vars.get? idx with
    | none => simp [hg] at hv
    | some p =>
      obtain ⟨d, fts⟩ := p
      cases hg' : vars.get? idx' with
      | none => simp [hg'] at hw
      | some p' =>
        obtain ⟨d', fts'⟩ := p'
        simp only [hg, hg'] at h hv hw
        simp only [List.append_assoc] at h
        have hd : d < 256 ^ dw.bytes := by
          rw [← pow256]; exact allBelow_mem hwf.1.2 (VarList.get?_mem _ hg)
        have hd' : d' < 256 ^ dw.bytes := by
          rw [← pow256]; exact allBelow_mem hwf.1.2 (VarList.get?_mem _ hg')
        obtain ⟨h1, h2⟩ := le_inj_of_lt hd hd' h
        subst h1
        have hidx := VarList.get?_inj _ hwf.1.1 hg hg'
        subst hidx
        rw [hg] at hg'
        simp only [Option.some.injEq, Prod.mk.injEq, true_and] at hg'
        subst hg'
        have := locFields_dec fs _ _ _ _ _ (VarList.get?_wf _ hwf.2 hg) hv hw h2
        refine ⟨?_, this.2⟩
        rcases this.1 with hs | hc
        · exact Or.inl (by simp [Val.SameUpTo, hg, hs])
        · exact Or.inr (by simp only [Val.Located, hg]; exact ⟨trivial, hc⟩)

theorem locAll_dec : ∀ (vs : ValList) (t : Ty) (ws : ValList) (st : σ) (r1 r2 : Bytes),
    t.wf = true → allHaveType t vs = true → allHaveType t ws = true → vs.length = ws.length →
    streamAll absorb finish t vs st ++ r1 = streamAll absorb finish t ws st ++ r2 →
    (ValList.SameAll vs t ws ∨ ValList.LocatedAll absorb finish vs t ws st) ∧ r1 = r2
  | .nil, t, ws, st, r1, r2, hwf, hv, hw, hl, h => by
    cases ws with
    | nil => exact ⟨Or.inl (by simp [ValList.SameAll]), by simpa [streamAll] using h⟩
    | cons w ws => simp [ValList.length] at hl
  | .cons v vs, t, ws, st, r1, r2, hwf, hv, hw, hl, h => by
    cases ws with
    | nil => simp [ValList.length] at hl
    | cons w ws =>
      simp only [allHaveType, Bool.and_eq_true] at hv hw
      simp only [ValList.length, Nat.add_right_cancel_iff] at hl
      simp only [streamAll, List.append_assoc] at h
      obtain ⟨h1, h2⟩ := loc_dec v _ _ _ _ _ hwf hv.1 hw.1 h
      have hs : stream absorb finish t v st = stream absorb finish t w st := by
        rw [h2] at h; exact List.append_cancel_right h
      rw [← hs] at h2
      obtain ⟨h3, h4⟩ := locAll_dec vs _ _ _ _ _ hwf hv.2 hw.2 hl h2
      refine ⟨?_, h4⟩
      rcases h1 with h1 | hc
      · rcases h3 with h3 | hc
        · exact Or.inl (by simp [ValList.SameAll, h1, h3])
        · exact Or.inr (by simp only [ValList.LocatedAll]; exact Or.inr ⟨hs, hc⟩)
      · exact Or.inr (by simp only [ValList.LocatedAll]; exact Or.inl hc)

theorem locFields_dec : ∀ (vs : ValList) (ts : TyList) (ws : ValList) (st : σ) (r1 r2 : Bytes),
    ts.wf = true → fieldsHaveType ts vs = true → fieldsHaveType ts ws = true →
    streamFields absorb finish ts vs st ++ r1 = streamFields absorb finish ts ws st ++ r2 →
    (ValList.SameFields vs ts ws ∨ ValList.LocatedFields absorb finish vs ts ws st) ∧ r1 = r2
  | .nil, ts, ws, st, r1, r2, hwf, hv, hw, h => by
    cases ts <;> simp [fieldsHaveType] at hv
    cases ws <;> simp [fieldsHaveType] at hw
    exact ⟨Or.inl (by simp [ValList.SameFields]), by simpa [streamFields] using h⟩
  | .cons v vs, ts, ws, st, r1, r2, hwf, hv, hw, h => by
    cases ts <;> simp [fieldsHaveType] at hv
    cases ws <;> simp [fieldsHaveType] at hw
    rename_i t ts w ws
    simp only [TyList.wf, Bool.and_eq_true] at hwf
    simp only [streamFields, List.append_assoc] at h
    obtain ⟨h1, h2⟩ := loc_dec v _ _ _ _ _ hwf.1 hv.1 hw.1 h
    have hs : stream absorb finish t v st = stream absorb finish t w st := by
      rw [h2] at h; exact List.append_cancel_right h
    rw [← hs] at h2
    obtain ⟨h3, h4⟩ := locFields_dec vs _ _ _ _ _ hwf.2 hv.2 hw.2 h2
    refine ⟨?_, h4⟩
    rcases h1 with h1 | hc
    · rcases h3 with h3 | hc
      · exact Or.inl (by simp [ValList.SameFields, h1, h3])
      · exact Or.inr (by simp only [ValList.LocatedFields]; exact Or.inr ⟨hs, hc⟩)
    · exact Or.inr (by simp only [ValList.LocatedFields]; exact Or.inl hc)

/-- entry streams are a permutation of each other ⇒ the entries can be matched up pairwise, or a matched pair
    of entries (same entry stream) contains the located event -/
theorem locMatch : ∀ (vs : ValList) (t : Ty) (ws : ValList) (st : σ),
    t.wf = true → allHaveType t vs = true → (∀ w ∈ ws.toList, hasType t w = true) →
    (entryStreams absorb finish t vs st).Perm (entryStreams absorb finish t ws st) →
    (∃ ws' : ValList, ws'.toList.Perm ws.toList ∧ ValList.SameAll vs t ws') ∨
      ValList.LocatedEntry absorb finish vs t ws st
  | .nil, t, ws, st, hwf, hv, hw, hp => by
    have := hp.length_eq
    simp [entryStreams, ValList.toList] at this
    have hnil : ws.toList = [] := List.eq_nil_of_length_eq_zero this.symm
    exact Or.inl ⟨.nil, by simp [ValList.toList, hnil], by simp [ValList.SameAll]⟩
  | .cons v vs, t, ws, st, hwf, hv, hw, hp => by
    simp only [allHaveType, Bool.and_eq_true] at hv
    simp only [entryStreams, ValList.toList, List.map_cons] at hp
    have hmem : stream absorb finish t v st ∈ ws.toList.map (fun v => stream absorb finish t v st) :=
      hp.subset (by simp)
    obtain ⟨w, hwm, hfw⟩ := List.mem_map.mp hmem
    obtain ⟨s, u, hsu⟩ := List.append_of_mem hwm
    have hp' : (vs.toList.map (fun v => stream absorb finish t v st)).Perm
        ((s ++ u).map (fun v => stream absorb finish t v st)) := by
      rw [hsu] at hp
      have h2 : ((s ++ w :: u).map (fun v => stream absorb finish t v st)).Perm
          (stream absorb finish t w st :: (s ++ u).map (fun v => stream absorb finish t v st)) := by
        simp
      rw [hfw] at h2
      exact (hp.trans h2).cons_inv
    have hsub : ∀ x ∈ (ValList.ofList (s ++ u)).toList, x ∈ ws.toList := by
      intro x hx
      rw [ValList.toList_ofList] at hx
      rw [hsu]
      rcases List.mem_append.mp hx with h | h
      · exact List.mem_append.mpr (Or.inl h)
      · exact List.mem_append.mpr (Or.inr (List.mem_cons_of_mem _ h))
    have hrec := locMatch vs t (ValList.ofList (s ++ u)) st hwf hv.2
      (fun x hx => hw x (hsub x hx))
      (by simpa [entryStreams, ValList.toList_ofList] using hp')
    have hone := loc_dec v t w st [] [] hwf hv.1 (hw w hwm) (by simpa using hfw.symm)
    rcases hone.1 with hsame | hc
    · rcases hrec with ⟨ws'', hperm, hall⟩ | hc
      · refine Or.inl ⟨.cons w ws'', ?_, by simp [ValList.SameAll, hsame, hall]⟩
        rw [ValList.toList_ofList] at hperm
        rw [hsu]
        simp only [ValList.toList]
        exact (List.Perm.cons w hperm).trans List.perm_middle.symm
      · refine Or.inr ?_
        simp only [ValList.LocatedEntry]
        exact Or.inr (ValList.LocatedEntry_mono absorb finish vs t _ ws st hsub hc)
    · refine Or.inr ?_
      simp only [ValList.LocatedEntry]
      exact Or.inl ⟨w, hwm, hfw.symm, hc⟩
end

end

end QbiceVerif.Hash
