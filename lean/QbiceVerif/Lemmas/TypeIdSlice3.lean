/-
Slice 3 of the generated universe (Gen/TypeIdTable.lean): every type has an id and the id keys
ascend strictly from `sliceBound3` to below `sliceBound4`.  A finite table, proved whole by kernel
evaluation; one module per slice so that lake checks the slices in parallel.
-/
import QbiceVerif.Gen.TypeIdTable

namespace QbiceVerif.TypeId
open Gen

theorem slice3_ok : sliceCheck ctorTable sliceBound3 slice3 = some sliceBound4 := by
  decide +kernel

end QbiceVerif.TypeId
