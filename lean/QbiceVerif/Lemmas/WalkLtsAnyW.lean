import QbiceVerif.Lemmas.WalkLts

/-! The `WK` LTS: the as-is system can deadlock for EVERY number of workers (one dropper per worker). -/

namespace QbiceVerif.Lts.WK

/-- one walker that parks once, one dropper per worker -/
def dlTasks (W : Nat) : List (Role × Nat) := (Role.walker, 1) :: (List.range W).map fun j => (Role.writer false (3 + j), 0)

theorem dlTasks_getD {W i : Nat} (h1 : 1 ≤ i) (h2 : i ≤ W) : (dlTasks W).getD i (.walker, 0) = (.writer false (2 + i), 0) := by
  obtain ⟨i', rfl⟩ : ∃ i', i = i' + 1 := ⟨i - 1, by omega⟩
  simp only [dlTasks, List.getD_cons_succ]
  rw [List.getD_eq_getElem?_getD, List.getElem?_map, List.getElem?_range (by omega)]
  simp only [Option.map_some, Option.getD_some]
  congr 2
  omega

def ind (j i : Nat) : Nat := if 1 ≤ i ∧ i ≤ j then 1 else 0

theorem sumTo_ind (j n : Nat) : sumTo n (ind j) = min j (n - 1) := by
  induction n with
  | zero => simp [sumTo]
  | succ n ih =>
    simp only [sumTo, ih, ind]
    split <;> omega

/-- the walker is parked holding the guards; the droppers `1..j` are being polled, `j+1..W` are queued -/
structure DL (W j : Nat) (s : State) : Prop where
  hW : s.W = W
  hn : s.n = W + 1
  t0q : (s.task 0).st = .queued
  t0h : (s.task 0).holds = true
  t0r : (s.task 0).role = .walker
  wr : ∀ i, 1 ≤ i → i ≤ W → (∃ x, (s.task i).role = .writer false x) ∧ (s.task i).st = if i ≤ j then .running else .queued

theorem DL.busy {W j : Nat} {s : State} (h : DL W j s) (hj : j ≤ W) : s.busy = j := by
  unfold State.busy
  rw [h.hn, sumTo_congr (g := ind j), sumTo_ind]
  · omega
  · intro i hi
    by_cases h0 : i = 0
    · subst h0; simp [h.t0q, ind]
    · have := (h.wr i (by omega) (by omega)).2
      rw [this]
      by_cases hij : i ≤ j <;> simp [ind, hij] <;> omega

theorem DL.next {W j : Nat} {s : State} (h : DL W j s) (hj : j < W) :
    ∃ s', step s (.resume (j + 1)) = some s' ∧ DL W (j + 1) s' := by
  have hq : (s.task (j + 1)).st = .queued := by
    have := (h.wr (j + 1) (by omega) (by omega)).2
    rwa [if_neg (by omega)] at this
  refine ⟨_, by simp only [step]; rw [if_pos ⟨by rw [h.hn]; omega, hq, by rw [h.busy (by omega), h.hW]; exact hj⟩], ?_⟩
  refine ⟨h.hW, h.hn, by simpa [State.set] using h.t0q, by simpa [State.set] using h.t0h, by simpa [State.set] using h.t0r, ?_⟩
  intro i h1 h2
  obtain ⟨hx, hs⟩ := h.wr i h1 h2
  by_cases hi : i = j + 1
  · subst hi; exact ⟨by simpa [State.set] using hx, by simp [State.set]⟩
  · refine ⟨by simpa [State.set, hi] using hx, ?_⟩
    simp only [State.set, hi, if_false, hs]
    by_cases hij : i ≤ j
    · simp [hij, show i ≤ j + 1 by omega]
    · simp [hij, show ¬ i ≤ j + 1 by omega]

theorem DL.stuck {W : Nat} {s : State} (h : DL W W s) (ev : Ev) : step s ev = none := by
  have hb := h.busy (Nat.le_refl _)
  have hrd : s.readers ≠ 0 := by
    have := sumTo_pos (n := s.n) (i := 0) (f := fun i => if (s.task i).holds = true then 1 else 0) (by rw [h.hn]; omega)
      (by simp [h.t0h])
    unfold State.readers; omega
  have hrole : ∀ i, i < s.n → i ≠ 0 → (s.task i).role ≠ .walker := by
    intro i hi h0 hw
    obtain ⟨x, hx⟩ := (h.wr i (by omega) (by rw [h.hn] at hi; omega)).1
    rw [hx] at hw; cases hw
  cases ev with
  | resume i =>
    simp only [step]; rw [if_neg]; rw [hb, h.hW]; omega
  | walkBegin i =>
    simp only [step]; rw [if_neg]
    rintro ⟨hi, hw, hr, _⟩
    by_cases h0 : i = 0
    · subst h0; rw [h.t0q] at hr; cases hr
    · exact hrole i hi h0 hw
  | walkYield i c =>
    simp only [step]; rw [if_neg]
    rintro ⟨hi, hw, hr, _⟩
    by_cases h0 : i = 0
    · subst h0; rw [h.t0q] at hr; cases hr
    · exact hrole i hi h0 hw
  | walkEnd i =>
    simp only [step]; rw [if_neg]
    rintro ⟨hi, hw, hr, _⟩
    by_cases h0 : i = 0
    · subst h0; rw [h.t0q] at hr; cases hr
    · exact hrole i hi h0 hw
  | write i =>
    simp only [step]
    split
    · rfl
    · rw [if_neg]; rintro ⟨_, _, hz⟩; exact hrd hz

def st0 (W : Nat) (c0 : List Nat) : State := init W false c0 (dlTasks W)
def st1 (W : Nat) (c0 : List Nat) : State :=
  let s := st0 W c0
  s.set 0 { s.task 0 with st := .running }
def st2 (W : Nat) (c0 : List Nat) : State :=
  let s := st1 W c0
  let t := s.task 0
  { s.set 0 { t with begun := true, holds := !s.fixed, todo := s.content, snap := s.content } with
    hist := s.hist ++ [(0, .iter, .list s.content)] }
def st3 (W : Nat) (c0 : List Nat) : State :=
  let s := st2 W c0
  let t := s.task 0
  s.set 0 { t with st := .queued, k := t.k - 1, visited := t.visited ++ t.todo.take 16, todo := t.todo.drop 16 }

theorem DL.start (W : Nat) (hW : 1 ≤ W) (c0 : List Nat) :
    run (init W false c0 (dlTasks W)) [.resume 0, .walkBegin 0, .walkYield 0 16] = some (st3 W c0) ∧ DL W 0 (st3 W c0) := by
  have hb0 : (st0 W c0).busy = 0 := sumTo_zero (fun j _ => by simp [st0, init, mkTask])
  have hn : (st0 W c0).n = W + 1 := by simp [st0, init, dlTasks]
  have e1 : step (st0 W c0) (.resume 0) = some (st1 W c0) := by
    simp only [step]
    rw [if_pos ⟨by rw [hn]; omega, by simp [st0, init, mkTask], by rw [hb0]; exact hW⟩]
    rfl
  have e2 : step (st1 W c0) (.walkBegin 0) = some (st2 W c0) := by
    simp only [step]
    rw [if_pos ⟨by simp [st1, State.set, hn], by simp [st1, st0, State.set, init, mkTask, dlTasks], by simp [st1, State.set],
      by simp [st1, st0, State.set, init, mkTask]⟩]
    rfl
  have e3 : step (st2 W c0) (.walkYield 0 16) = some (st3 W c0) := by
    simp only [step]
    rw [if_pos ⟨by simp [st2, st1, State.set, hn], by simp [st2, st1, st0, State.set, init, mkTask, dlTasks], by simp [st2, st1, State.set],
      by simp [st2, State.set], by simp [st2, st1, st0, State.set, init, mkTask, dlTasks]⟩]
    rfl
  refine ⟨by show (step (st0 W c0) _).bind _ = _; simp [e1, e2, e3, run], ?_⟩
  refine ⟨rfl, by simp [st3, st2, st1, State.set, hn], by simp [st3, State.set], by simp [st3, st2, State.set, st1, st0, init],
    by simp [st3, st2, st1, st0, State.set, init, mkTask, dlTasks], ?_⟩
  intro i h1 h2
  have hi0 : i ≠ 0 := by omega
  have hi : ¬ i ≤ 0 := by omega
  simp only [st3, st2, st1, st0, State.set, hi0, if_false, init, dlTasks_getD h1 h2, mkTask, hi]
  exact ⟨⟨_, rfl⟩, trivial⟩

theorem DL.reach {W : Nat} (hW : 1 ≤ W) (c0 : List Nat) (j : Nat) (hj : j ≤ W) :
    ∃ s, Reachable W false c0 (dlTasks W) s ∧ DL W j s := by
  induction j with
  | zero =>
    obtain ⟨hr, hd⟩ := DL.start W hW c0
    exact ⟨_, run_reachable .init hr, hd⟩
  | succ j ih =>
    obtain ⟨s, hr, hd⟩ := ih (by omega)
    obtain ⟨s', hs, hd'⟩ := hd.next (by omega)
    exact ⟨s', .step _ hr hs, hd'⟩

end QbiceVerif.Lts.WK
