/-
Lemmas about the extended core engine model, part 4: `repair_query` (`repairDeps_spec`) and the clean
path (`clean_spec`).
-/
import QbiceVerif.Lemmas.EngineCoreFw3
namespace Qbice.CoreFw
open Qbice.Core (Prog Err Write SetRes allVals evalProg applyWorld Sat TraceOK)

/-- post-condition of a request for `k` started in `s` -/
def QPost (p : Program) (k : Key) (s : St) (r : Val × St) : Prop :=
  Inv p r.2 ∧ Frame p s r.2 ∧ Touches (k + 1) s r.2 ∧ cur p s k = some r.1 ∧
    ∃ n, r.2.nodes k = some n ∧ n.value = r.1 ∧ n.lastVerified = r.2.epoch

/-- the recursive-call parameter behaves like a sound request on all keys below `b` -/
def QSpec (p : Program) (q : Q) (b : Nat) : Prop :=
  ∀ d, d < b → ∀ s, Inv p s → Sat (q d s) (QPost p d s)

/-- what `check_callee` has established about the recorded callee `d` of the node `n` -/
def DepOK (s : St) (n : Node) (moved : Bool) (d : Key) (o : Val) : Prop :=
  ∃ nd, s.nodes d = some nd ∧ nd.value = o ∧ Solid s d ∧
    (moved = false → nd.kind ≠ .firewall → nd.tfc = n.seen d)

theorem DepOK.frame {p : Program} {s s' : St} {n : Node} {m : Bool} {d : Key} {o : Val}
    (h : DepOK s n m d o) (f : Frame p s s') : DepOK s' n m d o := by
  obtain ⟨nd, hnd, hv, hs, hacc⟩ := h
  obtain ⟨nd', hnd', a, _, c, _, e, _⟩ := f.keep d nd hs hnd
  exact ⟨nd', hnd', by rw [a, hv], f.solid hs, fun hm hk => by rw [c]; exact hacc hm (by rw [← e]; exact hk)⟩

theorem DepOK.weaken {s : St} {n : Node} {m m' : Bool} {d : Key} {o : Val}
    (h : DepOK s n m d o) (hm : m' = false → m = false) : DepOK s n m' d o := by
  obtain ⟨nd, hnd, hv, hs, hacc⟩ := h
  exact ⟨nd, hnd, hv, hs, fun h' => hacc (hm h')⟩

theorem tfcMoved_false {s : St} {seen : Key → List Key} {d : Key} {nd : Node}
    (hnd : s.nodes d = some nd) (h : tfcMoved s seen d = false) : nd.kind ≠ .firewall → nd.tfc = seen d := by
  intro hk
  simp only [tfcMoved, hnd, Bool.and_eq_false_iff, decide_eq_false_iff_not] at h
  rcases h with h | h
  · exact absurd hk h
  · exact Decidable.of_not_not h

theorem tfcMoved_true {s : St} {seen : Key → List Key} {d : Key} {nd : Node}
    (hnd : s.nodes d = some nd) (h : tfcMoved s seen d = true) : nd.kind ≠ .firewall ∧ nd.tfc ≠ seen d := by
  simpa [tfcMoved, hnd] using h

theorem repairDeps_spec {p : Program} {q : Q} {k : Key} (hq : QSpec p q k) {n : Node}
    (skipOk : Bool) :
    ∀ (deps : List (Key × Val)) (nt : Bool) (cl : List Key) (s : St), Inv p s → s.nodes k = some n →
      (∀ e, e ∈ deps → e ∈ n.deps) →
      Sat (repairDeps q k skipOk n.seen deps nt cl s) (fun r =>
        Inv p r.2.2.2 ∧ Frame p s r.2.2.2 ∧ Touches (k + 1) s r.2.2.2 ∧ r.2.2.2.nodes k = some n ∧
        (r.1 = false →
          (∀ d o, (d, o) ∈ deps → DepOK r.2.2.2 n r.2.1 d o) ∧ (nt = true → r.2.1 = true) ∧
          (r.2.1 = true → nt = true ∨ ∃ d o nd, (d, o) ∈ deps ∧ r.2.2.2.nodes d = some nd ∧
            nd.kind ≠ .firewall ∧ nd.tfc ≠ n.seen d)) ∧
        (r.1 = true → ∃ d o, (d, o) ∈ deps ∧ cur p s d ≠ some o ∧
          ∃ nd, r.2.2.2.nodes d = some nd ∧ nd.value ≠ o ∧ nd.lastVerified = r.2.2.2.epoch)) := by
  intro deps
  induction deps with
  | nil =>
    intro nt cl s inv hk _
    simp only [repairDeps]
    exact ⟨inv, Frame.refl p s, Touches.refl _ s, hk,
      fun _ => ⟨fun _ _ h => (by cases h), fun h => h, fun h => Or.inl h⟩, fun h => (by cases h)⟩
  | cons e rest ih =>
    intro nt cl s inv hk hsub
    obtain ⟨d, o⟩ := e
    have hm : (d, o) ∈ n.deps := hsub _ (List.mem_cons_self ..)
    have hsub' : ∀ e, e ∈ rest → e ∈ n.deps := fun e he => hsub e (List.mem_cons_of_mem _ he)
    simp only [repairDeps]
    split
    · -- clean edge, trusted: skipped
      rename_i hskip
      obtain ⟨hcl, _, htr⟩ := hskip
      obtain ⟨nd, hnd, hvd, hacc, hsol⟩ := inv.clean_trusted hk hm hcl htr
      have hd0 : DepOK s n false d o := ⟨nd, hnd, hvd, hsol, fun _ => hacc⟩
      refine (ih nt cl s inv hk hsub').mono ?_
      rintro ⟨b, nt', cl', s1⟩ ⟨i1, f1, t1, k1, hf, ht⟩
      refine ⟨i1, f1, t1, k1, ?_, ?_⟩
      · intro hb
        obtain ⟨h1, h2, h3⟩ := hf hb
        refine ⟨?_, h2, ?_⟩
        · intro d' o' hm'
          simp only [List.mem_cons] at hm'
          cases hm' with
          | inl e => cases e; exact (hd0.frame f1).weaken (fun _ => rfl)
          | inr hm' => exact h1 d' o' hm'
        · intro h
          rcases h3 h with h | ⟨d', o', nd', hm', r⟩
          · exact Or.inl h
          · exact Or.inr ⟨d', o', nd', List.mem_cons_of_mem _ hm', r⟩
      · intro hb
        obtain ⟨d', o', hm', r⟩ := ht hb
        exact ⟨d', o', List.mem_cons_of_mem _ hm', r⟩
    · have hdk : d < k := (inv.down k n hk d o hm).1
      have hqd := hq d hdk s inv
      cases hr : q d s with
      | error e => rw [hr] at hqd; simpa [Sat] using hqd
      | ok r =>
        obtain ⟨v, s1⟩ := r
        rw [hr] at hqd
        obtain ⟨i1, f1, t1, c1, nd, hnd, hvd, hver⟩ := hqd
        simp only at i1 f1 t1 c1 hnd hvd hver
        have k1 : s1.nodes k = some n := by rw [t1.1 k (by komega)]; exact hk
        simp only
        split
        · rename_i hne
          refine ⟨i1, f1, t1.mono (by komega), k1, fun h => (by cases h), fun _ => ?_⟩
          refine ⟨d, o, List.mem_cons_self .., by rw [c1]; simpa using hne, nd, hnd, by rw [hvd]; exact hne, hver⟩
        · rename_i heq
          have heq : v = o := by simpa using heq
          subst heq
          have hsol : Solid s1 d := i1.solid d nd hnd hver
          refine (ih (nt || tfcMoved s1 n.seen d) _ s1 i1 k1 hsub').mono ?_
          rintro ⟨b, nt', cl', s3⟩ ⟨i3, f3, t3, k3, hf, ht⟩
          refine ⟨i3, f1.trans f3, (t1.mono (by komega)).trans t3, k3, ?_, ?_⟩
          · intro hb
            obtain ⟨h1, h2, h3⟩ := hf hb
            simp only at h1 h2 h3 ⊢
            refine ⟨?_, ?_, ?_⟩
            · intro d' o' hm'
              simp only [List.mem_cons] at hm'
              cases hm' with
              | inl e =>
                cases e
                have hd1 : DepOK s1 n (nt || tfcMoved s1 n.seen d) d v :=
                  ⟨nd, hnd, hvd, hsol, fun hmv => tfcMoved_false hnd (by
                    cases hx : tfcMoved s1 n.seen d with
                    | false => rfl
                    | true => rw [hx] at hmv; simp at hmv)⟩
                refine (hd1.frame f3).weaken ?_
                intro h'
                cases hx : (nt || tfcMoved s1 n.seen d) with
                | false => rfl
                | true => rw [h2 hx] at h'; cases h'
              | inr hm' => exact h1 d' o' hm'
            · intro hnt; exact h2 (by simp [hnt])
            · intro h
              rcases h3 h with h | ⟨d', o', nd', hm', r⟩
              · simp only [Bool.or_eq_true] at h
                rcases h with h | h
                · exact Or.inl h
                · obtain ⟨a, b'⟩ := tfcMoved_true hnd h
                  obtain ⟨nd3, hnd3, _, _, c3, _, e3, _⟩ := f3.keep d nd hsol hnd
                  exact Or.inr ⟨d, v, nd3, List.mem_cons_self .., hnd3, by rw [e3]; exact a, by rw [c3]; exact b'⟩
              · exact Or.inr ⟨d', o', nd', List.mem_cons_of_mem _ hm', r⟩
          · intro hb
            obtain ⟨d', o', hm', hne, r⟩ := ht hb
            exact ⟨d', o', List.mem_cons_of_mem _ hm', by rw [← f1.cur]; exact hne, r⟩

end Qbice.CoreFw
