/-
Property C16, `Policy::unpin`'s "only when the storage confirmed the removal" condition.

* `bound_notify_buffered`: the `Notify` resident bound with the number of messages actually buffered in
  place of the batch size (what the harness's per-step / quiescence oracle uses).
* `runV forget`: the model with a toggle for the seeded variant of `Policy::unpin`
  (`/verif/seeded/C16-notify-unpin-forgets-entry`): with `forget = true` a key of the pinned region
  that loses the duel is dropped from the policy's lists whether or not the storage confirmed the
  removal.  `runV_false`: with the toggle off it IS the model (`run`).
* `repinHistory`: the write-behind history on which the variant loses track of a resident entry.
-/
import QbiceVerif.Lemmas.TinyLfuBound
import QbiceVerif.Lemmas.TinyLfuWitness

namespace QbiceVerif.TinyLfu

variable {σ : Type}

/-! ### the bounds with the buffered messages counted exactly -/

/-- `Notify`, protocol followed: resident ≤ window capacity + main capacity + currently pinned +
the number of write messages still buffered. -/
theorem bound_notify_buffered {cfg : Cfg σ} {c : Cache σ} (htok : ∀ k v, cfg.tok k v = k) (hi : Inv cfg c)
    (hn : NInv c.pins c.wbuf c.core.lru) :
    c.core.st.length ≤ cfg.windowCap + cfg.mainLimit + pinnedNow cfg c.pins c.core.st + c.wbuf.length := by
  have hlen := length_le_pinned_add cfg c.pins c.core.st
    (c.core.lru.window ++ c.core.lru.probation ++ c.core.lru.prot ++ c.wbuf.map msgKey)
    hi.core.nodup (by
      intro k v hk hp
      have hp' : k ∉ c.pins := by
        intro hm; rw [htok] at hp; simp [hm] at hp
      simp only [List.mem_append, List.mem_map]
      rcases resident_tracked hi hk with h | h | h | h | h
      · exact Or.inl (Or.inl (Or.inl h))
      · exact Or.inl (Or.inl (Or.inr h))
      · exact Or.inl (Or.inr h)
      · rcases hn k h with h1 | h1
        · exact absurd h1 hp'
        · exact Or.inr ⟨_, h1, rfl⟩
      · exact Or.inr ⟨_, h, rfl⟩)
  have := hi.core.caps.win; have := hi.core.caps.main
  simp only [List.length_append, List.length_map] at hlen
  omega

/-! ### the model with a toggle for the seeded `Policy::unpin` -/

/-- The seeded `Policy::unpin` (`remove(unpin); self.lru.remove(unpin);`): `unpin` of the model with the last
branch's `if r.2 then … else .ok r.1` (= `if remove(unpin) { self.lru.remove(unpin); }`) replaced by the
unconditional removal from the policy's lists. -/
def unpinForgetting (cfg : Cfg σ) (pins : List Nat) (c : Core σ) (k : Nat) : Except Panic (Core σ) :=
  if c.lru.regionOf k ≠ some .pinned then .ok c
  else
    match c.lru.probation with
    | [] =>
      if cfg.fixF4 then
        match c.lru.moveKeyToProbation k with
        | .ok lru => .ok { c with lru := lru }
        | .error e => .error e
      else .error .unpinProbationEmpty
    | vict :: p =>
      if cfg.estimate c.sk (cfg.hash k) > cfg.estimate c.sk (cfg.hash vict) then
        let c := evictOrPin cfg pins c vict { c.lru with probation := p }
        match c.lru.moveKeyToProbation k with
        | .ok lru => .ok { c with lru := lru }
        | .error e => .error e
      else
        let r := removeClosure cfg pins c k
        .ok { r.1 with lru := r.1.lru.remove k }

/-- `Policy::unpin` with the toggle: `forget = false` is `unpin` of the model (the code as it is),
`forget = true` the seeded variant. -/
def unpinV (forget : Bool) (cfg : Cfg σ) (pins : List Nat) (c : Core σ) (k : Nat) : Except Panic (Core σ) :=
  if forget then unpinForgetting cfg pins c k else unpin cfg pins c k

def processWriteV (forget : Bool) (cfg : Cfg σ) (pins : List Nat) (c : Core σ) : WMsg → Except Panic (Core σ)
  | .insert k => onWrite cfg pins c k
  | .unpinned k => unpinV forget cfg pins c k
  | .removed k => .ok { c with lru := c.lru.remove k }

def processWritesV (forget : Bool) (cfg : Cfg σ) (pins : List Nat) : List WMsg → Core σ → Except Panic (Core σ)
  | [], c => .ok c
  | m :: ms, c =>
    match processWriteV forget cfg pins c m with
    | .ok c => processWritesV forget cfg pins ms c
    | .error e => .error e

def processPolicyMessagesV (forget : Bool) (cfg : Cfg σ) (c : Cache σ) : Except Panic (Cache σ) :=
  match processWritesV forget cfg c.pins c.wbuf c.core with
  | .error e => .error e
  | .ok core =>
    let core := processReads cfg c.rbuf core
    let core := if cfg.poll then trim cfg c.pins core else core
    .ok { c with core := core, wbuf := [], rbuf := [], rel := [] }

def tryMaintenanceV (forget : Bool) (cfg : Cfg σ) (c : Cache σ) : Except Panic (Cache σ) :=
  if c.wbuf.length ≤ cfg.batch && c.rbuf.length ≤ cfg.batch then .ok c
  else processPolicyMessagesV forget cfg c

def stepV (forget : Bool) (cfg : Cfg σ) (c : Cache σ) (op : Op) : Except Panic (Cache σ × Ret × List (Nat × Bool)) :=
  if (access cfg c.clearLog op).2.2 then
    match tryMaintenanceV forget cfg (access cfg c.clearLog op).1 with
    | .ok c' => .ok (c', (access cfg c.clearLog op).2.1, c'.core.log)
    | .error e => .error e
  else .ok ((access cfg c.clearLog op).1, (access cfg c.clearLog op).2.1, [])

def runV (forget : Bool) (cfg : Cfg σ) : Cache σ → List Op → Except Panic (Cache σ)
  | c, [] => .ok c
  | c, op :: ops =>
    match stepV forget cfg c op with
    | .ok (c, _, _) => runV forget cfg c ops
    | .error e => .error e

theorem unpinV_false (cfg : Cfg σ) (pins : List Nat) (c : Core σ) (k : Nat) :
    unpinV false cfg pins c k = unpin cfg pins c k := by
  simp [unpinV]

theorem processWriteV_false (cfg : Cfg σ) (pins : List Nat) (c : Core σ) (m : WMsg) :
    processWriteV false cfg pins c m = processWrite cfg pins c m := by
  cases m <;> simp [processWriteV, processWrite, unpinV_false]

theorem processWritesV_false (cfg : Cfg σ) (pins : List Nat) (ms : List WMsg) (c : Core σ) :
    processWritesV false cfg pins ms c = processWrites cfg pins ms c := by
  induction ms generalizing c with
  | nil => rfl
  | cons m ms ih =>
    unfold processWritesV processWrites
    rw [processWriteV_false]
    cases processWrite cfg pins c m with
    | ok c' => simpa using ih c'
    | error e => simp

theorem tryMaintenanceV_false (cfg : Cfg σ) (c : Cache σ) : tryMaintenanceV false cfg c = tryMaintenance cfg c := by
  unfold tryMaintenanceV tryMaintenance processPolicyMessagesV processPolicyMessages
  rw [processWritesV_false]
  cases processWrites cfg c.pins c.wbuf c.core <;> simp

theorem stepV_false (cfg : Cfg σ) (c : Cache σ) (op : Op) : stepV false cfg c op = step cfg c op := by
  unfold stepV step
  rw [tryMaintenanceV_false]
  cases tryMaintenance cfg (access cfg c.clearLog op).1 <;> simp

/-- With the toggle off the variant IS the model of the code as it is. -/
theorem runV_false (cfg : Cfg σ) (c : Cache σ) (ops : List Op) : runV false cfg c ops = run cfg c ops := by
  induction ops generalizing c with
  | nil => rfl
  | cons op ops ih =>
    unfold runV run
    rw [stepV_false]
    cases step cfg c op with
    | ok x => simpa using ih x.1
    | error e => simp

/-! ### the write-behind history -/

/-- `n` clean, never-pinned, never-repeated inserts (cache fills) -/
def fill (base n : Nat) : List Op := (rangeFrom base n).map (fun k => .put k 0)

/-- Capacity 1 (window 1 + probation 1), `Notify`.  Clean traffic fills the cache; key 0 is written pinned
(`pin 0; put 0 1`) and pushed out of the window by more clean traffic: it loses the admission duel while
pinned and is parked in the Pinned region (33 inserts = one maintenance pass).  Its epoch is flushed
(`unpinNotify 0`: released, `Unpinned(0)` queued) and the next epoch writes it again (`pin 0; put 0 2`)
BEFORE the next maintenance pass; 33 more inserts run that pass: `Policy::unpin(0)` finds key 0 in the
Pinned region, it loses the frequency duel, the storage refuses the removal (pinned again).  Then the second
epoch is flushed (`unpinNotify 0`) and two more passes run with nothing pinned; the last operation is the
one that runs the fourth pass (132 = 4 · 33 write messages), so no message is buffered at the end. -/
def repinHistory : List Op :=
  fill 1000 4 ++ [.pin 0, .put 0 1] ++ fill 1100 33 ++ [.unpinNotify 0, .pin 0, .put 0 2] ++ fill 1200 33 ++
  [.unpinNotify 0] ++ fill 1300 33 ++ fill 1400 26

/-- Is `k` tracked: in one of the four regions, or has a buffered `Insert`? -/
def trackedB (c : Cache σ) (k : Nat) : Bool :=
  c.core.lru.window.contains k || c.core.lru.probation.contains k || c.core.lru.prot.contains k ||
    c.core.lru.pinned.contains k || c.wbuf.contains (.insert k)

end QbiceVerif.TinyLfu
