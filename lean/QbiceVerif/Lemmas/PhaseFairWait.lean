import QbiceVerif.Lemmas.PhaseFairLock

/-!
# C04 progress — the wait of a queued writer in the fair-queue LTS (`Model/PhaseFair`, `join = false`)

Every step other than the writer's own grant keeps the writer queued, admits only requests that stood in FRONT
of it, and strictly decreases `waitBound`.
-/

namespace QbiceVerif.PhaseFair

open QbiceVerif.Phase

theorem mem_of_mem_ahead {q : List (Tid × Bool)} {w : Tid} {p : Tid × Bool} (h : p ∈ ahead q w) : p ∈ q := by
  induction q with
  | nil => simp [ahead] at h
  | cons a q ih =>
    simp only [ahead, List.takeWhile_cons] at h ih
    split at h
    · rcases List.mem_cons.1 h with h1 | h1
      · rw [h1]; exact List.mem_cons_self
      · exact List.mem_cons_of_mem _ (ih h1)
    · simp at h

/-- what one step does while `w` waits (fair queue, no joining) -/
theorem step_wait {s s' : State} {w : Tid} {ev : Ev} (hw : s.lock.want w ≠ none)
    (hs : step false s ev = some s') (hne : ev ≠ .grant w) :
    s'.lock.want w = s.lock.want w ∧
    (∀ p, p ∈ ahead s'.lock.queue w → p ∈ ahead s.lock.queue w) ∧
    (∀ t, ev = .grant t → ∃ x, (t, x) ∈ ahead s.lock.queue w) ∧
    waitBound s' w + 1 ≤ waitBound s w := by
  cases ev with
  | req t =>
    simp only [step] at hs
    split at hs
    · rename_i x k rest hget
      split at hs
      · rename_i hnone
        simp only [Bool.false_and, Bool.false_eq_true, if_false, Option.some.injEq] at hs
        subst hs
        have hq := ahead_enqueue (l := s.lock) t x hw
        refine ⟨want_enqueue_keep t x hw, ?_, ?_, ?_⟩
        · intro p hp; simpa [hq] using hp
        · intro t' h; cases h
        · have hsum := sum_set freeCost s.tasks t ⟨.idle, (x, k) :: rest⟩ ⟨.waiting x k, rest⟩ hget
          have hcong : ((ahead s.lock.queue w).map (fun p => queuedCost (s.tasks.set t ⟨.waiting x k, rest⟩) p.1)).sum =
              ((ahead s.lock.queue w).map (fun p => queuedCost s.tasks p.1)).sum := by
            apply sum_congr_mem
            intro p hp
            apply queuedCost_set_ne
            intro hpt
            have hmem : p ∈ s.lock.queue := mem_of_mem_ahead hp
            have := (Prog.want_eq_none_iff s.lock t).1 hnone p.2
            apply this
            rw [← hpt]; exact hmem
          simp only [waitBound, hq, hcong]
          simp only [freeCost, more, List.isEmpty_cons, Bool.false_eq_true, if_false] at hsum
          omega
      · simp at hs
    · simp at hs
  | grant t =>
    simp only [step] at hs
    split at hs
    · rename_i x k sc hget
      split at hs
      · rename_i hg
        simp only [Option.some.injEq] at hs
        subst hs
        have htw : t ≠ w := fun e => hne (by rw [e])
        obtain ⟨hmem, hq, hwant⟩ := fair_grant (l := s.lock) (w := w) hg htw
        refine ⟨hwant, ?_, ?_, ?_⟩
        · intro p hp
          simp only [hq] at hp
          exact (List.mem_filter.1 hp).1
        · intro t' h; cases h; exact hmem
        · have hsum := sum_set freeCost s.tasks t ⟨.waiting x k, sc⟩ ⟨.holding x k, sc⟩ hget
          -- the head of the queue is `t`'s request
          have hhead : ∃ b rest, s.lock.queue = (t, b) :: rest := by
            unfold Lock.grantable at hg
            cases hx : s.lock.want t with
            | none => simp [hx] at hg
            | some b0 =>
              simp only [hx, Bool.not_true, Bool.false_or, Bool.and_eq_true] at hg
              have hh := hg.2
              unfold Lock.isHead at hh
              cases hq' : s.lock.queue with
              | nil => simp [hq'] at hh
              | cons p q =>
                simp only [hq', beq_iff_eq] at hh
                exact ⟨p.2, q, by rw [← hh]⟩
          obtain ⟨b, rest, hqueue⟩ := hhead
          have hahead : ahead s.lock.queue w = (t, b) :: ahead rest w := by
            simp [ahead, hqueue, htw]
          have hcong : (((ahead s.lock.queue w).filter (fun p => p.1 != t)).map
                (fun p => queuedCost (s.tasks.set t ⟨.holding x k, sc⟩) p.1)).sum =
              (((ahead s.lock.queue w).filter (fun p => p.1 != t)).map (fun p => queuedCost s.tasks p.1)).sum := by
            apply sum_congr_mem
            intro p hp
            apply queuedCost_set_ne
            have := (List.mem_filter.1 hp).2
            simpa using this
          have hle := sum_filter_le (fun p => queuedCost s.tasks p.1) (fun p => p.1 != t) (ahead rest w)
          have hqc : queuedCost s.tasks t = k + 2 + more sc := by simp [queuedCost, hget]
          simp only [waitBound, hq, hcong]
          rw [hahead]
          simp only [List.filter_cons, bne_self_eq_false, Bool.false_eq_true, if_false, List.map_cons, List.sum_cons, hqc]
          simp only [freeCost] at hsum
          omega
      · simp at hs
    · simp at hs
  | work t =>
    simp only [step] at hs
    split at hs
    · rename_i x k sc hget
      simp only [Option.some.injEq] at hs
      subst hs
      refine ⟨rfl, fun p hp => hp, ?_, ?_⟩
      · intro t' h; cases h
      · have hsum := sum_set freeCost s.tasks t ⟨.holding x (k + 1), sc⟩ ⟨.holding x k, sc⟩ hget
        have hcong : ((ahead s.lock.queue w).map (fun p => queuedCost (s.tasks.set t ⟨.holding x k, sc⟩) p.1)).sum =
            ((ahead s.lock.queue w).map (fun p => queuedCost s.tasks p.1)).sum := by
          apply sum_congr_mem
          intro p _
          exact queuedCost_set_nw s.tasks p.1 hget (by intro b k; simp) (by intro b k; simp)
        simp only [waitBound, hcong]
        simp only [freeCost] at hsum
        omega
    · simp at hs
  | rel t =>
    simp only [step] at hs
    split at hs
    · rename_i x sc hget
      simp only [Option.some.injEq] at hs
      subst hs
      have hqeq : (if x = true then { s.lock with writer := none }
          else { s.lock with readers := s.lock.readers.erase t }).queue = s.lock.queue := by
        cases x <;> rfl
      refine ⟨?_, ?_, ?_, ?_⟩
      · exact Prog.want_congr hqeq w
      · intro p hp; simpa [hqeq] using hp
      · intro t' h; cases h
      · have hsum := sum_set freeCost s.tasks t ⟨.holding x 0, sc⟩ ⟨.idle, sc⟩ hget
        have hcong : ((ahead s.lock.queue w).map (fun p => queuedCost (s.tasks.set t ⟨.idle, sc⟩) p.1)).sum =
            ((ahead s.lock.queue w).map (fun p => queuedCost s.tasks p.1)).sum := by
          apply sum_congr_mem
          intro p _
          exact queuedCost_set_nw s.tasks p.1 hget (by intro b k; simp) (by intro b k; simp)
        simp only [waitBound, hqeq, hcong]
        simp only [freeCost] at hsum
        omega
    · simp at hs

/-- along a run in which `w` is not granted -/
theorem run_wait : ∀ (evs : List Ev) {s s' : State} {w : Tid}, s.lock.want w ≠ none →
    run false s evs = some s' → Ev.grant w ∉ evs →
    s'.lock.want w = s.lock.want w ∧
    (∀ t, Ev.grant t ∈ evs → ∃ x, (t, x) ∈ ahead s.lock.queue w) ∧
    (∀ p, p ∈ ahead s'.lock.queue w → p ∈ ahead s.lock.queue w) ∧
    evs.length + waitBound s' w ≤ waitBound s w := by
  intro evs
  induction evs with
  | nil =>
    intro s s' w _ hr _
    simp only [run, Option.some.injEq] at hr
    subst hr
    exact ⟨rfl, (by intro t h; cases h), fun p hp => hp, (by simp)⟩
  | cons e es ih =>
    intro s s' w hw hr hng
    simp only [run] at hr
    cases hs : step false s e with
    | none => simp [hs] at hr
    | some s1 =>
      simp only [hs] at hr
      have hne : e ≠ .grant w := fun h => hng (by simp [h])
      obtain ⟨h1, h2, h3, h4⟩ := step_wait hw hs hne
      have hw1 : s1.lock.want w ≠ none := by rw [h1]; exact hw
      obtain ⟨i1, i2, i3, i4⟩ := ih hw1 hr (fun h => hng (List.mem_cons_of_mem _ h))
      refine ⟨by rw [i1, h1], ?_, fun p hp => h2 p (i3 p hp), ?_⟩
      · intro t ht
        rcases List.mem_cons.1 ht with h | h
        · exact h3 t h.symm
        · obtain ⟨x, hx⟩ := i2 t h
          exact ⟨x, h2 _ hx⟩
      · simp only [List.length_cons]; omega

/-- prefixes of a run are runs -/
theorem run_take {j : Bool} : ∀ (evs : List Ev) (k : Nat) {s s' : State}, run j s evs = some s' →
    ∃ s'', run j s (evs.take k) = some s'' := by
  intro evs
  induction evs with
  | nil => intro k s s' h; exact ⟨s, by simp [run]⟩
  | cons e es ih =>
    intro k s s' h
    cases k with
    | zero => exact ⟨s, by simp [run]⟩
    | succ k =>
      simp only [run] at h
      cases hs : step j s e with
      | none => simp [hs] at h
      | some s1 =>
        simp only [hs] at h
        obtain ⟨s'', h''⟩ := ih k h
        exact ⟨s'', by simp [run, hs, h'']⟩

end QbiceVerif.PhaseFair
