/-
Refinement of the specification (`Lemmas/KvSpec.lean`) by the byte-level store model
(`Model/KvStore.lean`): simulation relation and its preservation by every API step.
-/
import QbiceVerif.Lemmas.KvSpec
import QbiceVerif.Lemmas.KvAssoc

namespace QbiceVerif.Kv

/-! ### composite wide-column keys are injective -/

theorem wideKey_inj_gen {κ δ : Type} (padKey : Bool) (pl : Placement) {encD : δ → Bytes}
    {encK : κ → Bytes} (hD : PrefixFree encD) (hK : PrefixFree encK) {d d' : δ} {k k' : κ}
    (h : wideKey padKey pl (encD d) (encK k) = wideKey padKey pl (encD d') (encK k')) :
    d = d' ∧ k = k' := by
  have hK' := prefixFree_keyPart hK padKey
  cases pl with
  | prefixed =>
    exact prefixFree_concat_inj (g := fun a => if padKey then pad (encK a) else encK a) hD
      hK'.injective h
  | suffixed =>
    have := prefixFree_concat_inj (f := fun a => if padKey then pad (encK a) else encK a)
      (g := encD) hK' hD.injective h
    exact ⟨this.2, this.1⟩

theorem wideKey_ne_nil_of_pad (pl : Placement) (d k : Bytes) : wideKey true pl d k ≠ [] := by
  have := pad_ne_nil k
  cases pl <;> simp [wideKey, this]

/-! ### scans -/

theorem mem_scanKeys (be : Backend) (c : Col) (p x : Bytes) (hp : allFF p = false) :
    x ∈ scanKeys be c p ↔ x ∈ akeys c ∧ p <+: x := by
  unfold scanKeys
  simp only [mem_sortKeys, akeys]
  cases be.boundScan
  · simp only [Bool.false_eq_true, if_false, List.mem_map, List.mem_filter,
      List.isPrefixOf_iff_prefix]
    constructor
    · rintro ⟨e, ⟨he, hpre⟩, rfl⟩
      exact ⟨⟨e, he, rfl⟩, hpre⟩
    · rintro ⟨⟨e, he, rfl⟩, hpre⟩
      exact ⟨e, ⟨he, hpre⟩, rfl⟩
  · simp only [if_true, List.mem_map, List.mem_filter, Bool.and_eq_true]
    constructor
    · rintro ⟨e, ⟨he, hb⟩, rfl⟩
      exact ⟨⟨e, he, rfl⟩, (upper_bound_exact_aux p e.1 hp).mp hb⟩
    · rintro ⟨⟨e, he, rfl⟩, hpre⟩
      exact ⟨e, ⟨he, (upper_bound_exact_aux p e.1 hp).mpr hpre⟩, rfl⟩

set_option linter.unusedSectionVars false

section refinement
variable {κ δ ε : Type} [DecidableEq κ] [DecidableEq δ] [DecidableEq ε]

/-- What the theorems assume about the serializer and the column types. -/
structure EncOk (be : Backend) (E : Enc κ δ ε) : Prop where
  /-- column family names identify (kind, type id) -/
  nameInj : ∀ k k' i i', cfName be.namePrefix k i = cfName be.namePrefix k' i' → k = k' ∧ i = i'
  /-- a backend that refuses empty keys pads them (true of both shipped backends) -/
  padOk : be.maxKey = none ∨ be.padKey = true
  /-- the family cache is keyed by (type id, kind) (true of both shipped backends since the repair of F19) -/
  byKind : be.cacheByKind = true
  pfD : ∀ c, PrefixFree (E.encD c)
  pfK : ∀ c, PrefixFree (E.encK c)
  injK : ∀ c, ∀ a b, E.encSK c a = E.encSK c b → a = b
  injE : ∀ c, ∀ a b, E.encE c a = E.encE c b → a = b
  lenK : ∀ c k, (E.encSK c k).length < 2 ^ 64 - 1

/-- the composite key is within the backend's key-size limit -/
def opFits (be : Backend) (E : Enc κ δ ε) (op : LOp κ δ ε) : Prop :=
  keyOver be (opParts be E op).2.2.1 = false

def OpOk (be : Backend) (E : Enc κ δ ε) (op : LOp κ δ ε) : Prop :=
  opFits be E op

/-- well-formed commands: keys within the backend's size limit (nothing else: in particular a type id
may be used with BOTH column kinds) -/
def CmdOk (be : Backend) (E : Enc κ δ ε) : Cmd κ δ ε → Prop
  | .bop _ op => OpOk be E op
  | .sop _ op => OpOk be E op
  | .get c d k => keyOver be (wideKey be.padKey (E.plc c) (E.encD c d) (E.encK c k)) = false
  | .scan c k => keyOver be (setPrefix (E.encSK c k)) = false
  | _ => True

def encW (be : Backend) (E : Enc κ δ ε) (op : LOp κ δ ε) : WOp :=
  let p := opParts be E op
  ⟨cfName be.namePrefix p.2.1 p.1, p.2.2.1, p.2.2.2⟩

def encS (be : Backend) (E : Enc κ δ ε) (op : LOp κ δ ε) : SOp :=
  let p := opParts be E op
  ⟨p.1, p.2.1, if be.sbufEarly then some (cfName be.namePrefix p.2.1 p.1) else none, p.2.2.1,
    p.2.2.2⟩

def CacheInv (be : Backend) (cache : List ((Nat × Kind) × String)) : Prop :=
  ∀ id kind n, aget cache (id, kind) = some n → n = cfName be.namePrefix kind id

/-- the committed store content represents the committed logical state -/
structure RelD (be : Backend) (E : Enc κ δ ε) (colf : String → Col)
    (wide : Nat → δ → κ → Option Bytes) (sets : Nat → κ → ε → Bool) : Prop where
  wide : ∀ c d k,
    aget (colf (cfName be.namePrefix .wide c))
      (wideKey be.padKey (E.plc c) (E.encD c d) (E.encK c k)) = wide c d k
  sets : ∀ c, ∀ x, x ∈ akeys (colf (cfName be.namePrefix .set c)) ↔
    ∃ k e, x = setKey (E.encSK c k) (E.encE c e) ∧ sets c k e = true
  nodup : ∀ n, (akeys (colf n)).Nodup

/-- simulation relation between a model state and a specification state -/
structure Rel (be : Backend) (E : Enc κ δ ε) (db : Db) (sp : Spec κ δ ε) :
    Prop where
  cache : CacheInv be db.cache
  disk : RelD be E db.disk.col sp.wide sp.sets
  batches : ∀ h, aget db.batches h = (aget sp.batches h).map (·.map (encW be E))
  sbufs : ∀ s, aget db.sbufs s = (aget sp.sbufs s).map (·.map (encS be E))
  bok : ∀ h ops, aget sp.batches h = some ops → ∀ op ∈ ops, OpOk be E op
  sok : ∀ s ops, aget sp.sbufs s = some ops → ∀ op ∈ ops, OpOk be E op

theorem badKey_opParts (be : Backend) (E : Enc κ δ ε)
    (hE : EncOk be E) (op : LOp κ δ ε) (h : opFits be E op) :
    badKey be (opParts be E op).2.2.1 = false := by
  unfold opFits keyOver at h
  unfold badKey
  cases hm : be.maxKey with
  | none => rfl
  | some m =>
    rw [hm] at h
    have hpad : be.padKey = true := by
      rcases hE.padOk with h' | h'
      · rw [hm] at h'; cases h'
      · exact h'
    have hne : (opParts be E op).2.2.1 ≠ [] := by
      cases op with
      | put c d k v => simp only [opParts, hpad]; exact wideKey_ne_nil_of_pad _ _ _
      | del c d k => simp only [opParts, hpad]; exact wideKey_ne_nil_of_pad _ _ _
      | ins c k e =>
        intro h0
        have := congrArg List.length h0
        simp [opParts, setKey, setPrefix_length] at this
      | rem c k e =>
        intro h0
        have := congrArg List.length h0
        simp [opParts, setKey, setPrefix_length] at this
    have he : (opParts be E op).2.2.1.isEmpty = false := by
      cases h' : (opParts be E op).2.2.1 with
      | nil => exact absurd h' hne
      | cons _ _ => rfl
    simp only [he, Bool.false_or]
    exact h

/-- `get_or_create_cf`: a cache keyed by (type id, kind) is transparent — whatever the session did
before (in particular: used the same type id with the OTHER kind), the family handed out is the one
named after this id and this kind -/
theorem resolve_eq (be : Backend) (db : Db) (id : Nat) (kind : Kind)
    (hbk : be.cacheByKind = true) (hc : CacheInv be db.cache) :
    ∃ db', resolve be db id kind = (cfName be.namePrefix kind id, db') ∧
      db'.batches = db.batches ∧ db'.sbufs = db.sbufs ∧
      (∀ n, db'.disk.col n = db.disk.col n) ∧ CacheInv be db'.cache := by
  unfold resolve cacheKey
  simp only [hbk, if_true]
  cases hg : aget db.cache (id, kind) with
  | some n =>
    have := hc id kind n hg
    exact ⟨db, by simp [this], rfl, rfl, fun _ => rfl, hc⟩
  | none =>
    refine ⟨_, rfl, rfl, rfl, ?_, ?_⟩
    · intro n
      simp only
      split
      · rfl
      · exact col_append_empty _ _ _
    · intro id' kind' n hn
      simp only [aget_aset] at hn
      by_cases e : (id, kind) = (id', kind')
      · cases e
        simp only [beq_self_eq_true, if_true, Option.some.injEq] at hn
        rw [← hn]
      · have : ((id, kind) == (id', kind')) = false := by simpa using e
        simp only [this, Bool.false_eq_true, if_false] at hn
        exact hc id' kind' n hn

theorem relD_congr {be : Backend} {E : Enc κ δ ε} {f g : String → Col}
    {w : Nat → δ → κ → Option Bytes} {s : Nat → κ → ε → Bool} (h : ∀ n, g n = f n)
    (hr : RelD be E f w s) : RelD be E g w s :=
  ⟨fun c d k => by rw [h]; exact hr.wide c d k, fun c x => by rw [h]; exact hr.sets c x,
    fun n => by rw [h]; exact hr.nodup n⟩

theorem applyOp_col (d : Disk) (op : WOp) (n : String) :
    (applyOp d op).col n =
      if op.cf = n then (match op.val with
        | some v => aset (d.col op.cf) op.key v
        | none => adel (d.col op.cf) op.key) else d.col n := by
  unfold applyOp
  exact col_aset _ _ _ _

theorem applyOp_nodup (d : Disk) (op : WOp) (h : ∀ n, (akeys (d.col n)).Nodup) (n : String) :
    (akeys ((applyOp d op).col n)).Nodup := by
  rw [applyOp_col]
  split
  · cases op.val with
    | some v => exact nodup_akeys_aset _ _ _ (h _)
    | none => exact nodup_akeys_adel _ _ (h _)
  · exact h n

/-- one committed operation: the store changes exactly as the specification says -/
theorem applyOp_rel (be : Backend) (E : Enc κ δ ε) (hE : EncOk be E)
    (d : Disk) (w : Nat → δ → κ → Option Bytes) (s : Nat → κ → ε → Bool) (op : LOp κ δ ε)
    (hr : RelD be E d.col w s) :
    RelD be E (applyOp d (encW be E op)).col (specApply (w, s) op).1
      (specApply (w, s) op).2 := by
  have hlen : ∀ c k, (E.encSK c k).length < 2 ^ 64 := fun c k => by
    have := hE.lenK c k
    omega
  cases op with
  | put c0 d0 k0 v =>
    constructor
    · intro c d k
      rw [applyOp_col]
      simp only [encW, opParts, specApply]
      by_cases hcc : c0 = c
      · subst hcc
        simp only [if_true, aget_aset, true_and]
        by_cases hkey : wideKey be.padKey (E.plc c0) (E.encD c0 d0) (E.encK c0 k0) =
            wideKey be.padKey (E.plc c0) (E.encD c0 d) (E.encK c0 k)
        · obtain ⟨rfl, rfl⟩ := wideKey_inj_gen _ _ (hE.pfD c0) (hE.pfK c0) hkey
          simp
        · have hne : ¬ (d = d0 ∧ k = k0) := by
            rintro ⟨rfl, rfl⟩
            exact hkey rfl
          have hb : (wideKey be.padKey (E.plc c0) (E.encD c0 d0) (E.encK c0 k0) ==
              wideKey be.padKey (E.plc c0) (E.encD c0 d) (E.encK c0 k)) = false := by
            simpa using hkey
          simp only [hb, Bool.false_eq_true, if_false, hne]
          exact hr.wide c0 d k
      · have hn : ¬ cfName be.namePrefix .wide c0 = cfName be.namePrefix .wide c :=
          fun e => hcc (hE.nameInj _ _ _ _ e).2
        have hcc' : ¬ (c = c0 ∧ d = d0 ∧ k = k0) := fun e => hcc e.1.symm
        simp only [hn, if_false, hcc']
        exact hr.wide c d k
    · intro c x
      rw [applyOp_col]
      simp only [encW, opParts, specApply]
      have hn : ¬ cfName be.namePrefix .wide c0 = cfName be.namePrefix .set c :=
        fun e => by have := (hE.nameInj _ _ _ _ e).1; cases this
      simp only [hn, if_false]
      exact hr.sets c x
    · exact applyOp_nodup _ _ hr.nodup
  | del c0 d0 k0 =>
    constructor
    · intro c d k
      rw [applyOp_col]
      simp only [encW, opParts, specApply]
      by_cases hcc : c0 = c
      · subst hcc
        simp only [if_true, aget_adel, true_and]
        by_cases hkey : wideKey be.padKey (E.plc c0) (E.encD c0 d0) (E.encK c0 k0) =
            wideKey be.padKey (E.plc c0) (E.encD c0 d) (E.encK c0 k)
        · obtain ⟨rfl, rfl⟩ := wideKey_inj_gen _ _ (hE.pfD c0) (hE.pfK c0) hkey
          simp
        · have hne : ¬ (d = d0 ∧ k = k0) := by
            rintro ⟨rfl, rfl⟩
            exact hkey rfl
          have hb : (wideKey be.padKey (E.plc c0) (E.encD c0 d0) (E.encK c0 k0) ==
              wideKey be.padKey (E.plc c0) (E.encD c0 d) (E.encK c0 k)) = false := by
            simpa using hkey
          simp only [hb, Bool.false_eq_true, if_false, hne]
          exact hr.wide c0 d k
      · have hn : ¬ cfName be.namePrefix .wide c0 = cfName be.namePrefix .wide c :=
          fun e => hcc (hE.nameInj _ _ _ _ e).2
        have hcc' : ¬ (c = c0 ∧ d = d0 ∧ k = k0) := fun e => hcc e.1.symm
        simp only [hn, if_false, hcc']
        exact hr.wide c d k
    · intro c x
      rw [applyOp_col]
      simp only [encW, opParts, specApply]
      have hn : ¬ cfName be.namePrefix .wide c0 = cfName be.namePrefix .set c :=
        fun e => by have := (hE.nameInj _ _ _ _ e).1; cases this
      simp only [hn, if_false]
      exact hr.sets c x
    · exact applyOp_nodup _ _ hr.nodup
  | ins c0 k0 e0 =>
    constructor
    · intro c d k
      rw [applyOp_col]
      simp only [encW, opParts, specApply]
      have hn : ¬ cfName be.namePrefix .set c0 = cfName be.namePrefix .wide c :=
        fun e => by have := (hE.nameInj _ _ _ _ e).1; cases this
      simp only [hn, if_false]
      exact hr.wide c d k
    · intro c x
      rw [applyOp_col]
      simp only [encW, opParts, specApply]
      by_cases hcc : c0 = c
      · subst hcc
        simp only [if_true, mem_akeys_aset, true_and, hr.sets c0 x]
        constructor
        · rintro (rfl | ⟨k, e, rfl, hs⟩)
          · exact ⟨k0, e0, rfl, by simp⟩
          · refine ⟨k, e, rfl, ?_⟩
            split <;> simp [hs]
        · rintro ⟨k, e, rfl, hs⟩
          by_cases hke : k = k0 ∧ e = e0
          · obtain ⟨rfl, rfl⟩ := hke
            exact Or.inl rfl
          · simp only [hke, if_false] at hs
            exact Or.inr ⟨k, e, rfl, hs⟩
      · have hn : ¬ cfName be.namePrefix .set c0 = cfName be.namePrefix .set c :=
          fun e => hcc (hE.nameInj _ _ _ _ e).2
        have hcc' : ∀ k e, ¬ (c = c0 ∧ k = k0 ∧ e = e0) := fun _ _ e => hcc e.1.symm
        simp only [hn, if_false, hcc']
        exact hr.sets c x
    · exact applyOp_nodup _ _ hr.nodup
  | rem c0 k0 e0 =>
    constructor
    · intro c d k
      rw [applyOp_col]
      simp only [encW, opParts, specApply]
      have hn : ¬ cfName be.namePrefix .set c0 = cfName be.namePrefix .wide c :=
        fun e => by have := (hE.nameInj _ _ _ _ e).1; cases this
      simp only [hn, if_false]
      exact hr.wide c d k
    · intro c x
      rw [applyOp_col]
      simp only [encW, opParts, specApply]
      by_cases hcc : c0 = c
      · subst hcc
        simp only [if_true, mem_akeys_adel, true_and, hr.sets c0 x]
        constructor
        · rintro ⟨hne, k, e, rfl, hs⟩
          refine ⟨k, e, rfl, ?_⟩
          have hke : ¬ (k = k0 ∧ e = e0) := by
            rintro ⟨rfl, rfl⟩
            exact hne rfl
          simp [hke, hs]
        · rintro ⟨k, e, rfl, hs⟩
          by_cases hke : k = k0 ∧ e = e0
          · simp [hke] at hs
          · simp only [hke, if_false] at hs
            refine ⟨?_, k, e, rfl, hs⟩
            intro heq
            obtain ⟨h1, h2⟩ := setKey_inj_bytes (hlen _ _) (hlen _ _) heq
            exact hke ⟨hE.injK c0 _ _ h1, hE.injE c0 _ _ h2⟩
      · have hn : ¬ cfName be.namePrefix .set c0 = cfName be.namePrefix .set c :=
          fun e => hcc (hE.nameInj _ _ _ _ e).2
        have hcc' : ∀ k e, ¬ (c = c0 ∧ k = k0 ∧ e = e0) := fun _ _ e => hcc e.1.symm
        simp only [hn, if_false, hcc']
        exact hr.sets c x
    · exact applyOp_nodup _ _ hr.nodup

/-- a whole batch: one store write = the specification's fold -/
theorem foldl_applyOp_rel (be : Backend) (E : Enc κ δ ε)
    (hE : EncOk be E) (ops : List (LOp κ δ ε)) :
    ∀ (d : Disk) (st : (Nat → δ → κ → Option Bytes) × (Nat → κ → ε → Bool)),
      RelD be E d.col st.1 st.2 →
      RelD be E ((ops.map (encW be E)).foldl applyOp d).col
        (ops.foldl specApply st).1 (ops.foldl specApply st).2 := by
  induction ops with
  | nil => intro d st hr; exact hr
  | cons op ops ih =>
    intro d st hr
    simp only [List.map_cons, List.foldl_cons]
    apply ih
    exact applyOp_rel be E hE d st.1 st.2 op hr

/-- `consume_serialization_buffer` moves the buffered operations, in order, into the batch -/
theorem consumeLoop_ok (be : Backend) (E : Enc κ δ ε)
    (hE : EncOk be E) (h : Nat) (lops : List (LOp κ δ ε))
    (hok : ∀ op ∈ lops, OpOk be E op) :
    ∀ (db : Db) (ops : List WOp), CacheInv be db.cache → aget db.batches h = some ops →
      ∃ db', consumeLoop be h (lops.map (encS be E)) db = (.ok, db') ∧
        (∀ x, aget db'.batches x =
          if h == x then some (ops ++ lops.map (encW be E)) else aget db.batches x) ∧
        db'.sbufs = db.sbufs ∧ (∀ n, db'.disk.col n = db.disk.col n) ∧
        CacheInv be db'.cache := by
  induction lops with
  | nil =>
    intro db ops hc hb
    refine ⟨db, rfl, ?_, rfl, fun _ => rfl, hc⟩
    intro x
    by_cases e : h = x
    · subst e; simp [hb]
    · have : (h == x) = false := by simpa using e
      simp [this]
  | cons op lops ih =>
    intro db ops hc hb
    have hfit := hok op List.mem_cons_self
    have hbad := badKey_opParts be E hE op hfit
    -- the column family of the operation, whichever way it is found
    have hres : ∃ db1, sopResolve be db (encS be E op) =
          (cfName be.namePrefix (opParts be E op).2.1 (opParts be E op).1, db1) ∧
        db1.batches = db.batches ∧ db1.sbufs = db.sbufs ∧
        (∀ n, db1.disk.col n = db.disk.col n) ∧ CacheInv be db1.cache := by
      simp only [sopResolve, encS]
      cases be.sbufEarly
      · simp only [Bool.false_eq_true, if_false]
        exact resolve_eq be db _ _ hE.byKind hc
      · exact ⟨db, rfl, rfl, rfl, fun _ => rfl, hc⟩
    obtain ⟨db1, hr1, hb1, hs1, hd1, hc1⟩ := hres
    have hkey : (encS be E op).key = (opParts be E op).2.2.1 := rfl
    have hval : (encS be E op).val = (opParts be E op).2.2.2 := rfl
    simp only [List.map_cons, consumeLoop]
    rw [hr1]
    simp only [hkey, hval, hbad, Bool.false_eq_true, if_false, hb1, hb]
    let db2 : Db := { db1 with batches := aset db.batches h (ops ++ [encW be E op]) }
    have hb2 : aget db2.batches h = some (ops ++ [encW be E op]) := by
      simp [db2, aget_aset]
    obtain ⟨db', hrun, hbs, hss, hds, hcs⟩ :=
      ih (fun o ho => hok o (List.mem_cons_of_mem _ ho)) db2 _ hc1 hb2
    refine ⟨db', ?_, ?_, ?_, ?_, hcs⟩
    · exact hrun
    · intro x
      rw [hbs x]
      by_cases e : h = x
      · subst e; simp [encW]
      · have : (h == x) = false := by simpa using e
        simp [this, db2, aget_aset]
    · rw [hss]; exact hs1
    · intro n; rw [hds n]; exact hd1 n

end refinement

end QbiceVerif.Kv
