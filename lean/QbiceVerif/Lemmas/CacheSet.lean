/-
Invariant of the `SetCache` LTS (one foreground task, background events between its operations),
the correctness of `get` for the configuration of the code as it is (`repaired`), and for the code
before the fixes of F10/F17 (`asIs`) inside the trigger-free region `getSafe` (at most one staged operation per element; no staged removal among the
materialised prefix of a spilled fetch).
-/
import QbiceVerif.Model.SetCache
namespace QbiceVerif.SetCache

theorem mem_sinsert {x y : Nat} {s : List Nat} : y ∈ sinsert x s ↔ y = x ∨ y ∈ s := by
  induction s with
  | nil => simp [sinsert]
  | cons z zs ih =>
      simp only [sinsert]
      split
      · simp
      · split
        · rename_i h; subst h; simp
        · simp [ih]; grind

theorem mem_sremove {x y : Nat} {s : List Nat} : y ∈ sremove x s ↔ y ∈ s ∧ y ≠ x := by
  simp [sremove]

/-- the last operation on `x` in a chronological list of (element, is-insert) pairs -/
def lastOf : List (Nat × Bool) → Nat → Option Bool
  | [], _ => none
  | p :: rest, x =>
      match lastOf rest x with
      | some b => some b
      | none => if p.1 = x then some p.2 else none

theorem lastOf_append (a b : List (Nat × Bool)) (x : Nat) :
    lastOf (a ++ b) x = match lastOf b x with | some v => some v | none => lastOf a x := by
  induction a with
  | nil => simp [lastOf]; cases lastOf b x <;> rfl
  | cons p rest ih =>
      simp only [List.cons_append, lastOf, ih]
      cases lastOf b x <;> simp

theorem lastOf_ne_none_iff {l : List (Nat × Bool)} {x : Nat} : lastOf l x ≠ none ↔ ∃ p, p ∈ l ∧ p.1 = x := by
  induction l with
  | nil => simp [lastOf]
  | cons p rest ih =>
      simp only [lastOf]
      cases h : lastOf rest x with
      | some b =>
          have : ∃ q, q ∈ rest ∧ q.1 = x := ih.mp (by rw [h]; simp)
          obtain ⟨q, hq, hx⟩ := this
          constructor
          · intro _; exact ⟨q, List.mem_cons_of_mem _ hq, hx⟩
          · intro _; simp
      | none =>
          have hn : ¬ ∃ q, q ∈ rest ∧ q.1 = x := fun hh => (ih.mpr hh) h
          by_cases hp : p.1 = x
          · constructor
            · intro _; exact ⟨p, List.mem_cons_self, hp⟩
            · intro _; simp [hp]
          · constructor
            · intro hh; simp [hp] at hh
            · intro ⟨q, hq, hx⟩
              rcases List.mem_cons.mp hq with rfl | hq'
              · exact absurd hx hp
              · exact absurd ⟨q, hq', hx⟩ hn

/-- "the last operation decides, otherwise the base" -/
def resolve (o : Option Bool) (base : Prop) : Prop :=
  match o with
  | some b => b = true
  | none => base

def applyPair (acc : List Nat) (p : Nat × Bool) : List Nat := if p.2 then sinsert p.1 acc else sremove p.1 acc

theorem mem_foldl_applyPair (ops : List (Nat × Bool)) (db : List Nat) (x : Nat) :
    x ∈ ops.foldl applyPair db ↔ resolve (lastOf ops x) (x ∈ db) := by
  induction ops generalizing db with
  | nil => simp [lastOf, resolve]
  | cons p rest ih =>
      simp only [List.foldl_cons, ih, lastOf]
      cases h : lastOf rest x with
      | some b => simp [resolve]
      | none =>
          simp only [resolve, applyPair]
          by_cases hp : p.1 = x
          · subst hp
            cases hb : p.2 <;> simp [mem_sinsert, mem_sremove]
          · have : x ≠ p.1 := fun h => hp h.symm
            cases hb : p.2 <;> simp [hp, mem_sinsert, mem_sremove, this]

theorem mem_applyOps (db : List Nat) (ops : List (Nat × Bool)) (x : Nat) :
    x ∈ applyOps db ops ↔ resolve (lastOf ops x) (x ∈ db) :=
  mem_foldl_applyPair ops db x

def pairs (log : List LogOp) : List (Nat × Bool) := log.map (fun op => (op.x, op.ins))

theorem mem_snapshot_fixed (log : List LogOp) (sn : Snapshot) (x : Nat) :
    (x ∈ (log.foldl lastStep sn).added ↔
      match lastOf (pairs log) x with | some b => b = true | none => x ∈ sn.added) ∧
    (x ∈ (log.foldl lastStep sn).removed ↔
      match lastOf (pairs log) x with | some b => b = false | none => x ∈ sn.removed) := by
  induction log generalizing sn with
  | nil => simp [pairs, lastOf]
  | cons op rest ih =>
      simp only [List.foldl_cons, pairs, List.map_cons, lastOf]
      have ih' := ih (lastStep sn op)
      simp only [pairs] at ih'
      cases h : lastOf (List.map (fun op => (op.x, op.ins)) rest) x with
      | some b => simp [h] at ih'; simpa using ih'
      | none =>
          simp [h] at ih'
          rw [ih'.1, ih'.2]
          by_cases hp : op.x = x
          · subst hp
            cases hb : op.ins <;> simp [lastStep, hb, mem_sinsert, mem_sremove]
          · have : x ≠ op.x := fun h => hp h.symm
            cases hb : op.ins <;> simp [lastStep, hb, hp, mem_sinsert, mem_sremove, this]



inductive Reach (s0 : State) : State → Prop where
  | init : Reach s0 s0
  | step {s s' : State} {e : Ev} {out : Option (List Nat)} :
      Reach s0 s → fire s e = some (s', out) → Reach s0 s'

def opsOf (b : SBatch) : List (Nat × Bool) := b.ops.getD []
/-- batches not yet committed, oldest first -/
def unc (s : State) : List SBatch := s.submitted ++ s.openB.toList
def uncOps (s : State) : List (Nat × Bool) := (unc s).flatMap opsOf
def logOf (s : State) : List LogOp :=
  match s.staging with
  | some (l, _) => l
  | none => []
def mentionCount (s : State) : Nat := ((unc s).filter (·.ops.isSome)).length

structure Inv (s : State) : Prop where
  epochs : s.submitted.map (·.epoch) = List.range' s.expected s.submitted.length
  openE : ∀ b, s.openB = some b → b.epoch = s.expected + s.submitted.length ∧ s.nextEpoch = b.epoch + 1
  closedE : s.openB = none → s.nextEpoch = s.expected + s.submitted.length
  notifE : ∀ e ∈ s.notifs, e < s.expected
  k1 : ∀ x b, lastOf (pairs (logOf s)) x = some b → (x ∈ s.truth ↔ b = true)
  k2 : ∀ B ∈ unc s, ∀ p ∈ opsOf B, ∃ op ∈ logOf s, op.x = p.1 ∧ op.epoch = B.epoch
  k34 : ∀ x, x ∈ s.truth ↔ resolve (lastOf (uncOps s) x) (x ∈ s.db)
  k5 : ∀ S, s.entry = some (.inMem S) → ∀ x, x ∈ S ↔ x ∈ s.truth
  k6s : ∀ l d, s.staging = some (l, d) → d = (mentionCount s : Int) + s.notifs.length
  k6n : s.staging = none → mentionCount s = 0 ∧ s.notifs = []
  k7 : ∀ op ∈ logOf s, ∃ e', op.epoch ≤ e' ∧ (e' ∈ s.notifs ∨ ∃ B ∈ unc s, B.ops.isSome ∧ B.epoch = e')

theorem inv_init (cfg : Cfg) (thr : Nat) (db0 : List Nat) : Inv (init cfg thr db0) := by
  constructor <;> simp [init, unc, uncOps, logOf, mentionCount, lastOf, resolve, pairs]

/-- a read computed from the (repaired) snapshot and the store image is the true set -/
theorem overlay_correct {s : State} (I : Inv s) (x : Nat) :
    resolve (lastOf (pairs (logOf s)) x) (x ∈ s.db) ↔ x ∈ s.truth := by
  cases h : lastOf (pairs (logOf s)) x with
  | some b => simp [resolve]; exact (I.k1 x b h).symm
  | none =>
      simp only [resolve]
      have hu : lastOf (uncOps s) x = none := by
        apply Classical.byContradiction
        intro hne
        obtain ⟨p, hp, hx⟩ := lastOf_ne_none_iff.mp hne
        simp only [uncOps, List.mem_flatMap] at hp
        obtain ⟨B, hB, hpB⟩ := hp
        obtain ⟨op, hop, hox, _⟩ := I.k2 B hB p hpB
        have : lastOf (pairs (logOf s)) x ≠ none :=
          lastOf_ne_none_iff.mpr ⟨(op.x, op.ins), by simp [pairs]; exact ⟨op, hop, rfl, rfl⟩, by simp [hox, hx]⟩
        exact this h
      have := I.k34 x
      rw [hu] at this
      simpa [resolve] using this.symm




theorem snapshot_repaired {s : State} (hc : s.cfg.fixSnap = true) (x : Nat) :
    (x ∈ (stagingSnapshot s).added ↔ lastOf (pairs (logOf s)) x = some true) ∧
    (x ∈ (stagingSnapshot s).removed ↔ lastOf (pairs (logOf s)) x = some false) := by
  unfold stagingSnapshot logOf
  cases hs : s.staging with
  | none => simp [pairs, lastOf]
  | some p =>
      obtain ⟨log, d⟩ := p
      simp only [snapshotOf, hc, if_true]
      have := mem_snapshot_fixed log ⟨[], []⟩ x
      cases h : lastOf (pairs log) x with
      | none => simp [h] at this; simp [this]
      | some b => simp [h] at this; cases b <;> simp_all

theorem mem_foldl_sinsert (l acc : List Nat) (x : Nat) :
    x ∈ l.foldl (fun acc y => sinsert y acc) acc ↔ x ∈ l ∨ x ∈ acc := by
  induction l generalizing acc with
  | nil => simp
  | cons y ys ih => simp [ih, mem_sinsert]; grind

theorem mem_foldl_sremove (l acc : List Nat) (x : Nat) :
    x ∈ l.foldl (fun acc y => sremove y acc) acc ↔ x ∉ l ∧ x ∈ acc := by
  induction l generalizing acc with
  | nil => simp
  | cons y ys ih => simp [ih, mem_sremove]; grind

theorem overlay_mem {s : State} (hc : s.cfg.fixSnap = true) (x : Nat) :
    ((x ∈ s.db ∧ x ∉ (stagingSnapshot s).removed) ∨ x ∈ (stagingSnapshot s).added) ↔
      resolve (lastOf (pairs (logOf s)) x) (x ∈ s.db) := by
  obtain ⟨ha, hr⟩ := snapshot_repaired hc x
  rw [ha, hr]
  cases lastOf (pairs (logOf s)) x with
  | none => simp [resolve]
  | some b => cases b <;> simp [resolve]

theorem get_correct {s : State} (I : Inv s) (hc : s.cfg = repaired) :
    (∀ x, x ∈ (get s).2 ↔ x ∈ s.truth) ∧ Inv (get s).1 := by
  have hsnap : s.cfg.fixSnap = true := by rw [hc]; rfl
  have hspill : s.cfg.fixSpill = true := by rw [hc]; rfl
  have key : ∀ x, ((x ∈ s.db ∧ x ∉ (stagingSnapshot s).removed) ∨ x ∈ (stagingSnapshot s).added) ↔ x ∈ s.truth :=
    fun x => (overlay_mem hsnap x).trans (overlay_correct I x)
  have mkInv : ∀ e : SEntry, (∀ S, e = .inMem S → ∀ x, x ∈ S ↔ x ∈ s.truth) → Inv { s with entry := some e } := by
    intro e he
    obtain ⟨h1, h2, h3, h4, h5, h6, h7, h8, h9, h10, h11⟩ := I
    exact ⟨h1, h2, h3, h4, h5, h6, h7, fun S hS => he S (by simpa using hS), h9, h10, h11⟩
  unfold get
  cases he : s.entry with
  | some e =>
      cases e with
      | inMem S => simp; exact ⟨I.k5 S he, I⟩
      | tooLarge =>
          simp
          refine ⟨fun x => ?_, I⟩
          rw [← key x]; simp [streamIter]
  | none =>
      simp only [fetchEntry]
      by_cases hbig : s.db.length > s.thr
      · simp only [hbig, if_true]
        refine ⟨fun x => ?_, mkInv .tooLarge (by intro S h; cases h)⟩
        rw [← key x]
        simp only [spillIter, hspill, if_true]
        have hdb : x ∈ s.db ↔ x ∈ s.db.take (s.thr + 1) ∨ x ∈ s.db.drop (s.thr + 1) := by
          rw [← List.mem_append, List.take_append_drop]
        simp [hdb]; grind
      · simp only [hbig, if_false]
        have hd : ∀ x, x ∈ (stagingSnapshot s).added → x ∉ (stagingSnapshot s).removed := by
          intro x ha hr
          rw [(snapshot_repaired hsnap x).1] at ha
          rw [(snapshot_repaired hsnap x).2, ha] at hr
          cases hr
        have hset : ∀ x, x ∈ (stagingSnapshot s).removed.foldl (fun acc y => sremove y acc)
              ((stagingSnapshot s).added.foldl (fun acc y => sinsert y acc) s.db) ↔ x ∈ s.truth := by
          intro x
          rw [← key x, mem_foldl_sremove, mem_foldl_sinsert]
          have := hd x
          constructor
          · rintro ⟨h1, h2 | h2⟩
            · exact Or.inr h2
            · exact Or.inl ⟨h2, h1⟩
          · rintro (⟨h1, h2⟩ | h1)
            · exact ⟨h2, Or.inr h1⟩
            · exact ⟨this h1, Or.inl h1⟩
        exact ⟨hset, mkInv _ (by intro S h; cases h; exact hset)⟩




theorem find_expected {l : List SBatch} {e : Nat} (h : l.map (·.epoch) = List.range' e l.length) :
    l.find? (fun b => b.epoch = e) = l.head? := by
  cases l with
  | nil => rfl
  | cons b rest =>
      simp [List.range'] at h
      simp [List.find?, h.1]

theorem mem_range'_ge {a n x : Nat} (h : x ∈ List.range' a n) : a ≤ x := by
  simp [List.mem_range'] at h; omega

theorem unc_epoch_ge {s : State} (I : Inv s) {B : SBatch} (h : B ∈ unc s) : s.expected ≤ B.epoch := by
  simp only [unc, List.mem_append] at h
  rcases h with h | h
  · have : B.epoch ∈ s.submitted.map (·.epoch) := List.mem_map.mpr ⟨B, h, rfl⟩
    rw [I.epochs] at this
    exact mem_range'_ge this
  · cases ho : s.openB with
    | none => simp [ho] at h
    | some b => simp [ho] at h; subst h; have := (I.openE _ ho).1; omega

theorem step_begin {s s' : State} {out} (I : Inv s) (h : fire s .begin = some (s', out)) : Inv s' := by
  simp only [fire] at h
  cases ho : s.openB with
  | some b => simp [ho] at h
  | none =>
      simp [ho] at h
      obtain ⟨rfl, rfl⟩ := h
      obtain ⟨h1, h2, h3, h4, h5, h6, h7, h8, h9, h10, h11⟩ := I
      have hunc : ∀ B, B ∈ unc s → B ∈ unc { s with openB := some ⟨s.nextEpoch, none⟩, nextEpoch := s.nextEpoch + 1 } := by
        intro B hB; simp [unc, ho] at hB ⊢; exact Or.inl hB
      have hops : uncOps { s with openB := some ⟨s.nextEpoch, none⟩, nextEpoch := s.nextEpoch + 1 } = uncOps s := by
        simp [uncOps, unc, ho, opsOf]
      have hcnt : mentionCount { s with openB := some ⟨s.nextEpoch, none⟩, nextEpoch := s.nextEpoch + 1 } = mentionCount s := by
        simp [mentionCount, unc, ho, List.filter_append]
      constructor
      · exact h1
      · intro b hb; simp at hb; subst hb; simp; exact h3 ho
      · intro hh; simp at hh
      · exact h4
      · exact h5
      · intro B hB p hp
        simp [unc, ho] at hB
        rcases hB with hB | rfl
        · exact h6 B (by simp [unc, ho]; exact hB) p hp
        · simp [opsOf] at hp
      · intro x; rw [hops]; exact h7 x
      · exact h8
      · intro l d hs; rw [hcnt]; exact h9 l d hs
      · intro hs; rw [hcnt]; exact h10 hs
      · intro op hop
        obtain ⟨e', hle, hw⟩ := h11 op hop
        refine ⟨e', hle, ?_⟩
        rcases hw with hw | ⟨B, hB, hm, he⟩
        · exact Or.inl hw
        · exact Or.inr ⟨B, hunc B hB, hm, he⟩

theorem step_submit {s s' : State} {out} (I : Inv s) (h : fire s .submit = some (s', out)) : Inv s' := by
  simp only [fire] at h
  cases ho : s.openB with
  | none => simp [ho] at h
  | some b =>
      simp [ho] at h
      obtain ⟨rfl, rfl⟩ := h
      obtain ⟨h1, h2, h3, h4, h5, h6, h7, h8, h9, h10, h11⟩ := I
      have hunc : unc { s with openB := none, submitted := s.submitted ++ [b] } = unc s := by
        simp [unc, ho]
      have hops : uncOps { s with openB := none, submitted := s.submitted ++ [b] } = uncOps s := by
        simp [uncOps, hunc]
      have hcnt : mentionCount { s with openB := none, submitted := s.submitted ++ [b] } = mentionCount s := by
        simp [mentionCount, hunc]
      have hb := h2 b ho
      constructor
      · simp [List.range'_concat, h1, hb.1]
      · intro b' hb'; simp at hb'
      · intro _; simp; omega
      · exact h4
      · exact h5
      · rw [hunc]; exact h6
      · intro x; rw [hops]; exact h7 x
      · exact h8
      · intro l d hs; rw [hcnt]; exact h9 l d hs
      · intro hs; rw [hcnt]; exact h10 hs
      · rw [hunc]; exact h11

theorem step_evictEntry {s s' : State} {out} (I : Inv s) (h : fire s .evictEntry = some (s', out)) : Inv s' := by
  simp only [fire] at h
  cases he : s.entry with
  | none => simp [he] at h
  | some e =>
      simp [he] at h
      obtain ⟨rfl, rfl⟩ := h
      obtain ⟨h1, h2, h3, h4, h5, h6, h7, h8, h9, h10, h11⟩ := I
      exact ⟨h1, h2, h3, h4, h5, h6, h7, by intro S hS; simp at hS, h9, h10, h11⟩




theorem step_commit {s s' : State} {out} (I : Inv s) (h : fire s .commit = some (s', out)) : Inv s' := by
  simp only [fire] at h
  rw [find_expected I.epochs] at h
  cases hs : s.submitted with
  | nil => simp [hs] at h
  | cons B0 rest =>
    simp [hs] at h
    obtain ⟨rfl, rfl⟩ := h
    have hge := fun B hB => unc_epoch_ge I (B := B) hB
    obtain ⟨h1, h2, h3, h4, h5, h6, h7, h8, h9, h10, h11⟩ := I
    rw [hs] at h1
    simp [List.range'] at h1
    obtain ⟨hbe, hrest⟩ := h1
    -- shorthand for the new state
    generalize hS' : ({ s with submitted := rest,
                               db := match B0.ops with | some ops => applyOps s.db ops | none => s.db,
                               notifs := match B0.ops with | some _ => s.notifs ++ [B0.epoch] | none => s.notifs,
                               expected := s.expected + 1 } : State) = S'
    have hunc : unc s = B0 :: unc S' := by subst hS'; simp [unc, hs]
    have hops : uncOps s = opsOf B0 ++ uncOps S' := by simp [uncOps, hunc]
    have hlog : logOf S' = logOf s := by subst hS'; rfl
    have htruth : S'.truth = s.truth := by subst hS'; rfl
    have hentry : S'.entry = s.entry := by subst hS'; rfl
    have hstag : S'.staging = s.staging := by subst hS'; rfl
    have hopen : S'.openB = s.openB := by subst hS'; rfl
    have hsub : S'.submitted = rest := by subst hS'; rfl
    have hexp : S'.expected = s.expected + 1 := by subst hS'; rfl
    have hnext : S'.nextEpoch = s.nextEpoch := by subst hS'; rfl
    have hcnt : mentionCount s = (if B0.ops.isSome then 1 else 0) + mentionCount S' := by
      simp [mentionCount, hunc, List.filter_cons]; split <;> simp <;> omega
    have hnot : S'.notifs = if B0.ops.isSome then s.notifs ++ [B0.epoch] else s.notifs := by
      subst hS'; cases B0.ops <;> rfl
    have hdb : ∀ x, x ∈ S'.db ↔ resolve (lastOf (opsOf B0) x) (x ∈ s.db) := by
      intro x; subst hS'
      cases hb : B0.ops with
      | none => simp [opsOf, hb, lastOf, resolve]
      | some ops => simp [opsOf, hb, mem_applyOps]
    constructor
    · rw [hsub, hexp]; simpa using hrest
    · intro b hb; rw [hopen] at hb; have := h2 b hb; rw [hsub, hexp, hnext]; simp [hs] at this; omega
    · intro hn; rw [hopen] at hn; have := h3 hn; rw [hsub, hexp, hnext]; simp [hs] at this; omega
    · intro e he
      rw [hexp]; rw [hnot] at he
      split at he
      · simp at he; rcases he with he | he
        · have := h4 e he; omega
        · omega
      · have := h4 e he; omega
    · rw [hlog, htruth]; exact h5
    · intro B hB; rw [hlog]; exact h6 B (by rw [hunc]; exact List.mem_cons_of_mem _ hB)
    · intro x
      rw [htruth, h7 x, hops, lastOf_append]
      cases hl : lastOf (uncOps S') x with
      | some v => simp [resolve]
      | none => simp only [resolve]; exact (hdb x).symm
    · rw [hentry, htruth]; exact h8
    · intro l d hst
      rw [hstag] at hst
      have := h9 l d hst
      rw [this, hcnt, hnot]
      split <;> simp <;> omega
    · intro hst
      rw [hstag] at hst
      obtain ⟨hc, hn⟩ := h10 hst
      rw [hcnt] at hc
      have : B0.ops.isSome = false := by
        cases hb : B0.ops.isSome
        · rfl
        · simp [hb] at hc
      simp [this] at hc
      rw [hnot, this]
      simp [hc, hn]
    · intro op hop
      rw [hlog] at hop
      obtain ⟨e', hle, hw⟩ := h11 op hop
      refine ⟨e', hle, ?_⟩
      rcases hw with hw | ⟨B, hB, hm, he⟩
      · left; rw [hnot]; split
        · exact List.mem_append_left _ hw
        · exact hw
      · rw [hunc] at hB
        rcases List.mem_cons.mp hB with rfl | hB'
        · left; rw [hnot, hm]; simp [he]
        · right; exact ⟨B, hB', hm, he⟩




theorem step_notify {s s' : State} {out} (I : Inv s) (h : fire s .notify = some (s', out)) : Inv s' := by
  simp only [fire] at h
  cases hn : s.notifs with
  | nil => simp [hn] at h
  | cons e rest =>
    simp [hn] at h
    obtain ⟨rfl, rfl⟩ := h
    have hge := fun B hB => unc_epoch_ge I (B := B) hB
    obtain ⟨h1, h2, h3, h4, h5, h6, h7, h8, h9, h10, h11⟩ := I
    cases hst : s.staging with
    | none => have := (h10 hst).2; simp [hn] at this
    | some p =>
      obtain ⟨log, d⟩ := p
      have hlogs : logOf s = log := by simp [logOf, hst]
      have he : e < s.expected := h4 e (by simp [hn])
      simp only []
      generalize hS' : ({ s with notifs := rest, staging := some (flushLog log e, d - 1) } : State) = S'
      have hunc : unc S' = unc s := by subst hS'; rfl
      have hops : uncOps S' = uncOps s := by simp [uncOps, hunc]
      have hcnt : mentionCount S' = mentionCount s := by simp [mentionCount, hunc]
      have hlog : logOf S' = flushLog log e := by subst hS'; rfl
      have hnot : S'.notifs = rest := by subst hS'; rfl
      have hstag : S'.staging = some (flushLog log e, d - 1) := by subst hS'; rfl
      have hrest : ∀ f : State → Prop, True := fun _ => trivial
      by_cases hall : log.all (fun op => decide (op.epoch ≤ e)) = true
      · -- the log is emptied
        have hfl : flushLog log e = [] := by simp [flushLog, hall]
        have hno : ∀ B ∈ unc s, opsOf B = [] := by
          intro B hB
          cases hops : opsOf B with
          | nil => rfl
          | cons p ps =>
              obtain ⟨op, hop, _, hep⟩ := h6 B hB p (by rw [hops]; simp)
              rw [hlogs] at hop
              have := List.all_eq_true.mp hall op hop
              simp at this
              have := hge B hB
              omega
        constructor
        · subst hS'; exact h1
        · subst hS'; exact h2
        · subst hS'; exact h3
        · intro e' he'; rw [hnot] at he'; subst hS'; exact h4 e' (by simp [hn, he'])
        · intro x b hb; rw [hlog, hfl] at hb; simp [pairs, lastOf] at hb
        · intro B hB p hp; rw [hunc] at hB; rw [hno B hB] at hp; simp at hp
        · intro x; rw [hops]; subst hS'; exact h7 x
        · subst hS'; exact h8
        · intro l d' hs; rw [hstag] at hs; simp at hs; obtain ⟨_, rfl⟩ := hs
          have := h9 log d hst; rw [hcnt, hnot, this, hn]; simp; omega
        · intro hs; rw [hstag] at hs; simp at hs
        · intro op hop; rw [hlog, hfl] at hop; simp at hop
      · -- nothing is popped
        have hfl : flushLog log e = log := by simp [flushLog, hall]
        obtain ⟨op0, hop0, hgt⟩ : ∃ op0 ∈ log, e < op0.epoch := by
          simp at hall
          obtain ⟨op0, h0, h0'⟩ := hall
          exact ⟨op0, h0, by omega⟩
        constructor
        · subst hS'; exact h1
        · subst hS'; exact h2
        · subst hS'; exact h3
        · intro e' he'; rw [hnot] at he'; subst hS'; exact h4 e' (by simp [hn, he'])
        · intro x b hb; rw [hlog, hfl, ← hlogs] at hb; subst hS'; exact h5 x b hb
        · intro B hB p hp; rw [hunc] at hB; rw [hlog, hfl, ← hlogs]; exact h6 B hB p hp
        · intro x; rw [hops]; subst hS'; exact h7 x
        · subst hS'; exact h8
        · intro l d' hs; rw [hstag] at hs; simp at hs; obtain ⟨_, rfl⟩ := hs
          have := h9 log d hst; rw [hcnt, hnot, this, hn]; simp; omega
        · intro hs; rw [hstag] at hs; simp at hs
        · intro op hop
          rw [hlog, hfl] at hop
          have wit : ∀ op ∈ log, e < op.epoch → ∃ e', op.epoch ≤ e' ∧ (e' ∈ rest ∨ ∃ B ∈ unc s, B.ops.isSome ∧ B.epoch = e') := by
            intro op hop hlt
            obtain ⟨e', hle, hw⟩ := h11 op (by rw [hlogs]; exact hop)
            refine ⟨e', hle, ?_⟩
            rcases hw with hw | hw
            · rw [hn] at hw
              rcases List.mem_cons.mp hw with rfl | hw'
              · omega
              · exact Or.inl hw'
            · exact Or.inr hw
          rw [hnot, hunc]
          by_cases hlt : e < op.epoch
          · exact wit op hop hlt
          · obtain ⟨e', hle, hw⟩ := wit op0 hop0 hgt
            exact ⟨e', by omega, hw⟩

theorem step_evictLog {s s' : State} {out} (I : Inv s) (h : fire s .evictLog = some (s', out)) : Inv s' := by
  simp only [fire] at h
  cases hst : s.staging with
  | none => simp [hst] at h
  | some p =>
    obtain ⟨log, d⟩ := p
    simp [hst] at h
    obtain ⟨hd, rfl, rfl⟩ := h
    obtain ⟨h1, h2, h3, h4, h5, h6, h7, h8, h9, h10, h11⟩ := I
    have hz := h9 log d hst
    have hc : mentionCount s = 0 := by omega
    have hn : s.notifs = [] := by
      have : s.notifs.length = 0 := by omega
      exact List.eq_nil_of_length_eq_zero this
    have hlogs : logOf s = log := by simp [logOf, hst]
    have hlog : log = [] := by
      cases hl : log with
      | nil => rfl
      | cons op ops =>
          obtain ⟨e', _, hw⟩ := h11 op (by rw [hlogs, hl]; simp)
          rcases hw with hw | ⟨B, hB, hm, _⟩
          · rw [hn] at hw; simp at hw
          · have : 0 < mentionCount s := by
              simp only [mentionCount]
              exact List.length_pos_of_mem (List.mem_filter.mpr ⟨hB, hm⟩)
            omega
    have hlogeq : logOf { s with staging := none } = logOf s := by simp [logOf, hst, hlog]
    constructor
    · exact h1
    · exact h2
    · exact h3
    · exact h4
    · rw [hlogeq]; exact h5
    · rw [hlogeq]; exact h6
    · exact h7
    · exact h8
    · intro l d' hs; simp at hs
    · intro _; exact ⟨hc, hn⟩
    · rw [hlogeq]; exact h11




theorem lastOf_filter_ne (l : List (Nat × Bool)) (x y : Nat) :
    lastOf (l.filter (fun p => !decide (p.1 = x))) y = if y = x then none else lastOf l y := by
  induction l with
  | nil => simp [lastOf]
  | cons p rest ih =>
      by_cases hp : p.1 = x
      · have hf : (p :: rest).filter (fun p => !decide (p.1 = x)) = rest.filter (fun p => !decide (p.1 = x)) := by
          simp [hp]
        rw [hf, ih]
        by_cases hy : y = x
        · simp [hy]
        · have : ¬ p.1 = y := fun h => hy (by rw [← h, hp])
          simp only [hy, if_false, lastOf, this]
          cases lastOf rest y <;> rfl
      · have hf : (p :: rest).filter (fun p => !decide (p.1 = x)) = p :: rest.filter (fun p => !decide (p.1 = x)) := by
          simp [hp]
        rw [hf]
        simp only [lastOf, ih]
        by_cases hy : y = x
        · subst hy; simp [hp]
        · simp [hy]

theorem lastOf_batchPut (ops : Option (List (Nat × Bool))) (x y : Nat) (ins : Bool) :
    lastOf (batchPut ops x ins) y = if y = x then some ins else lastOf (ops.getD []) y := by
  cases ops with
  | none =>
      simp [batchPut, lastOf]
      by_cases hy : y = x
      · simp [hy]
      · have : ¬ x = y := fun h => hy h.symm
        simp [hy, this]
  | some l =>
      have hb : batchPut (some l) x ins = l.filter (fun p => !decide (p.1 = x)) ++ [(x, ins)] := by
        simp [batchPut]
      rw [hb, lastOf_append, lastOf_filter_ne]
      by_cases hy : y = x
      · simp [hy, lastOf]
      · have : ¬ x = y := fun h => hy h.symm
        simp [hy, this, lastOf]

theorem mem_batchPut {ops : Option (List (Nat × Bool))} {x : Nat} {ins : Bool} {p : Nat × Bool}
    (h : p ∈ batchPut ops x ins) : p = (x, ins) ∨ (p ∈ ops.getD [] ∧ p.1 ≠ x) := by
  cases ops with
  | none => simp [batchPut] at h; exact Or.inl h
  | some l =>
      simp [batchPut] at h
      rcases h with ⟨h1, h2⟩ | h
      · exact Or.inr ⟨by simpa using h1, h2⟩
      · exact Or.inl h

theorem lastOf_pairs_concat (log : List LogOp) (op : LogOp) (y : Nat) :
    lastOf (pairs (log ++ [op])) y = if y = op.x then some op.ins else lastOf (pairs log) y := by
  simp only [pairs, List.map_append, List.map_cons, List.map_nil, lastOf_append, lastOf]
  by_cases hy : y = op.x
  · simp [hy]
  · have : ¬ op.x = y := fun h => hy h.symm
    simp [hy, this]




theorem mem_truth_write (truth : List Nat) (x y : Nat) (ins : Bool) :
    y ∈ (if ins then sinsert x truth else sremove x truth) ↔
      (if y = x then ins = true else y ∈ truth) := by
  cases ins <;> by_cases hy : y = x <;> simp [hy, mem_sinsert, mem_sremove]

theorem step_write {s s' : State} {x : Nat} {ins : Bool} (I : Inv s) (h : write s x ins = some s') : Inv s' := by
  unfold write at h
  cases ho : s.openB with
  | none => simp [ho] at h
  | some b =>
    simp only [ho] at h
    have hs' := Option.some.inj h
    clear h
    obtain ⟨h1, h2, h3, h4, h5, h6, h7, h8, h9, h10, h11⟩ := I
    let op : LogOp := ⟨ins, x, b.epoch⟩
    let b' : SBatch := { b with ops := some (batchPut b.ops x ins) }
    have hunc : unc s = s.submitted ++ [b] := by simp [unc, ho]
    have hunc' : unc s' = s.submitted ++ [b'] := by subst hs'; simp [unc, b']
    have hlog' : logOf s' = logOf s ++ [op] := by
      subst hs'; simp only [logOf]; cases s.staging with
      | none => rfl
      | some p => rfl
    have htruth' : ∀ y, y ∈ s'.truth ↔ (if y = x then ins = true else y ∈ s.truth) := by
      intro y; subst hs'; exact mem_truth_write s.truth x y ins
    have hops : uncOps s = s.submitted.flatMap opsOf ++ opsOf b := by simp [uncOps, hunc]
    have hops' : uncOps s' = s.submitted.flatMap opsOf ++ batchPut b.ops x ins := by
      simp [uncOps, hunc', opsOf, b']
    have hlast' : ∀ y, lastOf (uncOps s') y = if y = x then some ins else lastOf (uncOps s) y := by
      intro y
      rw [hops', hops, lastOf_append, lastOf_append, lastOf_batchPut]
      by_cases hy : y = x
      · simp [hy]
      · simp [hy, opsOf]
    have hcnt' : mentionCount s' = mentionCount s + (if b.ops.isNone then 1 else 0) := by
      simp only [mentionCount, hunc, hunc', List.filter_append, List.length_append, b']
      cases hb : b.ops <;> simp [hb]
    have hdb' : s'.db = s.db := by subst hs'; rfl
    have hnot' : s'.notifs = s.notifs := by subst hs'; rfl
    have hsub' : s'.submitted = s.submitted := by subst hs'; rfl
    have hexp' : s'.expected = s.expected := by subst hs'; rfl
    have hnext' : s'.nextEpoch = s.nextEpoch := by subst hs'; rfl
    have hopen' : s'.openB = some b' := by subst hs'; rfl
    constructor
    · rw [hsub', hexp']; exact h1
    · intro bb hbb; rw [hopen'] at hbb; simp at hbb; subst hbb; rw [hsub', hexp', hnext']; exact h2 b ho
    · intro hn; rw [hopen'] at hn; simp at hn
    · rw [hnot', hexp']; exact h4
    · intro y v hv
      rw [hlog', lastOf_pairs_concat] at hv
      rw [htruth' y]
      by_cases hy : y = x
      · simp [hy, op] at hv ⊢; rw [hv]
      · simp [hy, op] at hv ⊢; exact h5 y v hv
    · intro B hB p hp
      rw [hunc'] at hB
      rw [hlog']
      rcases List.mem_append.mp hB with hB | hB
      · obtain ⟨o, ho', hx⟩ := h6 B (by rw [hunc]; exact List.mem_append_left _ hB) p hp
        exact ⟨o, List.mem_append_left _ ho', hx⟩
      · simp at hB; subst hB
        simp only [opsOf, b', Option.getD_some] at hp
        rcases mem_batchPut hp with rfl | ⟨hp1, _⟩
        · exact ⟨op, by simp, rfl, rfl⟩
        · obtain ⟨o, ho', hx⟩ := h6 b (by rw [hunc]; simp) p (by simpa [opsOf] using hp1)
          exact ⟨o, List.mem_append_left _ ho', hx⟩
    · intro y
      rw [htruth' y, hlast' y, hdb']
      by_cases hy : y = x
      · simp [hy, resolve]
      · simp [hy]; exact h7 y
    · intro S hS y
      rw [htruth' y]
      subst hs'
      simp only at hS
      cases he : s.entry with
      | none => simp [he] at hS
      | some e =>
          cases e with
          | tooLarge => simp [he] at hS
          | inMem S0 =>
              simp only [he] at hS
              by_cases hlen : (if ins = true then sinsert x S0 else sremove x S0).length > s.thr
              · rw [if_pos hlen] at hS; simp at hS
              · rw [if_neg hlen] at hS
                have hS2 : S = (if ins = true then sinsert x S0 else sremove x S0) := by
                  simp at hS; exact hS.symm
                rw [hS2, mem_truth_write S0 x y ins]
                by_cases hy : y = x
                · simp [hy]
                · simp [hy]; exact h8 S0 he y
    · intro l d hst
      rw [hcnt', hnot']
      subst hs'
      simp only at hst
      cases hs0 : s.staging with
      | none =>
          rw [hs0] at hst
          simp only [Option.some.injEq, Prod.mk.injEq] at hst
          obtain ⟨_, hd⟩ := hst
          obtain ⟨hc, hn⟩ := h10 hs0
          rw [hc, hn, ← hd]
          cases hb : b.ops with
          | none => simp
          | some l0 =>
              exfalso
              have : 0 < mentionCount s := by
                simp only [mentionCount]
                exact List.length_pos_of_mem (a := b) (List.mem_filter.mpr ⟨by rw [hunc]; simp, by simp [hb]⟩)
              omega
      | some p0 =>
          obtain ⟨l0, d0⟩ := p0
          rw [hs0] at hst
          simp only [Option.some.injEq, Prod.mk.injEq] at hst
          obtain ⟨_, hd⟩ := hst
          have := h9 l0 d0 hs0
          rw [← hd]
          cases hb : b.ops <;> simp <;> omega
    · intro hst
      subst hs'
      simp only at hst
      cases hs0 : s.staging with
      | none => simp [hs0] at hst
      | some p0 => simp [hs0] at hst
    · intro o ho'
      rw [hlog'] at ho'
      rw [hnot', hunc']
      rcases List.mem_append.mp ho' with ho' | ho'
      · obtain ⟨e', hle, hw⟩ := h11 o ho'
        refine ⟨e', hle, ?_⟩
        rcases hw with hw | ⟨B, hB, hm, he⟩
        · exact Or.inl hw
        · right
          rw [hunc] at hB
          rcases List.mem_append.mp hB with hB | hB
          · exact ⟨B, List.mem_append_left _ hB, hm, he⟩
          · simp at hB; subst hB
            exact ⟨b', by simp, by simp [b'], he⟩
      · simp at ho'; subst ho'
        exact ⟨b.epoch, Nat.le_refl _, Or.inr ⟨b', by simp, by simp [b'], rfl⟩⟩




theorem get_fst_fields (s : State) : (get s).1.cfg = s.cfg ∧ (get s).1.truth = s.truth := by
  unfold get
  cases s.entry with
  | some e => cases e <;> simp
  | none =>
      simp only [fetchEntry]
      split <;> simp

theorem write_cfg {s s' : State} {x ins} (h : write s x ins = some s') : s'.cfg = s.cfg := by
  unfold write at h
  cases ho : s.openB with
  | none => simp [ho] at h
  | some b => simp [ho] at h; subst h; rfl

theorem fire_cfg {s s' : State} {e out} (h : fire s e = some (s', out)) : s'.cfg = s.cfg := by
  cases e <;> simp only [fire] at h
  case begin => split at h <;> simp at h; obtain ⟨rfl, _⟩ := h; rfl
  case ins x => simp at h; obtain ⟨a, ha, rfl, _⟩ := h; exact write_cfg ha
  case rem x => simp at h; obtain ⟨a, ha, rfl, _⟩ := h; exact write_cfg ha
  case get => simp at h; obtain ⟨rfl, _⟩ := h; exact (get_fst_fields s).1
  case submit => split at h <;> simp at h; obtain ⟨rfl, _⟩ := h; rfl
  case commit => split at h <;> simp at h; obtain ⟨rfl, _⟩ := h; rfl
  case notify => split at h <;> simp at h; obtain ⟨rfl, _⟩ := h; rfl
  case evictEntry => split at h <;> simp at h; obtain ⟨rfl, _⟩ := h; rfl
  case evictLog => (repeat' split at h) <;> simp at h; obtain ⟨rfl, _⟩ := h; rfl

/-- every step preserves the invariant; what a `get` returns is the true set -/
theorem inv_step {s s' : State} {e : Ev} {out} (I : Inv s) (hc : s.cfg = repaired)
    (h : fire s e = some (s', out)) :
    Inv s' ∧ (∀ r, out = some r → (∀ x, x ∈ r ↔ x ∈ s.truth) ∧ s'.truth = s.truth) := by
  cases e with
  | begin => refine ⟨step_begin I h, ?_⟩; intro r hr; simp only [fire] at h; split at h <;> simp at h; simp [← h.2] at hr
  | ins x =>
      simp only [fire] at h; simp at h; obtain ⟨a, ha, rfl, rfl⟩ := h
      exact ⟨step_write I ha, by intro r hr; simp at hr⟩
  | rem x =>
      simp only [fire] at h; simp at h; obtain ⟨a, ha, rfl, rfl⟩ := h
      exact ⟨step_write I ha, by intro r hr; simp at hr⟩
  | get =>
      simp only [fire] at h; simp at h; obtain ⟨rfl, rfl⟩ := h
      obtain ⟨h1, h2⟩ := get_correct I hc
      exact ⟨h2, by intro r hr; simp at hr; subst hr; exact ⟨h1, (get_fst_fields s).2⟩⟩
  | submit => refine ⟨step_submit I h, ?_⟩; intro r hr; simp only [fire] at h; split at h <;> simp at h; simp [← h.2] at hr
  | commit => refine ⟨step_commit I h, ?_⟩; intro r hr; simp only [fire] at h; split at h <;> simp at h; simp [← h.2] at hr
  | notify => refine ⟨step_notify I h, ?_⟩; intro r hr; simp only [fire] at h; split at h <;> simp at h; simp [← h.2] at hr
  | evictEntry => refine ⟨step_evictEntry I h, ?_⟩; intro r hr; simp only [fire] at h; split at h <;> simp at h; simp [← h.2] at hr
  | evictLog => refine ⟨step_evictLog I h, ?_⟩; intro r hr; simp only [fire] at h; (repeat' split at h) <;> simp at h; simp [← h.2] at hr

theorem run_outputs {s : State} (I : Inv s) (hc : s.cfg = repaired) :
    ∀ {sched : List Ev} {s' outs}, run s sched = some (s', outs) → ∀ p ∈ outs, ∀ x, x ∈ p.1 ↔ x ∈ p.2 := by
  intro sched
  induction sched generalizing s with
  | nil => intro s' outs h; simp [run] at h; obtain ⟨_, rfl⟩ := h; simp
  | cons e es ih =>
      intro s' outs h
      simp only [run] at h
      cases hf : fire s e with
      | none => simp [hf] at h
      | some r =>
          obtain ⟨s1, out⟩ := r
          simp only [hf] at h
          obtain ⟨I1, hout⟩ := inv_step I hc hf
          have hc1 : s1.cfg = repaired := by rw [fire_cfg hf]; exact hc
          cases hr : run s1 es with
          | none => simp [hr] at h
          | some r2 =>
              obtain ⟨s2, outs2⟩ := r2
              simp only [hr] at h
              have ih' := ih I1 hc1 hr
              cases out with
              | none => simp at h; obtain ⟨_, rfl⟩ := h; exact ih'
              | some r =>
                  simp at h; obtain ⟨_, rfl⟩ := h
                  intro p hp
                  simp at hp
                  rcases hp with rfl | hp
                  · obtain ⟨h1, h2⟩ := hout r rfl
                    intro x; simp [h1 x, h2]
                  · exact ih' p hp

theorem inv_reach {thr : Nat} {db0 : List Nat} {s : State} (h : Reach (init repaired thr db0) s) :
    Inv s ∧ s.cfg = repaired := by
  induction h with
  | init => exact ⟨inv_init _ _ _, rfl⟩
  | step _ hf ih => exact ⟨(inv_step ih.1 ih.2 hf).1, by rw [fire_cfg hf]; exact ih.2⟩




theorem swapAt_perm (v : List LogOp) (i j : Nat) : (swapAt v i j).Perm v := by
  unfold swapAt
  cases hi : v[i]? with
  | none => simp
  | some a =>
    cases hj : v[j]? with
    | none => simp
    | some b =>
      simp only
      have hil : i < v.length := by
        rcases Nat.lt_or_ge i v.length with h | h
        · exact h
        · rw [List.getElem?_eq_none h] at hi; cases hi
      have hjl : j < v.length := by
        rcases Nat.lt_or_ge j v.length with h | h
        · exact h
        · rw [List.getElem?_eq_none h] at hj; cases hj
      have hia : v[i] = a := by rw [List.getElem?_eq_getElem hil] at hi; exact Option.some.inj hi
      have hjb : v[j] = b := by rw [List.getElem?_eq_getElem hjl] at hj; exact Option.some.inj hj
      by_cases hij : i = j
      · subst hij
        have : a = b := by rw [← hia, ← hjb]
        subst this
        rw [List.perm_iff_count]
        intro c
        have hjl' : i < (v.set i a).length := by simpa using hil
        rw [List.count_set hjl', List.count_set hil]
        simp only [List.getElem_set_self, hia]
        have : (a == c) = true → 1 ≤ List.count c v := by
          intro h; have : a = c := by simpa using h
          subst this; rw [← hia]; exact List.count_pos_iff.mpr (List.getElem_mem hil)
        split <;> simp_all <;> omega
      · rw [List.perm_iff_count]
        intro c
        have hjl' : j < (v.set i b).length := by simpa using hjl
        rw [List.count_set hjl', List.count_set hil]
        rw [List.getElem_set_ne hij hjl', hia, hjb]
        have ha : (a == c) = true → 1 ≤ List.count c v := by
          intro h; have : a = c := by simpa using h
          subst this; rw [← hia]; exact List.count_pos_iff.mpr (List.getElem_mem hil)
        by_cases h1 : (a == c) = true <;> by_cases h2 : (b == c) = true <;> simp [h1, h2] <;> (try have := ha h1) <;> omega

theorem siftUp_perm (v : List LogOp) (pos fuel : Nat) : (siftUp v pos fuel).Perm v := by
  induction fuel generalizing v pos with
  | zero => simp [siftUp]
  | succ n ih =>
      simp only [siftUp]
      split
      · exact List.Perm.refl _
      · split
        · split
          · exact List.Perm.refl _
          · exact (ih _ _).trans (swapAt_perm _ _ _)
        · exact List.Perm.refl _

theorem heapPush_perm (v : List LogOp) (op : LogOp) : (heapPush v op).Perm (v ++ [op]) :=
  siftUp_perm _ _ _

theorem foldl_heapPush_perm (log acc : List LogOp) : (log.foldl heapPush acc).Perm (acc ++ log) := by
  induction log generalizing acc with
  | nil => simp
  | cons op rest ih =>
      simp only [List.foldl_cons]
      refine (ih _).trans ?_
      have := (heapPush_perm acc op).append_right rest
      simpa using this

theorem heapOrder_perm (log : List LogOp) : (heapOrder log).Perm log := by
  have := foldl_heapPush_perm log []
  simpa [heapOrder] using this




theorem cancel_fold_nodup (l : List LogOp) (sn : Snapshot)
    (hnd : (l.map (·.x)).Nodup)
    (hfresh : ∀ op ∈ l, op.x ∉ sn.added ∧ op.x ∉ sn.removed) (x : Nat) :
    (x ∈ (l.foldl cancelStep sn).added ↔ x ∈ sn.added ∨ ∃ op ∈ l, op.x = x ∧ op.ins = true) ∧
    (x ∈ (l.foldl cancelStep sn).removed ↔ x ∈ sn.removed ∨ ∃ op ∈ l, op.x = x ∧ op.ins = false) := by
  induction l generalizing sn with
  | nil => simp
  | cons op rest ih =>
      simp only [List.map_cons, List.nodup_cons] at hnd
      obtain ⟨hnot, hnd'⟩ := hnd
      have hop := hfresh op (by simp)
      have hne : ∀ op' ∈ rest, op'.x ≠ op.x := by
        intro op' h' heq
        exact hnot (List.mem_map.mpr ⟨op', h', heq⟩)
      simp only [List.foldl_cons]
      cases hi : op.ins with
      | true =>
          have hstep : cancelStep sn op = { sn with added := sinsert op.x sn.added } := by
            simp [cancelStep, hi, hop.2]
          rw [hstep]
          have := ih { sn with added := sinsert op.x sn.added } hnd' (by
            intro op' h'
            have := hfresh op' (by simp [h'])
            simp [mem_sinsert, hne op' h', this.1, this.2])
          rw [this.1, this.2]
          simp only [mem_sinsert, List.mem_cons]
          constructor <;> constructor <;> intro h <;> grind
      | false =>
          have hstep : cancelStep sn op = { sn with removed := sinsert op.x sn.removed } := by
            simp [cancelStep, hi, hop.1]
          rw [hstep]
          have := ih { sn with removed := sinsert op.x sn.removed } hnd' (by
            intro op' h'
            have := hfresh op' (by simp [h'])
            simp [mem_sinsert, hne op' h', this.1, this.2])
          rw [this.1, this.2]
          simp only [mem_sinsert, List.mem_cons]
          constructor <;> constructor <;> intro h <;> grind

theorem lastOf_pairs_nodup (log : List LogOp) (hnd : (log.map (·.x)).Nodup) (x : Nat) (b : Bool) :
    lastOf (pairs log) x = some b ↔ ∃ op ∈ log, op.x = x ∧ op.ins = b := by
  induction log with
  | nil => simp [pairs, lastOf]
  | cons op rest ih =>
      simp only [List.map_cons, List.nodup_cons] at hnd
      obtain ⟨hnot, hnd'⟩ := hnd
      have ih' := ih hnd'
      simp only [pairs, List.map_cons, lastOf]
      simp only [pairs] at ih'
      cases hl : lastOf (List.map (fun op => (op.x, op.ins)) rest) x with
      | some v =>
          have hex : ∃ op' ∈ rest, op'.x = x := by
            have : lastOf (List.map (fun op => (op.x, op.ins)) rest) x ≠ none := by rw [hl]; simp
            obtain ⟨p, hp, hx⟩ := lastOf_ne_none_iff.mp this
            obtain ⟨op', h', rfl⟩ := List.mem_map.mp hp
            exact ⟨op', h', hx⟩
          obtain ⟨op', h', hx'⟩ := hex
          have hne : op.x ≠ x := by
            intro heq; exact hnot (List.mem_map.mpr ⟨op', h', by rw [hx', heq]⟩)
          simp only []
          rw [← hl, ih']
          constructor
          · rintro ⟨o, ho, h1, h2⟩; exact ⟨o, List.mem_cons_of_mem _ ho, h1, h2⟩
          · rintro ⟨o, ho, h1, h2⟩
            rcases List.mem_cons.mp ho with rfl | ho'
            · exact absurd h1 hne
            · exact ⟨o, ho', h1, h2⟩
      | none =>
          have hno : ¬ ∃ op' ∈ rest, op'.x = x := by
            rintro ⟨op', h', hx'⟩
            have : lastOf (List.map (fun op => (op.x, op.ins)) rest) x ≠ none :=
              lastOf_ne_none_iff.mpr ⟨(op'.x, op'.ins), List.mem_map.mpr ⟨op', h', rfl⟩, hx'⟩
            exact this hl
          simp only []
          by_cases hx : op.x = x
          · simp only [hx, if_true]
            constructor
            · intro h; exact ⟨op, by simp, hx, by simpa using h⟩
            · rintro ⟨o, ho, h1, h2⟩
              rcases List.mem_cons.mp ho with rfl | ho'
              · simp [h2]
              · exact absurd ⟨o, ho', h1⟩ hno
          · simp only [hx, if_false]
            constructor
            · intro h; cases h
            · rintro ⟨o, ho, h1, h2⟩
              rcases List.mem_cons.mp ho with rfl | ho'
              · exact absurd h1 hx
              · exact absurd ⟨o, ho', h1⟩ hno

/-- the pre-fix `get_snapshot` on a log with at most one operation per element = the current one -/
theorem snapshot_asis_nodup {s : State} (hc : s.cfg.fixSnap = false)
    (hnd : ((logOf s).map (·.x)).Nodup) (x : Nat) :
    (x ∈ (stagingSnapshot s).added ↔ lastOf (pairs (logOf s)) x = some true) ∧
    (x ∈ (stagingSnapshot s).removed ↔ lastOf (pairs (logOf s)) x = some false) := by
  unfold stagingSnapshot
  cases hs : s.staging with
  | none => simp [logOf, hs, pairs, lastOf]
  | some p =>
      obtain ⟨log, d⟩ := p
      have hlog : logOf s = log := by simp [logOf, hs]
      rw [hlog] at hnd ⊢
      simp only [snapshotOf, hc]
      have hperm := heapOrder_perm log
      have hnd' : ((heapOrder log).map (·.x)).Nodup := (hperm.map _).nodup_iff.mpr hnd
      have := cancel_fold_nodup (heapOrder log) ⟨[], []⟩ hnd' (by simp) x
      simp only [Bool.false_eq_true, if_false]
      rw [this.1, this.2, lastOf_pairs_nodup log hnd, lastOf_pairs_nodup log hnd]
      simp only [List.not_mem_nil, false_or]
      constructor
      · constructor
        · rintro ⟨o, ho, h⟩; exact ⟨o, hperm.mem_iff.mp ho, h⟩
        · rintro ⟨o, ho, h⟩; exact ⟨o, hperm.mem_iff.mpr ho, h⟩
      · constructor
        · rintro ⟨o, ho, h⟩; exact ⟨o, hperm.mem_iff.mp ho, h⟩
        · rintro ⟨o, ho, h⟩; exact ⟨o, hperm.mem_iff.mpr ho, h⟩




theorem dropWhile_spec (p : Nat → Bool) (rest : List Nat) :
    (rest.dropWhile p = [] ∧ rest.filter (fun x => !p x) = []) ∨
    (∃ r rest', rest.dropWhile p = r :: rest' ∧ rest.filter (fun x => !p x) = r :: rest'.filter (fun x => !p x) ∧
      rest'.length < rest.length) := by
  induction rest with
  | nil => simp
  | cons a as ih =>
      by_cases hp : p a = true
      · simp only [List.dropWhile_cons, hp, if_true, List.filter_cons, Bool.not_true, Bool.false_eq_true, if_false]
        rcases ih with h | ⟨r, rest', h1, h2, h3⟩
        · exact Or.inl h
        · exact Or.inr ⟨r, rest', h1, h2, by simp; omega⟩
      · simp only [List.dropWhile_cons, hp, if_false, List.filter_cons]
        right
        exact ⟨a, as, rfl, by simp [hp], by simp⟩

theorem spillAsIs_nohalf (removed : List Nat) (fuel : Nat) :
    ∀ (rest added : List Nat), rest.length + added.length < fuel →
      spillIterAsIs removed [] rest added fuel = rest.filter (fun x => x ∉ removed) ++ added := by
  induction fuel with
  | zero => intro rest added h; omega
  | succ n ih =>
      intro rest added h
      simp only [spillIterAsIs]
      have hfil : rest.filter (fun x => x ∉ removed) = rest.filter (fun x => !(decide (x ∈ removed))) := by
        congr 1; funext x; simp
      rw [hfil]
      rcases dropWhile_spec (fun x => decide (x ∈ removed)) rest with ⟨h1, h2⟩ | ⟨r, rest', h1, h2, h3⟩
      · rw [h1, h2]
        cases added with
        | nil => simp
        | cons a added' =>
            simp only []
            have := ih [] added' (by simp at h ⊢; omega)
            rw [this]; simp
      · rw [h1, h2]
        simp only []
        have := ih rest' added (by omega)
        rw [this]
        have hfil' : rest'.filter (fun x => x ∉ removed) = rest'.filter (fun x => !(decide (x ∈ removed))) := by
          congr 1; funext x; simp
        rw [hfil']; simp

theorem spillAsIs_safe (removed : List Nat) (fuel : Nat) :
    ∀ (half rest added : List Nat), (∀ h ∈ half, h ∉ removed) → half.length + rest.length + added.length < fuel →
      spillIterAsIs removed half rest added fuel = half ++ rest.filter (fun x => x ∉ removed) ++ added := by
  induction fuel with
  | zero => intro half rest added _ h; omega
  | succ n ih =>
      intro half rest added hs h
      cases half with
      | nil => simpa using spillAsIs_nohalf removed (n + 1) rest added (by simpa using h)
      | cons a half' =>
          simp only [spillIterAsIs]
          have ha : a ∉ removed := hs a (by simp)
          simp only [ha, not_false_eq_true, if_true]
          rw [ih half' rest added (fun x hx => hs x (by simp [hx])) (by simp at h; omega)]
          simp




theorem getSafe_nodup {s : State} (h : getSafe s = true) : ((logOf s).map (·.x)).Nodup := by
  unfold getSafe at h
  cases hs : s.staging with
  | none => simp [logOf, hs]
  | some p =>
      obtain ⟨log, d⟩ := p
      simp [hs] at h
      simpa [logOf, hs] using h.1

theorem getSafe_spill {s : State} (h : getSafe s = true) (he : s.entry = none) (hbig : s.db.length > s.thr) :
    ∀ op ∈ logOf s, op.ins = true ∨ op.x ∉ s.db.take (s.thr + 1) := by
  unfold getSafe at h
  cases hs : s.staging with
  | none => simp [logOf, hs]
  | some p =>
      obtain ⟨log, d⟩ := p
      simp [hs, he] at h
      intro op hop
      have hop' : op ∈ log := by simpa [logOf, hs] using hop
      rcases h.2 with h2 | h2
      · omega
      · exact h2 op hop'

/-- the code before the fixes of F10/F17, inside the trigger-free region `getSafe` -/
theorem get_correct_asis {s : State} (I : Inv s) (hc : s.cfg = asIs) (hsafe : getSafe s = true) :
    (∀ x, x ∈ (get s).2 ↔ x ∈ s.truth) ∧ Inv (get s).1 := by
  have hsnap : s.cfg.fixSnap = false := by rw [hc]; rfl
  have hspill : s.cfg.fixSpill = false := by rw [hc]; rfl
  have hnd := getSafe_nodup hsafe
  have hmem := fun x => snapshot_asis_nodup hsnap hnd x
  have overlay : ∀ x, ((x ∈ s.db ∧ x ∉ (stagingSnapshot s).removed) ∨ x ∈ (stagingSnapshot s).added) ↔
      resolve (lastOf (pairs (logOf s)) x) (x ∈ s.db) := by
    intro x
    obtain ⟨ha, hr⟩ := hmem x
    rw [ha, hr]
    cases lastOf (pairs (logOf s)) x with
    | none => simp [resolve]
    | some b => cases b <;> simp [resolve]
  have key : ∀ x, ((x ∈ s.db ∧ x ∉ (stagingSnapshot s).removed) ∨ x ∈ (stagingSnapshot s).added) ↔ x ∈ s.truth :=
    fun x => (overlay x).trans (overlay_correct I x)
  have mkInv : ∀ e : SEntry, (∀ S, e = .inMem S → ∀ x, x ∈ S ↔ x ∈ s.truth) → Inv { s with entry := some e } := by
    intro e he
    obtain ⟨h1, h2, h3, h4, h5, h6, h7, h8, h9, h10, h11⟩ := I
    exact ⟨h1, h2, h3, h4, h5, h6, h7, fun S hS => he S (by simpa using hS), h9, h10, h11⟩
  unfold get
  cases he : s.entry with
  | some e =>
      cases e with
      | inMem S => simp; exact ⟨I.k5 S he, I⟩
      | tooLarge =>
          simp
          refine ⟨fun x => ?_, I⟩
          rw [← key x]; simp [streamIter]
  | none =>
      simp only [fetchEntry]
      by_cases hbig : s.db.length > s.thr
      · simp only [hbig, if_true]
        refine ⟨fun x => ?_, mkInv .tooLarge (by intro S h; cases h)⟩
        rw [← key x]
        simp only [spillIter, hspill]
        have hhalf : ∀ h ∈ s.db.take (s.thr + 1), h ∉ (stagingSnapshot s).removed := by
          intro h hh hr
          rw [(hmem h).2, lastOf_pairs_nodup _ hnd] at hr
          obtain ⟨op, hop, hx, hi⟩ := hr
          rcases getSafe_spill hsafe he hbig op hop with h1 | h1
          · rw [hi] at h1; cases h1
          · rw [hx] at h1; exact h1 hh
        simp only [Bool.false_eq_true, if_false]
        rw [spillAsIs_safe _ _ _ _ _ hhalf (by omega)]
        have hdb : x ∈ s.db ↔ x ∈ s.db.take (s.thr + 1) ∨ x ∈ s.db.drop (s.thr + 1) := by
          rw [← List.mem_append, List.take_append_drop]
        have hx := hhalf x
        simp [hdb]; grind
      · simp only [hbig, if_false]
        have hd : ∀ x, x ∈ (stagingSnapshot s).added → x ∉ (stagingSnapshot s).removed := by
          intro x ha hr
          rw [(hmem x).1] at ha
          rw [(hmem x).2, ha] at hr
          cases hr
        have hset : ∀ x, x ∈ (stagingSnapshot s).removed.foldl (fun acc y => sremove y acc)
              ((stagingSnapshot s).added.foldl (fun acc y => sinsert y acc) s.db) ↔ x ∈ s.truth := by
          intro x
          rw [← key x, mem_foldl_sremove, mem_foldl_sinsert]
          have := hd x
          constructor
          · rintro ⟨h1, h2 | h2⟩
            · exact Or.inr h2
            · exact Or.inl ⟨h2, h1⟩
          · rintro (⟨h1, h2⟩ | h1)
            · exact ⟨h2, Or.inr h1⟩
            · exact ⟨this h1, Or.inl h1⟩
        exact ⟨hset, mkInv _ (by intro S h; cases h; exact hset)⟩

/-- reachability for the pre-fix code where every `get` happens inside the trigger-free region -/
inductive ReachSafe (s0 : State) : State → Prop where
  | init : ReachSafe s0 s0
  | step {s s' : State} {e : Ev} {out : Option (List Nat)} :
      ReachSafe s0 s → (e = .get → getSafe s = true) → fire s e = some (s', out) → ReachSafe s0 s'

theorem inv_step_asis {s s' : State} {e : Ev} {out} (I : Inv s) (hc : s.cfg = asIs)
    (hsafe : e = .get → getSafe s = true) (h : fire s e = some (s', out)) :
    Inv s' ∧ (∀ r, out = some r → (∀ x, x ∈ r ↔ x ∈ s.truth) ∧ s'.truth = s.truth) := by
  cases e with
  | begin => refine ⟨step_begin I h, ?_⟩; intro r hr; simp only [fire] at h; split at h <;> simp at h; simp [← h.2] at hr
  | ins x =>
      simp only [fire] at h; simp at h; obtain ⟨a, ha, rfl, rfl⟩ := h
      exact ⟨step_write I ha, by intro r hr; simp at hr⟩
  | rem x =>
      simp only [fire] at h; simp at h; obtain ⟨a, ha, rfl, rfl⟩ := h
      exact ⟨step_write I ha, by intro r hr; simp at hr⟩
  | get =>
      simp only [fire] at h; simp at h; obtain ⟨rfl, rfl⟩ := h
      obtain ⟨h1, h2⟩ := get_correct_asis I hc (hsafe rfl)
      exact ⟨h2, by intro r hr; simp at hr; subst hr; exact ⟨h1, (get_fst_fields s).2⟩⟩
  | submit => refine ⟨step_submit I h, ?_⟩; intro r hr; simp only [fire] at h; split at h <;> simp at h; simp [← h.2] at hr
  | commit => refine ⟨step_commit I h, ?_⟩; intro r hr; simp only [fire] at h; split at h <;> simp at h; simp [← h.2] at hr
  | notify => refine ⟨step_notify I h, ?_⟩; intro r hr; simp only [fire] at h; split at h <;> simp at h; simp [← h.2] at hr
  | evictEntry => refine ⟨step_evictEntry I h, ?_⟩; intro r hr; simp only [fire] at h; split at h <;> simp at h; simp [← h.2] at hr
  | evictLog => refine ⟨step_evictLog I h, ?_⟩; intro r hr; simp only [fire] at h; (repeat' split at h) <;> simp at h; simp [← h.2] at hr

theorem inv_reachSafe {thr : Nat} {db0 : List Nat} {s : State} (h : ReachSafe (init asIs thr db0) s) :
    Inv s ∧ s.cfg = asIs := by
  induction h with
  | init => exact ⟨inv_init _ _ _, rfl⟩
  | step _ hs hf ih => exact ⟨(inv_step_asis ih.1 ih.2 hs hf).1, by rw [fire_cfg hf]; exact ih.2⟩




/-- a run of background events (commit / notify / evictions) -/
inductive BgSteps : State → State → Prop where
  | refl (s : State) : BgSteps s s
  | step {s s1 s2 : State} {e : Ev} {out : Option (List Nat)} :
      isBackground e = true → fire s e = some (s1, out) → BgSteps s1 s2 → BgSteps s s2

theorem bg_fields {s s' : State} {e out} (hb : isBackground e = true) (h : fire s e = some (s', out)) :
    s'.truth = s.truth ∧ s'.thr = s.thr ∧ (s.entry = none → s'.entry = none) := by
  cases e <;> simp [isBackground] at hb <;> simp only [fire] at h
  case commit => split at h <;> simp at h; obtain ⟨rfl, _⟩ := h; exact ⟨rfl, rfl, id⟩
  case notify => split at h <;> simp at h; obtain ⟨rfl, _⟩ := h; exact ⟨rfl, rfl, id⟩
  case evictEntry => split at h <;> simp at h; obtain ⟨rfl, _⟩ := h; exact ⟨rfl, rfl, fun _ => rfl⟩
  case evictLog => (repeat' split at h) <;> simp at h; obtain ⟨rfl, _⟩ := h; exact ⟨rfl, rfl, id⟩

theorem bgSteps_inv {s s' : State} (h : BgSteps s s') (I : Inv s) (hc : s.cfg = repaired) :
    Inv s' ∧ s'.cfg = repaired ∧ s'.truth = s.truth ∧ s'.thr = s.thr ∧ (s.entry = none → s'.entry = none) := by
  induction h with
  | refl s => exact ⟨I, hc, rfl, rfl, id⟩
  | step hb hf _ ih =>
      have I1 := (inv_step I hc hf).1
      have hc1 := (fire_cfg hf).trans hc
      obtain ⟨a, b, c⟩ := bg_fields hb hf
      obtain ⟨i1, i2, i3, i4, i5⟩ := ih I1 hc1
      exact ⟨i1, i2, i3.trans a, i4.trans b, fun h => i5 (c h)⟩

theorem getInstall_eq_get {s0 s1 : State} (he0 : s0.entry = none) (he1 : s1.entry = none)
    (hthr : s1.thr = s0.thr) (hcfg : s1.cfg = s0.cfg) :
    (getInstall s1 (stagingSnapshot s0) s0.db).2 = (get s0).2 ∧
    (getInstall s1 (stagingSnapshot s0) s0.db).1 = { s1 with entry := (get s0).1.entry } := by
  unfold getInstall get
  simp only [he0, he1, hthr, hcfg, fetchFrom, fetchEntry]
  split <;> simp



/-- snapshot BEFORE the store scan: whatever background commits / flushes / evictions fall between the
scan and the install, the set that is returned and cached is the true set -/
theorem get_across_background {s0 s1 : State} (I : Inv s0) (hc : s0.cfg = repaired) (he0 : s0.entry = none)
    (hb : BgSteps s0 s1) :
    (∀ x, x ∈ (getInstall s1 (stagingSnapshot s0) s0.db).2 ↔ x ∈ s1.truth) ∧
    Inv (getInstall s1 (stagingSnapshot s0) s0.db).1 := by
  obtain ⟨I1, hc1, htr, hthr, hent⟩ := bgSteps_inv hb I hc
  obtain ⟨h1, h2⟩ := getInstall_eq_get he0 (hent he0) hthr (hc1.trans hc.symm)
  obtain ⟨g1, g2⟩ := get_correct I hc
  have gt := (get_fst_fields s0).2
  refine ⟨fun x => by rw [h1, htr]; exact g1 x, ?_⟩
  rw [h2]
  obtain ⟨a1, a2, a3, a4, a5, a6, a7, a8, a9, a10, a11⟩ := I1
  refine ⟨a1, a2, a3, a4, a5, a6, a7, ?_, a9, a10, a11⟩
  intro S hS x
  have := g2.k5 S hS x
  rw [this, gt]
  show x ∈ s0.truth ↔ x ∈ s1.truth
  rw [htr]


end QbiceVerif.SetCache
